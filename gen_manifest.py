#!/usr/bin/env python3
"""Regenerates MANIFEST.json from checkcfg.py (claimed properties) — keeps it schema-valid."""
import json, os, sys
ROOT = os.path.dirname(os.path.abspath(__file__))
sys.path.insert(0, ROOT)
from checkcfg import PROPS
allp = [json.loads(l)["id"] for l in open(os.path.join(ROOT, "properties.jsonl"))]
NOT_YET = {}
try:
    from checkcfg import NOT_APPLICABLE
except ImportError:
    NOT_APPLICABLE = {}
checks = []
for pid in allp:
    if pid not in PROPS:
        continue
    c = PROPS[pid]
    checks.append({
        "property_id": pid,
        "quick_cmd": f"./check {pid} --tier quick",
        "thorough_cmd": f"./check {pid} --tier thorough",
        "evidence_file": f"/verif/evidence/{pid}.json",
        "replay_cmd_template": f"./check {pid} --replay {{path}}",
        "engine": "lean4-model+go-differential",
        "level_claimed": {"category": c["level"], "text": c.get("level_text", c.get("explanation", "")), "design_ref": c.get("design_ref", f"DESIGN.md §5 {pid}")},
        "level_note": c.get("level_note", "Trusted: Lean 4.33 kernel + propext/Classical.choice/Quot.sound; the hand-written model, tied to /repo only by the differential streams; Go harness canonicaliser and Lean driver; SDK BaseApp rollback; crypto libraries abstract (see DESIGN.md §3)."),
        "technique": c.get("technique", "Lean 4 theorems over a hand-written model + differential correspondence against the real Go code"),
    })
man = {
    "version": 1,
    "setup_cmd": "./setup.sh",
    "hooks": {
        "guard": "verif",
        "enable": "go build/test -tags verif (harness module /verif/harness with replace github.com/bianjieai/tibc-go => /repo)",
        "baseline_off_cmd": "for m in $(cat /w/out/gomods.txt); do MF=$(cd /repo/$m && . /w/out/goenv.sh && gomodflag); (cd /repo/$m && go test $MF -json -vet=off -count=1 -timeout 25m ./...); done",
        "source_commits": json.load(open(os.path.join(ROOT, "hooks.json"))) if os.path.exists(os.path.join(ROOT, "hooks.json")) else [],
        "add_only": True,
    },
    "engines": [{"name": "lean4-model+go-differential", "path": "/verif/lean , /verif/harness , /verif/check",
                 "serves_properties": [c["property_id"] for c in checks],
                 "kind_free_text": "machine-checked proof in Lean 4 over a hand-written executable model; correspondence check = line-protocol differential testing of the model's driver against the real Go code driven in-process"}],
    "checks": checks,
    "notes": "See DESIGN.md. ./check <id> --tier quick|thorough is the single entry point.",
    "not_applicable": [{"property_id": p, "reason": NOT_APPLICABLE.get(p, "check not built yet in this round (planned, see DESIGN.md §5); not claimed")} for p in allp if p not in PROPS],
}
json.dump(man, open(os.path.join(ROOT, "MANIFEST.json"), "w"), indent=1)
print("claimed:", [c["property_id"] for c in checks])
