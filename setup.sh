#!/bin/sh
# Build the framework from files on disk only (offline). Run once after a fresh restore.
set -e
cd "$(dirname "$0")"
export GOFLAGS=-mod=mod GOPROXY=off GOSUMDB=off GOTOOLCHAIN=local
(cd lean && lake build Tibc driver)
cp /repo/go.sum harness/go.sum
(cd harness && go test -tags verif -count=1 -run 'XXX_none' . >/dev/null)
if [ -d extract ]; then (cd extract && go build -o /dev/null . ) ; fi
echo setup done
