#!/bin/sh
# usage: seedtest.sh <seed-dir> <prop> [<prop>...]   applies seeded/<dir>/patch.diff to /repo, runs checks, reverts
d=/verif/seeded/$1; shift
git -C /repo apply "$d/patch.diff" || exit 2
for p in "$@"; do
  echo "== $p"; VERIF_SEED=${VERIF_SEED:-1} /verif/check $p 2>&1 | tail -6
done
git -C /repo checkout -- .
git -C /repo status --short
