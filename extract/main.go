// Command extract regenerates lean/Tibc/Generated/Facts.lean from the current sources of /repo:
// the protocol constants and store-key prefixes the hand-written Lean model was written against.
// It parses the Go files (go/parser) and evaluates the constant initialisers it needs; the
// go-ethereum parameters are read the same way from the module the repository's go.mod pins.
// Lean modules under lean/Tibc/Expect state what the model assumes about these facts.
package main

import (
	"bytes"
	"flag"
	"fmt"
	"go/ast"
	"go/parser"
	"go/printer"
	"go/token"
	"os"
	"os/exec"
	"path/filepath"
	"sort"
	"strconv"
	"strings"
)

type val struct {
	isStr bool
	s     string
	n     uint64
}

// eval evaluates the few initialiser shapes that occur: literals, products, time.Second (= 1, the
// unit the model counts in), conversions and big.NewInt / []byte wrappers, references to earlier
// constants of the same file
func eval(e ast.Expr, env map[string]val) (val, bool) {
	switch x := e.(type) {
	case *ast.BasicLit:
		switch x.Kind {
		case token.INT:
			n, err := strconv.ParseUint(strings.ReplaceAll(x.Value, "_", ""), 0, 64)
			return val{n: n}, err == nil
		case token.STRING:
			s, err := strconv.Unquote(x.Value)
			return val{isStr: true, s: s}, err == nil
		}
	case *ast.ParenExpr:
		return eval(x.X, env)
	case *ast.BinaryExpr:
		a, ok1 := eval(x.X, env)
		b, ok2 := eval(x.Y, env)
		if ok1 && ok2 && !a.isStr && !b.isStr {
			switch x.Op {
			case token.MUL:
				return val{n: a.n * b.n}, true
			case token.ADD:
				return val{n: a.n + b.n}, true
			case token.SHL:
				return val{n: a.n << b.n}, true
			}
		}
	case *ast.SelectorExpr:
		if id, ok := x.X.(*ast.Ident); ok && id.Name == "time" && x.Sel.Name == "Second" {
			return val{n: 1}, true
		}
	case *ast.Ident:
		v, ok := env[x.Name]
		return v, ok
	case *ast.CallExpr:
		if len(x.Args) == 1 {
			return eval(x.Args[0], env)
		}
	case *ast.CompositeLit:
	}
	return val{}, false
}

func constsOf(path string) (map[string]val, error) {
	fset := token.NewFileSet()
	f, err := parser.ParseFile(fset, path, nil, 0)
	if err != nil {
		return nil, err
	}
	env := map[string]val{}
	for _, d := range f.Decls {
		gd, ok := d.(*ast.GenDecl)
		if !ok || (gd.Tok != token.CONST && gd.Tok != token.VAR) {
			continue
		}
		for _, sp := range gd.Specs {
			vs := sp.(*ast.ValueSpec)
			for i, name := range vs.Names {
				if i < len(vs.Values) {
					if v, ok := eval(vs.Values[i], env); ok {
						env[name.Name] = v
					}
				}
			}
		}
	}
	return env, nil
}

// returnsOf maps every function of a file whose body is a single return statement to the source
// text of the returned expression (the *shape* of the store keys is tied to the model this way).
func returnsOf(path string) (map[string]string, error) {
	fset := token.NewFileSet()
	f, err := parser.ParseFile(fset, path, nil, 0)
	if err != nil {
		return nil, err
	}
	out := map[string]string{}
	for _, d := range f.Decls {
		fd, ok := d.(*ast.FuncDecl)
		if !ok || fd.Body == nil || len(fd.Body.List) != 1 || fd.Recv != nil {
			continue
		}
		rs, ok := fd.Body.List[0].(*ast.ReturnStmt)
		if !ok || len(rs.Results) != 1 {
			continue
		}
		var b bytes.Buffer
		if err := printer.Fprint(&b, fset, rs.Results[0]); err != nil {
			return nil, err
		}
		out[fd.Name.Name] = strings.Join(strings.Fields(b.String()), " ")
	}
	return out, nil
}

// nondetSites lists, per function of the state-machine packages, every reference to a source of
// values that differ between nodes or executions: the host clock, random numbers, the process
// environment. (C20: time comes from the block header only.)
func nondetSites(repo string) ([]string, error) {
	var out []string
	root := filepath.Join(repo, "modules", "tibc")
	err := filepath.Walk(root, func(path string, info os.FileInfo, err error) error {
		if err != nil {
			return err
		}
		rel, _ := filepath.Rel(repo, path)
		if info.IsDir() {
			switch info.Name() {
			case "testing", "simulation", "cli", "client", "mock":
				if rel != filepath.Join("modules", "tibc", "core", "02-client") {
					return filepath.SkipDir
				}
			}
			return nil
		}
		if !strings.HasSuffix(path, ".go") || strings.HasSuffix(path, "_test.go") || strings.HasSuffix(path, ".pb.go") || strings.HasSuffix(path, ".pb.gw.go") {
			return nil
		}
		fset := token.NewFileSet()
		f, perr := parser.ParseFile(fset, path, nil, 0)
		if perr != nil {
			return perr
		}
		// names under which the packages of interest are imported in this file
		pk := map[string]string{}
		for _, im := range f.Imports {
			ip, _ := strconv.Unquote(im.Path.Value)
			name := filepath.Base(ip)
			if im.Name != nil {
				name = im.Name.Name
			}
			switch ip {
			case "time", "math/rand", "crypto/rand", "os", "math/rand/v2", "io/ioutil":
				pk[name] = ip
			}
		}
		seen := map[string]bool{}
		for _, d := range f.Decls {
			fd, ok := d.(*ast.FuncDecl)
			if !ok || fd.Body == nil {
				continue
			}
			ast.Inspect(fd.Body, func(n ast.Node) bool {
				se, ok := n.(*ast.SelectorExpr)
				if !ok {
					return true
				}
				id, ok := se.X.(*ast.Ident)
				if !ok {
					return true
				}
				ip, ok := pk[id.Name]
				if !ok {
					return true
				}
				bad := false
				switch ip {
				case "time":
					bad = se.Sel.Name == "Now" || se.Sel.Name == "Since" || se.Sel.Name == "Until"
				case "os":
					bad = se.Sel.Name == "Getenv" || se.Sel.Name == "Hostname" || se.Sel.Name == "Getpid" || se.Sel.Name == "LookupEnv" || se.Sel.Name == "Environ" ||
						se.Sel.Name == "TempDir" || se.Sel.Name == "MkdirTemp" || se.Sel.Name == "CreateTemp" || se.Sel.Name == "UserHomeDir" || se.Sel.Name == "UserCacheDir"
				case "io/ioutil":
					bad = se.Sel.Name == "TempDir" || se.Sel.Name == "TempFile"
				default:
					bad = true
				}
				if bad {
					k := fmt.Sprintf("%s:%s:%s.%s", rel, fd.Name.Name, ip, se.Sel.Name)
					if !seen[k] {
						seen[k] = true
						out = append(out, k)
					}
				}
				return true
			})
		}
		return nil
	})
	sort.Strings(out)
	return out, err
}

func main() {
	repo := flag.String("repo", "/repo", "repository root")
	out := flag.String("out", "", "output Lean file")
	flag.Parse()
	var lines []string
	fail := func(format string, a ...interface{}) {
		fmt.Fprintf(os.Stderr, "extract: "+format+"\n", a...)
		os.Exit(1)
	}
	want := func(env map[string]val, file, name, lean string) {
		v, ok := env[name]
		if !ok {
			fail("%s: constant %s not found (or its initialiser has an unexpected shape)", file, name)
		}
		if v.isStr {
			lines = append(lines, fmt.Sprintf("def %s : String := %q", lean, v.s))
		} else {
			lines = append(lines, fmt.Sprintf("def %s : Nat := %d", lean, v.n))
		}
	}
	load := func(rel string) (map[string]val, string) {
		p := filepath.Join(*repo, rel)
		env, err := constsOf(p)
		if err != nil {
			fail("%v", err)
		}
		return env, rel
	}
	// ETH client
	env, f := load("modules/tibc/light-clients/09-eth/types/header.go")
	want(env, f, "allowedFutureBlockTime", "ethAllowedFutureSecs")
	want(env, f, "DifficultyCalculatorParams", "ethBombDelay")
	env, f = load("modules/tibc/light-clients/09-eth/types/verify_header.go")
	want(env, f, "BaseFeeChangeDenominator", "ethBaseFeeChangeDenominator")
	want(env, f, "ElasticityMultiplier", "ethElasticityMultiplier")
	env, f = load("modules/tibc/light-clients/09-eth/types/keys.go")
	want(env, f, "paramsIndex", "ethSlotIndex")
	// BSC client
	env, f = load("modules/tibc/light-clients/08-bsc/types/bsc.go")
	want(env, f, "extraVanity", "bscExtraVanity")
	want(env, f, "extraSeal", "bscExtraSeal")
	want(env, f, "addressLength", "bscAddressLength")
	want(env, f, "gasLimitBoundDivisor", "bscGasLimitBoundDivisor")
	want(env, f, "diffInTurn", "bscDiffInTurn")
	want(env, f, "diffNoTurn", "bscDiffNoTurn")
	// go-ethereum parameters, from the module the repository pins
	cmd := exec.Command("go", "list", "-m", "-f", "{{.Dir}}", "github.com/ethereum/go-ethereum")
	cmd.Dir = *repo
	cmd.Env = append(os.Environ(), "GOFLAGS=-mod=mod")
	dirBz, err := cmd.Output()
	if err != nil {
		fail("cannot locate go-ethereum: %v", err)
	}
	gdir := strings.TrimSpace(string(dirBz))
	genv, err := constsOf(filepath.Join(gdir, "params", "protocol_params.go"))
	if err != nil {
		fail("%v", err)
	}
	for _, nm := range []string{"GasLimitBoundDivisor", "MinGasLimit", "MaximumExtraDataSize"} {
		want(genv, "go-ethereum/params/protocol_params.go", nm, "geth"+nm)
	}
	want(genv, "go-ethereum/params/protocol_params.go", "MinimumDifficulty", "gethMinimumDifficulty")
	want(genv, "go-ethereum/params/protocol_params.go", "DifficultyBoundDivisor", "gethDifficultyBoundDivisor")
	// store key prefixes
	env, f = load("modules/tibc/core/24-host/keys.go")
	names := []string{"KeyClientStorePrefix", "KeyClientState", "KeyConsensusStatePrefix", "KeySequencePrefix", "KeyNextSeqSendPrefix", "KeyPacketCommitmentPrefix",
		"KeyPacketAckPrefix", "KeyPacketReceiptPrefix", "KeyCleanPacketCommitmentPrefix", "keyMaxAckSeqPrefix"}
	var pk []string
	for _, nm := range names {
		want(env, f, nm, "host"+strings.ToUpper(nm[:1])+nm[1:])
	}
	for _, nm := range []string{"KeyNextSeqSendPrefix", "KeyPacketCommitmentPrefix", "KeyPacketAckPrefix", "KeyPacketReceiptPrefix",
		"KeyCleanPacketCommitmentPrefix", "keyMaxAckSeqPrefix"} {
		pk = append(pk, strconv.Quote(env[nm].s))
	}
	sort.Strings(pk)
	lines = append(lines, "/-- prefixes of the packet sub-store's key families -/", "def hostPacketPrefixes : List String := ["+strings.Join(pk, ", ")+"]")
	// shapes of the packet keys: the returned expression of every one-line key builder
	rets, err := returnsOf(filepath.Join(*repo, "modules/tibc/core/24-host/keys.go"))
	if err != nil {
		fail("%v", err)
	}
	for _, nm := range []string{"packetPath", "NextSequenceSendPath", "PacketCommitmentPath", "PacketCommitmentPrefixPath", "PacketAcknowledgementPath",
		"PacketAcknowledgementPrefixPath", "PacketReceiptPath", "PacketReceiptPrefixPath", "CleanPacketCommitmentPath", "MaxAckSeqPath",
		"PacketCommitmentKey", "PacketAcknowledgementKey", "PacketReceiptKey", "CleanPacketCommitmentKey", "MaxAckSeqKey", "NextSequenceSendKey"} {
		r, ok := rets[nm]
		if !ok {
			fail("24-host/keys.go: function %s not found or not a single return statement", nm)
		}
		lines = append(lines, fmt.Sprintf("def hostShape_%s : String := %q", nm, r))
	}
	// sources of node-dependent values inside the state-machine packages
	sites, err := nondetSites(*repo)
	if err != nil {
		fail("%v", err)
	}
	var qs []string
	for _, x := range sites {
		qs = append(qs, strconv.Quote(x))
	}
	lines = append(lines, "/-- every reference to the host clock, a random source or the process environment in the state-machine packages (file:function:what) -/",
		"def nondetSites : List String := ["+strings.Join(qs, ",\n  ")+"]")
	// transfer applications
	env, f = load("modules/tibc/apps/nft_transfer/keeper/relay.go")
	want(env, f, "CLASSPREFIX", "nftClassPrefix")
	want(env, f, "CLASSPATHPREFIX", "nftClassPathPrefix")
	want(env, f, "DELIMITER", "nftDelimiter")
	env, f = load("modules/tibc/apps/mt_transfer/keeper/relay.go")
	want(env, f, "CLASSPREFIX", "mtClassPrefix")
	want(env, f, "CLASSPATHPREFIX", "mtClassPathPrefix")
	want(env, f, "DELIMITER", "mtDelimiter")
	env, f = load("modules/tibc/apps/nft_transfer/types/keys.go")
	want(env, f, "PortID", "nftPort")
	env, f = load("modules/tibc/apps/mt_transfer/types/keys.go")
	want(env, f, "PortID", "mtPort")

	body := "/- GENERATED on every run by /verif/extract from /repo's current sources. Do not edit. -/\nnamespace Tibc.Facts\n\n" +
		strings.Join(lines, "\n") + "\n\nend Tibc.Facts\n"
	if *out == "" {
		fmt.Print(body)
		return
	}
	if err := os.MkdirAll(filepath.Dir(*out), 0o755); err != nil {
		fail("%v", err)
	}
	if err := os.WriteFile(*out, []byte(body), 0o644); err != nil {
		fail("%v", err)
	}
}
