module verifextract

go 1.21
