#!/bin/sh
# re-run every quick check on the clean tree (never commit evidence produced with a seed applied)
cd /verif
if [ -n "$(git -C /repo status --short)" ]; then echo "/repo is not clean"; exit 2; fi
for p in C01 C02 C03 C04 C05 C06 C07 C08 C09 C10 C11 C12 C13 C14 C15 C16 C17 C18 C19 C20; do
  VERIF_SEED=${VERIF_SEED:-1} ./check $p ${1:+--tier $1} 2>&1 | grep -v "^KNOWN" | tail -1 | cut -c1-220
done
