# Per-property configuration of ./check: Lean modules holding the property theorems, the
# correspondence streams (Go test functions in /verif/harness), claimed level.
PACKET_STREAM = {"name": "packet", "test": "TestStreamPacket", "cases": 8, "ops": 70, "thorough_scale": 15}

PACKET_DEEP = {"name": "packetdeep", "test": "TestStreamPacket", "cases": 5, "ops": 0, "thorough_scale": 15, "env": {"VERIF_PROFILE": "deep"}}

KEYS_STREAM = {"name": "keys", "test": "TestStreamKeys", "cases": 2, "ops": 400, "thorough_scale": 20}

COMMON_ASSUME = [
    "Cosmos SDK BaseApp discards the writes of a failing message (modelled by `deliver`)",
    "light-client verification at the ideal boundary: a client's recorded state at a height is the counterparty's real provable store (justified by C07/C08/C17/C18 and exercised with real proofs)",
    "SHA-256 abstract: conclusions hold modulo an exhibited collision",
]

def packet_prop(expl, extra_assume=()):
    return {"level": "proof", "streams": [PACKET_STREAM, PACKET_DEEP, KEYS_STREAM], "assumptions": COMMON_ASSUME + list(extra_assume), "explanation": expl}

PROPS = {
    "C01": {
        "level": "proof",
        "lean_modules": ["Tibc.Props.C01"],
        "streams": [PACKET_STREAM, KEYS_STREAM],
        "assumptions": COMMON_ASSUME,
        "explanation": "Lean theorems over the packet-keeper / msg-server / N-chain world model; model tied to the code by the packet correspondence stream (real simapp chains, real IAVL proofs) and the implementation-side oracle `recv-accepted-without-commitment`.",
    },
    "C02": packet_prop("`deliver_at_most_once`: invariant over all op histories of the N-chain world (callback log vs receipt / clean point), plus the acceptance lemma for live packets; correspondence on replay-heavy packet histories; oracles count accepted receives per key."),
    "C03": packet_prop("ack authenticity (`AckOk`), written-once / non-empty (`WriteAckOk`), commitment deleted on ack, recorded ack = application's ack, `ack_processed_at_most_once` over all histories (hypothesis: no chain holds a light client of itself); correspondence with forged / replayed acks; oracles check commitment-before and ack-at-prover on the real stores."),
    "C09": (lambda d: (d["streams"].extend([{"name": "nft", "test": "TestStreamNft", "cases": 6, "ops": 40, "thorough_scale": 12},
                                            {"name": "mt", "test": "TestStreamMt", "cases": 6, "ops": 50, "thorough_scale": 12}]), d)[1])(
        packet_prop("`send_seq_invariant` over all histories (sequences handed out are exactly 1..nextSend-1 in order), exact write-set of a successful send, failing send / transfer unchanged; correspondence incl. failing sends (packet layer) and the two transfer applications' sends (nft / mt streams: refused sends to chains without a client, all-or-nothing oracle `transfer-accepted-but-no-packet-was-sent`); oracles on next-sequence / commitment / event.")),
    "C10": packet_prop("accept-iff conditions for CleanPacket / RecvCleanPacket, exact delete set, `cleanpoint_monotone` and `refused_for_good` over all histories; correspondence with cleans on source / relay / destination in all orders; oracles on monotonicity and refusal."),
    "C12": {"level": "proof", "streams": [{"name": "routing", "test": "TestStreamRouting", "cases": 4, "ops": 600, "thorough_scale": 20}],
            "assumptions": ["Go regexp / strings.Split behave as documented (the rule-syntax recogniser is validated against the real RulePattern by the stream)"],
            "explanation": "`rules_accepted_iff`, `authenticate_iff`, `no_rules_nothing` for all rule lists / triples over List Char; correspondence of SetRoutingRules+Authenticate on the real keeper over the full identifier alphabet weighted to regexp metacharacters; independent field-wise oracle."},
    "C04": {"level": "proof", "streams": [{"name": "nft", "test": "TestStreamNft", "cases": 9, "ops": 50, "thorough_scale": 12}],
            "assumptions": COMMON_ASSUME + ["irisnet nft / cosmos-sdk x/nft keepers modelled from source (ownership map, class table); exercised through the real keepers"],
            "level_text": "PARTIAL proof: class-path algebra for all strings, the send-side well-formedness guard, per-step custody lemmas (lock/burn exactly the sender's token, release only from escrow, users cannot mint vouchers). The global exactly-one-holder invariant is not proved; it is checked on the real chains by a provenance-ledger oracle over scripted forged-class / round-trip scenarios and random histories. The global statement is FALSE of the code for one family of histories (known finding F-C04-relayedit, a consequence of F-C13-relay: an acknowledgement with an edited relay chain refunds a token that was delivered): proved as `one_holder_fails_under_relay_edit` (kernel-evaluated witness) and replayed on the real chains in every run.",
            "explanation": "Lean: Props/C04 (+C06 path algebra). Correspondence: nft stream (real NFT module, real transfers on 2-4 chains, path-shaped class ids) diffed against the model; oracle: provenance ledger (holder count, escrow released to the right claimant)."},
    "C05": {"level": "proof", "streams": [{"name": "mt", "test": "TestStreamMt", "cases": 8, "ops": 60, "thorough_scale": 12}],
            "assumptions": COMMON_ASSUME + ["irisnet mt keeper modelled from source with its exact overflow guards and unchecked subtractions (wrap-around modelled)"],
            "level_text": "PARTIAL proof: 64-bit arithmetic of every token-module operation (no wrap under locally checked bounds, exact deltas), error-ack leaves balances/supply unchanged. The cross-chain sum invariant is not proved; checked on the real chains by the provenance-ledger oracle (supply = sum of balances per chain; user-held + in-flight = minted - burnt) with amounts up to 2^64-1. The cross-chain clauses are FALSE of the code for two families of histories (known findings F-C05-relayedit-a/-b and F-C05-portedit, consequences of F-C13): proved as `conservation_fails_under_relay_edit` and `escrow_unbacked_under_port_edit` (kernel-evaluated witnesses), replayed on the real chains in every run; an escrow-backing oracle per token and hop level checks every other history.",
            "explanation": "Lean: Props/C05. Correspondence: mt stream diffed against the model incl. near-2^64 amounts; oracle: conservation ledger."},
    "C06": {"level": "proof", "streams": [{"name": "nft", "test": "TestStreamNft", "cases": 9, "ops": 50, "thorough_scale": 12},
                                          {"name": "mt", "test": "TestStreamMt", "cases": 6, "ops": 50, "thorough_scale": 12}],
            "assumptions": COMMON_ASSUME,
            "level_text": "proof of the path algebra behind refunds and round trips for all strings and routes of any length (`back_away_base`, `back_away_path`, `parse_full`); refund exactness and round-trip restoration on real chains by oracle (scripted 1-3 hop round trips with/without relay, error acks at every failure point). The clause 'no token of it exists on the receiving side' is FALSE of the code when the error acknowledgement comes from a chain the packet never named (known finding F-C06-relayedit; `refund_although_delivered`).",
            "explanation": "Lean: Props/C06. Correspondence: nft + mt streams; oracles: refund-exact, refund-fails, round-trip-restores."},
    "C11": {"level": "proof", "streams": [PACKET_STREAM, {"name": "nft", "test": "TestStreamNft", "cases": 9, "ops": 50, "thorough_scale": 12},
                                          {"name": "mt", "test": "TestStreamMt", "cases": 6, "ops": 50, "thorough_scale": 12}],
            "assumptions": COMMON_ASSUME,
            "explanation": "`relay_forward_iff`, `relay_reject_error_ack`, `relay_ack_passthrough`, `relay_no_callbacks`; correspondence on A-R-C topologies with every rule-set shape; oracles: relay chain token state unchanged, error ack passes the relay, unknown destination answered with an error ack."},
    "C13": {"level": "proof", "streams": [PACKET_STREAM],
            "assumptions": COMMON_ASSUME,
            "level_text": "proof of the NEGATION on the faithful model (`port_not_bound`, `relay_not_bound`, evaluated witnesses), replayed on the real chains; recorded as known findings F-C13 (wire-protocol change needed).",
            "explanation": "Lean: Props/C13. The packet stream edits port / relay fields of committed packets; the c13 oracle replays the witnesses on real chains."},
    "C19": {"level": "proof", "streams": [PACKET_STREAM, {"name": "nft", "test": "TestStreamNft", "cases": 9, "ops": 50, "thorough_scale": 12},
                                          {"name": "mt", "test": "TestStreamMt", "cases": 6, "ops": 50, "thorough_scale": 12}],
            "assumptions": COMMON_ASSUME,
            "explanation": "`failed_msg_unchanged` (every message kind), the one swallowed-error path leaves exactly receipt+ack, `nft_error_ack_no_ownership_effect`; oracle: raw KV dump of tibc/NFT/MT/nft/mt stores identical before/after every failed message; error-ack leaves token state unchanged."},
    "C15": {"level": "proof", "streams": [{"name": "auth", "test": "TestStreamAuth", "cases": 6, "ops": 100, "thorough_scale": 15}],
            "assumptions": ["the SDK guarantees that a message's declared signer / authority signed the transaction (the stream calls the real message-server handlers with every authority string; non-authority signers also through real signed transactions for MsgUpdateClient)",
                            "stateless Validate() of client states is an input flag of the model (its fields are outside the model)"],
            "explanation": "authority / relayer gates as theorems per handler, `create_never_overwrites`, `refused_unchanged`, `type_preserved` over all histories of user-reachable operations; correspondence: message type x signer x payload matrix on the real msg server with registry dump; oracles: took-effect-for-non-authority, unregistered relayer, refused-changed-state (raw KV dump)."},
    "C07": {"level": "proof", "streams": [{"name": "tm", "test": "TestStreamTm", "cases": 10, "ops": 50, "thorough_scale": 20}],
            "assumptions": ["ed25519 signature validity is a bit per commit entry (unforgeability not modelled)", "validator-set hashing is an abstract function Hv (cometbft ValidatorSet.Hash)",
                            "structural validations of protobuf / cometbft types are one flag `basicOk` (exercised with structurally broken headers)"],
            "explanation": "`tm_accept_iff` (accept <-> explicit rule, incl. cometbft's order-sensitive commit scan characterised by `scanC_iff`), `tm_accept_effect`, `tm_latest_monotone`; correspondence: really signed headers of a fictitious chain against the real ClientKeeper.UpdateClient at exact 1/3, 2/3, expiry and drift boundaries; independent rule oracle on every accepted header."},
    "C14": {"level": "proof", "streams": [{"name": "status", "test": "TestStreamStatus", "cases": 4, "ops": 30, "thorough_scale": 15},
                                          {"name": "tm", "test": "TestStreamTm", "cases": 6, "ops": 40, "thorough_scale": 15}],
            "assumptions": COMMON_ASSUME,
            "explanation": "`tm_status_iff`, `eth_status_iff` (+ sub-second independence), `packets_require_active`, `update_requires_active`; correspondence: Status of real TM / BSC / ETH client states at period-1, period, period+1 with every sub-second part; MsgRecvPacket / MsgAcknowledgement against really expired clients on two real chains."},
    "C08": {"level": "proof", "lean_modules": ["Tibc.Props.C08"],
            "streams": [{"name": "proofs", "test": "TestStreamProofs", "cases": 6, "ops": 30, "thorough_scale": 20}],
            "assumptions": ["ICS-23 / IAVL and go-ethereum trie + RLP are abstract: a proof is described by what it genuinely proves; binding (no proof of a value that is not stored) and completeness (the honest proof verifies) of those libraries are hypotheses of the theorems, exercised by the stream against the real libraries with honest, other-key, other-root, truncated, re-ordered and absence proofs",
                            "keccak-256 abstract (slot derivation is injective modulo collisions)"],
            "explanation": "`tm_verify_iff`, `eth_verify_iff`, `bsc_verify_iff` + soundness / completeness corollaries over all contexts; correspondence: Verify* of real TM / ETH / BSC client states over real IAVL stores and real Merkle-Patricia account+storage tries, compared with the model's glue and with the independent oracle `stored under the protocol key in the recorded state, height and delay conditions met`."},
    "C17": {"level": "proof", "lean_modules": ["Tibc.Props.C17"],
            "streams": [{"name": "bsc", "test": "TestStreamBsc", "cases": 8, "ops": 60, "thorough_scale": 15}],
            "assumptions": ["secp256k1 signature recovery is abstract: a header carries the recovered signer address (unforgeability not modelled)",
                            "keccak / RLP header hashing abstract: hashes are labels, equal iff the headers are equal",
                            "client Active and creator-supplied initial validator set / recent signers trusted (governance creates clients)"],
            "explanation": "`bsc_accept_iff` (accept <-> direct child, member of the set, not among recent signers, difficulty by turn, gas bounds, epoch extra-data rules, structural checks), `bsc_accept_effect`, rotation theorems over header histories; correspondence: really sealed synthetic Parlia chains (1-21 validators, rotations, in/out-of-turn) with single-field corruptions against the real ClientKeeper.UpdateClient, client state diffed against the model; independent truth simulation as oracle."},
    "C18": {"level": "proof", "lean_modules": ["Tibc.Props.C18"],
            "streams": [{"name": "eth", "test": "TestStreamEth", "cases": 6, "ops": 40, "thorough_scale": 15}],
            "assumptions": ["ethash proof-of-work is one bit per header (the real ethash runs on recorded mainnet headers; synthetic headers use the verif-tagged SealHook)",
                            "keccak / RLP header hashing abstract: hashes and state roots are labels, equal iff the headers / roots are equal",
                            "client Active; the creator's trusted header is well-formed"],
            "level_text": "proof: `eth_accepts_iff` (validity check <-> parent stored, not already stored, time window, EIP-1559 gas limit and base fee, difficulty formula, seal, structural checks; exact integer arithmetic), `eth_accept_effect`, and `one_chain`: from creation, over every history of submitted headers (valid or not, any order, forks of any depth) the consensus states exposed up to the latest header are its ancestors' and the main-chain rewrite never fails. Hypotheses of `one_chain`: no consensus state is pruned during the history (pruning steps are covered by the correspondence stream only), hashes are collision-free, and no two stored headers of one height share a state root — where that fails the clause is false of the code (known finding F-C18b, `same_root_breaks_one_chain`).",
            "explanation": "`eth_accepts_iff`, `eth_accept_effect`, `one_chain` (Lemmas/Eth, Lemmas/EthChain); correspondence: synthetic London-rule header trees (extensions, siblings, deep forks, re-extended abandoned branches, all field perturbations) against the real ClientKeeper.UpdateClient with the full client store diffed against the model; oracle: consensus states up to the latest header = its ancestors in the generator's own tree."},
    "C20": {"level": "proof", "lean_modules": ["Tibc.Props.C20"],
            "streams": [{"name": "det", "test": "TestStreamDet", "cases": 4, "ops": 80, "thorough_scale": 10, "model": False},
                        {"name": "detx", "test": "TestReplayDetFiles", "cases": 1, "ops": 0, "thorough_scale": 1, "model": False}],
            "assumptions": ["the model's transitions are total functions of (state, operation): determinism of the model is by construction; that the implementation behaves like the model is what every other stream checks",
                            "runtime sources of nondeterminism (Go map iteration order, wall clock, temporary files, goroutine scheduling, memory addresses) cannot be exhibited by a Lean model: they are searched for by replaying recorded blocks on fresh applications in the same process and comparing byte for byte",
                            "Cosmos SDK / CometBFT / IAVL are deterministic (the SDK's panic stack trace in a failed transaction's log is cut before comparison)"],
            "level_text": "PARTIAL proof: Lean theorems show that the modelled transitions do not depend on the order in which unordered collections are presented at the points where the Go code ranges over maps or unsorted slices (BSC validator set and recent-signer table, routing rules); determinism of the real execution is checked by record-and-replay: every block a real chain executed in a history of all TIBC transaction kinds is re-executed on two (thorough: four) fresh applications built from a key/value snapshot, and once more in a separate operating-system process from a history file; transaction results (code, data, log, gas, events) and application hashes must be byte-identical.",
            "technique": "Lean 4 order-independence theorems + record/replay differential execution of the real application",
            "explanation": "Static part: every reference to the host clock / a random source / the process environment in the state-machine packages is extracted from the source on every run and pinned by Expect/Determinism (replicas replayed at one wall-clock time cannot observe such a dependence). Lean: Props/C20. Replay: det stream (NFT/MT transfers over a relay, TM / BSC / ETH client updates incl. rotations and forks, clean packets; ~100 blocks per case)."},
    "C16": {"level": "proof", "lean_modules": ["Tibc.Props.C16"],
            "streams": [{"name": "genesis", "test": "TestStreamGenesis", "cases": 3, "ops": 100, "thorough_scale": 10, "model": False}, KEYS_STREAM],
            "assumptions": ["the genesis types are modelled by what their fields can carry (protobuf / JSON encoding of the genesis file abstract)",
                            "stores of other modules (SDK modules, irismod nft / mt token modules) are outside TIBC's genesis: the stream makes them identical on both chains before the continuation",
                            "the SimApp's default export is not usable as shipped (feegrant ordered but not registered, evidence keeper without store): the stream exports every module but those two"],
            "level_text": "PARTIAL proof: the property is false of the code for clean points, highest acknowledged sequences (F-C16d) and voucher class traces (F-C16e): no genesis field exists for them and protoc is not available to add one. Proved: exactly which packet / client / routing state survives and which is lost (`packet_reimport_exact_iff`), the consequence for replay protection (`clean_point_lost`), and the consensus-state store-key codec for every 64-bit height and chain name (`parse_consKey`, with the pre-repair parser's failure at height 47 evaluated). Checked on real chains: raw KV comparison of the TIBC stores of the original and the re-imported chain after histories of all transaction kinds with TM / BSC / ETH clients, and identical continuation of the history on both.",
            "technique": "Lean 4 theorems over the genesis model + export / re-import differential on the real application",
            "explanation": "Lean: Props/C16, Genesis/Model. Stream: genesis."},
}

# Lean modules stating what the model assumes about the facts regenerated from /repo's sources on
# every run (extract/ -> lean/Tibc/Generated/Facts.lean); built together with the property's theorems.
EXPECT = {
    "C17": ["Tibc.Expect.Bsc"],
    "C18": ["Tibc.Expect.Eth"],
    "C20": ["Tibc.Expect.Bsc", "Tibc.Expect.Eth", "Tibc.Expect.Determinism"],
}
for _p in ("C01", "C02", "C03", "C04", "C05", "C06", "C09", "C10", "C11", "C13", "C16", "C19"):
    EXPECT[_p] = ["Tibc.Expect.Packet"]
for _p in ("C01", "C02", "C03", "C09", "C10", "C16"):
    EXPECT[_p] = EXPECT[_p] + ["Tibc.Expect.Keys"]
