# Per-property configuration of ./check: Lean modules holding the property theorems, the
# correspondence streams (Go test functions in /verif/harness), claimed level.
PACKET_STREAM = {"name": "packet", "test": "TestStreamPacket", "cases": 8, "ops": 70, "thorough_scale": 15}

PACKET_DEEP = {"name": "packetdeep", "test": "TestStreamPacket", "cases": 5, "ops": 0, "thorough_scale": 15, "env": {"VERIF_PROFILE": "deep"}}

COMMON_ASSUME = [
    "Cosmos SDK BaseApp discards the writes of a failing message (modelled by `deliver`)",
    "light-client verification at the ideal boundary: a client's recorded state at a height is the counterparty's real provable store (justified by C07/C08/C17/C18 and exercised with real proofs)",
    "SHA-256 abstract: conclusions hold modulo an exhibited collision",
]

def packet_prop(expl, extra_assume=()):
    return {"level": "proof", "streams": [PACKET_STREAM, PACKET_DEEP], "assumptions": COMMON_ASSUME + list(extra_assume), "explanation": expl}

PROPS = {
    "C01": {
        "level": "proof",
        "lean_modules": ["Tibc.Props.C01"],
        "streams": [PACKET_STREAM],
        "assumptions": COMMON_ASSUME,
        "explanation": "Lean theorems over the packet-keeper / msg-server / N-chain world model; model tied to the code by the packet correspondence stream (real simapp chains, real IAVL proofs) and the implementation-side oracle `recv-accepted-without-commitment`.",
    },
    "C02": packet_prop("`deliver_at_most_once`: invariant over all op histories of the N-chain world (callback log vs receipt / clean point), plus the acceptance lemma for live packets; correspondence on replay-heavy packet histories; oracles count accepted receives per key."),
    "C03": packet_prop("ack authenticity (`AckOk`), written-once / non-empty (`WriteAckOk`), commitment deleted on ack, recorded ack = application's ack; correspondence with forged / replayed acks; oracles check commitment-before and ack-at-prover on the real stores."),
    "C09": packet_prop("`send_seq_invariant` over all histories (sequences handed out are exactly 1..nextSend-1 in order), exact write-set of a successful send, failing send / transfer unchanged; correspondence incl. failing sends; oracles on next-sequence / commitment / event."),
    "C10": packet_prop("accept-iff conditions for CleanPacket / RecvCleanPacket, exact delete set, `cleanpoint_monotone` and `refused_for_good` over all histories; correspondence with cleans on source / relay / destination in all orders; oracles on monotonicity and refusal."),
}
