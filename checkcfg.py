# Per-property configuration of ./check: Lean modules holding the property theorems, the
# correspondence streams (Go test functions in /verif/harness), claimed level.
PACKET_STREAM = {"name": "packet", "test": "TestStreamPacket", "cases": 8, "ops": 70, "thorough_scale": 15}

COMMON_ASSUME = [
    "Cosmos SDK BaseApp discards the writes of a failing message (modelled by `deliver`)",
    "light-client verification at the ideal boundary: a client's recorded state at a height is the counterparty's real provable store (justified by C07/C08/C17/C18 and exercised with real proofs)",
    "SHA-256 abstract: conclusions hold modulo an exhibited collision",
]

PROPS = {
    "C01": {
        "level": "proof",
        "lean_modules": ["Tibc.Props.C01"],
        "streams": [PACKET_STREAM],
        "assumptions": COMMON_ASSUME,
        "explanation": "Lean theorems over the packet-keeper / msg-server / N-chain world model; model tied to the code by the packet correspondence stream (real simapp chains, real IAVL proofs) and the implementation-side oracle `recv-accepted-without-commitment`.",
    },
}
