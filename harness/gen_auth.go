package harness

// Generator for the authority stream (C15): every privileged message type x signer
// (governance authority, relayer registered for this / another chain, arbitrary account,
// malformed address) x payload (valid / invalid, existing / new chain name, same / other client
// type) against the real message server; on refusal the raw stores must be unchanged.

import (
	"fmt"
	"sort"
	"strings"
	"time"

	sdk "github.com/cosmos/cosmos-sdk/types"
	authtypes "github.com/cosmos/cosmos-sdk/x/auth/types"
	govtypes "github.com/cosmos/cosmos-sdk/x/gov/types"
	"github.com/ethereum/go-ethereum/common"
	"github.com/ethereum/go-ethereum/core/types"

	clienttypes "github.com/bianjieai/tibc-go/modules/tibc/core/02-client/types"
	routingtypes "github.com/bianjieai/tibc-go/modules/tibc/core/26-routing/types"
	"github.com/bianjieai/tibc-go/modules/tibc/core/exported"
	tibckeeper "github.com/bianjieai/tibc-go/modules/tibc/core/keeper"
	ibctmtypes "github.com/bianjieai/tibc-go/modules/tibc/light-clients/07-tendermint/types"
	bsctypes "github.com/bianjieai/tibc-go/modules/tibc/light-clients/08-bsc/types"
	tibctesting "github.com/bianjieai/tibc-go/modules/tibc/testing"
)

type AuthGen struct {
	w     *World
	r     *Rng
	stats map[string]int
}

// isRelayer: is the canonical address registered (on the real chain) as relayer for chain q
func (g *AuthGen) isRelayer(c *tibctesting.TestChain, q, canon string) bool {
	for _, r := range c.App.TIBCKeeper.ClientKeeper.GetRelayers(c.GetContext(), q) {
		if g.w.CanonAddr(r) == canon {
			return true
		}
	}
	return false
}

func govAuthority() string { return authtypes.NewModuleAddress(govtypes.ModuleName).String() }

// regDump prints the registry part of a chain's state (same format as the Lean driver's dumpReg)
func (w *World) regDump(c *tibctesting.TestChain, names []string) string {
	ctx := c.GetContext()
	ck := c.App.TIBCKeeper.ClientKeeper
	var out []string
	for _, q := range names {
		if cs, ok := ck.GetClientState(ctx, q); ok {
			out = append(out, fmt.Sprintf("ct:%s=%s@%d", undash(q), cs.ClientType(), cs.GetLatestHeight().GetRevisionHeight()))
		}
	}
	for _, ir := range ck.GetAllRelayers(ctx) {
		if len(ir.Relayers) > 0 {
			var rs []string
			for _, r := range ir.Relayers {
				rs = append(rs, w.CanonAddr(r))
			}
			out = append(out, fmt.Sprintf("rl:%s=%s", undash(ir.ChainName), strings.Join(rs, ",")))
		}
	}
	if rules, ok := c.App.TIBCKeeper.RoutingKeeper.GetRoutingRules(ctx); ok && len(rules) > 0 {
		var hs []string
		for _, r := range rules {
			hs = append(hs, hxs(r))
		}
		out = append(out, "rr:"+strings.Join(hs, ","))
	}
	sort.Strings(out)
	return strings.Join(out, " ")
}

// callMsg runs ValidateBasic and the real msg-server handler on a branch of the state that is
// written back only on success (what BaseApp does around a message).
func (g *AuthGen) callMsg(c *tibctesting.TestChain, vb func() error, handler func(ctx sdk.Context) error) string {
	if err := vb(); err != nil {
		cs, code, _ := errorsABCI(err)
		return authErrClass(cs, code)
	}
	ctx := c.GetContext()
	cctx, write := ctx.CacheContext()
	if err := handler(cctx); err != nil {
		cs, code, _ := errorsABCI(err)
		return authErrClass(cs, code)
	}
	write()
	g.w.Coord.CommitBlock(c)
	return "ok"
}

func authErrClass(cs string, code uint32) string {
	k := fmt.Sprintf("%s/%d", cs, code)
	switch {
	case k == "tibc-host/5":
		return "invalidRule"
	case cs == "tibc-host":
		return "app:host"
	case k == "undefined/1": // govv1beta1.ErrInvalidLengthGov is a plain error
		return "app:gov"
	case cs == "gov":
		return "app:gov"
	case strings.HasSuffix(cs, "-client") && cs != "tibc-client":
		return "app:clientstate" // stateless validation of a light-client state / header
	}
	if n, ok := errNames[k]; ok {
		return n
	}
	return "app:" + k
}

func bscClientState() (exported.ClientState, exported.ConsensusState) {
	h := &types.Header{
		ParentHash: common.Hash{}, UncleHash: types.EmptyUncleHash, Difficulty: common.Big2, Number: common.Big0,
		GasLimit: 30000000, Time: 1600000000, Extra: make([]byte, 32+20*3+65),
	}
	bh := bsctypes.BscHeader{ParentHash: h.ParentHash, UncleHash: h.UncleHash, Coinbase: h.Coinbase, Root: h.Root,
		TxHash: h.TxHash, ReceiptHash: h.ReceiptHash, Difficulty: h.Difficulty, Number: h.Number, GasLimit: h.GasLimit,
		GasUsed: h.GasUsed, Time: h.Time, Extra: h.Extra, MixDigest: h.MixDigest}
	hd := bh.ToHeader()
	cs := &bsctypes.ClientState{Header: hd, ChainId: 56, Epoch: 200, BlockInteval: 3, ContractAddress: []byte("0x00"), TrustingPeriod: 200}
	cons := &bsctypes.ConsensusState{Timestamp: hd.Time, Number: hd.Height, Root: hd.Root}
	return cs, cons
}

func (g *AuthGen) Run(nOps int) {
	w := g.w
	c, q := w.Chains[0], w.Chains[1]
	w.Connect(c, q)
	w.emit(fmt.Sprintf("authority %s %s", c.ChainName, "gov"), "res=ok")
	w.emit(fmt.Sprintf("relayers %s %s %s", c.ChainName, q.ChainName, w.CanonAddr(c.SenderAccounts[0].SenderAccount.GetAddress().String())), "res=ok")
	w.addr[govAuthority()] = "gov"
	srv := tibckeeper.NewMsgServerImpl(*c.App.TIBCKeeper)
	// names incl. pairs where one is a proper prefix of the other (relayer sets are per exact name)
	names := []string{q.ChainName, "newchain01", "otherchain2", "short", q.ChainName + "0", "newchain0"}
	// harness-side registry of relayers, maintained from the accepted requests only
	reg := map[string][]string{q.ChainName: {w.CanonAddr(c.SenderAccounts[0].SenderAccount.GetAddress().String())}}
	signers := func() string {
		switch g.r.Intn(8) {
		case 0, 1, 2:
			return govAuthority()
		case 3:
			return c.SenderAccounts[0].SenderAccount.GetAddress().String() // registered relayer of q
		case 4:
			return c.SenderAccounts[1+g.r.Intn(3)].SenderAccount.GetAddress().String()
		case 5:
			return "not-an-address"
		}
		return c.SenderAccounts[g.r.Intn(4)].SenderAccount.GetAddress().String()
	}
	tmState := func(valid bool) (exported.ClientState, exported.ConsensusState, uint64, uint64, uint64) {
		h := q.LastHeader.GetHeight().(clienttypes.Height)
		cs := ibctmtypes.NewClientState(q.ChainID, tibctesting.DefaultTrustLevel, tibctesting.TrustingPeriod, tibctesting.UnbondingPeriod,
			tibctesting.MaxClockDrift, h, nil, tibctesting.Prefix, 0)
		cs.ProofSpecs = c.GetClientState(q.ChainName).(*ibctmtypes.ClientState).ProofSpecs
		if !valid {
			cs.TrustingPeriod = 0
		}
		cons := q.LastHeader.ConsensusState()
		return cs, cons, h.RevisionHeight, cons.GetTimestamp(), uint64(tibctesting.TrustingPeriod)
	}
	typesOf := func() map[string]string {
		m := map[string]string{}
		for _, n := range names {
			if cs, ok := c.App.TIBCKeeper.ClientKeeper.GetClientState(c.GetContext(), n); ok {
				m[n] = cs.ClientType()
			}
		}
		return m
	}
	for i := 0; i < nOps; i++ {
		before := w.FullDump(c)
		typesBefore := typesOf()
		var op, res string
		sel := g.r.Intn(5)
		// scripted start: a client is created, upgraded with a consensus state of another client
		// family (accepted; its status is Unknown from then on) and created again — an existing
		// client must never be overwritten, whatever its status
		scripted := i < 3
		if scripted {
			sel = 0
		}
		switch sel {
		case 0, 1: // create / upgrade
			upgrade := g.r.Chance(50)
			name := names[g.r.Intn(len(names))]
			auth := signers()
			valid := g.r.Chance(85)
			useBsc := g.r.Chance(25)
			mixed := g.r.Chance(25)
			if scripted {
				upgrade, name, auth, valid, useBsc, mixed = i == 1, "otherchain2", govAuthority(), true, false, i == 1
			}
			var cs exported.ClientState
			var cons exported.ConsensusState
			var h, t, pd uint64
			ctype := exported.Tendermint
			if useBsc {
				cs, cons = bscClientState()
				ctype, h, t, pd, valid = exported.BSC, 0, cons.GetTimestamp(), 200, true
			} else {
				w.Coord.CommitBlock(q)
				cs, cons, h, t, pd = tmState(valid)
			}
			consSame := 1
			if mixed {
				// mixed payload: client state of one type with a consensus state of the other
				consSame = 0
				if useBsc {
					_, cons, _, _, _ = tmState(true)
				} else {
					_, cons = bscClientState()
				}
			}
			anyCs, _ := clienttypes.PackClientState(cs)
			anyCons, _ := clienttypes.PackConsensusState(cons)
			kind := "m.create"
			if upgrade {
				kind = "m.upgrade"
				msg := &clienttypes.MsgUpgradeClient{Title: "t", Description: "d", ChainName: name, ClientState: anyCs, ConsensusState: anyCons, Authority: auth}
				res = g.callMsg(c, msg.ValidateBasic, func(ctx sdk.Context) error { _, err := srv.UpgradeClient(ctx, msg); return err })
			} else {
				msg := &clienttypes.MsgCreateClient{Title: "t", Description: "d", ChainName: name, ClientState: anyCs, ConsensusState: anyCons, Authority: auth}
				res = g.callMsg(c, msg.ValidateBasic, func(ctx sdk.Context) error { _, err := srv.CreateClient(ctx, msg); return err })
			}
			v := 0
			if valid {
				v = 1
			}
			op = fmt.Sprintf("%s %s %s %s %s %d %d %d %d %d", kind, c.ChainName, w.CanonAddr(auth), name, ctype, h, t, pd, v, consSame)
			g.stats[kind+"."+res]++
		case 2: // register relayers
			name := names[g.r.Intn(len(names))]
			auth := signers()
			var rs []string
			for k := g.r.Intn(3); k > 0; k-- {
				rs = append(rs, c.SenderAccounts[g.r.Intn(5)].SenderAccount.GetAddress().String())
			}
			if g.r.Chance(8) {
				rs = append(rs, "bogus")
			}
			msg := &clienttypes.MsgRegisterRelayer{Title: "t", Description: "d", ChainName: name, Relayers: rs, Authority: auth}
			res = g.callMsg(c, msg.ValidateBasic, func(ctx sdk.Context) error { _, err := srv.RegisterRelayer(ctx, msg); return err })
			var crs []string
			for _, r := range rs {
				crs = append(crs, w.CanonAddr(r))
			}
			op = strings.TrimSpace(fmt.Sprintf("m.relayers %s %s %s %s", c.ChainName, w.CanonAddr(auth), name, strings.Join(crs, " ")))
			if res == "ok" {
				reg[name] = crs
			}
			g.stats["m.relayers."+res]++
		case 3: // routing rules
			auth := signers()
			var rules []string
			for k := g.r.Intn(3); k > 0; k-- {
				rules = append(rules, g.r.field()+","+g.r.field()+","+g.r.field())
			}
			msg := &routingtypes.MsgSetRoutingRules{Title: "t", Description: "d", Rules: rules, Authority: auth}
			res = g.callMsg(c, msg.ValidateBasic, func(ctx sdk.Context) error { _, err := srv.SetRoutingRules(ctx, msg); return err })
			var hr []string
			for _, r := range rules {
				hr = append(hr, hxs(r))
			}
			op = strings.TrimSpace(fmt.Sprintf("m.rules %s %s %s", c.ChainName, w.CanonAddr(auth), strings.Join(hr, " ")))
			g.stats["m.rules."+res]++
		default: // update client
			name := []string{q.ChainName, q.ChainName, "newchain01", "newchain0", q.ChainName, q.ChainName + "0"}[g.r.Intn(6)]
			sgIdx := g.r.Intn(4)
			signer := c.SenderAccounts[sgIdx].SenderAccount.GetAddress()
			w.Coord.CommitBlock(q)
			var header *ibctmtypes.Header
			headerOk := 0
			var hh, ht uint64
			if cs, ok := c.App.TIBCKeeper.ClientKeeper.GetClientState(c.GetContext(), name); ok && cs.ClientType() == exported.Tendermint && name == q.ChainName {
				hd, err := c.ConstructUpdateTMClientHeader(q, name)
				if err == nil {
					header = hd
					headerOk = 1
					hh, ht = hd.GetHeight().GetRevisionHeight(), uint64(hd.GetTime().UnixNano())
				}
			}
			if header == nil {
				header = q.LastHeader
				hh, ht = header.GetHeight().GetRevisionHeight(), uint64(header.GetTime().UnixNano())
			}
			signerStr := signer.String()
			if g.r.Chance(25) {
				// the governance authority itself is not a relayer: through the Msg service (as a
				// governance proposal would) its header update must be refused like anybody else's
				gov := authtypes.NewModuleAddress(govtypes.ModuleName)
				msg, _ := clienttypes.NewMsgUpdateClient(name, header, gov)
				signerStr = gov.String()
				res = g.callMsg(c, msg.ValidateBasic, func(ctx sdk.Context) error { _, err := srv.UpdateClient(ctx, msg); return err })
			} else {
				msg, _ := clienttypes.NewMsgUpdateClient(name, header, signer)
				r := w.Tx(c, sgIdx, msg)
				res = authErrClass(r.Codespace, r.Code)
				if r.Code == 0 {
					res = "ok"
				}
			}
			if res != "ok" && res != "unauthorized" && res != "clientNotFound" && res != "clientNotActive" {
				res = "app:header"
			}
			op = fmt.Sprintf("m.update %s %s %s %d %d %d", c.ChainName, w.CanonAddr(signerStr), name, hh, ht, headerOk)
			g.stats["m.update."+res]++
		}
		after := w.FullDump(c)
		if res != "ok" && before != after {
			w.hit("C15", "refused-request-changed-state "+op)
			w.hit("C19", "refused-request-changed-state "+op)
		}
		if f := strings.Fields(op); res == "ok" && f[0] == "m.create" {
			if _, existed := typesBefore[f[3]]; existed {
				w.hit("C15", "create-accepted-although-a-client-of-that-chain-exists "+op)
			}
		}
		for n, tb := range typesBefore {
			if ta := typesOf()[n]; ta != tb {
				w.hit("C15", fmt.Sprintf("client-type-changed %s %s->%s by %s", n, tb, ta, op))
			}
		}
		// implementation-side authority oracle
		signerTok := strings.Fields(op)[2]
		if res == "ok" && !strings.HasPrefix(op, "m.update") && signerTok != "gov" {
			w.hit("C15", "privileged-operation-took-effect-for-non-authority "+op)
		}
		if strings.HasPrefix(op, "m.update") {
			listed := false
			for _, r := range reg[strings.Fields(op)[3]] {
				listed = listed || r == signerTok
			}
			if res == "ok" && (!listed || !g.isRelayer(c, strings.Fields(op)[3], signerTok)) {
				w.hit("C15", "header-update-accepted-from-unregistered-relayer "+op)
			}
			if res != "unauthorized" && res != "clientNotFound" && !listed {
				w.hit("C15", "header-update-of-unregistered-relayer-passed-the-relayer-check "+op)
			}
		}
		w.emit(op, fmt.Sprintf("res=%s |  | %s", res, w.regDump(c, names)))
	}
	_ = time.Second
}
