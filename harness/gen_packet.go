package harness

// Generator for the packet-layer stream (C01, C02, C03, C09, C10, C11, C13, C19):
// histories of sends / receives / acks / cleans / receive-cleans on 2-4 real chains, direct and
// relayed, with genuine, misused and corrupt proofs, replays around the clean point, forged
// acknowledgements and edited packet fields.

import (
	"crypto/sha256"
	"fmt"

	packettypes "github.com/bianjieai/tibc-go/modules/tibc/core/04-packet/types"
	tibctesting "github.com/bianjieai/tibc-go/modules/tibc/testing"
)

// Rng is splitmix64.
type Rng struct{ s uint64 }

func (r *Rng) Next() uint64 {
	r.s += 0x9e3779b97f4a7c15
	z := r.s
	z = (z ^ (z >> 30)) * 0xbf58476d1ce4e5b9
	z = (z ^ (z >> 27)) * 0x94d049bb133111eb
	return z ^ (z >> 31)
}
func (r *Rng) Intn(n int) int {
	if n <= 0 {
		return 0
	}
	return int(r.Next() % uint64(n))
}
func (r *Rng) Chance(pct int) bool { return r.Intn(100) < pct }

// tracked packet
type tpkt struct {
	p       packettypes.Packet
	tok     string
	ack     []byte // acknowledgement bytes written by the destination (or the relay's error ack)
	ackOn   string // chain that wrote the ack first
	hops    []string
	sentOn  string
	recvOn  map[string]bool
	ackedOn map[string]bool
	recvH   uint64 // proof height of the accepted receive on the destination
	ackH    uint64 // proof height of the accepted acknowledgement on the source
}

type PacketGen struct {
	w     *World
	r     *Rng
	pkts  []*tpkt
	stats map[string]int
	relay bool // topology A - R - C (R = chain 1) in addition to direct links
}

func (g *PacketGen) stat(k string) { g.stats[k]++ }

// SetupTopology connects the chains. With relay=true chain 1 is a relay between chain 0 and chain 2
// (0 and 2 are *not* directly connected); further chains are connected to everything.
func (g *PacketGen) SetupTopology() {
	w := g.w
	n := len(w.Chains)
	for i := 0; i < n; i++ {
		for j := 0; j < n; j++ {
			if i == j {
				continue
			}
			if g.relay && ((i == 0 && j == 2) || (i == 2 && j == 0)) {
				continue
			}
			w.Connect(w.Chains[i], w.Chains[j])
		}
	}
	if g.relay {
		rules := [][]string{
			{"*,*,*"},
			{fmt.Sprintf("%s,%s,tibcmock", w.Names[0], w.Names[2]), fmt.Sprintf("%s,*,*", w.Names[2])},
			{fmt.Sprintf("%s,%s,NFT", w.Names[0], w.Names[2])},
			{},
		}[g.r.Intn(4)]
		if g.r.Chance(85) {
			_ = w.SetRules(w.Chains[1], rules)
		}
	}
}

func (g *PacketGen) randChain() *tibctesting.TestChain { return g.w.Chains[g.r.Intn(len(g.w.Chains))] }

func (g *PacketGen) randData() ([]byte, string) {
	b := []byte{0xff, byte(g.r.Intn(4)), byte(g.r.Intn(256))}
	return b, g.w.RawTok(b)
}

// route of a packet: the chains that must process a receive, in order
func route(p packettypes.Packet) []string {
	if p.RelayChain != "" {
		return []string{p.RelayChain, p.DestinationChain}
	}
	return []string{p.DestinationChain}
}

func (g *PacketGen) opSend() {
	w := g.w
	c := g.randChain()
	dst := g.randChain()
	for dst == c && g.r.Chance(90) {
		dst = g.randChain()
	}
	relay := ""
	if g.relay && g.r.Chance(60) {
		// the meaningful relayed routes are 0 -> 1 -> 2 and 2 -> 1 -> 0
		if c == w.Chains[0] {
			dst, relay = w.Chains[2], w.Names[1]
		} else if c == w.Chains[2] {
			dst, relay = w.Chains[0], w.Names[1]
		}
	} else if g.r.Chance(5) {
		relay = g.randChain().ChainName
	}
	seq := c.App.TIBCKeeper.PacketKeeper.GetNextSequenceSend(c.GetContext(), c.ChainName, dst.ChainName)
	data, tok := g.randData()
	src := c.ChainName
	dstName := dst.ChainName
	switch g.r.Intn(20) {
	case 0:
		seq += uint64(1 + g.r.Intn(2))
		g.stat("send.badseq")
	case 1:
		if seq > 1 {
			seq--
		}
		g.stat("send.reuseseq")
	case 2:
		data, tok = nil, "raw|-"
		g.stat("send.emptydata")
	case 3:
		src = dst.ChainName
		g.stat("send.wrongsrc")
	case 4:
		dstName = "unknownchain9"
		g.stat("send.unknowndst")
	case 5:
		seq = 0
		g.stat("send.seq0")
	}
	port := "tibcmock"
	if g.r.Chance(8) {
		port = "unrouted"
	}
	p := packettypes.NewPacket(data, seq, src, dstName, relay, port)
	if err := w.KSend(c, p, tok); err == nil {
		g.pkts = append(g.pkts, &tpkt{p: p, tok: tok, sentOn: c.ChainName, recvOn: map[string]bool{}, ackedOn: map[string]bool{}})
		g.stat("send.ok")
	} else {
		g.stat("send.fail")
	}
}

func (g *PacketGen) opUpdate() {
	w := g.w
	c := g.randChain()
	q := g.randChain()
	if c == q || w.ClientLatest(c, q.ChainName) == 0 {
		return
	}
	if w.Update(c, q) != 0 {
		g.stat("update.ok")
	} else {
		g.stat("update.fail")
	}
}

// mutate returns a possibly edited copy of a tracked packet and a label for statistics
func (g *PacketGen) mutate(t *tpkt) (packettypes.Packet, string, string) {
	p := t.p
	tok := t.tok
	if g.r.Chance(70) {
		return p, tok, "genuine"
	}
	switch g.r.Intn(8) {
	case 0:
		p.Sequence++
		return p, tok, "seq+1"
	case 1:
		if p.Sequence > 1 {
			p.Sequence--
		}
		return p, tok, "seq-1"
	case 2:
		d, tk := g.randData()
		p.Data = d
		return p, tk, "data"
	case 3:
		p.SourceChain, p.DestinationChain = p.DestinationChain, p.SourceChain
		return p, tok, "swap"
	case 4:
		p.Port = []string{"tibcmock", "unrouted", "NFT"}[g.r.Intn(3)]
		return p, tok, "port"
	case 5:
		if p.RelayChain == "" {
			p.RelayChain = g.randChain().ChainName
		} else {
			p.RelayChain = ""
		}
		return p, tok, "relay"
	case 6:
		p.DestinationChain = g.randChain().ChainName
		return p, tok, "dst"
	default:
		p.Data = nil
		return p, "raw|-", "emptydata"
	}
}

// proofFor picks the proof to submit for (key kind, packet) when the protocol-correct proving
// chain is `prover`; most of the time the genuine one.
func (g *PacketGen) proofFor(c *tibctesting.TestChain, prover string, key string, p packettypes.Packet) (ProofSpec, uint64, string) {
	w := g.w
	latest := w.ClientLatest(c, prover)
	ps := ProofSpec{Kind: "honest", Chain: prover, Height: latest, Key: key, Src: p.SourceChain, Dst: p.DestinationChain, Seq: p.Sequence}
	h := latest
	if w.Chain(prover) == nil || latest == 0 {
		return ProofSpec{Kind: "garbage"}, 1 + uint64(g.r.Intn(5)), "noprover"
	}
	if g.r.Chance(72) {
		return ps, h, "genuine"
	}
	switch g.r.Intn(9) {
	case 0:
		ps.Seq++
		return ps, h, "otherseq"
	case 1:
		if key == "commit" {
			ps.Key = "ack"
		} else {
			ps.Key = "commit"
		}
		return ps, h, "otherkey"
	case 2:
		if latest > 3 {
			ps.Height = latest - 1
		}
		return ps, h, "proof@h-1"
	case 3:
		if latest > 3 {
			ps.Height = latest - 1
			h = latest - 1
		}
		return ps, h, "both@h-1"
	case 4:
		h = latest + 1
		return ps, h, "h+1"
	case 5:
		ps.Chain = g.randChain().ChainName
		if w.Chain(ps.Chain).App.LastBlockHeight()+1 < int64(ps.Height) {
			ps.Kind = "garbage"
		}
		return ps, h, "otherchain"
	case 6:
		ps.Kind = []string{"truncated", "flipped", "garbage"}[g.r.Intn(3)]
		return ps, h, "corrupt"
	case 7:
		return ProofSpec{Kind: "empty"}, h, "empty"
	default:
		h = 0
		return ps, h, "h0"
	}
}

func (g *PacketGen) pick() *tpkt {
	if len(g.pkts) == 0 {
		return nil
	}
	// bias to recent packets
	if g.r.Chance(60) {
		k := len(g.pkts) - 1 - g.r.Intn(min(3, len(g.pkts)))
		return g.pkts[k]
	}
	return g.pkts[g.r.Intn(len(g.pkts))]
}

func (g *PacketGen) opRecv() {
	w := g.w
	t := g.pick()
	if t == nil {
		return
	}
	p, tok, mlabel := g.mutate(t)
	// choose the chain: mostly the next hop that has not received yet
	var c *tibctesting.TestChain
	hops := route(p)
	for _, hn := range hops {
		if !t.recvOn[hn] {
			c = w.Chain(hn)
			break
		}
	}
	if c == nil || g.r.Chance(15) {
		c = g.randChain()
	}
	// protocol-correct proving chain as the keeper computes it
	prover := p.SourceChain
	if p.DestinationChain == c.ChainName && p.RelayChain != "" {
		prover = p.RelayChain
	}
	// make the proof usable: update the client first most of the time
	if q := w.Chain(prover); q != nil && q != c && w.ClientLatest(c, prover) != 0 && g.r.Chance(80) {
		w.Update(c, q)
	}
	ps, h, plabel := g.proofFor(c, prover, "commit", p)
	if src := w.Chain(p.SourceChain); prover != p.SourceChain && src != nil && w.ClientLatest(c, p.SourceChain) != 0 && g.r.Chance(25) {
		// the destination of a relayed packet is shown a genuine proof of the *source's* commitment
		// (at a height its client of the source knows) instead of the relay chain's
		w.Update(c, src)
		h = w.ClientLatest(c, p.SourceChain)
		ps = ProofSpec{Kind: "honest", Chain: p.SourceChain, Height: h, Key: "commit", Src: p.SourceChain, Dst: p.DestinationChain, Seq: p.Sequence}
		plabel = "from-source-instead-of-relay"
	}
	res := w.Recv(c, g.r.Intn(3), p, tok, ps, h)
	g.stat("recv.pkt." + mlabel)
	g.stat("recv.proof." + plabel)
	g.stat("recv.res." + ErrClass(res.Codespace, res.Code))
	if res.Code == 0 && ps.Kind == "honest" {
		if p.Port != t.p.Port {
			w.hit("C13", "recv-accepted-with-port-edited "+pkeyStr(p))
		}
		if p.RelayChain != t.p.RelayChain {
			w.hit("C13", "recv-accepted-with-relay-edited "+pkeyStr(p))
		}
	}
	if res.Code == 0 {
		t.recvOn[c.ChainName] = true
		if a := writtenAck(res); a != nil && t.ack == nil {
			t.ack = a
			t.ackOn = c.ChainName
			w.AckTok(a)
		}
	}
}

func (g *PacketGen) opAck() {
	w := g.w
	t := g.pick()
	if t == nil {
		return
	}
	p, tok, mlabel := g.mutate(t)
	ack := t.ack
	alabel := "genuine"
	if ack == nil || g.r.Chance(15) {
		switch g.r.Intn(4) {
		case 0:
			ack = packettypes.NewErrorAcknowledgement("forged").GetBytes()
			alabel = "forged-err"
		case 1:
			ack = packettypes.NewResultAcknowledgement([]byte{1}).GetBytes()
			alabel = "forged-ok"
		case 2:
			ack = []byte("mock acknowledgement")
			alabel = "mock"
		default:
			ack = nil
			alabel = "empty"
		}
	}
	// chain: the hop (towards the source) that has not processed the ack yet
	back := []string{}
	if p.RelayChain != "" {
		back = append(back, p.RelayChain)
	}
	back = append(back, p.SourceChain)
	var c *tibctesting.TestChain
	for _, hn := range back {
		if !t.ackedOn[hn] {
			c = w.Chain(hn)
			break
		}
	}
	if c == nil || g.r.Chance(15) {
		c = g.randChain()
	}
	prover := p.DestinationChain
	if p.SourceChain == c.ChainName && p.RelayChain != "" {
		prover = p.RelayChain
	}
	if q := w.Chain(prover); q != nil && q != c && w.ClientLatest(c, prover) != 0 && g.r.Chance(80) {
		w.Update(c, q)
	}
	ps, h, plabel := g.proofFor(c, prover, "ack", p)
	res := w.Ack(c, g.r.Intn(3), p, tok, ack, ps, h)
	g.stat("ack.pkt." + mlabel)
	g.stat("ack.ack." + alabel)
	g.stat("ack.proof." + plabel)
	g.stat("ack.res." + ErrClass(res.Codespace, res.Code))
	if res.Code == 0 && ps.Kind == "honest" {
		if p.Port != t.p.Port {
			w.hit("C13", "ack-accepted-with-port-edited "+pkeyStr(p))
		}
		if p.RelayChain != t.p.RelayChain {
			w.hit("C13", "ack-accepted-with-relay-edited "+pkeyStr(p))
		}
	}
	if res.Code == 0 {
		t.ackedOn[c.ChainName] = true
	}
}

func (g *PacketGen) opClean() {
	w := g.w
	t := g.pick()
	if t == nil {
		return
	}
	c := w.Chain(t.p.SourceChain)
	if c == nil || g.r.Chance(10) {
		c = g.randChain()
	}
	seq := t.p.Sequence
	switch g.r.Intn(6) {
	case 0:
		seq++
	case 1:
		if seq > 1 {
			seq--
		}
	case 2:
		seq = 0
	}
	cp := packettypes.NewCleanPacket(seq, t.p.SourceChain, t.p.DestinationChain, t.p.RelayChain)
	res := w.Clean(c, g.r.Intn(3), cp)
	g.stat("clean.res." + ErrClass(res.Codespace, res.Code))
}

func (g *PacketGen) opRecvClean() {
	w := g.w
	t := g.pick()
	if t == nil {
		return
	}
	// receiving chains: relay then destination
	hops := route(t.p)
	c := w.Chain(hops[g.r.Intn(len(hops))])
	if c == nil || g.r.Chance(10) {
		c = g.randChain()
	}
	src := w.Chain(t.p.SourceChain)
	seq := t.p.Sequence
	if src != nil && g.r.Chance(70) {
		// use the source's real clean point most of the time
		cl := src.App.TIBCKeeper.PacketKeeper.GetCleanPacketCommitment(src.GetContext(), t.p.SourceChain, t.p.DestinationChain)
		if len(cl) == 8 {
			seq = beU64(cl)
		}
	}
	switch g.r.Intn(8) {
	case 0:
		seq++
	case 1:
		if seq > 1 {
			seq--
		}
	}
	cp := packettypes.NewCleanPacket(seq, t.p.SourceChain, t.p.DestinationChain, t.p.RelayChain)
	prover := cp.SourceChain
	if cp.DestinationChain == c.ChainName && cp.RelayChain != "" {
		prover = cp.RelayChain
	}
	if q := w.Chain(prover); q != nil && q != c && w.ClientLatest(c, prover) != 0 && g.r.Chance(80) {
		w.Update(c, q)
	}
	pk := packettypes.NewPacket(nil, 0, cp.SourceChain, cp.DestinationChain, cp.RelayChain, "")
	ps, h, plabel := g.proofFor(c, prover, "clean", pk)
	res := w.RecvClean(c, g.r.Intn(3), cp, ps, h)
	g.stat("recvclean.proof." + plabel)
	g.stat("recvclean.res." + ErrClass(res.Codespace, res.Code))
}

func beU64(b []byte) uint64 {
	var v uint64
	for _, x := range b {
		v = v<<8 | uint64(x)
	}
	return v
}

// Run executes one scenario of nOps operations.
func (g *PacketGen) Run(nOps int) {
	g.SetupTopology()
	g.runOps(nOps)
}

func (g *PacketGen) runOps(nOps int) {
	for i := 0; i < nOps; i++ {
		switch x := g.r.Intn(100); {
		case x < 22:
			g.opSend()
		case x < 27:
			g.opUpdate()
		case x < 57:
			g.opRecv()
		case x < 82:
			g.opAck()
		case x < 91:
			g.opClean()
		default:
			g.opRecvClean()
		}
	}
}

// RunDeep: one channel used heavily — 10-16 packets in one direction, received and acknowledged
// out of order, cleans at every boundary around the acknowledged prefix, replays after cleaning.
// (Sequences with two or more decimal digits, interleavings of cleans with outstanding packets.)
func (g *PacketGen) RunDeep() {
	w := g.w
	a, b := w.Chains[0], w.Chains[1]
	w.Connect(a, b)
	w.Connect(b, a)
	n := 10 + g.r.Intn(7)
	for i := 0; i < n; i++ {
		data, tok := g.randData()
		seq := a.App.TIBCKeeper.PacketKeeper.GetNextSequenceSend(a.GetContext(), a.ChainName, b.ChainName)
		p := packettypes.NewPacket(data, seq, a.ChainName, b.ChainName, "", "tibcmock")
		if w.KSend(a, p, tok) == nil {
			g.pkts = append(g.pkts, &tpkt{p: p, tok: tok, sentOn: a.ChainName, recvOn: map[string]bool{}, ackedOn: map[string]bool{}})
		}
	}
	perm := func(k int) []int {
		idx := make([]int, k)
		for i := range idx {
			idx[i] = i
		}
		for i := k - 1; i > 0; i-- {
			j := g.r.Intn(i + 1)
			idx[i], idx[j] = idx[j], idx[i]
		}
		return idx
	}
	// receive most of them, out of order
	w.Update(b, a)
	for _, i := range perm(len(g.pkts)) {
		if g.r.Chance(85) {
			t := g.pkts[i]
			h := w.ClientLatest(b, a.ChainName)
			ps := ProofSpec{Kind: "honest", Chain: a.ChainName, Height: h, Key: "commit", Src: t.p.SourceChain, Dst: t.p.DestinationChain, Seq: t.p.Sequence}
			res := w.Recv(b, g.r.Intn(3), t.p, t.tok, ps, h)
			g.stat("deep.recv." + ErrClass(res.Codespace, res.Code))
			if res.Code == 0 {
				t.recvOn[b.ChainName] = true
				t.ack = writtenAck(res)
				t.recvH = h
			}
		}
	}
	// acknowledge a random subset, out of order; interleave cleans
	w.Update(a, b)
	type relayedClean struct {
		cp packettypes.CleanPacket
		ps ProofSpec
		h  uint64
	}
	var relayedCleans []relayedClean
	tryClean := func() {
		var maxSeq uint64 = uint64(len(g.pkts))
		N := uint64(1 + g.r.Intn(int(maxSeq)+1))
		// boundary-directed choices: around the highest acknowledged sequence and the first
		// unacknowledged one
		var maxAcked, firstUnacked uint64
		for _, t := range g.pkts {
			if t.ackedOn[a.ChainName] {
				if t.p.Sequence > maxAcked {
					maxAcked = t.p.Sequence
				}
			} else if firstUnacked == 0 || t.p.Sequence < firstUnacked {
				firstUnacked = t.p.Sequence
			}
		}
		switch g.r.Intn(8) {
		case 0, 1:
			N = maxAcked
		case 2:
			N = maxAcked + 1
		case 3:
			if firstUnacked > 1 {
				N = firstUnacked - 1
			}
		case 4:
			N = firstUnacked
		case 5:
			if maxAcked > firstUnacked && firstUnacked > 0 {
				N = firstUnacked + uint64(g.r.Intn(int(maxAcked-firstUnacked)+1))
			}
		}
		cp := packettypes.NewCleanPacket(N, a.ChainName, b.ChainName, "")
		res := w.Clean(a, g.r.Intn(3), cp)
		g.stat("deep.clean." + ErrClass(res.Codespace, res.Code))
		if res.Code == 0 && g.r.Chance(70) {
			w.Update(b, a)
			h := w.ClientLatest(b, a.ChainName)
			ps := ProofSpec{Kind: "honest", Chain: a.ChainName, Height: h, Key: "clean", Src: a.ChainName, Dst: b.ChainName}
			r2 := w.RecvClean(b, g.r.Intn(3), cp, ps, h)
			g.stat("deep.recvclean." + ErrClass(r2.Codespace, r2.Code))
			if r2.Code == 0 {
				relayedCleans = append(relayedCleans, relayedClean{cp, ps, h})
			}
		}
	}
	for _, i := range perm(len(g.pkts)) {
		t := g.pkts[i]
		if t.ack != nil && g.r.Chance(75) {
			h := w.ClientLatest(a, b.ChainName)
			ps := ProofSpec{Kind: "honest", Chain: b.ChainName, Height: h, Key: "ack", Src: t.p.SourceChain, Dst: t.p.DestinationChain, Seq: t.p.Sequence}
			res := w.Ack(a, g.r.Intn(3), t.p, t.tok, t.ack, ps, h)
			g.stat("deep.ack." + ErrClass(res.Codespace, res.Code))
			if res.Code == 0 {
				t.ackedOn[a.ChainName] = true
				t.ackH = h
			}
		}
		if g.r.Chance(35) {
			tryClean()
		}
	}
	for k := 0; k < 6; k++ {
		tryClean()
	}
	// sure progress: complete the packets in sequence order up to two cut points; clean and relay
	// the clean at each (gives the receiving chain at least two successive clean points)
	start := 0
	for _, cut := range []int{len(g.pkts) / 2, len(g.pkts)} {
		for i := start; i < cut; i++ {
			t := g.pkts[i]
			if !t.recvOn[b.ChainName] {
				w.Update(b, a)
				h := w.ClientLatest(b, a.ChainName)
				ps := ProofSpec{Kind: "honest", Chain: a.ChainName, Height: h, Key: "commit", Src: t.p.SourceChain, Dst: t.p.DestinationChain, Seq: t.p.Sequence}
				if res := w.Recv(b, 0, t.p, t.tok, ps, h); res.Code == 0 {
					t.recvOn[b.ChainName] = true
					t.ack = writtenAck(res)
					t.recvH = h
				}
			}
			if t.ack != nil && !t.ackedOn[a.ChainName] {
				w.Update(a, b)
				h := w.ClientLatest(a, b.ChainName)
				ps := ProofSpec{Kind: "honest", Chain: b.ChainName, Height: h, Key: "ack", Src: t.p.SourceChain, Dst: t.p.DestinationChain, Seq: t.p.Sequence}
				if res := w.Ack(a, 0, t.p, t.tok, t.ack, ps, h); res.Code == 0 {
					t.ackedOn[a.ChainName] = true
					t.ackH = h
				}
			}
		}
		start = cut
		cp := packettypes.NewCleanPacket(uint64(cut), a.ChainName, b.ChainName, "")
		res := w.Clean(a, 0, cp)
		g.stat("deep.cut-clean." + ErrClass(res.Codespace, res.Code))
		if res.Code == 0 {
			w.Update(b, a)
			h := w.ClientLatest(b, a.ChainName)
			ps := ProofSpec{Kind: "honest", Chain: a.ChainName, Height: h, Key: "clean", Src: a.ChainName, Dst: b.ChainName}
			r2 := w.RecvClean(b, 0, cp, ps, h)
			g.stat("deep.cut-recvclean." + ErrClass(r2.Codespace, r2.Code))
			if r2.Code == 0 {
				relayedCleans = append(relayedCleans, relayedClean{cp, ps, h})
			}
		}
	}
	// a relayer submits earlier clean messages again, each with its original proof (still genuine
	// for its height): the clean point of the receiving chain must not move back, or the packet
	// replays below would be delivered a second time
	for i, rc := range relayedCleans {
		if i+1 < len(relayedCleans) && g.r.Chance(70) {
			r := w.RecvClean(b, g.r.Intn(3), rc.cp, rc.ps, rc.h)
			g.stat("deep.replay-recvclean." + ErrClass(r.Codespace, r.Code))
		}
	}
	// replays after cleaning: the *original* messages (old proof heights still have consensus
	// states on the receiving client, and the old proofs are still genuine for those heights)
	for _, t := range g.pkts {
		if t.recvH != 0 && g.r.Chance(60) {
			ps := ProofSpec{Kind: "honest", Chain: a.ChainName, Height: t.recvH, Key: "commit", Src: t.p.SourceChain, Dst: t.p.DestinationChain, Seq: t.p.Sequence}
			res := w.Recv(b, g.r.Intn(3), t.p, t.tok, ps, t.recvH)
			g.stat("deep.replay-recv." + ErrClass(res.Codespace, res.Code))
		}
		if t.ackH != 0 && g.r.Chance(40) {
			ps := ProofSpec{Kind: "honest", Chain: b.ChainName, Height: t.ackH, Key: "ack", Src: t.p.SourceChain, Dst: t.p.DestinationChain, Seq: t.p.Sequence}
			res := w.Ack(a, g.r.Intn(3), t.p, t.tok, t.ack, ps, t.ackH)
			g.stat("deep.replay-ack." + ErrClass(res.Codespace, res.Code))
		}
	}
	for k := 0; k < 10; k++ {
		if g.r.Chance(50) {
			g.opRecv()
		} else {
			g.opAck()
		}
	}
}

// RunC13 replays the two witnesses of Props/C13 on real chains (fully connected 3-chain world):
// a packet naming relay chain 1 is delivered to its destination with the relay field removed;
// another one is delivered to the relay chain with its port edited.
func (g *PacketGen) RunC13() {
	w := g.w
	a, r, c := w.Chains[0], w.Chains[1], w.Chains[2]
	_ = w.SetRules(r, []string{"*,*,*"})
	send := func() *tpkt {
		data, tok := g.randData()
		seq := a.App.TIBCKeeper.PacketKeeper.GetNextSequenceSend(a.GetContext(), a.ChainName, c.ChainName)
		p := packettypes.NewPacket(data, seq, a.ChainName, c.ChainName, r.ChainName, "tibcmock")
		if w.KSend(a, p, tok) != nil {
			return nil
		}
		t := &tpkt{p: p, tok: tok, sentOn: a.ChainName, recvOn: map[string]bool{}, ackedOn: map[string]bool{}}
		g.pkts = append(g.pkts, t)
		return t
	}
	if t := send(); t != nil {
		h := w.Update(c, a)
		p := t.p
		p.RelayChain = ""
		ps := ProofSpec{Kind: "honest", Chain: a.ChainName, Height: h, Key: "commit", Src: p.SourceChain, Dst: p.DestinationChain, Seq: p.Sequence}
		if res := w.Recv(c, 1, p, t.tok, ps, h); res.Code == 0 {
			w.hit("C13", "recv-accepted-with-relay-edited "+pkeyStr(p))
			t.recvOn[c.ChainName] = true
		}
	}
	if t := send(); t != nil {
		h := w.Update(r, a)
		p := t.p
		p.Port = "elsewhere"
		ps := ProofSpec{Kind: "honest", Chain: a.ChainName, Height: h, Key: "commit", Src: p.SourceChain, Dst: p.DestinationChain, Seq: p.Sequence}
		if res := w.Recv(r, 1, p, t.tok, ps, h); res.Code == 0 {
			w.hit("C13", "recv-accepted-with-port-edited "+pkeyStr(p))
			t.recvOn[r.ChainName] = true
		} else {
			// whatever the port, a relay chain runs no application logic: it forwards or answers
			w.hit("C11", "relay-chain-refused-a-packet-for-a-port-it-does-not-bind "+pkeyStr(p))
		}
	}
	// an application acknowledging asynchronously with an empty (non-nil) acknowledgement
	{
		data, tok := g.randData()
		p := packettypes.NewPacket(data, 77, a.ChainName, c.ChainName, "", "tibcmock")
		_ = w.KWriteAck(c, p, tok, []byte{})
		_ = w.KWriteAck(c, p, tok, nil)
	}
	// a relayed packet shown to its destination, relay field intact, with a genuine proof of the
	// *source's* commitment: the destination must insist on the relay chain's commitment
	if t := send(); t != nil {
		h := w.Update(c, a)
		p := t.p
		ps := ProofSpec{Kind: "honest", Chain: a.ChainName, Height: h, Key: "commit", Src: p.SourceChain, Dst: p.DestinationChain, Seq: p.Sequence}
		if res := w.Recv(c, 1, p, t.tok, ps, h); res.Code == 0 {
			t.recvOn[c.ChainName] = true
		}
		g.stat("c13.recv-proven-from-source-instead-of-relay")
	}
	// a relayed packet delivered honestly (A -> R -> C), then shown to C once more with the first
	// letter of its source chain name percent-encoded and the relay chain's genuine proof of the
	// real key: another spelling is another packet, for which no commitment exists
	if t := send(); t != nil {
		p := t.p
		h := w.Update(r, a)
		ps := ProofSpec{Kind: "honest", Chain: a.ChainName, Height: h, Key: "commit", Src: p.SourceChain, Dst: p.DestinationChain, Seq: p.Sequence}
		if w.Recv(r, 1, p, t.tok, ps, h).Code == 0 {
			t.recvOn[r.ChainName] = true
			h2 := w.Update(c, r)
			ps2 := ProofSpec{Kind: "honest", Chain: r.ChainName, Height: h2, Key: "commit", Src: p.SourceChain, Dst: p.DestinationChain, Seq: p.Sequence}
			if res := w.Recv(c, 1, p, t.tok, ps2, h2); res.Code == 0 {
				t.recvOn[c.ChainName] = true
				if ack := writtenAck(res); ack != nil {
					t.ack, t.ackOn = ack, c.ChainName
				}
				pe := p
				pe.SourceChain = fmt.Sprintf("%%%02x", p.SourceChain[0]) + p.SourceChain[1:]
				h3 := w.Update(c, r)
				ps3 := ProofSpec{Kind: "honest", Chain: r.ChainName, Height: h3, Key: "commit", Src: p.SourceChain, Dst: p.DestinationChain, Seq: p.Sequence}
				w.Recv(c, 1, pe, t.tok, ps3, h3)
				g.stat("c13.recv-with-percent-encoded-source")
			}
		}
	}
	// a genuine proof with a rewritten leaf operation, next to the packet it then seems to prove
	// (same key, data = sha256 of the committed data)
	{
		data, tok := g.randData()
		seq := a.App.TIBCKeeper.PacketKeeper.GetNextSequenceSend(a.GetContext(), a.ChainName, r.ChainName)
		p := packettypes.NewPacket(data, seq, a.ChainName, r.ChainName, "", "tibcmock")
		if w.KSend(a, p, tok) == nil {
			t := &tpkt{p: p, tok: tok, sentOn: a.ChainName, recvOn: map[string]bool{}, ackedOn: map[string]bool{}}
			g.pkts = append(g.pkts, t)
			h := w.Update(r, a)
			d2 := sha256.Sum256(data)
			pf := p
			pf.Data = d2[:]
			ps := ProofSpec{Kind: "leafop", Chain: a.ChainName, Height: h, Key: "commit", Src: p.SourceChain, Dst: p.DestinationChain, Seq: p.Sequence}
			w.Recv(r, 1, pf, w.RawTok(pf.Data), ps, h)
			g.stat("c13.recv-with-rewritten-leaf-op")
		}
	}
	// a direct packet A -> R, delivered and acknowledged by R; the genuine acknowledgement is then
	// shown to A with the port replaced by one no application is bound to: this the source does
	// refuse (route lookup), and the acknowledgement can still be processed afterwards
	{
		data, tok := g.randData()
		seq := a.App.TIBCKeeper.PacketKeeper.GetNextSequenceSend(a.GetContext(), a.ChainName, r.ChainName)
		p := packettypes.NewPacket(data, seq, a.ChainName, r.ChainName, "", "tibcmock")
		if w.KSend(a, p, tok) == nil {
			t := &tpkt{p: p, tok: tok, sentOn: a.ChainName, recvOn: map[string]bool{}, ackedOn: map[string]bool{}}
			g.pkts = append(g.pkts, t)
			h := w.Update(r, a)
			ps := ProofSpec{Kind: "honest", Chain: a.ChainName, Height: h, Key: "commit", Src: p.SourceChain, Dst: p.DestinationChain, Seq: p.Sequence}
			if res := w.Recv(r, 1, p, tok, ps, h); res.Code == 0 {
				t.recvOn[r.ChainName] = true
				if ack := writtenAck(res); ack != nil {
					t.ack = ack
					h2 := w.Update(a, r)
					pe := p
					pe.Port = "elsewhere"
					aps := ProofSpec{Kind: "honest", Chain: r.ChainName, Height: h2, Key: "ack", Src: p.SourceChain, Dst: p.DestinationChain, Seq: p.Sequence}
					// the genuine acknowledgement and proof next to a packet with other data (same
					// source, destination, sequence): the source holds the commitment of another packet
					pd := p
					fdata, ftok := g.randData()
					for string(fdata) == string(p.Data) {
						fdata, ftok = g.randData()
					}
					pd.Data = fdata
					w.Ack(a, 1, pd, ftok, ack, aps, h2)
					w.Ack(a, 1, pe, tok, ack, aps, h2)
					if res := w.Ack(a, 1, p, tok, ack, aps, h2); res.Code == 0 {
						t.ackedOn[a.ChainName] = true
					} else {
						w.hit("C03", "genuine-acknowledgement-refused-after-a-port-edited-attempt "+pkeyStr(p))
						w.hit("C13", "genuine-acknowledgement-refused-after-a-port-edited-attempt "+pkeyStr(p))
					}
				}
			}
		}
	}
	g.runCleanForeignLane(c, r, a)
}

// runCleanForeignLane: chain R is the relay chain of lane S -> D (one packet delivered, its
// acknowledgement not yet back on R) and the source of its own lane R -> D (one packet fully
// acknowledged). MsgCleanPacket{1, source S, destination D} submitted on R can only ever be a clean
// of R's own lane (the source field of a clean submitted on a chain is that chain): it must not
// touch lane S -> D, whose acknowledgement must still be able to travel D -> R -> S.
func (g *PacketGen) runCleanForeignLane(S, R, D *tibctesting.TestChain) {
	w := g.w
	pk := R.App.TIBCKeeper.PacketKeeper
	data, tok := g.randData()
	seq := S.App.TIBCKeeper.PacketKeeper.GetNextSequenceSend(S.GetContext(), S.ChainName, D.ChainName)
	p := packettypes.NewPacket(data, seq, S.ChainName, D.ChainName, R.ChainName, "tibcmock")
	if seq != 1 || w.KSend(S, p, tok) != nil {
		return
	}
	t := &tpkt{p: p, tok: tok, sentOn: S.ChainName, recvOn: map[string]bool{}, ackedOn: map[string]bool{}}
	g.pkts = append(g.pkts, t)
	h := w.Update(R, S)
	ps := ProofSpec{Kind: "honest", Chain: S.ChainName, Height: h, Key: "commit", Src: p.SourceChain, Dst: p.DestinationChain, Seq: p.Sequence}
	if w.Recv(R, 1, p, tok, ps, h).Code != 0 {
		return
	}
	t.recvOn[R.ChainName] = true
	h = w.Update(D, R)
	ps = ProofSpec{Kind: "honest", Chain: R.ChainName, Height: h, Key: "commit", Src: p.SourceChain, Dst: p.DestinationChain, Seq: p.Sequence}
	res := w.Recv(D, 1, p, tok, ps, h)
	if res.Code != 0 {
		return
	}
	recvPs, recvH := ps, h
	t.recvOn[D.ChainName] = true
	t.ack, t.ackOn = writtenAck(res), D.ChainName
	// R's own lane
	data2, tok2 := g.randData()
	seq2 := pk.GetNextSequenceSend(R.GetContext(), R.ChainName, D.ChainName)
	q := packettypes.NewPacket(data2, seq2, R.ChainName, D.ChainName, "", "tibcmock")
	if seq2 != 1 || w.KSend(R, q, tok2) != nil {
		return
	}
	t2 := &tpkt{p: q, tok: tok2, sentOn: R.ChainName, recvOn: map[string]bool{}, ackedOn: map[string]bool{}}
	g.pkts = append(g.pkts, t2)
	h = w.Update(D, R)
	ps = ProofSpec{Kind: "honest", Chain: R.ChainName, Height: h, Key: "commit", Src: q.SourceChain, Dst: q.DestinationChain, Seq: q.Sequence}
	res = w.Recv(D, 1, q, tok2, ps, h)
	if res.Code != 0 || writtenAck(res) == nil {
		return
	}
	t2.recvOn[D.ChainName] = true
	t2.ack, t2.ackOn = writtenAck(res), D.ChainName
	h = w.Update(R, D)
	aps := ProofSpec{Kind: "honest", Chain: D.ChainName, Height: h, Key: "ack", Src: q.SourceChain, Dst: q.DestinationChain, Seq: q.Sequence}
	if w.Ack(R, 1, q, tok2, t2.ack, aps, h).Code != 0 {
		return
	}
	t2.ackedOn[R.ChainName] = true
	// the clean message names the foreign lane
	foreignBefore := w.cleanPoint(R, S.ChainName, D.ChainName)
	hadReceipt := pk.HasPacketReceipt(R.GetContext(), S.ChainName, D.ChainName, 1)
	cres := w.Clean(R, 1, packettypes.NewCleanPacket(1, S.ChainName, D.ChainName, ""))
	g.stat("c13.clean-naming-a-foreign-lane." + ErrClass(cres.Codespace, cres.Code))
	if w.cleanPoint(R, S.ChainName, D.ChainName) != foreignBefore || (hadReceipt && !pk.HasPacketReceipt(R.GetContext(), S.ChainName, D.ChainName, 1)) {
		w.hit("C10", fmt.Sprintf("clean-submitted-on-%s-changed-lane-%s/%s-it-is-only-the-relay-of", R.ChainName, S.ChainName, D.ChainName))
	}
	// the pending acknowledgement of lane S -> D must still pass R
	h = w.Update(R, D)
	aps = ProofSpec{Kind: "honest", Chain: D.ChainName, Height: h, Key: "ack", Src: p.SourceChain, Dst: p.DestinationChain, Seq: p.Sequence}
	if ar := w.Ack(R, 1, p, tok, t.ack, aps, h); ar.Code == 0 {
		t.ackedOn[R.ChainName] = true
	} else {
		w.hit("C10", "acknowledgement-refused-for-good-on-the-relay-chain-after-a-clean-naming-its-lane "+pkeyStr(p))
		return
	}
	// complete the relayed round trip (acknowledgement R -> S), then clean the relayed lane on
	// every chain: S (source), R (proof from S), D (proof from R); afterwards the original receive
	// message, replayed on D with its original proof, must be refused
	h = w.Update(S, R)
	aps = ProofSpec{Kind: "honest", Chain: R.ChainName, Height: h, Key: "ack", Src: p.SourceChain, Dst: p.DestinationChain, Seq: p.Sequence}
	if w.Ack(S, 1, p, tok, t.ack, aps, h).Code != 0 {
		return
	}
	t.ackedOn[S.ChainName] = true
	cp := packettypes.NewCleanPacket(1, S.ChainName, D.ChainName, R.ChainName)
	if w.Clean(S, 1, cp).Code != 0 {
		return
	}
	h = w.Update(R, S)
	cps := ProofSpec{Kind: "honest", Chain: S.ChainName, Height: h, Key: "clean", Src: S.ChainName, Dst: D.ChainName}
	if w.RecvClean(R, 1, cp, cps, h).Code != 0 {
		return
	}
	h = w.Update(D, R)
	cps = ProofSpec{Kind: "honest", Chain: R.ChainName, Height: h, Key: "clean", Src: S.ChainName, Dst: D.ChainName}
	rc := w.RecvClean(D, 1, cp, cps, h)
	g.stat("c13.relayed-clean-on-destination." + ErrClass(rc.Codespace, rc.Code))
	if rc.Code == 0 && w.cleanPoint(D, S.ChainName, D.ChainName) != 1 {
		w.hit("C10", fmt.Sprintf("relayed-clean-accepted-on-the-destination-but-its-clean-point-for-%s/%s-did-not-move", S.ChainName, D.ChainName))
	}
	w.Recv(D, 1, p, tok, recvPs, recvH)
	g.stat("c13.replay-after-relayed-clean")
}
