package harness

// Generator for the token-transfer streams (C04, C05, C06, C11, C19 and the app side of C09):
// users issue / mint / transfer NFTs and multi-tokens with ids drawn from the token modules'
// own grammars (heavily weighted towards path-shaped strings), send them across 2-4 real chains
// over direct and relayed routes, relayers deliver packets and acknowledgements in random order.

import (
	"fmt"
	"strings"

	abci "github.com/cometbft/cometbft/abci/types"
	sdk "github.com/cosmos/cosmos-sdk/types"
	mttypes "mods.irisnet.org/modules/mt/types"
	nfttypes "mods.irisnet.org/modules/nft/types"

	packettypes "github.com/bianjieai/tibc-go/modules/tibc/core/04-packet/types"
	tibctesting "github.com/bianjieai/tibc-go/modules/tibc/testing"
)

type TransferGen struct {
	w     *World
	r     *Rng
	stats map[string]int
	relay bool
	mt    bool // multi-token stream instead of NFT
	pkts  []*tpkt
	// known classes / ids per chain (local class names)
	classes map[string][]string
	ids     []string
	mtIds   map[string][]string // chain|class -> ids
	led     *Ledger
	script  int // 0 = random only, 1 = forged-class scenario first, 2 = round trips first
}

func (g *TransferGen) stat(k string) { g.stats[k]++ }

func (g *TransferGen) chain(i int) *tibctesting.TestChain { return g.w.Chains[i] }
func (g *TransferGen) randChainIdx() int                  { return g.r.Intn(len(g.w.Chains)) }

// ---- user-level token ops ----------------------------------------------------------------

func (w *World) userOutcome(c *tibctesting.TestChain, res *abci.ExecTxResult) string {
	return fmt.Sprintf("res=%s |  | %s", ErrClass(res.Codespace, res.Code), w.Dump(c))
}

func (w *World) NftIssue(c *tibctesting.TestChain, signer int, class string, mintRestricted bool) *abci.ExecTxResult {
	sender := c.SenderAccounts[signer].SenderAccount.GetAddress().String()
	msg := nfttypes.NewMsgIssueDenom(class, "", "", sender, "", mintRestricted, false, "", "", "", "")
	before := w.FullDump(c)
	res := w.Tx(c, signer, msg)
	w.failUnchanged(c, res, before, "nft-issue")
	mr := 0
	if mintRestricted {
		mr = 1
	}
	w.emit(fmt.Sprintf("nftissue %s %s %s %d", c.ChainName, w.CanonAddr(sender), hxs(class), mr), w.userOutcome(c, res))
	return res
}

func (w *World) NftMint(c *tibctesting.TestChain, signer int, class, id, uri, recipient string) *abci.ExecTxResult {
	sender := c.SenderAccounts[signer].SenderAccount.GetAddress().String()
	msg := nfttypes.NewMsgMintNFT(id, class, "", uri, "", "", sender, recipient)
	before := w.FullDump(c)
	res := w.Tx(c, signer, msg)
	w.failUnchanged(c, res, before, "nft-mint")
	w.emit(fmt.Sprintf("nftmint %s %s %s %s %s %s", c.ChainName, w.CanonAddr(sender), hxs(w.classCanon(c, class, false)), hxs(id), hxs(uri), w.CanonAddr(recipient)), w.userOutcome(c, res))
	return res
}

func (w *World) NftSend(c *tibctesting.TestChain, signer int, class, id, recipient string) *abci.ExecTxResult {
	sender := c.SenderAccounts[signer].SenderAccount.GetAddress().String()
	msg := nfttypes.NewMsgTransferNFT(id, class, nfttypes.DoNotModify, nfttypes.DoNotModify, nfttypes.DoNotModify, nfttypes.DoNotModify, sender, recipient)
	before := w.FullDump(c)
	res := w.Tx(c, signer, msg)
	w.failUnchanged(c, res, before, "nft-send")
	w.emit(fmt.Sprintf("nftsend %s %s %s %s %s", c.ChainName, w.CanonAddr(sender), hxs(w.classCanon(c, class, false)), hxs(id), w.CanonAddr(recipient)), w.userOutcome(c, res))
	return res
}

func (w *World) NftBurn(c *tibctesting.TestChain, signer int, class, id string) *abci.ExecTxResult {
	sender := c.SenderAccounts[signer].SenderAccount.GetAddress().String()
	msg := nfttypes.NewMsgBurnNFT(sender, id, class)
	before := w.FullDump(c)
	res := w.Tx(c, signer, msg)
	w.failUnchanged(c, res, before, "nft-burn")
	w.emit(fmt.Sprintf("nftburn %s %s %s %s", c.ChainName, w.CanonAddr(sender), hxs(w.classCanon(c, class, false)), hxs(id)), w.userOutcome(c, res))
	return res
}

func (w *World) failUnchanged(c *tibctesting.TestChain, res *abci.ExecTxResult, before, what string) {
	if res.Code != 0 && w.FullDump(c) != before {
		w.hit("C19", "failed-"+what+"-changed-state")
	}
}

// MtIssue issues a denom; the module generates the id, which is returned.
func (w *World) MtIssue(c *tibctesting.TestChain, signer int) string {
	sender := c.SenderAccounts[signer].SenderAccount.GetAddress().String()
	msg := mttypes.NewMsgIssueDenom("name", "", sender)
	res := w.Tx(c, signer, msg)
	id := ""
	for _, e := range res.Events {
		if e.Type == mttypes.EventTypeIssueDenom {
			id = attr(e, mttypes.AttributeKeyDenomID)
		}
	}
	if res.Code != 0 || id == "" {
		return ""
	}
	w.emit(fmt.Sprintf("mtissue %s %s %s", c.ChainName, w.CanonAddr(sender), hxs(id)), w.userOutcome(c, res))
	return id
}

// MtMint mints `amount` of an existing id, or of a fresh id when id == "" (returns the id).
func (w *World) MtMint(c *tibctesting.TestChain, signer int, class, id string, amount uint64, recipient string) (string, *abci.ExecTxResult) {
	sender := c.SenderAccounts[signer].SenderAccount.GetAddress().String()
	msg := mttypes.NewMsgMintMT(id, class, amount, "", sender, recipient)
	before := w.FullDump(c)
	res := w.Tx(c, signer, msg)
	w.failUnchanged(c, res, before, "mt-mint")
	fresh := 0
	outID := id
	if id == "" {
		fresh = 1
		for _, e := range res.Events {
			if e.Type == mttypes.EventTypeMintMT {
				outID = attr(e, mttypes.AttributeKeyMTID)
			}
		}
		if res.Code != 0 {
			outID = "unissued"
		}
	}
	rc := recipient
	if strings.TrimSpace(rc) == "" {
		rc = sender
	}
	w.emit(fmt.Sprintf("mtmint %s %s %s %s %d %d %s", c.ChainName, w.CanonAddr(sender), hxs(w.classCanon(c, class, true)), hxs(outID), fresh, amount, w.CanonAddr(rc)), w.userOutcome(c, res))
	return outID, res
}

func (w *World) MtSend(c *tibctesting.TestChain, signer int, class, id string, amount uint64, recipient string) *abci.ExecTxResult {
	sender := c.SenderAccounts[signer].SenderAccount.GetAddress().String()
	msg := mttypes.NewMsgTransferMT(id, class, sender, recipient, amount)
	before := w.FullDump(c)
	res := w.Tx(c, signer, msg)
	w.failUnchanged(c, res, before, "mt-send")
	w.emit(fmt.Sprintf("mtsend %s %s %s %s %d %s", c.ChainName, w.CanonAddr(sender), hxs(w.classCanon(c, class, true)), hxs(id), amount, w.CanonAddr(recipient)), w.userOutcome(c, res))
	return res
}

func (w *World) MtBurn(c *tibctesting.TestChain, signer int, class, id string, amount uint64) *abci.ExecTxResult {
	sender := c.SenderAccounts[signer].SenderAccount.GetAddress().String()
	msg := mttypes.NewMsgBurnMT(sender, id, class, amount)
	before := w.FullDump(c)
	res := w.Tx(c, signer, msg)
	w.failUnchanged(c, res, before, "mt-burn")
	w.emit(fmt.Sprintf("mtburn %s %s %s %s %d", c.ChainName, w.CanonAddr(sender), hxs(w.classCanon(c, class, true)), hxs(id), amount), w.userOutcome(c, res))
	return res
}

// ---- generator ---------------------------------------------------------------------------

func (g *TransferGen) setup() {
	w := g.w
	n := len(w.Chains)
	for i := 0; i < n; i++ {
		for j := 0; j < n; j++ {
			if i == j {
				continue
			}
			if g.relay && ((i == 0 && j == 2) || (i == 2 && j == 0)) {
				continue
			}
			w.Connect(w.Chains[i], w.Chains[j])
		}
	}
	if g.relay {
		rules := [][]string{
			{"*,*,*"},
			{"*,*,*"},
			{fmt.Sprintf("%s,%s,NFT", w.Names[0], w.Names[2]), fmt.Sprintf("%s,%s,MT", w.Names[0], w.Names[2]), fmt.Sprintf("%s,*,*", w.Names[2])},
			{fmt.Sprintf("%s,*,*", w.Names[0])},
			{},
		}[g.r.Intn(5)]
		_ = w.SetRules(w.Chains[1], rules)
	}
	g.classes = map[string][]string{}
	g.mtIds = map[string][]string{}
	g.led = newLedger()
}

// class ids the NFT module accepts, weighted to path-shaped ones
func (g *TransferGen) randClass() string {
	w := g.w
	a, b := w.Names[g.r.Intn(len(w.Names))], w.Names[g.r.Intn(len(w.Names))]
	switch g.r.Intn(12) {
	case 0:
		return "dog"
	case 1:
		return "cat"
	case 2:
		return "nftdog"
	case 3:
		return "nft/" + a + "/" + b + "/dog" // shaped like a voucher path
	case 4:
		return "ab/cd"
	case 5:
		return "nft/dog"
	case 6:
		return "nftx/" + a + "/" + b + "/dog"
	case 7:
		return "tibc-abc" // reserved keyword: issue must fail
	case 8:
		return "a/b/c/d"
	case 9:
		return "mtdog"
	default:
		return []string{"dog", "cat", "bird"}[g.r.Intn(3)]
	}
}

func (g *TransferGen) randId() string {
	return []string{"rex", "tom", "id1", "a/b", "rex"}[g.r.Intn(5)]
}

func (g *TransferGen) randRecipient(ci int) string {
	w := g.w
	// (the transfer modules' own accounts are not used as receivers here: a token delivered to
	// the escrow account is indistinguishable from an escrowed one for the ownership oracle)
	switch g.r.Intn(12) {
	case 0:
		return "not-an-address"
	case 1:
		return " "
	}
	return w.Acct(ci, g.r.Intn(3)).String()
}

func (w *World) addrOfModule(name string) string {
	for a, c := range w.addr {
		if c == "mod:"+name {
			return a
		}
	}
	return ""
}

// localClasses lists every NFT class existing on chain i (real store)
func (g *TransferGen) localClasses(i int) []string {
	c := g.chain(i)
	cols, _ := c.App.NftKeeper.GetCollections(c.GetContext())
	var out []string
	for _, col := range cols {
		out = append(out, col.Denom.Id)
	}
	return out
}

func (g *TransferGen) opIssueMint() {
	i := g.randChainIdx()
	c := g.chain(i)
	if g.mt {
		cls := g.mtClasses(i)
		if len(cls) == 0 || g.r.Chance(20) {
			if id := g.w.MtIssue(c, g.r.Intn(3)); id != "" {
				g.stat("mt.issue.ok")
			}
			return
		}
		class := cls[g.r.Intn(len(cls))]
		id := ""
		ids := g.mtIds[c.ChainName+"|"+class]
		if len(ids) > 0 && g.r.Chance(50) {
			id = ids[g.r.Intn(len(ids))]
		}
		amt := g.randAmount()
		signer := g.r.Intn(3)
		if d, ok := c.App.MtKeeper.GetDenom(c.GetContext(), class); ok && g.r.Chance(85) {
			for j := 0; j < 3; j++ {
				if g.w.Acct(i, j).String() == d.Owner {
					signer = j
				}
			}
		}
		rcpt := ""
		if g.r.Chance(50) {
			rcpt = g.w.Acct(i, g.r.Intn(3)).String()
		}
		out, res := g.w.MtMint(c, signer, class, id, amt, rcpt)
		g.stat("mt.mint." + ErrClass(res.Codespace, res.Code))
		g.mtAfterMint(c, class, out, amt, res)
		if res.Code == 0 && id == "" {
			g.mtIds[c.ChainName+"|"+class] = append(ids, out)
		}
		return
	}
	if g.r.Chance(40) {
		class := g.randClass()
		res := g.w.NftIssue(c, g.r.Intn(3), class, g.r.Chance(30))
		g.stat("nft.issue." + ErrClass(res.Codespace, res.Code))
		return
	}
	cls := g.localClasses(i)
	if len(cls) == 0 {
		return
	}
	class := cls[g.r.Intn(len(cls))]
	mintId := g.randId()
	signer := g.r.Intn(3)
	if d, err := c.App.NftKeeper.GetDenomInfo(c.GetContext(), class); err == nil && g.r.Chance(80) {
		for j := 0; j < 3; j++ {
			if g.w.Acct(i, j).String() == d.Creator {
				signer = j
			}
		}
	}
	res := g.w.NftMint(c, signer, class, mintId, "uri", g.w.Acct(i, g.r.Intn(3)).String())
	g.stat("nft.mint." + ErrClass(res.Codespace, res.Code))
	if res.Code == 0 && strings.HasPrefix(class, "tibc-") {
		g.w.hit("C04", fmt.Sprintf("user-minted-into-a-voucher-class class=%s id=%s (a voucher without a delivered packet)", class, mintId))
	}
	g.nftAfterMint(c, class, mintId, res)
}

func (g *TransferGen) mtClasses(i int) []string {
	c := g.chain(i)
	var out []string
	for _, d := range c.App.MtKeeper.GetDenoms(c.GetContext()) {
		out = append(out, d.Id)
	}
	return out
}

func (g *TransferGen) randAmount() uint64 {
	switch g.r.Intn(10) {
	case 0:
		return 1
	case 1:
		return 2
	case 2:
		return 1 << 63
	case 3:
		return ^uint64(0) - 1
	case 4:
		return ^uint64(0)
	case 5:
		return 0
	}
	return uint64(1 + g.r.Intn(100))
}

// a random existing token on chain i: (class, id, owner index or -1)
func (g *TransferGen) randToken(i int) (string, string, int) {
	c := g.chain(i)
	ctx := c.GetContext()
	if g.mt {
		cls := g.mtClasses(i)
		if len(cls) == 0 {
			return "", "", -1
		}
		class := cls[g.r.Intn(len(cls))]
		mts := c.App.MtKeeper.GetMTs(ctx, class)
		for tries := 0; tries < 8 && len(mts) == 0; tries++ {
			class = cls[g.r.Intn(len(cls))]
			mts = c.App.MtKeeper.GetMTs(ctx, class)
		}
		if len(mts) == 0 {
			return class, "none", g.r.Intn(3)
		}
		m := mts[g.r.Intn(len(mts))]
		// pick a holder
		for tries := 0; tries < 6; tries++ {
			j := g.r.Intn(3)
			if c.App.MtKeeper.GetBalance(ctx, class, m.GetID(), g.w.Acct(i, j)) > 0 {
				return class, m.GetID(), j
			}
		}
		return class, m.GetID(), g.r.Intn(3)
	}
	cols, _ := c.App.NftKeeper.GetCollections(ctx)
	var cands [][3]string
	for _, col := range cols {
		for _, n := range col.NFTs {
			cands = append(cands, [3]string{col.Denom.Id, n.Id, n.Owner})
		}
	}
	if len(cands) == 0 {
		return "", "", -1
	}
	t := cands[g.r.Intn(len(cands))]
	owner := -1
	for j := 0; j < 3; j++ {
		if g.w.Acct(i, j).String() == t[2] {
			owner = j
		}
	}
	return t[0], t[1], owner
}

func (g *TransferGen) opUserMove() {
	i := g.randChainIdx()
	c := g.chain(i)
	class, id, owner := g.randToken(i)
	if class == "" {
		return
	}
	signer := owner
	if signer < 0 || g.r.Chance(15) {
		signer = g.r.Intn(3)
	}
	if g.mt {
		ctx := c.GetContext()
		bal := c.App.MtKeeper.GetBalance(ctx, class, id, g.w.Acct(i, signer))
		amt := g.pickAmount(bal)
		if g.r.Chance(80) {
			res := g.w.MtSend(c, signer, class, id, amt, g.w.Acct(i, g.r.Intn(3)).String())
			g.stat("mt.usersend." + ErrClass(res.Codespace, res.Code))
		} else {
			res := g.w.MtBurn(c, signer, class, id, amt)
			g.stat("mt.userburn." + ErrClass(res.Codespace, res.Code))
			g.mtAfterBurn(c, class, id, amt, res)
		}
		return
	}
	if g.r.Chance(85) {
		res := g.w.NftSend(c, signer, class, id, g.w.Acct(i, g.r.Intn(3)).String())
		g.stat("nft.usersend." + ErrClass(res.Codespace, res.Code))
	} else {
		res := g.w.NftBurn(c, signer, class, id)
		g.stat("nft.userburn." + ErrClass(res.Codespace, res.Code))
		g.nftAfterBurn(c, class, id, res)
	}
}

func (g *TransferGen) pickAmount(bal uint64) uint64 {
	switch g.r.Intn(8) {
	case 0:
		return bal
	case 1:
		return bal + 1
	case 2:
		return 0
	case 3:
		if bal > 1 {
			return bal - 1
		}
	}
	if bal == 0 {
		return 1
	}
	return 1 + g.r.Next()%bal
}

func (g *TransferGen) opTransfer() {
	w := g.w
	i := g.randChainIdx()
	c := g.chain(i)
	class, id, owner := g.randToken(i)
	if class == "" {
		return
	}
	signer := owner
	if signer < 0 || g.r.Chance(10) {
		signer = g.r.Intn(3)
	}
	j := g.randChainIdx()
	for j == i && g.r.Chance(92) {
		j = g.randChainIdx()
	}
	dst := w.Names[j]
	relay := ""
	if g.relay && ((i == 0 && j == 2) || (i == 2 && j == 0)) {
		relay = w.Names[1]
		if g.r.Chance(8) {
			relay = ""
		}
	} else if g.r.Chance(4) {
		relay = w.Names[g.randChainIdx()]
	}
	if g.r.Chance(3) {
		dst = "unknownchain9"
		if g.relay && g.r.Chance(70) {
			relay = w.Names[1]
		}
	}
	rcpt := g.randRecipient(j)
	var p *packettypes.Packet
	var res *abci.ExecTxResult
	before := w.FullDump(c)
	if g.mt {
		bal := c.App.MtKeeper.GetBalance(c.GetContext(), class, id, w.Acct(i, signer))
		p, res = w.MtTransfer(c, signer, class, id, rcpt, dst, relay, "", g.pickAmount(bal))
		g.stat("mt.transfer." + ErrClass(res.Codespace, res.Code))
	} else {
		p, res = w.NftTransfer(c, signer, class, id, rcpt, dst, relay, "")
		g.stat("nft.transfer." + ErrClass(res.Codespace, res.Code))
	}
	g.sendOracle(c, p, res, before)
	senderAddr := w.Acct(i, signer).String()
	if g.mt {
		g.mtAfterTransfer(c, class, id, senderAddr, p)
	} else {
		g.nftAfterTransfer(c, class, id, senderAddr, p)
	}
	if p != nil {
		tok := w.PayloadTok(p.Port, p.Data)
		g.pkts = append(g.pkts, &tpkt{p: *p, tok: tok, sentOn: c.ChainName, recvOn: map[string]bool{}, ackedOn: map[string]bool{}})
	}
}

// opRelay advances a random in-flight packet by one honest relayer step (recv on next hop, or
// ack on the previous hop), occasionally replaying an already processed step.
func (g *TransferGen) opRelay() {
	w := g.w
	if len(g.pkts) == 0 {
		return
	}
	t := g.pkts[g.r.Intn(len(g.pkts))]
	if g.r.Chance(60) {
		// prefer the most recent unfinished packets
		for k := len(g.pkts) - 1; k >= 0; k-- {
			if !g.pkts[k].ackedOn[g.pkts[k].p.SourceChain] {
				t = g.pkts[k]
				if g.r.Chance(60) {
					break
				}
			}
		}
	}
	p := t.p
	hops := route(p)
	// receive phase
	for _, hn := range hops {
		if !t.recvOn[hn] && t.ack == nil {
			c := w.Chain(hn)
			if c == nil {
				return
			}
			prover := recvProver(c, p)
			q := w.Chain(prover)
			if q == nil || w.ClientLatest(c, prover) == 0 {
				return
			}
			h := w.Update(c, q)
			if h == 0 {
				return
			}
			ps := ProofSpec{Kind: "honest", Chain: prover, Height: h, Key: "commit", Src: p.SourceChain, Dst: p.DestinationChain, Seq: p.Sequence}
			res := g.recvWithOracles(c, g.r.Intn(3), p, t.tok, ps, h)
			g.stat("relay.recv." + ErrClass(res.Codespace, res.Code))
			if res.Code == 0 {
				t.recvOn[hn] = true
				if a := writtenAck(res); a != nil {
					t.ack = a
					t.ackOn = hn
					g.stat("relay.ack-written." + strings.SplitN(w.AckTok(a), "|", 2)[0])
				}
			} else {
				t.recvOn[hn] = true // do not retry forever
			}
			return
		}
	}
	if t.ack == nil {
		return
	}
	// acknowledgement phase: from the chain that wrote the ack back to the source
	back := []string{}
	if p.RelayChain != "" && t.ackOn != p.RelayChain {
		back = append(back, p.RelayChain)
	}
	back = append(back, p.SourceChain)
	for _, hn := range back {
		if !t.ackedOn[hn] {
			c := w.Chain(hn)
			if c == nil {
				return
			}
			prover := ackProver(c, p)
			q := w.Chain(prover)
			if q == nil || w.ClientLatest(c, prover) == 0 {
				t.ackedOn[hn] = true
				return
			}
			h := w.Update(c, q)
			if h == 0 {
				return
			}
			ps := ProofSpec{Kind: "honest", Chain: prover, Height: h, Key: "ack", Src: p.SourceChain, Dst: p.DestinationChain, Seq: p.Sequence}
			res := g.ackWithOracles(c, g.r.Intn(3), p, t.tok, t.ack, ps, h, true)
			g.stat("relay.ack." + ErrClass(res.Codespace, res.Code))
			t.ackedOn[hn] = true
			return
		}
	}
	// everything processed: replay something
	if g.r.Chance(50) {
		c := w.Chain(hops[len(hops)-1])
		if c == nil {
			return
		}
		prover := recvProver(c, p)
		h := w.ClientLatest(c, prover)
		ps := ProofSpec{Kind: "honest", Chain: prover, Height: h, Key: "commit", Src: p.SourceChain, Dst: p.DestinationChain, Seq: p.Sequence}
		res := g.recvWithOracles(c, 0, p, t.tok, ps, h)
		g.stat("replay.recv." + ErrClass(res.Codespace, res.Code))
	} else {
		c := w.Chain(p.SourceChain)
		prover := ackProver(c, p)
		h := w.ClientLatest(c, prover)
		ps := ProofSpec{Kind: "honest", Chain: prover, Height: h, Key: "ack", Src: p.SourceChain, Dst: p.DestinationChain, Seq: p.Sequence}
		res := g.ackWithOracles(c, 0, p, t.tok, t.ack, ps, h, false)
		g.stat("replay.ack." + ErrClass(res.Codespace, res.Code))
	}
}

func (g *TransferGen) Run(nOps int) {
	g.setup()
	if g.mt && g.script != 0 {
		g.RunMtRefunds()
	}
	if !g.mt {
		switch g.script {
		case 1:
			g.RunForge()
		case 2:
			g.RunRoundTrip(3)
			g.RunRoundTrip(0)
		}
	}
	for i := 0; i < nOps; i++ {
		switch x := g.r.Intn(100); {
		case x < 22:
			g.opIssueMint()
		case x < 30:
			g.opUserMove()
		case x < 55:
			g.opTransfer()
		default:
			g.opRelay()
		}
		g.tokenOracles()
	}
	// last, because it leaves a duplicated token behind (known finding)
	if g.script == 2 && !g.relay {
		g.RunRelayEdit()
	}
	if g.script == 1 {
		g.RunPortEdit()
	}
	if g.relay {
		g.RunRelayRoundTrip()
		g.RunRelayUnknownDest()
	}
}

var _ = sdk.AccAddress{}

func (g *TransferGen) recvWithOracles(c *tibctesting.TestChain, signer int, p packettypes.Packet, tok string, ps ProofSpec, h uint64) *abci.ExecTxResult {
	var nb map[pos]string
	var mb mtBal
	if g.mt {
		mb = mtState(c)
	} else {
		nb = nftOwners(c)
	}
	res := g.w.Recv(c, signer, p, tok, ps, h)
	if res.Code != 0 && p.RelayChain == c.ChainName && ps.Kind == "honest" && ErrClass(res.Codespace, res.Code) == "clientNotFound" &&
		g.w.ClientLatest(c, p.SourceChain) != 0 {
		// genuine packet, verified, but the relay chain does not know the destination
		g.w.hit("C11", "relay-aborts-on-unknown-destination-instead-of-error-ack "+fkey(p))
	}
	if fl := g.led.flights[fkey(p)]; fl != nil && res.Code == 0 && c.ChainName == p.DestinationChain && p.Port != fl.pkt.Port &&
		strings.HasPrefix(g.w.AckTok(writtenAck(res)), "ackok|") {
		// delivered with success to another application than the one that sent it: what the sender
		// locked or burnt stays so for good, and the other application created a token of its own
		prop := "C04"
		if g.mt {
			prop = "C05"
		}
		g.w.hit(prop, fmt.Sprintf("packet-of-port-%s-delivered-with-success-to-application-%s sender's-tokens-stay-locked %s", fl.pkt.Port, p.Port, fkey(p)))
	}
	if g.mt {
		g.mtAfterRecv(c, p, res, mb)
	} else {
		g.nftAfterRecv(c, p, res, nb)
	}
	return res
}

func (g *TransferGen) ackWithOracles(c *tibctesting.TestChain, signer int, p packettypes.Packet, tok string, ack []byte, ps ProofSpec, h uint64, honest bool) *abci.ExecTxResult {
	var nb map[pos]string
	var mb mtBal
	if g.mt {
		mb = mtState(c)
	} else {
		nb = nftOwners(c)
	}
	res := g.w.Ack(c, signer, p, tok, ack, ps, h)
	if g.mt {
		g.mtAfterAck(c, p, ack, honest, res, mb)
	} else {
		g.nftAfterAck(c, p, ack, honest, res, nb)
	}
	return res
}

// deliver relays packet t honestly along its whole route and back (recv on every hop, ack on
// every hop); returns false when some step was refused.
func (g *TransferGen) deliver(t *tpkt) bool {
	w := g.w
	p := t.p
	for _, hn := range route(p) {
		c := w.Chain(hn)
		if c == nil {
			return false
		}
		prover := recvProver(c, p)
		q := w.Chain(prover)
		if q == nil || w.ClientLatest(c, prover) == 0 {
			return false
		}
		h := w.Update(c, q)
		ps := ProofSpec{Kind: "honest", Chain: prover, Height: h, Key: "commit", Src: p.SourceChain, Dst: p.DestinationChain, Seq: p.Sequence}
		res := g.recvWithOracles(c, 0, p, t.tok, ps, h)
		g.stat("script.recv." + ErrClass(res.Codespace, res.Code))
		if res.Code != 0 {
			return false
		}
		t.recvOn[hn] = true
		if a := writtenAck(res); a != nil {
			t.ack, t.ackOn = a, hn
			break
		}
	}
	if t.ack == nil {
		return false
	}
	back := []string{}
	if p.RelayChain != "" && t.ackOn != p.RelayChain {
		back = append(back, p.RelayChain)
	}
	back = append(back, p.SourceChain)
	ok := true
	for _, hn := range back {
		c := w.Chain(hn)
		prover := ackProver(c, p)
		q := w.Chain(prover)
		if q == nil || w.ClientLatest(c, prover) == 0 {
			return false
		}
		h := w.Update(c, q)
		ps := ProofSpec{Kind: "honest", Chain: prover, Height: h, Key: "ack", Src: p.SourceChain, Dst: p.DestinationChain, Seq: p.Sequence}
		res := g.ackWithOracles(c, 0, p, t.tok, t.ack, ps, h, true)
		g.stat("script.ack." + ErrClass(res.Codespace, res.Code))
		t.ackedOn[hn] = true
		if res.Code != 0 {
			ok = false
		}
	}
	return ok && strings.HasPrefix(w.AckTok(t.ack), "ackok|")
}

func (g *TransferGen) track(p *packettypes.Packet, on string) *tpkt {
	if p == nil {
		return nil
	}
	t := &tpkt{p: *p, tok: g.w.PayloadTok(p.Port, p.Data), sentOn: on, recvOn: map[string]bool{}, ackedOn: map[string]bool{}}
	g.pkts = append(g.pkts, t)
	return t
}

// nftXfer = MsgNftTransfer + ledger bookkeeping
func (g *TransferGen) nftXfer(i, signer int, class, id, rcpt, dst, relay string) *tpkt {
	c := g.chain(i)
	before := g.w.FullDump(c)
	p, res := g.w.NftTransfer(c, signer, class, id, rcpt, dst, relay, "")
	g.stat("script.transfer." + ErrClass(res.Codespace, res.Code))
	g.sendOracle(c, p, res, before)
	g.nftAfterTransfer(c, class, id, g.w.Acct(i, signer).String(), p)
	return g.track(p, c.ChainName)
}

// sendOracle: a transfer message is all-or-nothing — refused and nothing changed, or accepted
// and exactly one packet sent (send_packet event; the packet stream checks the commitment)
func (g *TransferGen) sendOracle(c *tibctesting.TestChain, p *packettypes.Packet, res *abci.ExecTxResult, before string) {
	if res.Code != 0 && g.w.FullDump(c) != before {
		g.w.hit("C09", "failed-transfer-changed-state")
		g.w.hit("C19", "failed-transfer-changed-state")
	}
	if res.Code == 0 && p == nil {
		g.w.hit("C09", "transfer-accepted-but-no-packet-was-sent")
		g.w.hit("C19", "transfer-accepted-but-no-packet-was-sent")
	}
	if res.Code == 0 && p != nil {
		// the next hop (the relay chain if one is named, else the destination) must be a chain this
		// chain has a light client of
		hop := p.DestinationChain
		if p.RelayChain != "" {
			hop = p.RelayChain
		}
		if g.w.ClientLatest(c, hop) == 0 {
			g.w.hit("C09", fmt.Sprintf("send-accepted-although-no-light-client-of-the-next-hop hop=%s %s", hop, fkey(*p)))
		}
	}
}

// mtXfer = MsgMtTransfer + ledger bookkeeping
func (g *TransferGen) mtXfer(i, signer int, class, id, rcpt, dst, relay string, amount uint64) *tpkt {
	c := g.chain(i)
	before := g.w.FullDump(c)
	p, res := g.w.MtTransfer(c, signer, class, id, rcpt, dst, relay, "", amount)
	g.stat("script.mttransfer." + ErrClass(res.Codespace, res.Code))
	g.sendOracle(c, p, res, before)
	g.mtAfterTransfer(c, class, id, g.w.Acct(i, signer).String(), p)
	return g.track(p, c.ChainName)
}

// RunMtRefunds: scripted refunds of multi tokens. Units of a native class go A -> B; on B part
// of the vouchers is forwarded to a third chain for a receiver that chain cannot decode (error
// acknowledgement there, refund of *locked* vouchers on B); a further A -> B transfer names an
// undecodable receiver (error acknowledgement on B, refund of locked native units on A); at
// the end every voucher goes home. Balances, supplies and escrows are checked after each stage.
func (g *TransferGen) RunMtRefunds() {
	w := g.w
	n := len(w.Chains)
	a, b := 0, 1
	if g.r.Chance(50) {
		a, b = 1, 0
	}
	A, B := g.chain(a), g.chain(b)
	class := w.MtIssue(A, 0)
	if class == "" {
		return
	}
	amt := uint64(6 + g.r.Intn(20))
	id, res := w.MtMint(A, 0, class, "", amt, w.Acct(a, 1).String())
	g.mtAfterMint(A, class, id, amt, res)
	if res.Code != 0 {
		return
	}
	g.mtIds[A.ChainName+"|"+class] = append(g.mtIds[A.ChainName+"|"+class], id)
	had := map[string]bool{}
	for _, cl := range g.mtClasses(b) {
		had[cl] = true
	}
	// sends the packet layer refuses (no light client of the destination / of the relay chain):
	// nothing may be locked
	g.mtXfer(a, 1, class, id, w.Acct(b, 1).String(), "unknownchain9", "", 1)
	g.mtXfer(a, 1, class, id, w.Acct(b, 1).String(), B.ChainName, "unknownchain9", 1)
	g.tokenOracles()
	k1 := amt - 2
	t1 := g.mtXfer(a, 1, class, id, w.Acct(b, 1).String(), B.ChainName, "", k1)
	if t1 == nil || !g.deliver(t1) {
		return
	}
	g.tokenOracles()
	vclass := ""
	for _, cl := range g.mtClasses(b) {
		if !had[cl] {
			vclass = cl
		}
	}
	if vclass == "" {
		return
	}
	bad := []string{"not-an-address", "0x52908400098527886E0F7030069857D2E4169EE7"}[g.r.Intn(2)]
	if n >= 3 {
		relay := ""
		if g.relay && b == 0 {
			relay = w.Names[1]
		}
		if t2 := g.mtXfer(b, 1, vclass, id, bad, w.Names[2], relay, 1+uint64(g.r.Intn(3))); t2 != nil {
			g.deliver(t2)
			g.stat("script.mt.forwarded-voucher-refund")
		}
		g.tokenOracles()
	}
	if t3 := g.mtXfer(a, 1, class, id, bad, B.ChainName, "", 1); t3 != nil {
		g.deliver(t3)
		g.stat("script.mt.native-refund")
	}
	g.tokenOracles()
	if t4 := g.mtXfer(b, 1, vclass, id, w.Acct(a, 2).String(), A.ChainName, "", k1); t4 != nil {
		if g.deliver(t4) {
			g.stat("script.mt.all-home")
		}
	}
	g.tokenOracles()
}

// RunRelayEdit: the relay chain named by a packet is not covered by the packet commitment. A
// token sent directly from A to C is delivered to C (voucher minted, success acknowledgement);
// the same committed packet is then presented to a third chain B with the relay field set to B.
// B has no routing rule for it and answers with an error acknowledgement, which A — shown the
// packet with relay = B — verifies against B and processes as a failed transfer: the sender is
// refunded although the voucher exists on C.
func (g *TransferGen) RunRelayEdit() {
	w := g.w
	if len(w.Chains) < 3 {
		return
	}
	w.Scenario = "relay-edit-after-delivery"
	defer func() { w.Scenario = "" }()
	// chain 1 is connected with every other chain in each topology of this stream
	a, c, b := 1, 0, 2
	A, C, B := g.chain(a), g.chain(c), g.chain(b)
	if w.ClientLatest(B, A.ChainName) == 0 || w.ClientLatest(A, B.ChainName) == 0 || w.ClientLatest(C, A.ChainName) == 0 {
		return
	}
	var t *tpkt
	if g.mt {
		class := w.MtIssue(A, 0)
		if class == "" {
			return
		}
		id, res := w.MtMint(A, 0, class, "", 9, w.Acct(a, 1).String())
		g.mtAfterMint(A, class, id, 9, res)
		if res.Code != 0 {
			return
		}
		t = g.mtXfer(a, 1, class, id, w.Acct(c, 1).String(), C.ChainName, "", 4)
	} else {
		class, id := "relayedit", "tok1"
		if w.NftIssue(A, 0, class, false).Code != 0 {
			return
		}
		g.nftAfterMint(A, class, id, w.NftMint(A, 0, class, id, "uri", w.Acct(a, 1).String()))
		t = g.nftXfer(a, 1, class, id, w.Acct(c, 1).String(), C.ChainName, "")
	}
	if t == nil {
		return
	}
	p := t.p
	h := w.Update(C, A)
	ps := ProofSpec{Kind: "honest", Chain: A.ChainName, Height: h, Key: "commit", Src: p.SourceChain, Dst: p.DestinationChain, Seq: p.Sequence}
	if res := g.recvWithOracles(C, 0, p, t.tok, ps, h); res.Code != 0 {
		return
	}
	g.tokenOracles()
	p2 := p
	p2.RelayChain = B.ChainName
	h = w.Update(B, A)
	ps = ProofSpec{Kind: "honest", Chain: A.ChainName, Height: h, Key: "commit", Src: p.SourceChain, Dst: p.DestinationChain, Seq: p.Sequence}
	res := g.recvWithOracles(B, 0, p2, t.tok, ps, h)
	g.stat("relayedit.recv-on-third-chain." + ErrClass(res.Codespace, res.Code))
	ackB := writtenAck(res)
	if res.Code != 0 || ackB == nil {
		return
	}
	h = w.Update(A, B)
	ps = ProofSpec{Kind: "honest", Chain: B.ChainName, Height: h, Key: "ack", Src: p.SourceChain, Dst: p.DestinationChain, Seq: p.Sequence}
	res = g.ackWithOracles(A, 0, p2, t.tok, ackB, ps, h, true)
	g.stat("relayedit.ack-on-source." + ErrClass(res.Codespace, res.Code))
	g.tokenOracles()
}

// RunRelayUnknownDest: a transfer through a relay chain whose rules admit it but which has no
// light client of the destination. The relay chain must answer with an error acknowledgement
// (not abort), and the sender must be refunded when it comes back.
func (g *TransferGen) RunRelayUnknownDest() {
	w := g.w
	if len(w.Chains) < 3 || !g.relay {
		return
	}
	a, r := 0, 1
	A, R := g.chain(a), g.chain(r)
	if w.SetRules(R, []string{"*,*,*"}) != nil {
		return
	}
	var t *tpkt
	if g.mt {
		class := w.MtIssue(A, 0)
		if class == "" {
			return
		}
		id, res := w.MtMint(A, 0, class, "", 6, w.Acct(a, 1).String())
		g.mtAfterMint(A, class, id, 6, res)
		if res.Code != 0 {
			return
		}
		t = g.mtXfer(a, 1, class, id, w.Acct(2, 1).String(), "unknownchain9", R.ChainName, 2)
	} else {
		class, id := "nowhere", "tok1"
		if w.NftIssue(A, 0, class, false).Code != 0 {
			return
		}
		g.nftAfterMint(A, class, id, w.NftMint(A, 0, class, id, "uri", w.Acct(a, 1).String()))
		t = g.nftXfer(a, 1, class, id, w.Acct(2, 1).String(), "unknownchain9", R.ChainName)
	}
	if t == nil {
		return
	}
	g.deliver(t)
	if t.ack == nil {
		w.hit("C11", "relay-chain-recorded-no-acknowledgement-for-a-packet-to-a-destination-it-does-not-know "+fkey(t.p))
	} else {
		g.stat("script.relay-unknown-dest." + strings.SplitN(w.AckTok(t.ack), "|", 2)[0])
	}
	g.tokenOracles()
}

// RunRelayRoundTrip: a token goes from chain 0 to chain 2 through relay chain 1 and comes back the
// same way. End to end the effects must equal those of a direct transfer: the origin holds the
// original again (same class, id / amount, nothing left in escrow), no voucher remains on the
// far side, and the relay chain's token state never changes.
func (g *TransferGen) RunRelayRoundTrip() {
	w := g.w
	if len(w.Chains) < 3 || !g.relay {
		return
	}
	a, r, c := 0, 1, 2
	A, R, C := g.chain(a), g.chain(r), g.chain(c)
	if w.SetRules(R, []string{"*,*,*"}) != nil {
		return
	}
	relayBefore := ""
	if g.mt {
		relayBefore = fmt.Sprint(mtState(R))
		class := w.MtIssue(A, 0)
		if class == "" {
			return
		}
		id, res := w.MtMint(A, 0, class, "", 8, w.Acct(a, 1).String())
		g.mtAfterMint(A, class, id, 8, res)
		if res.Code != 0 {
			return
		}
		had := map[string]bool{}
		for _, cl := range g.mtClasses(c) {
			had[cl] = true
		}
		t := g.mtXfer(a, 1, class, id, w.Acct(c, 1).String(), C.ChainName, R.ChainName, 5)
		if t == nil || !g.deliver(t) {
			w.hit("C11", "relayed-transfer-refused-although-the-rules-admit-it "+A.ChainName+"->"+C.ChainName)
			return
		}
		vclass := ""
		for _, cl := range g.mtClasses(c) {
			if !had[cl] {
				vclass = cl
			}
		}
		if vclass == "" {
			return
		}
		t2 := g.mtXfer(c, 1, vclass, id, w.Acct(a, 2).String(), A.ChainName, R.ChainName, 5)
		if t2 == nil || !g.deliver(t2) {
			w.hit("C11", "relayed-return-refused "+C.ChainName+"->"+A.ChainName)
			return
		}
		g.tokenOracles()
		ak := A.App.MtKeeper
		modA := sdk.MustAccAddressFromBech32(w.addrOfModule("MT"))
		if got := ak.GetBalance(A.GetContext(), class, id, w.Acct(a, 2)); got != 5 {
			w.hit("C11", fmt.Sprintf("relayed-round-trip-differs-from-direct: receiver-on-origin-holds-%d-units-of-the-original-class-expected-5", got))
		}
		if got := ak.GetBalance(A.GetContext(), class, id, modA); got != 0 {
			w.hit("C11", fmt.Sprintf("relayed-round-trip-differs-from-direct: %d-units-still-escrowed-on-the-origin", got))
		}
		if fmt.Sprint(mtState(R)) != relayBefore {
			w.hit("C11", "relay-chain-token-state-changed-by-a-relayed-round-trip")
		}
	} else {
		relayBefore = fmt.Sprint(sortedOwners(nftOwners(R)))
		class, id := "relayround", "tok1"
		if w.NftIssue(A, 0, class, false).Code != 0 {
			return
		}
		g.nftAfterMint(A, class, id, w.NftMint(A, 0, class, id, "uri", w.Acct(a, 1).String()))
		t := g.nftXfer(a, 1, class, id, w.Acct(c, 1).String(), C.ChainName, R.ChainName)
		if t == nil || !g.deliver(t) {
			w.hit("C11", "relayed-transfer-refused-although-the-rules-admit-it "+A.ChainName+"->"+C.ChainName)
			return
		}
		vclass := g.voucherOn(c, id, w.Acct(c, 1).String())
		if vclass == "" {
			return
		}
		t2 := g.nftXfer(c, 1, vclass, id, w.Acct(a, 2).String(), A.ChainName, R.ChainName)
		if t2 == nil || !g.deliver(t2) {
			w.hit("C11", "relayed-return-refused "+C.ChainName+"->"+A.ChainName)
			return
		}
		g.tokenOracles()
		if o := nftOwners(A)[pos{A.ChainName, class, id}]; o != w.Acct(a, 2).String() {
			w.hit("C11", "relayed-round-trip-differs-from-direct: the-original-is-not-back-with-the-receiver-on-the-origin owner="+w.CanonAddr(o))
		}
		for k, o := range nftOwners(C) {
			if k.id == id && k.class == vclass {
				w.hit("C11", "relayed-round-trip-differs-from-direct: the-voucher-still-exists-on-the-far-chain owner="+w.CanonAddr(o))
			}
		}
		if fmt.Sprint(sortedOwners(nftOwners(R))) != relayBefore {
			w.hit("C11", "relay-chain-token-state-changed-by-a-relayed-round-trip")
		}
	}
	g.stat("script.relay-round-trip")
}

// RunPortEdit: the port named by a packet is not covered by the packet commitment either, and
// the two transfer applications' packet data have the same protobuf layout (fields 1-7; the
// multi-token amount is field 8). A multi-token transfer delivered with the port set to "NFT"
// is decoded by the NFT application as a token of the same class and id; an NFT transfer
// delivered with the port set to "MT" is decoded as a multi-token transfer of amount 0.
func (g *TransferGen) RunPortEdit() {
	w := g.w
	if len(w.Chains) < 2 {
		return
	}
	w.Scenario = "port-edit"
	defer func() { w.Scenario = "" }()
	a, c := 1, 0
	A, C := g.chain(a), g.chain(c)
	if w.ClientLatest(C, A.ChainName) == 0 || w.ClientLatest(A, C.ChainName) == 0 {
		return
	}
	var t *tpkt
	other := "NFT"
	if g.mt {
		class := w.MtIssue(A, 0)
		if class == "" {
			return
		}
		id, res := w.MtMint(A, 0, class, "", 7, w.Acct(a, 1).String())
		g.mtAfterMint(A, class, id, 7, res)
		if res.Code != 0 {
			return
		}
		t = g.mtXfer(a, 1, class, id, w.Acct(c, 1).String(), C.ChainName, "", 5)
	} else {
		other = "MT"
		class, id := "portedit", "tok1"
		if w.NftIssue(A, 0, class, false).Code != 0 {
			return
		}
		g.nftAfterMint(A, class, id, w.NftMint(A, 0, class, id, "uri", w.Acct(a, 1).String()))
		t = g.nftXfer(a, 1, class, id, w.Acct(c, 1).String(), C.ChainName, "")
	}
	if t == nil {
		return
	}
	p2 := t.p
	p2.Port = other
	h := w.Update(C, A)
	ps := ProofSpec{Kind: "honest", Chain: A.ChainName, Height: h, Key: "commit", Src: p2.SourceChain, Dst: p2.DestinationChain, Seq: p2.Sequence}
	res := g.recvWithOracles(C, 0, p2, t.tok, ps, h)
	g.stat("portedit.recv-as-" + other + "." + ErrClass(res.Codespace, res.Code))
	ack := writtenAck(res)
	if res.Code != 0 || ack == nil {
		return
	}
	g.stat("portedit.ack-written." + strings.SplitN(w.AckTok(ack), "|", 2)[0])
	h = w.Update(A, C)
	ps = ProofSpec{Kind: "honest", Chain: C.ChainName, Height: h, Key: "ack", Src: p2.SourceChain, Dst: p2.DestinationChain, Seq: p2.Sequence}
	res = g.ackWithOracles(A, 0, t.p, t.tok, ack, ps, h, true)
	g.stat("portedit.ack-on-source." + ErrClass(res.Codespace, res.Code))
	g.tokenOracles()
}

// RunForge: a voucher-shaped *native* class. Chain A escrows dog/<id> for a voucher on B; an
// attacker on B issues the native denom `nft/A/B/dog`, mints <id> in it and sends it "back".
func (g *TransferGen) RunForge() {
	w := g.w
	a, b := 0, 1
	A, B := g.chain(a), g.chain(b)
	base := []string{"dog", "cat"}[g.r.Intn(2)]
	id := []string{"rex", "tom"}[g.r.Intn(2)]
	if w.NftIssue(A, 0, base, false).Code != 0 {
		return
	}
	g.nftAfterMint(A, base, id, w.NftMint(A, 0, base, id, "uri", w.Acct(a, 1).String()))
	t := g.nftXfer(a, 1, base, id, w.Acct(b, 1).String(), B.ChainName, "")
	if t == nil || !g.deliver(t) {
		return
	}
	g.tokenOracles()
	forged := "nft/" + A.ChainName + "/" + B.ChainName + "/" + base
	if w.NftIssue(B, 2, forged, false).Code != 0 {
		return
	}
	g.nftAfterMint(B, forged, id, w.NftMint(B, 2, forged, id, "uri", w.Acct(b, 2).String()))
	t2 := g.nftXfer(b, 2, forged, id, w.Acct(a, 2).String(), A.ChainName, "")
	if t2 != nil {
		g.deliver(t2)
	}
	g.tokenOracles()
	// laundering through a third chain: a *three*-segment native class nft/<A>/<base> issued on B
	// and sent to C would be extended there to nft/A/C/<base>, the class path of a voucher that
	// came from A; returned C -> A it would release A's escrowed <base>/<id>. (The send from B
	// must be refused: a native class may not contain the path delimiter.)
	if len(w.Chains) >= 3 && !g.relay {
		cIdx := 2
		C := g.chain(cIdx)
		forged3 := "nft/" + A.ChainName + "/" + base
		if w.NftIssue(B, 2, forged3, false).Code != 0 {
			return
		}
		g.nftAfterMint(B, forged3, id, w.NftMint(B, 2, forged3, id, "uri", w.Acct(b, 2).String()))
		if t3 := g.nftXfer(b, 2, forged3, id, w.Acct(cIdx, 2).String(), C.ChainName, ""); t3 != nil && g.deliver(t3) {
			if vc := g.voucherOn(cIdx, id, w.Acct(cIdx, 2).String()); vc != "" {
				if t4 := g.nftXfer(cIdx, 2, vc, id, w.Acct(a, 2).String(), A.ChainName, ""); t4 != nil {
					g.deliver(t4)
				}
			}
		}
		g.stat("script.forge.three-segment-class")
		g.tokenOracles()
		g.runBaseClassCollision()
	}
}

// runBaseClassCollision: chain B holds, in escrow, its own native <class>/<id> (sent on to C) and a
// voucher of A's native token of the same class name and id (received from A). Forwarding that
// voucher B -> C to an undecodable receiver fails on C; the refund on B must give the *voucher* back
// to its sender and leave B's own escrowed token alone.
func (g *TransferGen) runBaseClassCollision() {
	w := g.w
	a, b, c := 0, 1, 2
	A, B, C := g.chain(a), g.chain(b), g.chain(c)
	class, id := "kitty2", "tom"
	if w.NftIssue(A, 0, class, false).Code != 0 || w.NftIssue(B, 0, class, false).Code != 0 {
		return
	}
	g.nftAfterMint(A, class, id, w.NftMint(A, 0, class, id, "uri", w.Acct(a, 1).String()))
	g.nftAfterMint(B, class, id, w.NftMint(B, 0, class, id, "uri", w.Acct(b, 2).String()))
	t1 := g.nftXfer(a, 1, class, id, w.Acct(b, 1).String(), B.ChainName, "")
	if t1 == nil || !g.deliver(t1) {
		return
	}
	t2 := g.nftXfer(b, 2, class, id, w.Acct(c, 2).String(), C.ChainName, "")
	if t2 == nil || !g.deliver(t2) {
		return
	}
	g.tokenOracles()
	vk := g.voucherOn(b, id, w.Acct(b, 1).String())
	if vk == "" {
		return
	}
	if t3 := g.nftXfer(b, 1, vk, id, "not-an-address", C.ChainName, ""); t3 != nil {
		g.deliver(t3)
	}
	g.stat("script.base-class-collision")
	g.tokenOracles()
}

// RunRoundTrip: send a native token of a random class the NFT module accepts along a random
// route of 1-3 hops (with the relay chain when the topology has one) and return it hop by hop.
func (g *TransferGen) RunRoundTrip(forceHops int) {
	w := g.w
	n := len(w.Chains)
	cur := g.r.Intn(n)
	origin := cur
	class := g.randClass()
	id := g.randId()
	C := g.chain(cur)
	if w.NftIssue(C, 0, class, false).Code != 0 {
		return
	}
	if r := w.NftMint(C, 0, class, id, "uri", w.Acct(cur, 0).String()); r.Code != 0 {
		return
	} else {
		g.nftAfterMint(C, class, id, r)
	}
	hops := 1 + g.r.Intn(3)
	if forceHops > 0 {
		hops = forceHops
	}
	path := []int{cur}
	local := class
	visited := map[int]bool{cur: true}
	for k := 0; k < hops; k++ {
		next := g.r.Intn(n)
		for tries := 0; tries < 20 && (next == cur || visited[next]); tries++ {
			next = g.r.Intn(n)
		}
		if visited[next] {
			break
		}
		visited[next] = true
		if next == cur {
			break
		}
		relay := ""
		if g.relay && ((cur == 0 && next == 2) || (cur == 2 && next == 0)) {
			relay = w.Names[1]
		}
		t := g.nftXfer(cur, 0, local, id, w.Acct(next, 0).String(), w.Names[next], relay)
		if t == nil || !g.deliver(t) {
			g.tokenOracles()
			return
		}
		// local class of the voucher on the next chain
		local = g.voucherOn(next, id, w.Acct(next, 0).String())
		if local == "" {
			return
		}
		cur = next
		path = append(path, cur)
		g.tokenOracles()
	}
	// and back
	for k := len(path) - 1; k > 0; k-- {
		from, to := path[k], path[k-1]
		relay := ""
		if g.relay && ((from == 0 && to == 2) || (from == 2 && to == 0)) {
			relay = w.Names[1]
		}
		t := g.nftXfer(from, 0, local, id, w.Acct(to, 0).String(), w.Names[to], relay)
		if t == nil || !g.deliver(t) {
			w.hit("C06", fmt.Sprintf("round-trip-return-leg-refused class=%s", class))
			g.tokenOracles()
			return
		}
		local = g.voucherOn(to, id, w.Acct(to, 0).String())
		g.tokenOracles()
	}
	// final: the receiver on the origin chain holds the original class and id; no voucher left
	owners := nftOwners(g.chain(origin))
	if o, ok := owners[pos{w.Names[origin], class, id}]; !ok || o != w.Acct(origin, 0).String() {
		w.hit("C06", fmt.Sprintf("round-trip-does-not-restore-original class=%s id=%s hops=%d", class, id, len(path)-1))
	}
	for _, ch := range w.Chains {
		for k, o := range nftOwners(ch) {
			if k.id == id && strings.HasPrefix(k.class, "tibc-") && !w.isModule(o) {
				if tok, ok := g.led.ident[k]; ok && strings.HasPrefix(tok, w.Names[origin]+":"+class+":"+id+"#") {
					w.hit("C06", fmt.Sprintf("round-trip-left-a-voucher class=%s on=%s", class, ch.ChainName))
				}
			}
		}
	}
}

// voucherOn finds the local class under which `owner` holds token `id` on chain i (the most
// recently credited one).
func (g *TransferGen) voucherOn(i int, id, owner string) string {
	best := ""
	for k, o := range nftOwners(g.chain(i)) {
		if k.id == id && o == owner {
			if _, ok := g.led.ident[k]; ok {
				best = k.class
			}
		}
	}
	return best
}
