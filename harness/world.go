package harness

// World: N real simapp chains driven in-process, canonicalisation of everything that is
// printed (addresses, digests, voucher classes, errors), and the canonical state dump that
// is compared with the Lean driver's dump.

import (
	"crypto/sha256"
	"encoding/hex"
	"fmt"
	"sort"
	"strconv"
	"strings"
	"testing"

	storetypes "cosmossdk.io/store/types"
	abci "github.com/cometbft/cometbft/abci/types"
	sdk "github.com/cosmos/cosmos-sdk/types"
	authtypes "github.com/cosmos/cosmos-sdk/x/auth/types"

	mttransfertypes "github.com/bianjieai/tibc-go/modules/tibc/apps/mt_transfer/types"
	nfttransfertypes "github.com/bianjieai/tibc-go/modules/tibc/apps/nft_transfer/types"
	clienttypes "github.com/bianjieai/tibc-go/modules/tibc/core/02-client/types"
	packettypes "github.com/bianjieai/tibc-go/modules/tibc/core/04-packet/types"
	host "github.com/bianjieai/tibc-go/modules/tibc/core/24-host"
	ibctmtypes "github.com/bianjieai/tibc-go/modules/tibc/light-clients/07-tendermint/types"
	tibctesting "github.com/bianjieai/tibc-go/modules/tibc/testing"
)

type World struct {
	T      *testing.T
	Coord  *tibctesting.Coordinator
	Chains []*tibctesting.TestChain
	Names  []string
	// canonicalisation tables
	addr    map[string]string // bech32 -> canonical
	digests map[string]string // hex(sha256(bytes)) -> data token
	dataTok map[string]string // hex(bytes) -> data token (payloads and acks the harness knows)
	Ops     []string          // op lines
	Impl    []string          // outcome lines
	Oracle  []string          // implementation-side property oracle hits ("<prop> <signature> ...")
	// oracle bookkeeping
	recvOK   map[string]int    // chain|src/dst/seq -> accepted receives
	ackOK    map[string]int    // chain|src/dst/seq -> accepted acknowledgements
	cleanPt  map[string]uint64 // chain|src/dst -> highest clean point seen
	sendSeqs map[string]uint64 // chain|src/dst -> number of successful sends observed
	txCount  int
	Scenario string // name of the scripted scenario being executed, if any
}

func (w *World) hit(prop, sig string) {
	if w.Scenario != "" {
		// oracle hits inside a scripted scenario carry its name (known findings are keyed on it)
		sig += " scenario=" + w.Scenario
	}
	w.Oracle = append(w.Oracle, fmt.Sprintf("%s %s @op%d", prop, sig, len(w.Ops)))
}

func hx(b []byte) string {
	if len(b) == 0 {
		return "-"
	}
	return hex.EncodeToString(b)
}
func hxs(s string) string { return hx([]byte(s)) }
func undash(s string) string {
	if s == "" {
		return "-"
	}
	return s
}

func NewWorld(t *testing.T, n int) *World {
	coord := tibctesting.NewCoordinator(t, n)
	w := &World{T: t, Coord: coord, addr: map[string]string{}, digests: map[string]string{}, dataTok: map[string]string{},
		recvOK: map[string]int{}, ackOK: map[string]int{}, cleanPt: map[string]uint64{}, sendSeqs: map[string]uint64{}}
	for i := 0; i < n; i++ {
		ch := coord.GetChain(tibctesting.GetChainID(i))
		w.Chains = append(w.Chains, ch)
		w.Names = append(w.Names, ch.ChainName)
		for j, a := range ch.SenderAccounts {
			w.addr[a.SenderAccount.GetAddress().String()] = fmt.Sprintf("acct%d_%d", i, j)
		}
	}
	w.addr[authtypes.NewModuleAddress(nfttransfertypes.ModuleName).String()] = "mod:NFT"
	w.addr[authtypes.NewModuleAddress(mttransfertypes.ModuleName).String()] = "mod:MT"
	w.emit("reset", "reset")
	return w
}

func (w *World) emit(op, out string) {
	w.Ops = append(w.Ops, op)
	w.Impl = append(w.Impl, out)
}

func (w *World) Chain(name string) *tibctesting.TestChain {
	for _, c := range w.Chains {
		if c.ChainName == name {
			return c
		}
	}
	return nil
}

func (w *World) chainIdx(name string) int {
	for i, c := range w.Chains {
		if c.ChainName == name {
			return i
		}
	}
	return -1
}

// CanonAddr maps an address string as it appears in messages / packet data.
func (w *World) CanonAddr(a string) string {
	if c, ok := w.addr[a]; ok {
		return c
	}
	if strings.TrimSpace(a) == "" {
		return "-"
	}
	if _, err := sdk.AccAddressFromBech32(a); err != nil {
		return "bad:" + hxs(a)
	}
	return "addr:" + a
}

// Bech32 of account j on chain i.
func (w *World) Acct(i, j int) sdk.AccAddress {
	return w.Chains[i].SenderAccounts[j].SenderAccount.GetAddress()
}

// ---- data tokens -------------------------------------------------------------------------

func (w *World) regData(b []byte, tok string) string {
	w.dataTok[hex.EncodeToString(b)] = tok
	h := sha256.Sum256(b)
	w.digests[hex.EncodeToString(h[:])] = tok
	return tok
}

// RawTok registers raw (non-decodable) payload / ack bytes.
func (w *World) RawTok(b []byte) string { return w.regData(b, "raw|"+hx(b)) }

// PayloadTok canonicalises packet payload bytes by the kind the harness knows they have.
func (w *World) PayloadTok(port string, b []byte) string {
	if t, ok := w.dataTok[hex.EncodeToString(b)]; ok {
		return t
	}
	switch port {
	case "NFT":
		var d nfttransfertypes.NonFungibleTokenPacketData
		if err := d.Unmarshal(b); err == nil {
			away := 0
			if d.AwayFromOrigin {
				away = 1
			}
			return w.regData(b, fmt.Sprintf("nft|%s|%s|%s|%s|%s|%d|%s", hxs(d.Class), hxs(d.Id), hxs(d.Uri),
				w.CanonAddr(d.Sender), w.CanonAddr(d.Receiver), away, hxs(d.DestContract)))
		}
	case "MT":
		var d mttransfertypes.MultiTokenPacketData
		if err := d.Unmarshal(b); err == nil {
			away := 0
			if d.AwayFromOrigin {
				away = 1
			}
			return w.regData(b, fmt.Sprintf("mt|%s|%s|%s|%s|%s|%d|%s|%d", hxs(d.Class), hxs(d.Id), hx(d.Data),
				w.CanonAddr(d.Sender), w.CanonAddr(d.Receiver), away, hxs(d.DestContract), d.Amount))
		}
	}
	return w.RawTok(b)
}

// AckTok canonicalises acknowledgement bytes.
func (w *World) AckTok(b []byte) string {
	if t, ok := w.dataTok[hex.EncodeToString(b)]; ok {
		return t
	}
	var ack packettypes.Acknowledgement
	if err := ack.Unmarshal(b); err == nil {
		switch r := ack.Response.(type) {
		case *packettypes.Acknowledgement_Result:
			return w.regData(b, "ackok|"+hx(r.Result))
		case *packettypes.Acknowledgement_Error:
			return w.regData(b, "ackerr|"+hxs(r.Error))
		}
	}
	return w.RawTok(b)
}

func (w *World) digestLabel(d []byte) string {
	if t, ok := w.digests[hex.EncodeToString(d)]; ok {
		return "H(" + t + ")"
	}
	return "0x" + hex.EncodeToString(d)
}

// ---- errors ------------------------------------------------------------------------------

var verifyClasses = map[string]bool{
	"tibc-commitment/2": true, "tibc-commitment/3": true, "tibc-commitment/4": true,
	"sdk/26": true, "tibc-client/7": true, "tibc-tendermint-client/8": true, "tibc-tendermint-client/9": true,
	"tibc-client/18": true, "tibc-client/19": true,
}

var errNames = map[string]string{
	"tibc-packet/5": "invalidPacket", "tibc-packet/6": "invalidAck", "tibc-packet/9": "ackExists",
	"tibc-packet/10": "invalidClean", "tibc-client/4": "clientNotFound", "tibc-client/27": "clientNotActive",
	"tibc-client/2": "clientExists", "tibc-client/10": "invalidClientType", "sdk/4": "unauthorized",
	"tibc-routing/2": "invalidRoute", "tibc-routing/3": "invalidRule", "sdk/7": "invalidAddress",
	"sdk/6": "unknownRequest", "undefined/111222": "panic", "sdk/111222": "panic",
}

// ErrClass maps (codespace, code) of a transaction result or a Go error to the model's classes.
func ErrClass(codespace string, code uint32) string {
	if code == 0 {
		return "ok"
	}
	k := codespace + "/" + strconv.Itoa(int(code))
	if verifyClasses[k] {
		return "verify"
	}
	if n, ok := errNames[k]; ok {
		return n
	}
	return "app:" + k
}

// ---- state dump --------------------------------------------------------------------------

func (w *World) voucherCanon(c *tibctesting.TestChain, ctx sdk.Context, class string, mt bool) string {
	if !strings.HasPrefix(class, "tibc-") {
		return class
	}
	if mt {
		if p, err := c.App.MtTransferKeeper.ClassPathFromHash(ctx, class); err == nil {
			return "tibc-" + p
		}
	} else {
		if p, err := c.App.NftTransferKeeper.ClassPathFromHash(ctx, class); err == nil {
			return "tibc-" + p
		}
	}
	return class
}

func splitKey(key string) []string { return strings.Split(key, "/") }

// Dump prints the canonical state of one chain (same format as the Lean driver).
func (w *World) Dump(c *tibctesting.TestChain) string {
	ctx := c.GetContext()
	pk := c.App.TIBCKeeper.PacketKeeper
	var out []string
	for _, s := range pk.GetAllPacketSendSeqs(ctx) {
		if s.Sequence != 1 {
			out = append(out, fmt.Sprintf("ns:%s/%s=%d", undash(s.SourceChain), undash(s.DestinationChain), s.Sequence))
		}
	}
	for _, s := range pk.GetAllPacketCommitments(ctx) {
		out = append(out, fmt.Sprintf("cm:%s/%s/%d=%s", undash(s.SourceChain), undash(s.DestinationChain), s.Sequence, w.digestLabel(s.Data)))
	}
	for _, s := range pk.GetAllPacketReceipts(ctx) {
		out = append(out, fmt.Sprintf("rc:%s/%s/%d", undash(s.SourceChain), undash(s.DestinationChain), s.Sequence))
	}
	for _, s := range pk.GetAllPacketAcks(ctx) {
		out = append(out, fmt.Sprintf("ak:%s/%s/%d=%s", undash(s.SourceChain), undash(s.DestinationChain), s.Sequence, w.digestLabel(s.Data)))
	}
	store := ctx.KVStore(c.App.GetKey(host.StoreKey))
	for _, pf := range []struct{ prefix, tag string }{{host.KeyCleanPacketCommitmentPrefix + "/", "cl"}, {"maxAckSeq/", "mx"}} {
		it := storetypes.KVStorePrefixIterator(store, []byte(pf.prefix))
		for ; it.Valid(); it.Next() {
			parts := splitKey(string(it.Key()))
			v := sdk.BigEndianToUint64(it.Value())
			if len(parts) == 3 && v != 0 {
				out = append(out, fmt.Sprintf("%s:%s/%s=%d", pf.tag, undash(parts[1]), undash(parts[2]), v))
			}
		}
		it.Close()
	}
	// NFT module
	if cols, err := c.App.NftKeeper.GetCollections(ctx); err == nil {
		for _, col := range cols {
			cls := w.voucherCanon(c, ctx, col.Denom.Id, false)
			out = append(out, fmt.Sprintf("nd:%s=%s", hxs(cls), w.CanonAddr(col.Denom.Creator)))
			for _, n := range col.NFTs {
				out = append(out, fmt.Sprintf("no:%s/%s=%s", hxs(cls), hxs(n.Id), w.CanonAddr(n.Owner)))
			}
		}
	}
	// MT module
	gs := c.App.MtKeeper.ExportGenesisState(ctx)
	for _, col := range gs.Collections {
		cls := w.voucherCanon(c, ctx, col.Denom.Id, true)
		out = append(out, fmt.Sprintf("md:%s=%s", hxs(cls), w.CanonAddr(col.Denom.Owner)))
		for _, m := range col.Mts {
			if m.Supply != 0 {
				out = append(out, fmt.Sprintf("ms:%s/%s=%d", hxs(cls), hxs(m.Id), m.Supply))
			}
		}
	}
	for _, o := range gs.Owners {
		for _, d := range o.Denoms {
			cls := w.voucherCanon(c, ctx, d.DenomId, true)
			for _, b := range d.Balances {
				if b.Amount != 0 {
					out = append(out, fmt.Sprintf("mb:%s/%s/%s=%d", hxs(cls), hxs(b.MtId), w.CanonAddr(o.Address), b.Amount))
				}
			}
		}
	}
	sort.Strings(out)
	return strings.Join(out, " ")
}

// ---- events ------------------------------------------------------------------------------

var packetEventKinds = map[string]bool{
	packettypes.EventTypeSendPacket: true, packettypes.EventTypeRecvPacket: true,
	packettypes.EventTypeWriteAck: true, packettypes.EventTypeAcknowledgePacket: true,
	packettypes.EventTypeSendCleanPacket: true, packettypes.EventTypeRecvCleanPacket: true,
}

func attr(e abci.Event, key string) string {
	for _, a := range e.Attributes {
		if a.Key == key {
			return a.Value
		}
	}
	return ""
}

// EventsStr canonicalises the packet-layer events of one executed operation.
func (w *World) EventsStr(evs []abci.Event) string {
	var out []string
	for _, e := range evs {
		if !packetEventKinds[e.Type] {
			continue
		}
		seq := attr(e, packettypes.AttributeKeySequence)
		port := attr(e, packettypes.AttributeKeyPort)
		data := "raw|-"
		ack := "raw|-"
		switch e.Type {
		case packettypes.EventTypeSendCleanPacket, packettypes.EventTypeRecvCleanPacket:
		default:
			data = w.PayloadTok(port, []byte(attr(e, packettypes.AttributeKeyData)))
			if e.Type == packettypes.EventTypeWriteAck || e.Type == packettypes.EventTypeAcknowledgePacket {
				ack = w.AckTok([]byte(attr(e, packettypes.AttributeKeyAck)))
			}
		}
		out = append(out, fmt.Sprintf("ev:%s:%s/%s/%s:%s:%s:%s:%s", e.Type,
			undash(attr(e, packettypes.AttributeKeySrcChain)), undash(attr(e, packettypes.AttributeKeyDstChain)), seq,
			undash(port), undash(attr(e, packettypes.AttributeKeyRelayChain)), data, ack))
	}
	return strings.Join(out, " ")
}

// ---- clients -----------------------------------------------------------------------------

// Connect creates a Tendermint client of q on c (as the testing package's Endpoint does) and
// emits the model op.
func (w *World) Connect(c, q *tibctesting.TestChain) {
	ep := tibctesting.NewDefaultEndpoint(c)
	ep.Counterparty = tibctesting.NewDefaultEndpoint(q)
	ep.Counterparty.Counterparty = ep
	if err := ep.CreateClient(); err != nil {
		w.T.Fatalf("create client: %v", err)
	}
	cs := c.GetClientState(q.ChainName).(*ibctmtypes.ClientState)
	h := cs.LatestHeight
	cons, _ := c.GetConsensusState(q.ChainName, h)
	w.emit(fmt.Sprintf("client %s %s %d %d %d", c.ChainName, q.ChainName, h.RevisionHeight, cons.GetTimestamp(), uint64(cs.TrustingPeriod)),
		"res=ok |  | "+w.Dump(c))
}

func heightOf(h clienttypes.Height) uint64 { return h.RevisionHeight }
