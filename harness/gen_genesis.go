package harness

// Genesis stream (C16). A history of every TIBC transaction kind is run on a real multi-chain
// world (as in the determinism stream, with Tendermint, BSC and ETH clients on chain 0). Then the
// state of chain 0 is exported (ExportAppStateAndValidators), a fresh application is started from
// the exported genesis, and
//   * the raw key/value contents of the TIBC stores (tibc core, NFT / MT transfer) of the original
//     and of the re-imported chain are compared entry by entry,
//   * the history continues, block for block, on both chains (the blocks executed by the original
//     are recorded and replayed on the re-imported chain) and every transaction must end with the
//     same code and events on both.
// Differences are reported per key family (the part of the key before the chain names / heights),
// so that each kind of lost state is one signature.

import (
	"bytes"
	"crypto/sha256"
	"encoding/json"
	"fmt"
	"regexp"
	"sort"
	"strings"
	"time"

	abci "github.com/cometbft/cometbft/abci/types"
	cryptoenc "github.com/cometbft/cometbft/crypto/encoding"
	cmtproto "github.com/cometbft/cometbft/proto/tendermint/types"
	dbm "github.com/cosmos/cosmos-db"
	sdk "github.com/cosmos/cosmos-sdk/types"

	"cosmossdk.io/log"
	"github.com/cosmos/cosmos-sdk/baseapp"

	packettypes "github.com/bianjieai/tibc-go/modules/tibc/core/04-packet/types"
	"github.com/bianjieai/tibc-go/simapp"
)

type GenesisGen struct {
	w     *World
	r     *Rng
	stats map[string]int
}

// tibcStores: the stores whose content is TIBC protocol state
var tibcStores = []string{"tibc", "NFT", "MT"}

var reHexRun = regexp.MustCompile(`[0-9a-fA-F]{16,}`)
var reNum = regexp.MustCompile(`[0-9]+`)

// keyFamily turns a raw store key into its family: printable prefix with chain names, numbers and
// binary tails abstracted away
func keyFamily(store string, k []byte) string {
	var b strings.Builder
	for _, c := range k {
		if c >= 0x20 && c < 0x7f {
			b.WriteByte(c)
		} else {
			b.WriteString("\\x")
			break
		}
	}
	s := b.String()
	s = regexp.MustCompile(`[a-z]*chain[0-9]+|fict[a-z0-9]*`).ReplaceAllString(s, "<chain>")
	s = reHexRun.ReplaceAllString(s, "<hex>")
	s = reNum.ReplaceAllString(s, "<n>")
	return store + ":" + s
}

func newGenesisReplica(src *simapp.SimApp, chainID string, t time.Time) (*simapp.SimApp, error) {
	// the SimApp's own default export stops at SDK modules that are mis-wired in this test application
	// (feegrant is ordered but not registered, evidence has no store): export every other module and
	// take the default genesis for those two
	var mods []string
	for name := range src.ModuleManager.Modules {
		if name != "evidence" && name != "feegrant" {
			mods = append(mods, name)
		}
	}
	sort.Strings(mods)
	exported, err := src.ExportAppStateAndValidators(false, nil, mods)
	if err != nil {
		return nil, fmt.Errorf("export: %w", err)
	}
	app := simapp.NewSimApp(log.NewNopLogger(), dbm.NewMemDB(), nil, true, simapp.EmptyAppOptions{}, baseapp.SetChainID(chainID))
	full := simapp.NewDefaultGenesisState(app.AppCodec())
	var part map[string]json.RawMessage
	if err := json.Unmarshal(exported.AppState, &part); err != nil {
		return nil, err
	}
	for k, v := range part {
		full[k] = v
	}
	if exported.AppState, err = json.Marshal(full); err != nil {
		return nil, err
	}
	var vals []abci.ValidatorUpdate
	for _, v := range exported.Validators {
		pk, err := cryptoenc.PubKeyToProto(v.PubKey)
		if err != nil {
			return nil, err
		}
		vals = append(vals, abci.ValidatorUpdate{PubKey: pk, Power: v.Power})
	}
	var ierr error
	func() {
		defer func() {
			if r := recover(); r != nil {
				ierr = fmt.Errorf("InitChain panics: %v", r)
			}
		}()
		_, ierr = app.BaseApp.InitChain(&abci.RequestInitChain{ChainId: chainID, Time: t, InitialHeight: exported.Height,
			ConsensusParams: &exported.ConsensusParams, Validators: vals, AppStateBytes: exported.AppState})
	}()
	if ierr != nil {
		return nil, ierr
	}
	if _, err := app.BaseApp.FinalizeBlock(&abci.RequestFinalizeBlock{Height: exported.Height, Time: t}); err != nil {
		return nil, err
	}
	if _, err := app.Commit(); err != nil {
		return nil, err
	}
	return app, nil
}

func (g *GenesisGen) Run(nOps int, caseIdx int) {
	w := g.w
	c0 := w.Chains[0]
	if target := time.Unix(1632455201+7200, 0).UTC(); w.Coord.CurrentTime.Before(target) {
		w.Coord.CurrentTime = target
		for _, c := range w.Chains {
			w.Coord.CommitBlock(c)
		}
	}
	tg := &TransferGen{w: w, r: g.r, stats: g.stats, relay: len(w.Chains) >= 3, mt: caseIdx%2 == 1}
	tg.setup()
	bsc := &BscGen{w: w, r: g.r, stats: g.stats, viaTx: true}
	bscOK := bsc.Init(caseIdx)
	eth := &EthGen{w: w, r: g.r, stats: g.stats, viaTx: true}
	ethOK := eth.setup(caseIdx, 400000)
	// governance registered relayers for a chain whose client does not exist (yet)
	c0.App.TIBCKeeper.ClientKeeper.RegisterRelayers(c0.GetContext(), "fictfuture", []string{w.Acct(0, 1).String(), w.Acct(0, 2).String()})
	w.Coord.CommitBlock(c0)

	step := func(i int) {
		switch x := g.r.Intn(100); {
		case x < 14:
			tg.opIssueMint()
		case x < 18:
			tg.opUserMove()
		case x < 40:
			tg.opTransfer()
		case x < 68:
			tg.opRelay()
		case x < 80:
			if bscOK {
				bscOK = bsc.Step(i)
			}
		case x < 90:
			if ethOK {
				eth.Step(i)
			}
		default:
			d := w.Chains[1+g.r.Intn(len(w.Chains)-1)]
			relay := ""
			if len(w.Chains) >= 3 && d == w.Chains[2] {
				relay = w.Chains[1].ChainName
			}
			w.Clean(c0, g.r.Intn(2), packettypes.NewCleanPacket(uint64(1+g.r.Intn(3)), c0.ChainName, d.ChainName, relay))
		}
	}
	// scripted prelude: state of every family that has no genesis field (known findings F-C16d/e):
	// a voucher class trace on chain 0, an acknowledged packet of chain 0 and a clean point
	{
		c1 := w.Chains[1]
		cls, id := fmt.Sprintf("kitty%d", caseIdx), "tom"
		if !tg.mt && w.NftIssue(c1, 0, cls, false).Code == 0 {
			tg.nftAfterMint(c1, cls, id, w.NftMint(c1, 0, cls, id, "uri", w.Acct(1, 1).String()))
			if t := tg.nftXfer(1, 1, cls, id, w.Acct(0, 1).String(), c0.ChainName, ""); t != nil {
				tg.deliver(t)
			}
		}
		cls0 := fmt.Sprintf("puppy%d", caseIdx)
		if !tg.mt && w.NftIssue(c0, 0, cls0, false).Code == 0 {
			tg.nftAfterMint(c0, cls0, id, w.NftMint(c0, 0, cls0, id, "uri", w.Acct(0, 1).String()))
			if t := tg.nftXfer(0, 1, cls0, id, w.Acct(1, 1).String(), c1.ChainName, ""); t != nil && tg.deliver(t) {
				w.Clean(c0, 0, packettypes.NewCleanPacket(1, c0.ChainName, c1.ChainName, ""))
			}
		}
	}
	for i := 0; i < nOps; i++ {
		step(i)
	}
	// chain 0 as a *relay* chain with a forwarded packet still in flight at export time: its
	// forwarding commitment (written on receipt, no next-send counter of its own) must survive
	if len(w.Chains) >= 3 {
		c1, c2 := w.Chains[1], w.Chains[2]
		if w.ClientLatest(c0, c2.ChainName) == 0 {
			w.Connect(c0, c2)
		}
		if w.ClientLatest(c2, c0.ChainName) == 0 {
			w.Connect(c2, c0)
		}
		if w.SetRules(c0, []string{"*,*,*"}) == nil {
			var t *tpkt
			if tg.mt {
				if class := w.MtIssue(c1, 0); class != "" {
					id, res := w.MtMint(c1, 0, class, "", 5, w.Acct(1, 1).String())
					tg.mtAfterMint(c1, class, id, 5, res)
					if res.Code == 0 {
						t = tg.mtXfer(1, 1, class, id, w.Acct(2, 1).String(), c2.ChainName, c0.ChainName, 2)
					}
				}
			} else {
				cls, id := fmt.Sprintf("viazero%d", caseIdx), "tom"
				if w.NftIssue(c1, 0, cls, false).Code == 0 {
					tg.nftAfterMint(c1, cls, id, w.NftMint(c1, 0, cls, id, "uri", w.Acct(1, 1).String()))
					t = tg.nftXfer(1, 1, cls, id, w.Acct(2, 1).String(), c2.ChainName, c0.ChainName)
				}
			}
			if t != nil {
				h := w.Update(c0, c1)
				ps := ProofSpec{Kind: "honest", Chain: c1.ChainName, Height: h, Key: "commit", Src: t.p.SourceChain, Dst: t.p.DestinationChain, Seq: t.p.Sequence}
				res := tg.recvWithOracles(c0, 0, t.p, t.tok, ps, h)
				g.stats["genesis.forwarded-in-flight."+ErrClass(res.Codespace, res.Code)]++
				if res.Code == 0 {
					t.recvOn[c0.ChainName] = true
				}
			}
		}
	}
	// many entries of each sequence-indexed family (a busy lane that was never cleaned): more than
	// any page size an exporter might use
	{
		pk := c0.App.TIBCKeeper.PacketKeeper
		ctx := c0.GetContext()
		for seq := uint64(1); seq <= 130; seq++ {
			hsh := sha256.Sum256([]byte{byte(seq), byte(caseIdx)})
			pk.SetPacketReceipt(ctx, "fictbulksrc", c0.ChainName, seq)
			pk.SetPacketAcknowledgement(ctx, "fictbulksrc", c0.ChainName, seq, hsh[:])
			pk.SetPacketCommitment(ctx, c0.ChainName, "fictbulkdst", seq, hsh[:])
		}
		w.Coord.CommitBlock(c0)
		g.stats["genesis.bulk-entries"] += 390
	}
	// let the clients of chain 0 see recent heights of the other chains (many consensus states)
	for _, q := range w.Chains[1:] {
		if w.ClientLatest(c0, q.ChainName) > 0 {
			w.Update(c0, q)
		}
	}
	w.Coord.CommitBlock(c0)

	// ---- export / re-import ------------------------------------------------------------------
	replica, err := newGenesisReplica(c0.App, c0.ChainID, c0.ProposedHeader.Time)
	if err != nil {
		w.hit("C16", "re-import-of-exported-genesis-fails: "+firstLine(err.Error()))
		return
	}
	orig, imp := snapshotKV(c0.App), snapshotKV(replica)
	lost, added, changed := map[string]int{}, map[string]int{}, map[string]int{}
	example := map[string]string{}
	total := 0
	for _, st := range tibcStores {
		om := map[string][]byte{}
		for _, p := range orig[st] {
			om[string(p.k)] = p.v
			total++
		}
		im := map[string][]byte{}
		for _, p := range imp[st] {
			im[string(p.k)] = p.v
		}
		for k, v := range om {
			fam := keyFamily(st, []byte(k))
			iv, ok := im[k]
			if !ok {
				lost[fam]++
				if example["lost "+fam] == "" {
					example["lost "+fam] = fmt.Sprintf("%q", k)
				}
			} else if !bytes.Equal(iv, v) {
				changed[fam]++
				if example["changed "+fam] == "" {
					example["changed "+fam] = fmt.Sprintf("%q", k)
				}
			}
		}
		for k := range im {
			if _, ok := om[k]; !ok {
				fam := keyFamily(st, []byte(k))
				added[fam]++
			}
		}
	}
	g.stats["genesis.tibc-keys-compared"] += total
	report := func(kind string, m map[string]int) {
		var fams []string
		for f := range m {
			fams = append(fams, f)
		}
		sort.Strings(fams)
		for _, f := range fams {
			w.hit("C16", fmt.Sprintf("state-%s-by-export-and-re-import family=%s", kind, f))
			g.stats["genesis."+kind+"."+f] += m[f]
		}
	}
	report("lost", lost)
	report("changed", changed)
	report("added", added)

	// The state families recorded as known findings (no genesis field exists for them) are put back
	// into the re-imported chain by hand, so that the continuation below only differs for state lost
	// in some other way.
	{
		ctx := replica.BaseApp.NewUncachedContext(false, cmtproto.Header{})
		keys := kvStoreKeys(replica)
		// stores of other modules (SDK modules, the irismod nft / mt token modules: their own genesis
		// handling is not TIBC's) are made identical to the original's
		isTibc := map[string]bool{}
		for _, st := range tibcStores {
			isTibc[st] = true
		}
		for name, key := range keys {
			if isTibc[name] {
				continue
			}
			st := ctx.KVStore(key)
			for _, p := range imp[name] {
				st.Delete(p.k)
			}
			for _, p := range orig[name] {
				st.Set(p.k, p.v)
			}
		}
		for _, st := range tibcStores {
			im := map[string]bool{}
			for _, p := range imp[st] {
				im[string(p.k)] = true
			}
			for _, p := range orig[st] {
				if im[string(p.k)] {
					continue
				}
				fam := keyFamily(st, p.k)
				if strings.HasPrefix(fam, "tibc:clean/") || strings.HasPrefix(fam, "tibc:maxAckSeq/") || strings.HasPrefix(fam, "NFT:") || strings.HasPrefix(fam, "MT:") {
					ctx.KVStore(keys[st]).Set(p.k, p.v)
				}
			}
		}
	}

	// ---- the same continuation on both chains -------------------------------------------------
	recorder.watch(c0.App)
	for i := 0; i < nOps/2; i++ {
		step(nOps + i)
	}
	blocks := recorder.stop(c0.App)
	out, err := replayBlocks(replica, blocks)
	if err != nil {
		w.hit("C16", "continuation-aborts-on-re-imported-chain: "+firstLine(err.Error()))
		return
	}
	rc := recordedCodes(blocks)
	same, diff := 0, 0
	seen := map[string]bool{}
	for bi := range rc {
		for ti := range rc[bi] {
			if out.codes[bi][ti] == rc[bi][ti] {
				same++
				continue
			}
			diff++
			what := "?"
			if tx, err := c0.TxConfig.TxDecoder()(blocks[bi].req.Txs[ti]); err == nil && len(tx.GetMsgs()) > 0 {
				what = strings.TrimPrefix(sdk.MsgTypeURL(tx.GetMsgs()[0]), "/")
			}
			sig := fmt.Sprintf("continuation-differs-after-re-import msg=%s original=%s re-imported=%s", what, rc[bi][ti], out.codes[bi][ti])
			if !seen[sig] {
				seen[sig] = true
				w.hit("C16", sig)
			}
		}
	}
	g.stats["genesis.continuation-tx-same"] += same
	g.stats["genesis.continuation-tx-differ"] += diff
	w.emit(fmt.Sprintf("genesis.checked %d %d", total, same+diff), "done")
}

func firstLine(s string) string {
	if i := strings.Index(s, "\n"); i >= 0 {
		s = s[:i]
	}
	if len(s) > 160 {
		s = s[:160]
	}
	return s
}
