package harness

// Store-key stream: the key builders of core/24-host and the two key parsers the packet keeper's
// iterators use (ParseChannelPath for the per-pair counters, the segment reader inside
// iterateHashes for commitments / receipts / acknowledgements), on random chain names drawn
// from the identifier alphabet (and, for the parsers, on arbitrary paths). The Lean driver
// evaluates Host/Keys.lean on the same lines.

import (
	"fmt"
	"strings"

	host "github.com/bianjieai/tibc-go/modules/tibc/core/24-host"
	tibctesting "github.com/bianjieai/tibc-go/modules/tibc/testing"
)

type KeysGen struct {
	w     *World
	r     *Rng
	stats map[string]int
}

const keyNameAlphabet = "abcxyzABZ019._+-#[]<>"

func (g *KeysGen) name(allowSlash bool) string {
	n := 1 + g.r.Intn(6)
	if g.r.Chance(10) {
		n = 20 + g.r.Intn(45)
	}
	var b strings.Builder
	for i := 0; i < n; i++ {
		if allowSlash && g.r.Chance(8) {
			b.WriteByte('/')
		} else {
			b.WriteByte(keyNameAlphabet[g.r.Intn(len(keyNameAlphabet))])
		}
	}
	if g.r.Chance(5) {
		return "sequences"
	}
	return b.String()
}

func (g *KeysGen) seq() uint64 {
	switch g.r.Intn(6) {
	case 0:
		return uint64(g.r.Intn(11))
	case 1:
		return ^uint64(0) - uint64(g.r.Intn(3))
	case 2:
		return []uint64{9, 10, 99, 100, 999, 1000, 1<<63 - 1, 1 << 63}[g.r.Intn(8)]
	}
	return g.r.Next() >> uint(g.r.Intn(64))
}

// parseSeqReal runs the real iterator over a store that holds exactly the given key under
// the commitments prefix
func (g *KeysGen) parseSeqReal(c *tibctesting.TestChain, path string) (res string) {
	ctx := c.GetContext()
	store := ctx.KVStore(c.App.GetKey(host.StoreKey))
	store.Set([]byte(path), []byte{1})
	defer store.Delete([]byte(path))
	defer func() {
		if r := recover(); r != nil {
			res = "res=panic"
		}
	}()
	all := c.App.TIBCKeeper.PacketKeeper.GetAllPacketCommitments(ctx)
	if len(all) != 1 {
		return fmt.Sprintf("res=harness-expected-one-entry-got-%d", len(all))
	}
	return fmt.Sprintf("res=ok %s %s %d", hxs(all[0].SourceChain), hxs(all[0].DestinationChain), all[0].Sequence)
}

func (g *KeysGen) Run(nOps int) {
	w := g.w
	c := w.Chains[0]
	for i := 0; i < nOps; i++ {
		switch g.r.Intn(4) {
		case 0, 1: // builders
			src, dst, n := g.name(g.r.Chance(10)), g.name(g.r.Chance(10)), g.seq()
			fam := []string{"commit", "ack", "receipt", "clean", "maxack", "nextsend"}[g.r.Intn(6)]
			var key []byte
			switch fam {
			case "commit":
				key = host.PacketCommitmentKey(src, dst, n)
			case "ack":
				key = host.PacketAcknowledgementKey(src, dst, n)
			case "receipt":
				key = host.PacketReceiptKey(src, dst, n)
			case "clean":
				key = host.CleanPacketCommitmentKey(src, dst)
			case "maxack":
				key = host.MaxAckSeqKey(src, dst)
			default:
				key = host.NextSequenceSendKey(src, dst)
			}
			w.emit(fmt.Sprintf("hostkey %s %s %s %d", fam, hxs(src), hxs(dst), n), "res="+hx(key))
			g.stats["keys.build."+fam]++
			// the iterators must read the key back as what it was built from
			if fam == "commit" && !strings.Contains(src+dst, "/") {
				if got, want := g.parseSeqReal(c, string(key)), fmt.Sprintf("res=ok %s %s %d", hxs(src), hxs(dst), n); got != want {
					w.hit("C16", fmt.Sprintf("commitment-key-read-back-differently built=(%s,%s,%d) read=%s", src, dst, n, got))
				}
			}
		case 2: // ParseChannelPath on arbitrary paths
			var segs []string
			for k := g.r.Intn(6); k > 0; k-- {
				segs = append(segs, g.name(false))
			}
			path := strings.Join(segs, "/")
			if g.r.Chance(15) {
				path += "/"
			}
			a, b, err := host.ParseChannelPath(path)
			out := "res=error"
			if err == nil {
				out = fmt.Sprintf("res=ok %s %s", hxs(a), hxs(b))
			}
			w.emit("hostparse pair "+hxs(path), out)
			g.stats["keys.parsepair."+strings.Fields(out)[0]]++
		default: // the iterator's reader on arbitrary keys under the commitments prefix
			segs := []string{host.KeyPacketCommitmentPrefix}
			if g.r.Chance(10) {
				segs[0] += g.name(false) // another family that merely starts with the same letters
			}
			for k := g.r.Intn(5); k > 0; k-- {
				segs = append(segs, g.name(false))
			}
			last := []string{fmt.Sprint(g.seq()), "18446744073709551616", "+5", "-1", "1_0", "", "0x10", "007", " 7", "12a", "99999999999999999999999"}[g.r.Intn(11)]
			if g.r.Chance(60) {
				last = fmt.Sprint(g.seq())
			}
			segs = append(segs, last)
			path := strings.Join(segs, "/")
			out := g.parseSeqReal(c, path)
			w.emit("hostparse seq "+hxs(path), out)
			g.stats["keys.parseseq."+strings.Fields(out)[0]]++
		}
	}
}
