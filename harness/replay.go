package harness

// Record / replay infrastructure shared by the determinism (C20) and genesis (C16) streams.
// The verif-tagged simapp.ABCIRecorder records the InitChain request and every FinalizeBlock
// request (with its response) an application handles. A history recorded on one application is
// replayed on fresh applications ("replicas") that start from the same state:
//   * KV replica: a new SimApp whose stores are overwritten with a key/value snapshot of the
//     source taken at the start of the recorded segment (C20: two replicas must agree byte for
//     byte on every transaction result and on every application hash);
//   * genesis replica: a new SimApp initialised from the source's exported genesis (C16).

import (
	"bytes"
	"encoding/hex"
	"encoding/json"
	"fmt"
	"os"
	"sort"
	"strings"
	"sync"

	abci "github.com/cometbft/cometbft/abci/types"
	cmtproto "github.com/cometbft/cometbft/proto/tendermint/types"
	dbm "github.com/cosmos/cosmos-db"

	"cosmossdk.io/log"
	"cosmossdk.io/store/rootmulti"
	storetypes "cosmossdk.io/store/types"
	"github.com/cosmos/cosmos-sdk/baseapp"

	"github.com/bianjieai/tibc-go/simapp"
)

type recBlock struct {
	req *abci.RequestFinalizeBlock
	res *abci.ResponseFinalizeBlock
}

type abciRecorder struct {
	mu      sync.Mutex
	enabled bool // InitChain requests are kept only while a record / replay stream is running
	inits   map[*simapp.SimApp]*abci.RequestInitChain
	blocks  map[*simapp.SimApp][]recBlock
	watched map[*simapp.SimApp]bool
}

var recorder = &abciRecorder{inits: map[*simapp.SimApp]*abci.RequestInitChain{}, blocks: map[*simapp.SimApp][]recBlock{}, watched: map[*simapp.SimApp]bool{}}

func init() { simapp.ABCIRecorder = recorder }

func (r *abciRecorder) InitChain(app *simapp.SimApp, req *abci.RequestInitChain, res *abci.ResponseInitChain) {
	r.mu.Lock()
	defer r.mu.Unlock()
	if !r.enabled {
		return
	}
	cp := *req
	r.inits[app] = &cp
}

func (r *abciRecorder) FinalizeBlock(app *simapp.SimApp, req *abci.RequestFinalizeBlock, res *abci.ResponseFinalizeBlock) {
	r.mu.Lock()
	defer r.mu.Unlock()
	if !r.watched[app] {
		return
	}
	cp := *req
	r.blocks[app] = append(r.blocks[app], recBlock{req: &cp, res: res})
}

func (r *abciRecorder) watch(app *simapp.SimApp) {
	r.mu.Lock()
	defer r.mu.Unlock()
	r.watched[app] = true
	r.blocks[app] = nil
}

func (r *abciRecorder) stop(app *simapp.SimApp) []recBlock {
	r.mu.Lock()
	defer r.mu.Unlock()
	b := r.blocks[app]
	delete(r.watched, app)
	delete(r.blocks, app)
	return b
}

// forget drops everything kept for the applications of a finished case
func (r *abciRecorder) forget(apps ...*simapp.SimApp) {
	r.mu.Lock()
	defer r.mu.Unlock()
	for _, a := range apps {
		delete(r.inits, a)
		delete(r.blocks, a)
		delete(r.watched, a)
	}
}

func (r *abciRecorder) initOf(app *simapp.SimApp) *abci.RequestInitChain {
	r.mu.Lock()
	defer r.mu.Unlock()
	return r.inits[app]
}

// ---- snapshots ---------------------------------------------------------------------------

type kvPair struct{ k, v []byte }

type kvSnapshot map[string][]kvPair // store name -> sorted pairs

func kvStoreKeys(app *simapp.SimApp) map[string]*storetypes.KVStoreKey {
	out := map[string]*storetypes.KVStoreKey{}
	rs, ok := app.CommitMultiStore().(*rootmulti.Store)
	if !ok {
		return out
	}
	for name, key := range rs.StoreKeysByName() {
		if kk, ok := key.(*storetypes.KVStoreKey); ok {
			out[name] = kk
		}
	}
	return out
}

// snapshotKV reads every persistent store of the application (current working state)
func snapshotKV(app *simapp.SimApp) kvSnapshot {
	ctx := app.BaseApp.NewUncachedContext(false, cmtproto.Header{})
	snap := kvSnapshot{}
	for name, key := range kvStoreKeys(app) {
		st := ctx.KVStore(key)
		it := st.Iterator(nil, nil)
		var ps []kvPair
		for ; it.Valid(); it.Next() {
			ps = append(ps, kvPair{append([]byte{}, it.Key()...), append([]byte{}, it.Value()...)})
		}
		it.Close()
		snap[name] = ps
	}
	return snap
}

func (s kvSnapshot) digestOf(names ...string) string {
	var b bytes.Buffer
	sort.Strings(names)
	for _, n := range names {
		for _, p := range s[n] {
			fmt.Fprintf(&b, "%s|%x=%x\n", n, p.k, p.v)
		}
	}
	return b.String()
}

// newKVReplica builds a fresh application holding exactly the snapshot's state
func newKVReplica(src *simapp.SimApp, snap kvSnapshot, first *abci.RequestFinalizeBlock) (*simapp.SimApp, error) {
	initReq := recorder.initOf(src)
	if initReq == nil {
		return nil, fmt.Errorf("no recorded InitChain for the source application")
	}
	return newKVReplicaFrom(initReq, snap, first)
}

func newKVReplicaFrom(initReq *abci.RequestInitChain, snap kvSnapshot, first *abci.RequestFinalizeBlock) (*simapp.SimApp, error) {
	app := simapp.NewSimApp(log.NewNopLogger(), dbm.NewMemDB(), nil, true, simapp.EmptyAppOptions{}, baseapp.SetChainID(initReq.ChainId))
	cp := *initReq
	if _, err := app.BaseApp.InitChain(&cp); err != nil {
		return nil, err
	}
	h := cp.InitialHeight
	if h == 0 {
		h = 1
	}
	if _, err := app.BaseApp.FinalizeBlock(&abci.RequestFinalizeBlock{Height: h, Time: cp.Time, NextValidatorsHash: first.NextValidatorsHash}); err != nil {
		return nil, err
	}
	ctx := app.BaseApp.NewUncachedContext(false, cmtproto.Header{})
	keys := kvStoreKeys(app)
	for name, key := range keys {
		st := ctx.KVStore(key)
		var old [][]byte
		it := st.Iterator(nil, nil)
		for ; it.Valid(); it.Next() {
			old = append(old, append([]byte{}, it.Key()...))
		}
		it.Close()
		for _, k := range old {
			st.Delete(k)
		}
		for _, p := range snap[name] {
			st.Set(p.k, p.v)
		}
	}
	if _, err := app.Commit(); err != nil {
		return nil, err
	}
	return app, nil
}

type replayOutcome struct {
	appHashes [][]byte
	txResults [][]string // per block, per tx: hex of the marshalled ExecTxResult
	codes     [][]string
}

// replayBlocks delivers the recorded blocks (heights renumbered to the replica's) and commits each
func replayBlocks(app *simapp.SimApp, blocks []recBlock) (out replayOutcome, err error) {
	for _, b := range blocks {
		req := *b.req
		req.Height = app.LastBlockHeight() + 1
		var res *abci.ResponseFinalizeBlock
		func() {
			defer func() {
				if r := recover(); r != nil {
					err = fmt.Errorf("panic in FinalizeBlock: %v", r)
				}
			}()
			res, err = app.BaseApp.FinalizeBlock(&req)
		}()
		if err != nil {
			return out, err
		}
		if _, err = app.Commit(); err != nil {
			return out, err
		}
		out.appHashes = append(out.appHashes, res.AppHash)
		var txs, codes []string
		for _, tr := range res.TxResults {
			cp := *tr
			// the SDK's panic recovery appends a goroutine stack trace (memory addresses) to the log
			if i := strings.Index(cp.Log, "\nstack:"); cp.Code == 111222 && i >= 0 {
				cp.Log = cp.Log[:i]
			}
			bz, _ := cp.Marshal()
			txs = append(txs, fmt.Sprintf("%x", bz))
			codes = append(codes, fmt.Sprintf("%s/%d", tr.Codespace, tr.Code))
		}
		out.txResults = append(out.txResults, txs)
		out.codes = append(out.codes, codes)
	}
	return out, nil
}

func recordedCodes(blocks []recBlock) [][]string {
	var out [][]string
	for _, b := range blocks {
		var codes []string
		for _, tr := range b.res.TxResults {
			codes = append(codes, fmt.Sprintf("%s/%d", tr.Codespace, tr.Code))
		}
		out = append(out, codes)
	}
	return out
}

// ---- histories on disk: replay in another process --------------------------------------------

type detFile struct {
	Init      string                 `json:"init"`     // hex(proto(RequestInitChain))
	Snapshot  map[string][][2]string `json:"snapshot"` // store -> [hex key, hex value]
	Blocks    []string               `json:"blocks"`   // hex(proto(RequestFinalizeBlock))
	AppHashes []string               `json:"app_hashes"`
	TxResults [][]string             `json:"tx_results"`
}

func writeDetFile(path string, initReq *abci.RequestInitChain, snap kvSnapshot, blocks []recBlock, ref replayOutcome) error {
	f := detFile{Snapshot: map[string][][2]string{}, TxResults: ref.txResults}
	bz, err := initReq.Marshal()
	if err != nil {
		return err
	}
	f.Init = hex.EncodeToString(bz)
	for name, ps := range snap {
		for _, p := range ps {
			f.Snapshot[name] = append(f.Snapshot[name], [2]string{hex.EncodeToString(p.k), hex.EncodeToString(p.v)})
		}
	}
	for _, b := range blocks {
		bz, err := b.req.Marshal()
		if err != nil {
			return err
		}
		f.Blocks = append(f.Blocks, hex.EncodeToString(bz))
	}
	for _, h := range ref.appHashes {
		f.AppHashes = append(f.AppHashes, hex.EncodeToString(h))
	}
	out, err := json.Marshal(f)
	if err != nil {
		return err
	}
	return os.WriteFile(path, out, 0o644)
}

// replayDetFile re-executes a history written by another process and compares with what that
// process observed; returns a description of the first difference ("" = identical)
func replayDetFile(path string) (string, int, error) {
	bz, err := os.ReadFile(path)
	if err != nil {
		return "", 0, err
	}
	var f detFile
	if err := json.Unmarshal(bz, &f); err != nil {
		return "", 0, err
	}
	var initReq abci.RequestInitChain
	ib, _ := hex.DecodeString(f.Init)
	if err := initReq.Unmarshal(ib); err != nil {
		return "", 0, err
	}
	snap := kvSnapshot{}
	for name, ps := range f.Snapshot {
		for _, p := range ps {
			k, _ := hex.DecodeString(p[0])
			v, _ := hex.DecodeString(p[1])
			snap[name] = append(snap[name], kvPair{k, v})
		}
	}
	var blocks []recBlock
	for _, b := range f.Blocks {
		var req abci.RequestFinalizeBlock
		rb, _ := hex.DecodeString(b)
		if err := req.Unmarshal(rb); err != nil {
			return "", 0, err
		}
		blocks = append(blocks, recBlock{req: &req})
	}
	if len(blocks) == 0 {
		return "", 0, fmt.Errorf("no blocks")
	}
	app, err := newKVReplicaFrom(&initReq, snap, blocks[0].req)
	if err != nil {
		return "", 0, err
	}
	out, err := replayBlocks(app, blocks)
	if err != nil {
		return "", 0, err
	}
	nTx := 0
	for bi := range f.AppHashes {
		for ti := range f.TxResults[bi] {
			nTx++
			if ti >= len(out.txResults[bi]) || out.txResults[bi][ti] != f.TxResults[bi][ti] {
				return fmt.Sprintf("transaction-result-differs-between-processes block=%d tx=%d", bi, ti), nTx, nil
			}
		}
		if hex.EncodeToString(out.appHashes[bi]) != f.AppHashes[bi] {
			return fmt.Sprintf("application-hash-differs-between-processes block=%d", bi), nTx, nil
		}
	}
	return "", nTx, nil
}
