package harness

// Generator for the ETH header stream (C18): starting from a recorded mainnet header, synthetic
// London-rule children are built on any stored header (extensions, siblings, deep forks,
// re-extensions of abandoned branches) with every single-field perturbation. The proof-of-work
// seal of synthetic headers is decided by the verif-tagged SealHook (even nonce: valid, odd:
// invalid); recorded mainnet headers go through the real ethash verification. The expectation
// comes from the generator's own header tree and own re-implementation of the EIP-1559 base fee,
// gas-limit and difficulty rules; after every accepted header the consensus states of all heights
// up to the latest header are compared with the ancestors of that header in the generator's tree.

import (
	"encoding/json"
	"fmt"
	"math/big"
	"os"
	"sort"
	"strconv"
	"strings"
	"time"

	"github.com/ethereum/go-ethereum/common"
	gethtypes "github.com/ethereum/go-ethereum/core/types"
	"github.com/ethereum/go-ethereum/crypto"

	sdk "github.com/cosmos/cosmos-sdk/types"

	clienttypes "github.com/bianjieai/tibc-go/modules/tibc/core/02-client/types"
	ethtypes "github.com/bianjieai/tibc-go/modules/tibc/light-clients/09-eth/types"
	tibctesting "github.com/bianjieai/tibc-go/modules/tibc/testing"
)

type ethNode struct {
	h      ethtypes.Header
	parent *ethNode
}

type EthGen struct {
	w         *World
	r         *Rng
	stats     map[string]int
	name      string
	nodes     map[common.Hash]*ethNode // accepted headers (generator's tree)
	order     []*ethNode
	latest    *ethNode
	base      uint64
	hashLbl   map[common.Hash]string
	nLbl      int
	now       uint64
	period    uint64
	pruning   bool
	maxH      uint64
	sameRoots bool
	viaTx     bool // deliver updates as signed MsgUpdateClient transactions (determinism stream)
	recorded  []*ethtypes.EthHeader
}

const ethSynthMarker = 0xFE

func init() {
	ethtypes.SealHook = func(h ethtypes.Header) (bool, error) {
		if len(h.Extra) > 0 && h.Extra[0] == ethSynthMarker {
			if h.Nonce%2 == 0 {
				return true, nil
			}
			return true, ethtypes.ErrHeader
		}
		return false, nil
	}
}

func (g *EthGen) hashLabel(h common.Hash) string {
	if l, ok := g.hashLbl[h]; ok {
		return l
	}
	g.nLbl++
	l := fmt.Sprintf("E%d", g.nLbl)
	g.hashLbl[h] = l
	return l
}

// ---- the rules, re-implemented from the EIPs ------------------------------------------------

func ethBig(s string) *big.Int {
	b, ok := new(big.Int).SetString(s, 10)
	if !ok {
		return big.NewInt(0)
	}
	return b
}

// EIP-1559 base fee of the child of p
func truthBaseFee(p ethtypes.Header) *big.Int {
	target := p.GasLimit / 2
	pb := ethBig(p.BaseFee)
	if p.GasUsed == target {
		return pb
	}
	if p.GasUsed > target {
		d := new(big.Int).Mul(pb, new(big.Int).SetUint64(p.GasUsed-target))
		d.Div(d, new(big.Int).SetUint64(target))
		d.Div(d, big.NewInt(8))
		if d.Sign() == 0 {
			d = big.NewInt(1)
		}
		return d.Add(d, pb)
	}
	d := new(big.Int).Mul(pb, new(big.Int).SetUint64(target-p.GasUsed))
	d.Div(d, new(big.Int).SetUint64(target))
	d.Div(d, big.NewInt(8))
	r := new(big.Int).Sub(pb, d)
	if r.Sign() < 0 {
		return big.NewInt(0)
	}
	return r
}

// EIP-100 / EIP-3554 difficulty of a child of p with timestamp t
func truthDifficulty(t uint64, p ethtypes.Header) *big.Int {
	adj := int64(1)
	if common.BytesToHash(p.UncleHash) != gethtypes.EmptyUncleHash {
		adj = 2
	}
	x := adj - int64((t-p.Time)/9)
	if x < -99 {
		x = -99
	}
	pd := ethBig(p.Difficulty)
	y := new(big.Int).Div(pd, big.NewInt(2048))
	y.Mul(y, big.NewInt(x))
	d := new(big.Int).Add(pd, y)
	if d.Cmp(big.NewInt(131072)) < 0 {
		d = big.NewInt(131072)
	}
	fake := uint64(0)
	if p.Height.RevisionHeight >= 9699999 {
		fake = p.Height.RevisionHeight - 9699999
	}
	period := fake / 100000
	if period > 1 {
		d.Add(d, new(big.Int).Exp(big.NewInt(2), new(big.Int).SetUint64(period-2), nil))
	}
	return d
}

// ---- construction ------------------------------------------------------------------------

type ethSpec struct {
	parent   ethtypes.Header
	dt       uint64
	gasLimit uint64
	gasUsed  uint64
	uncles   bool
	// perturbations
	parentHash *common.Hash
	number     *uint64
	timeAbs    *uint64
	baseFeeD   int64
	diffD      int64
	badSeal    bool
	extraLen   int
	diffStr    string
	root       []byte
}

func (g *EthGen) build(s ethSpec) ethtypes.Header {
	p := s.parent
	t := p.Time + s.dt
	if s.timeAbs != nil {
		t = *s.timeAbs
	}
	ph := p.Hash()
	if s.parentHash != nil {
		ph = *s.parentHash
	}
	number := p.Height.RevisionHeight + 1
	if s.number != nil {
		number = *s.number
	}
	var diff *big.Int
	if t > p.Time {
		diff = truthDifficulty(t, p)
	} else {
		diff = ethBig(p.Difficulty)
	}
	diff.Add(diff, big.NewInt(s.diffD))
	bf := truthBaseFee(p)
	bf.Add(bf, big.NewInt(s.baseFeeD))
	n := 5
	if s.extraLen > 0 {
		n = s.extraLen
	}
	extra := make([]byte, n)
	extra[0] = ethSynthMarker
	for i := 1; i < n; i++ {
		extra[i] = byte(g.r.Intn(256))
	}
	uncle := gethtypes.EmptyUncleHash
	if s.uncles {
		uncle = crypto.Keccak256Hash([]byte("uncles"), []byte{byte(g.r.Intn(256))})
	}
	nonce := uint64(g.r.Intn(1<<30)) * 2
	if s.badSeal {
		nonce++
	}
	root := crypto.Keccak256([]byte("root"), []byte(fmt.Sprint(number, g.r.Next())))
	if g.sameRoots && g.r.Chance(50) {
		// blocks of competing branches at one height with one and the same state root (e.g. empty
		// blocks of the same miner)
		root = crypto.Keccak256([]byte("same-root"), []byte(fmt.Sprint(number)))
	}
	if s.root != nil {
		root = s.root
	}
	h := ethtypes.Header{
		ParentHash: ph.Bytes(), UncleHash: uncle.Bytes(), Coinbase: make([]byte, 20),
		Root:   root,
		TxHash: gethtypes.EmptyRootHash.Bytes(), ReceiptHash: gethtypes.EmptyRootHash.Bytes(), Bloom: make([]byte, 256),
		Difficulty: diff.String(), Height: clienttypes.NewHeight(0, number), GasLimit: s.gasLimit, GasUsed: s.gasUsed, Time: t,
		Extra: extra, MixDigest: crypto.Keccak256([]byte("mix")), Nonce: nonce, BaseFee: bf.String(),
	}
	if s.diffStr != "" {
		h.Difficulty = s.diffStr
	}
	return h
}

func (g *EthGen) token(h ethtypes.Header, sealOk bool) string {
	b01 := func(b bool) int {
		if b {
			return 1
		}
		return 0
	}
	_, ok1 := new(big.Int).SetString(h.Difficulty, 10)
	_, ok2 := new(big.Int).SetString(h.BaseFee, 10)
	wf := ok1 && ok2
	d, bf := "0", "0"
	hash := "malformed"
	if wf {
		d, bf = h.Difficulty, h.BaseFee
		hash = g.hashLabel(h.Hash())
	}
	return fmt.Sprintf("%d;%s;%s;%d;%s;%d;%d;%s;%s;%d;%d;%d;%d", h.Height.RevisionHeight, hash, g.hashLabel(common.BytesToHash(h.ParentHash)),
		h.Time, hx(h.Root)[:12], h.GasLimit, h.GasUsed, bf, d, b01(common.BytesToHash(h.UncleHash) != gethtypes.EmptyUncleHash), len(h.Extra),
		b01(wf), b01(sealOk))
}

func (g *EthGen) ctx(c *tibctesting.TestChain) sdk.Context {
	return c.GetContext().WithBlockTime(time.Unix(int64(g.now), 0))
}

func (g *EthGen) dump(c *tibctesting.TestChain, ctx sdk.Context) string {
	ck := c.App.TIBCKeeper.ClientKeeper
	csI, ok := ck.GetClientState(ctx, g.name)
	if !ok {
		return "noclient"
	}
	cs := csI.(*ethtypes.ClientState)
	var cons []string
	for h := g.base; h <= g.maxH; h++ {
		if s, ok := ck.GetClientConsensusState(ctx, g.name, clienttypes.NewHeight(0, h)); ok {
			es := s.(*ethtypes.ConsensusState)
			cons = append(cons, fmt.Sprintf("%d:%d:%d:%s", h, es.Timestamp, es.Number.RevisionHeight, hx(es.Root)[:12]))
		}
	}
	store := ck.ClientStore(ctx, g.name)
	type kv struct {
		n uint64
		s string
	}
	parseKey := func(k string) (string, uint64) {
		// <prefix>/0x<64 hex><decimal height>
		i := strings.Index(k, "/")
		rest := k[i+1:]
		hsh := rest[:66]
		n, _ := strconv.ParseUint(rest[66:], 10, 64)
		return hsh, n
	}
	var idx, rm []kv
	ethtypes.IteratorEthMetaDataByPrefix(store, ethtypes.KeyIndexEthHeaderPrefix, func(key, val []byte) bool {
		hsh, n := parseKey(string(key))
		idx = append(idx, kv{n, fmt.Sprintf("%d:%s", n, g.hashLabel(common.HexToHash(hsh)))})
		return false
	})
	ethtypes.IteratorEthMetaDataByPrefix(store, ethtypes.KeyMainRootPrefix, func(key, val []byte) bool {
		root, n := parseKey(string(key))
		hsh, n2 := parseKey(string(val))
		rm = append(rm, kv{n, fmt.Sprintf("%d:%s>%d:%s", n, hx(common.HexToHash(root).Bytes())[:12], n2, g.hashLabel(common.HexToHash(hsh)))})
		return false
	})
	srt := func(x []kv) string {
		sort.Slice(x, func(i, j int) bool {
			if x[i].n != x[j].n {
				return x[i].n < x[j].n
			}
			return x[i].s < x[j].s
		})
		ss := make([]string, len(x))
		for i := range x {
			ss[i] = x[i].s
		}
		return undash(strings.Join(ss, ","))
	}
	return fmt.Sprintf("latest=%d:%s cons=%s idx=%s rm=%s", cs.Header.Height.RevisionHeight, g.hashLabel(cs.Header.Hash()),
		undash(strings.Join(cons, ",")), srt(idx), srt(rm))
}

// oneChain: the consensus states for all heights up to the latest header are the ancestors of it
func (g *EthGen) oneChain(c *tibctesting.TestChain, ctx sdk.Context, label string) {
	ck := c.App.TIBCKeeper.ClientKeeper
	for n := g.latest; n != nil; n = n.parent {
		h := n.h
		s, ok := ck.GetClientConsensusState(ctx, g.name, h.Height)
		if !ok {
			if g.pruning {
				continue
			}
			g.w.hit("C18", fmt.Sprintf("no-consensus-state-for-ancestor-at-height-%d-below-latest %s", h.Height.RevisionHeight-g.base, label))
			return
		}
		es := s.(*ethtypes.ConsensusState)
		if hx(es.Root) != hx(h.Root) || es.Timestamp != h.Time {
			g.w.hit("C18", fmt.Sprintf("consensus-state-at-height-base+%d-is-not-an-ancestor-of-the-latest-header(base+%d) %s",
				h.Height.RevisionHeight-g.base, g.latest.h.Height.RevisionHeight-g.base, label))
			return
		}
	}
}

// submit: expect +1 accept, -1 refuse, 0 no claim
func (g *EthGen) submit(c *tibctesting.TestChain, h ethtypes.Header, sealOk bool, expect int, label string) bool {
	w := g.w
	ck := c.App.TIBCKeeper.ClientKeeper
	ctx := g.ctx(c)
	cctx, write := ctx.CacheContext()
	hdr := h
	tok := g.token(h, sealOk)
	var err error
	if g.viaTx {
		msg, merr := clienttypes.NewMsgUpdateClient(g.name, &hdr, c.SenderAccounts[0].SenderAccount.GetAddress())
		if merr != nil {
			err = merr
		} else if r := w.Tx(c, 0, msg); r.Code != 0 {
			err = fmt.Errorf("tx failed: %s/%d", r.Codespace, r.Code)
		}
		ctx = c.GetContext()
		write = func() {}
		expect = 0
	} else {
		err = func() (err error) {
			defer func() {
				if r := recover(); r != nil {
					err = fmt.Errorf("panic: %v", r)
				}
			}()
			return ck.UpdateClient(cctx, g.name, &hdr)
		}()
	}
	res := "ok"
	if err != nil {
		res = "fail"
	} else {
		write()
		n := &ethNode{h: h, parent: g.nodes[common.BytesToHash(h.ParentHash)]}
		g.nodes[h.Hash()] = n
		g.order = append(g.order, n)
		g.latest = n
		if h.Height.RevisionHeight > g.maxH {
			g.maxH = h.Height.RevisionHeight
		}
		csI, _ := ck.GetClientState(ctx, g.name)
		if csI.(*ethtypes.ClientState).Header.Hash() != h.Hash() {
			w.hit("C18", "accepted-header-is-not-the-latest-header "+label)
		}
		if !g.viaTx {
			g.oneChain(c, ctx, label)
		}
	}
	if expect > 0 && res != "ok" {
		w.hit("C18", "valid-header-refused "+label)
	}
	if expect < 0 && res == "ok" {
		w.hit("C18", "invalid-header-accepted "+label)
	}
	w.emit(fmt.Sprintf("eth.update %s %d %s", g.name, g.now, tok), "res="+res+" | "+g.dump(c, ctx))
	g.stats["eth."+strings.SplitN(label, " ", 2)[0]+"."+res]++
	if strings.Contains(label, " ") && res == "ok" {
		g.stats["eth.accepted-"+strings.SplitN(strings.SplitN(label, " ", 2)[1], "(", 2)[0]]++
	}
	return res == "ok"
}

func (g *EthGen) depthLabel(p *ethNode) string {
	if p == g.latest {
		return "extends-latest"
	}
	// distance from the latest header to the common ancestor
	anc := map[*ethNode]bool{}
	for n := g.latest; n != nil; n = n.parent {
		anc[n] = true
	}
	d := 0
	q := p
	for q != nil && !anc[q] {
		q = q.parent
		d++
	}
	back := 0
	for n := g.latest; n != nil && n != q; n = n.parent {
		back++
	}
	if d == 0 {
		return fmt.Sprintf("forks-off-main-%d-below-latest", back)
	}
	return fmt.Sprintf("extends-side-branch(len=%d,fork-%d-below-latest)", d, back)
}

func (g *EthGen) validSpec(p ethtypes.Header) ethSpec {
	lim := p.GasLimit / 1024
	gl := p.GasLimit
	switch g.r.Intn(5) {
	case 0:
		gl = p.GasLimit + lim - 1
	case 1:
		if p.GasLimit-(lim-1) >= 5000 {
			gl = p.GasLimit - (lim - 1)
		}
	case 2:
		gl = p.GasLimit + uint64(g.r.Intn(int(lim)))
	}
	gu := uint64(g.r.Intn(int(gl) + 1))
	switch g.r.Intn(4) {
	case 0:
		gu = gl / 2 // exactly the target: base fee unchanged for the child
	case 1:
		gu = gl
	}
	dt := uint64(1 + g.r.Intn(30))
	if g.r.Chance(10) {
		dt = uint64(900 + g.r.Intn(200)) // beyond the -99 clamp
	}
	return ethSpec{parent: p, dt: dt, gasLimit: gl, gasUsed: gu, uncles: g.r.Chance(20)}
}

// RunSameRootScenario: the scripted history behind known finding F-C18b. Two competing branches
// hold, at one height, blocks with one and the same state root; the root index then names the
// wrong block as "main chain block at that height" and a later switch to the other branch leaves
// a stale consensus state below the fork.
func (g *EthGen) RunSameRootScenario(caseIdx int) {
	if !g.setup(caseIdx, 200000) {
		return
	}
	c := g.w.Chains[0]
	G := g.latest.h
	mk := func(p ethtypes.Header, root []byte) ethtypes.Header {
		g.now = p.Time + 20
		return g.build(ethSpec{parent: p, dt: 13, gasLimit: p.GasLimit, gasUsed: p.GasLimit / 2, root: root})
	}
	sub := func(h ethtypes.Header, what string) {
		g.submit(c, h, true, 0, what+" same-root-scenario")
	}
	R2 := crypto.Keccak256([]byte("the-same-state-root"))
	A1 := mk(G, nil)
	sub(A1, "A1")
	A2 := mk(A1, R2)
	sub(A2, "A2")
	A3 := mk(A2, nil)
	sub(A3, "A3")
	B1 := mk(G, nil)
	sub(B1, "B1")
	B2 := mk(B1, R2)
	sub(B2, "B2")
	A4 := mk(A3, nil)
	sub(A4, "A4")
	N2 := mk(B1, nil)
	sub(N2, "N2")
}

// setup creates the client from the first recorded mainnet header
func (g *EthGen) setup(caseIdx int, period uint64) bool {
	w := g.w
	c := w.Chains[0]
	ck := c.App.TIBCKeeper.ClientKeeper
	g.hashLbl = map[common.Hash]string{}
	g.nodes = map[common.Hash]*ethNode{}
	g.name = fmt.Sprintf("ethchain%d", caseIdx)
	bz, err := os.ReadFile("/repo/modules/tibc/light-clients/09-eth/types/testdata/update_headers.json")
	if err != nil {
		w.hit("C18", "cannot-read-recorded-headers")
		return false
	}
	if err := json.Unmarshal(bz, &g.recorded); err != nil || len(g.recorded) < 3 {
		w.hit("C18", "cannot-parse-recorded-headers")
		return false
	}
	gen := g.recorded[0].ToHeader()
	g.base = gen.Height.RevisionHeight
	g.maxH = g.base
	g.period = period
	g.now = gen.Time + 20
	cs := &ethtypes.ClientState{Header: gen, ChainId: 1, ContractAddress: []byte("0x00"), TrustingPeriod: g.period, TimeDelay: 0, BlockDelay: 1}
	cons := &ethtypes.ConsensusState{Timestamp: gen.Time, Number: gen.Height, Root: gen.Root}
	ctx := g.ctx(c)
	if err := ck.CreateClient(ctx, g.name, cs, cons); err != nil {
		w.hit("C18", "cannot-create-client "+err.Error())
		return false
	}
	if g.viaTx {
		ck.RegisterRelayers(ctx, g.name, []string{c.SenderAccounts[0].SenderAccount.GetAddress().String()})
	}
	root := &ethNode{h: gen}
	g.nodes[gen.Hash()] = root
	g.order = []*ethNode{root}
	g.latest = root
	w.emit(fmt.Sprintf("eth.create %s %d %s", g.name, g.period, g.token(gen, true)), "res=ok | "+g.dump(c, ctx))
	return true
}

func (g *EthGen) Run(nOps int, caseIdx int) {
	w := g.w
	c := w.Chains[0]
	g.pruning = caseIdx%4 == 3
	g.sameRoots = os.Getenv("VERIF_ETH_SAMEROOTS") == "1" && caseIdx%2 == 1
	period := uint64(200000)
	if g.pruning {
		period = uint64(60 + g.r.Intn(120))
	}
	if !g.setup(caseIdx, period) {
		return
	}
	recorded := g.recorded

	if caseIdx == 0 {
		// recorded mainnet headers through the real ethash verification: the genuine child, and the same
		// header with another nonce
		bad := recorded[1].ToHeader()
		bad.Nonce++
		g.now = bad.Time + 5
		g.submit(c, bad, false, -1, "recorded-header-with-altered-nonce(real-ethash)")
		good := recorded[1].ToHeader()
		g.submit(c, good, true, +1, "recorded-header(real-ethash)")
	}

	for i := 0; i < nOps; i++ {
		g.Step(i)
	}
}

// Step: perturbed candidates on a chosen stored parent, then the valid child
func (g *EthGen) Step(i int) {
	c := g.w.Chains[0]
	if g.viaTx {
		g.now = uint64(g.w.Coord.CurrentTime.Unix())
	}
	{
		// pick the parent: the latest header, or any stored header
		pn := g.latest
		if g.r.Chance(40) {
			pn = g.order[g.r.Intn(len(g.order))]
			if g.r.Chance(50) && len(g.order) > 3 {
				pn = g.order[len(g.order)-1-g.r.Intn(3)]
			}
		}
		p := pn.h
		vs := g.validSpec(p)
		if g.now < p.Time+vs.dt {
			g.now = p.Time + vs.dt + uint64(g.r.Intn(10))
		} else if g.r.Chance(50) {
			g.now += uint64(g.r.Intn(5))
		}
		if g.pruning {
			g.now += uint64(g.r.Intn(20))
		}
		// the latest consensus state must stay inside the trusting period (client Active)
		if g.latest.h.Time+g.period < g.now {
			g.now = g.latest.h.Time + g.period
			if p.Time+vs.dt > g.now+15 {
				return
			}
		}
		where := g.depthLabel(pn)
		for k := 0; k < 1+g.r.Intn(3); k++ {
			s := vs
			label := ""
			sealOk := true
			switch g.r.Intn(16) {
			case 0:
				x := crypto.Keccak256Hash([]byte{byte(i), byte(k)})
				s.parentHash = &x
				label = "parent-unknown"
			case 1:
				n := p.Height.RevisionHeight + 2
				s.number = &n
				label = "number-skips"
			case 2:
				t := p.Time
				s.timeAbs = &t
				label = "time-equals-parent"
			case 3:
				if p.Time < 2 {
					continue
				}
				t := p.Time - 1 - uint64(g.r.Intn(5))
				s.timeAbs = &t
				label = "time-before-parent"
			case 4:
				t := g.now + 16 + uint64(g.r.Intn(100))
				if t <= p.Time {
					continue
				}
				s.timeAbs = &t
				label = "time-more-than-15s-ahead"
			case 5:
				s.gasLimit = p.GasLimit + p.GasLimit/1024
				if s.gasUsed > s.gasLimit {
					s.gasUsed = 0
				}
				label = "gaslimit-at-upper-bound"
			case 6:
				s.gasLimit = p.GasLimit - p.GasLimit/1024
				s.gasUsed = 0
				label = "gaslimit-at-lower-bound"
			case 7:
				s.gasLimit = 4999
				s.gasUsed = 0
				label = "gaslimit-below-minimum"
			case 8:
				s.baseFeeD = []int64{1, -1, 1000}[g.r.Intn(3)]
				label = "basefee-off"
			case 9:
				s.diffD = []int64{1, -1, 4096}[g.r.Intn(3)]
				label = "difficulty-off"
			case 10:
				s.badSeal = true
				sealOk = false
				label = "seal-invalid"
			case 11:
				s.extraLen = 33
				label = "extra-too-long"
			case 12:
				s.gasUsed = s.gasLimit + 1
				label = "gasused-above-limit"
			case 13:
				// a header the client already has
				old := g.order[g.r.Intn(len(g.order))]
				if old.parent == nil {
					continue
				}
				g.submit(c, old.h, old.h.Nonce%2 == 0, -1, "already-stored")
				continue
			case 14:
				s.uncles = !s.uncles // the header's own uncle hash does not enter its validity
				label = ""
				continue
			case 15:
				s.diffStr = "12ab"
				label = "difficulty-not-a-number"
			}
			if label == "" {
				continue
			}
			g.submit(c, g.build(s), sealOk, -1, label+" "+where)
		}
		// boundary: exactly 15 s ahead of chain time is still accepted
		if g.r.Chance(20) && g.now+15 > p.Time {
			t := g.now + 15
			vs.timeAbs = &t
		}
		h := g.build(vs)
		expect := +1
		if g.pruning {
			expect = 0
		}
		g.submit(c, h, true, expect, "valid "+where)
	}
}
