package harness

// Generator for the BSC (Parlia) header stream (C17): synthetic, really sealed (secp256k1),
// hash-linked header chains over validator sets of 1-21 members with set changes at epochs,
// in-turn and out-of-turn signers; at every height a batch of single-field corruptions of the
// otherwise valid next header is presented first (must be refused, state untouched), then the
// valid header (must be accepted and become latest header / consensus state). The expectation
// comes from an independent simulation of the rule as the property states it ("truth"), the
// outcome and the resulting client state are also diffed against the Lean model.

import (
	"bytes"
	"crypto/ecdsa"
	"fmt"
	"math/big"
	"sort"
	"strings"
	"time"

	"github.com/ethereum/go-ethereum/common"
	gethtypes "github.com/ethereum/go-ethereum/core/types"
	"github.com/ethereum/go-ethereum/crypto"
	"github.com/ethereum/go-ethereum/rlp"
	"golang.org/x/crypto/sha3"

	sdk "github.com/cosmos/cosmos-sdk/types"

	clienttypes "github.com/bianjieai/tibc-go/modules/tibc/core/02-client/types"
	bsctypes "github.com/bianjieai/tibc-go/modules/tibc/light-clients/08-bsc/types"
	tibctesting "github.com/bianjieai/tibc-go/modules/tibc/testing"
)

const bscChainID = 56

type bscVal struct {
	key  *ecdsa.PrivateKey
	addr common.Address
}

type BscGen struct {
	w       *World
	r       *Rng
	stats   map[string]int
	uni     []bscVal
	addrIdx map[common.Address]int
	hashLbl map[common.Hash]string
	nLbl    int
	// truth
	epoch      uint64
	cur        []int          // set in force for the next block (universe indices, ascending)
	pend       []int          // announced, not yet in force
	switchAt   uint64         // blocks > switchAt are sealed by pend
	signerOf   map[uint64]int // block -> signer
	tip        bsctypes.Header
	prev       []int  // the set that was in force before the last switch
	lastSwitch uint64 // block at which the set in force last changed
	heights    []uint64
	name       string
	viaTx      bool // deliver updates as signed MsgUpdateClient transactions (determinism stream)
	curLen     int  // length of the stored validator list (duplicates included): decides the switch block
	pendLen    int
}

func (g *BscGen) initUniverse(n int) {
	g.uni = nil
	for i := 0; i < n; i++ {
		seed := crypto.Keccak256([]byte(fmt.Sprintf("bsc-validator-%d-%d", g.r.Next(), i)))
		k, err := crypto.ToECDSA(seed)
		if err != nil {
			i--
			continue
		}
		g.uni = append(g.uni, bscVal{key: k, addr: crypto.PubkeyToAddress(k.PublicKey)})
	}
	sort.Slice(g.uni, func(i, j int) bool { return bytes.Compare(g.uni[i].addr[:], g.uni[j].addr[:]) < 0 })
	g.addrIdx = map[common.Address]int{}
	for i, v := range g.uni {
		g.addrIdx[v.addr] = i
	}
	g.hashLbl = map[common.Hash]string{}
}

// addrLabel: universe members are labelled by their rank in address order; any other address gets
// a label >= 1000 (never a validator, only compared for equality)
func (g *BscGen) addrLabel(a common.Address) int {
	if i, ok := g.addrIdx[a]; ok {
		return i
	}
	n := 1000 + len(g.addrIdx)
	g.addrIdx[a] = n
	return n
}

func (g *BscGen) hashLabel(h common.Hash) string {
	if l, ok := g.hashLbl[h]; ok {
		return l
	}
	g.nLbl++
	l := fmt.Sprintf("H%d", g.nLbl)
	g.hashLbl[h] = l
	return l
}

func bscSealHash(h bsctypes.Header) []byte {
	hasher := sha3.NewLegacyKeccak256()
	_ = rlp.Encode(hasher, []interface{}{
		big.NewInt(bscChainID), h.ParentHash, h.UncleHash, h.Coinbase, h.Root, h.TxHash, h.ReceiptHash, h.Bloom,
		h.Difficulty, h.Height.RevisionHeight, h.GasLimit, h.GasUsed, h.Time, h.Extra[:len(h.Extra)-65], h.MixDigest, h.Nonce,
	})
	return hasher.Sum(nil)
}

// randSet draws a sorted duplicate-free set of n universe indices
func (g *BscGen) randSet(n int) []int {
	perm := make([]int, len(g.uni))
	for i := range perm {
		perm[i] = i
	}
	for i := len(perm) - 1; i > 0; i-- {
		j := g.r.Intn(i + 1)
		perm[i], perm[j] = perm[j], perm[i]
	}
	s := append([]int{}, perm[:n]...)
	sort.Ints(s)
	return s
}

func (g *BscGen) addrs(set []int) [][]byte {
	out := make([][]byte, len(set))
	for i, v := range set {
		out[i] = append([]byte{}, g.uni[v].addr.Bytes()...)
	}
	return out
}

// setFor returns the validator set in force for block `number` (truth)
func (g *BscGen) setFor(number uint64) []int {
	if g.pend != nil && number > g.switchAt {
		return g.pend
	}
	return g.cur
}

func dedupSorted(xs []int) []int {
	out := []int{}
	for _, x := range xs {
		if !containsInt(out, x) {
			out = append(out, x)
		}
	}
	sort.Ints(out)
	return out
}

func containsInt(s []int, x int) bool {
	for _, y := range s {
		if x == y {
			return true
		}
	}
	return false
}

// eligible: members of the set in force who sealed none of the preceding floor(N/2) blocks
func (g *BscGen) eligible(number uint64) (set []int, ok []int, recent []int) {
	set = g.setFor(number)
	win := uint64(len(set) / 2)
	for _, v := range set {
		rec := false
		for b := number - 1; b+win >= number && b < number; b-- {
			if s, has := g.signerOf[b]; has && s == v {
				rec = true
			}
			if b == 0 {
				break
			}
		}
		if rec {
			recent = append(recent, v)
		} else {
			ok = append(ok, v)
		}
	}
	return
}

type bscSpec struct {
	number     uint64
	parentHash common.Hash
	signer     int // universe index of the sealing key
	coinbase   *common.Address
	difficulty uint64
	gasLimit   uint64
	gasUsed    uint64
	announce   []int
	stray      int // stray bytes after the announced addresses
	shortExtra int // 0: normal; 1: shorter than vanity; 2: shorter than vanity+seal
	mix        bool
	uncle      bool
	badSig     int // 0 good, 1 flipped byte (recovers another address), 2 invalid recovery id
	time       uint64
}

func (g *BscGen) build(s bscSpec) bsctypes.Header {
	extra := make([]byte, 32)
	for _, v := range s.announce {
		extra = append(extra, g.uni[v].addr.Bytes()...)
	}
	for i := 0; i < s.stray; i++ {
		extra = append(extra, 0xee)
	}
	extra = append(extra, make([]byte, 65)...)
	cb := g.uni[s.signer].addr
	if s.coinbase != nil {
		cb = *s.coinbase
	}
	root := crypto.Keccak256Hash([]byte("root"), big.NewInt(int64(s.number)).Bytes(), []byte{byte(g.r.Intn(256))})
	h := bsctypes.Header{
		ParentHash: s.parentHash.Bytes(), UncleHash: gethtypes.CalcUncleHash(nil).Bytes(), Coinbase: cb.Bytes(), Root: root.Bytes(),
		TxHash: gethtypes.EmptyRootHash.Bytes(), ReceiptHash: gethtypes.EmptyRootHash.Bytes(), Bloom: make([]byte, 256),
		Difficulty: s.difficulty, Height: clienttypes.NewHeight(0, s.number), GasLimit: s.gasLimit, GasUsed: s.gasUsed,
		Time: s.time, Extra: extra, MixDigest: common.Hash{}.Bytes(), Nonce: make([]byte, 8),
	}
	if s.mix {
		h.MixDigest = crypto.Keccak256([]byte("mix"))
	}
	if s.uncle {
		h.UncleHash = crypto.Keccak256([]byte("uncle"))
	}
	sig, err := crypto.Sign(bscSealHash(h), g.uni[s.signer].key)
	if err != nil {
		panic(err)
	}
	switch s.badSig {
	case 1:
		sig[5] ^= 0x40
	case 2:
		sig[64] = 9
	}
	copy(h.Extra[len(h.Extra)-65:], sig)
	switch s.shortExtra {
	case 1:
		h.Extra = h.Extra[:20]
	case 2:
		h.Extra = h.Extra[:32+40]
	}
	return h
}

func intsStr(xs []int) string {
	if len(xs) == 0 {
		return "-"
	}
	ss := make([]string, len(xs))
	for i, x := range xs {
		ss[i] = fmt.Sprint(x)
	}
	return strings.Join(ss, ",")
}

// token describes a header for the model: every field is derived from the header bytes
func (g *BscGen) token(h bsctypes.Header) string {
	b01 := func(b bool) int {
		if b {
			return 1
		}
		return 0
	}
	vanityOk := len(h.Extra) >= 32
	sealOk := len(h.Extra) >= 32+65
	var vals []int
	rem := 0
	signer := "-"
	if sealOk {
		mid := h.Extra[32 : len(h.Extra)-65]
		rem = len(mid) % 20
		for i := 0; i+20 <= len(mid); i += 20 {
			vals = append(vals, g.addrLabel(common.BytesToAddress(mid[i:i+20])))
		}
		if pub, err := crypto.Ecrecover(bscSealHash(h), h.Extra[len(h.Extra)-65:]); err == nil {
			var a common.Address
			copy(a[:], crypto.Keccak256(pub[1:])[12:])
			signer = fmt.Sprint(g.addrLabel(a))
		}
	}
	return fmt.Sprintf("%d;%s;%s;%d;%s;%d;%d;%d;%d;%s;%s;%d;%d;%d;%d;%d",
		h.Height.RevisionHeight, g.hashLabel(common.BytesToHash(h.ParentHash)), g.hashLabel(h.Hash()),
		g.addrLabel(common.BytesToAddress(h.Coinbase)), signer, h.Difficulty, h.GasLimit, h.GasUsed, h.Time,
		hx(h.Root)[:12], intsStr(vals), rem, b01(vanityOk), b01(sealOk),
		b01(common.BytesToHash(h.MixDigest) == (common.Hash{})), b01(common.BytesToHash(h.UncleHash) == gethtypes.CalcUncleHash(nil)))
}

func (g *BscGen) dump(c *tibctesting.TestChain, ctx sdk.Context) string {
	ck := c.App.TIBCKeeper.ClientKeeper
	csI, ok := ck.GetClientState(ctx, g.name)
	if !ok {
		return "noclient"
	}
	cs := csI.(*bsctypes.ClientState)
	store := ck.ClientStore(ctx, g.name)
	var vals []int
	for _, v := range cs.Validators {
		vals = append(vals, g.addrLabel(common.BytesToAddress(v)))
	}
	rs, _ := bsctypes.GetRecentSigners(store)
	sort.Slice(rs, func(i, j int) bool { return rs[i].Height.RevisionHeight < rs[j].Height.RevisionHeight })
	var rss []string
	for _, r := range rs {
		rss = append(rss, fmt.Sprintf("%d:%d", r.Height.RevisionHeight, g.addrLabel(common.BytesToAddress(r.Validator))))
	}
	var pend []int
	for _, v := range bsctypes.GetPendingValidators(c.App.AppCodec(), store).Validators {
		pend = append(pend, g.addrLabel(common.BytesToAddress(v)))
	}
	var cons []string
	for _, h := range g.heights {
		if s, ok := ck.GetClientConsensusState(ctx, g.name, clienttypes.NewHeight(0, h)); ok {
			bs := s.(*bsctypes.ConsensusState)
			cons = append(cons, fmt.Sprintf("%d:%d:%d:%s", h, bs.Timestamp, bs.Number.RevisionHeight, hx(bs.Root)[:12]))
		}
	}
	return fmt.Sprintf("latest=%d:%s vals=%s recents=%s pending=%s cons=%s", cs.Header.Height.RevisionHeight, g.hashLabel(cs.Header.Hash()),
		intsStr(vals), undash(strings.Join(rss, ",")), intsStr(pend), undash(strings.Join(cons, ",")))
}

// submit presents a header through the real client keeper with transaction semantics
// (writes of a failing update are discarded); expect: +1 must accept, -1 must refuse, 0 no claim
func (g *BscGen) submit(c *tibctesting.TestChain, h bsctypes.Header, expect int, label string) bool {
	w := g.w
	ck := c.App.TIBCKeeper.ClientKeeper
	ctx := c.GetContext().WithBlockTime(time.Unix(int64(g.tip.Time)+30, 0))
	cctx, write := ctx.CacheContext()
	hdr := h
	var err error
	if g.viaTx {
		msg, merr := clienttypes.NewMsgUpdateClient(g.name, &hdr, c.SenderAccounts[0].SenderAccount.GetAddress())
		if merr != nil {
			err = merr
		} else if r := w.Tx(c, 0, msg); r.Code != 0 {
			err = fmt.Errorf("tx failed: %s/%d", r.Codespace, r.Code)
		}
		ctx = c.GetContext()
		write = func() {}
		expect = 0
	} else {
		err = func() (err error) {
			defer func() {
				if r := recover(); r != nil {
					err = fmt.Errorf("panic: %v", r)
				}
			}()
			return ck.UpdateClient(cctx, g.name, &hdr)
		}()
	}
	res := "ok"
	if err != nil {
		res = "fail"
		if strings.HasPrefix(err.Error(), "panic") {
			res = "panic"
			w.hit("C17", "update-panics "+label)
		}
	} else {
		write()
		g.heights = append(g.heights, h.Height.RevisionHeight)
		// after acceptance the latest header and the consensus state for that height are the header's
		csI, _ := ck.GetClientState(ctx, g.name)
		cs := csI.(*bsctypes.ClientState)
		if cs.Header.Hash() != h.Hash() {
			w.hit("C17", "accepted-header-is-not-the-latest-header "+label)
		}
		s, ok := ck.GetClientConsensusState(ctx, g.name, h.Height)
		if !ok || s.GetTimestamp() != h.Time || !bytes.Equal(s.GetRoot().GetHash(), h.Root) {
			w.hit("C17", "consensus-state-is-not-the-accepted-header's "+label)
		}
	}
	if expect > 0 && res != "ok" {
		w.hit("C17", fmt.Sprintf("valid-header-refused %s N=%d", label, len(g.setFor(h.Height.RevisionHeight))))
	}
	if expect < 0 && res == "ok" {
		w.hit("C17", fmt.Sprintf("invalid-header-accepted %s N=%d", label, len(g.setFor(h.Height.RevisionHeight))))
	}
	w.emit("bsc.update "+g.name+" "+g.token(h), "res="+res+" | "+g.dump(c, ctx))
	g.stats["bsc."+label+"."+res]++
	return res == "ok"
}

// validSpec: the next header as the rule wants it; signer chosen in-turn when eligible (60%) or any
// eligible member
func (g *BscGen) validSpec(forceSigner int) (bscSpec, bool) {
	number := g.tip.Height.RevisionHeight + 1
	set, ok, _ := g.eligible(number)
	if len(ok) == 0 {
		return bscSpec{}, false
	}
	inturn := set[number%uint64(len(set))]
	signer := ok[g.r.Intn(len(ok))]
	if containsInt(ok, inturn) && g.r.Chance(60) {
		signer = inturn
	}
	if forceSigner >= 0 {
		signer = forceSigner
	}
	diff := uint64(1)
	if signer == inturn {
		diff = 2
	}
	pg := g.tip.GasLimit
	lim := pg / 256
	gl := pg
	switch g.r.Intn(6) {
	case 0:
		gl = pg + lim - 1
	case 1:
		if pg-(lim-1) >= 5000 {
			gl = pg - (lim - 1)
		}
	case 2:
		gl = pg + uint64(g.r.Intn(int(lim)))
	}
	s := bscSpec{number: number, parentHash: g.tip.Hash(), signer: signer, difficulty: diff, gasLimit: gl, gasUsed: uint64(g.r.Intn(int(gl/2) + 1)),
		time: g.tip.Time + 3}
	if g.r.Chance(10) {
		s.gasUsed = gl
	}
	if number%g.epoch == 0 {
		// announce: same set, a different size, a single validator, the largest, overlapping sets
		switch g.r.Intn(5) {
		case 0:
			s.announce = append([]int{}, set...)
		case 1:
			s.announce = g.randSet(1 + g.r.Intn(3))
		default:
			s.announce = g.randSet(1 + g.r.Intn(g.maxN()))
		}
		if g.viaTx && g.r.Chance(50) && len(s.announce) < 21 {
			// an epoch header that names a validator twice (nothing forbids it)
			s.announce = append(s.announce, s.announce[g.r.Intn(len(s.announce))])
		}
	}
	return s, true
}

func (g *BscGen) maxN() int {
	m := int(2*g.epoch - 1)
	if m > 21 {
		m = 21
	}
	if m > len(g.uni) {
		m = len(g.uni)
	}
	return m
}

// advance records an accepted valid header in the truth simulation
func (g *BscGen) advance(s bscSpec, h bsctypes.Header) {
	n := s.number
	g.signerOf[n] = s.signer
	if g.pend != nil && n >= g.switchAt {
		// the announced set is in force from the next block on
		if n == g.switchAt {
			g.prev, g.lastSwitch = g.cur, n
			g.cur, g.pend = g.pend, nil
			g.curLen = g.pendLen
		}
	}
	if n%g.epoch == 0 {
		g.pend = dedupSorted(s.announce)
		g.pendLen = len(s.announce)
		if g.curLen == 0 {
			g.curLen = len(g.cur)
		}
		g.switchAt = n + uint64(g.curLen/2)
		if g.curLen/2 == 0 {
			g.prev, g.lastSwitch = g.cur, n
			g.cur, g.pend = g.pend, nil
			g.curLen = g.pendLen
		}
	}
	g.tip = h
}

// Init creates the client from a generated trusted epoch header
func (g *BscGen) Init(caseIdx int) bool {
	w := g.w
	c := w.Chains[0]
	ck := c.App.TIBCKeeper.ClientKeeper
	g.initUniverse(30)
	g.epoch = uint64([]int{4, 6, 8, 11, 12, 16, 25}[g.r.Intn(7)])
	g.name = fmt.Sprintf("bscchain%d", caseIdx)
	n0 := 1 + g.r.Intn(g.maxN())
	if g.r.Chance(20) {
		n0 = 1 + g.r.Intn(2)
	}
	g.cur = g.randSet(n0)
	g.pend = nil
	g.signerOf = map[uint64]int{}
	k := uint64(2 + g.r.Intn(40))
	if g.r.Chance(15) {
		k = 0 // a client created at the genesis block: the sealer window reaches below block 0
	}
	genesisNumber := k * g.epoch
	// trusted header: an epoch block announcing the set already in force (so the pending set equals it)
	gs := bscSpec{number: genesisNumber, parentHash: crypto.Keccak256Hash([]byte("pre-genesis")), signer: g.cur[genesisNumber%uint64(len(g.cur))],
		difficulty: 2, gasLimit: uint64(20000000 + g.r.Intn(20000000)), gasUsed: 21000, announce: append([]int{}, g.cur...), time: 1700000000 + 3*genesisNumber}
	if g.r.Chance(15) {
		gs.gasLimit = uint64(5000 + g.r.Intn(3000)) // near the minimum gas limit
	}
	genesis := g.build(gs)
	g.tip = genesis
	g.signerOf[genesisNumber] = gs.signer
	g.pend = append([]int{}, g.cur...)
	g.switchAt = genesisNumber + uint64(len(g.cur)/2)
	g.curLen, g.pendLen = len(g.cur), len(g.cur)
	if len(g.cur)/2 == 0 {
		g.pend = nil
	}
	// the creator supplies the sealers of the window before (and including) the trusted header
	var recents []bsctypes.Signer
	var recStr []string
	b0 := uint64(0)
	if genesisNumber > uint64(len(g.cur)/2) {
		b0 = genesisNumber - uint64(len(g.cur)/2)
	}
	for b := b0; b <= genesisNumber; b++ {
		sg := g.cur[b%uint64(len(g.cur))]
		g.signerOf[b] = sg
		recents = append(recents, bsctypes.Signer{Height: clienttypes.NewHeight(0, b), Validator: g.uni[sg].addr.Bytes()})
		recStr = append(recStr, fmt.Sprintf("%d:%d", b, sg))
	}
	if g.r.Chance(10) {
		// a creator who supplies nothing: the client then only knows the sealers it has seen itself
		recents, recStr = nil, nil
		g.signerOf = map[uint64]int{}
	}
	cs := bsctypes.NewClientState(genesis, bscChainID, g.epoch, 3, g.addrs(g.cur), recents, []byte("0x00"), 100000000)
	cons := &bsctypes.ConsensusState{Timestamp: genesis.Time, Number: genesis.Height, Root: genesis.Root}
	ctx := c.GetContext().WithBlockTime(time.Unix(int64(genesis.Time)+30, 0))
	if err := ck.CreateClient(ctx, g.name, cs, cons); err != nil {
		w.hit("C17", "cannot-create-client "+err.Error())
		return false
	}
	g.heights = []uint64{genesisNumber}
	w.emit(fmt.Sprintf("bsc.create %s %d %s %s %s", g.name, g.epoch, g.token(genesis), intsStr(g.cur), undash(strings.Join(recStr, ","))), "res=ok | "+g.dump(c, ctx))
	if g.viaTx {
		ck.RegisterRelayers(ctx, g.name, []string{c.SenderAccounts[0].SenderAccount.GetAddress().String()})
	}
	return true
}

// Step presents a batch of corrupted candidates for the next height and then the valid header;
// false: the chain cannot be followed any further
func (g *BscGen) Step(b int) bool {
	c := g.w.Chains[0]
	{
		vs, ok := g.validSpec(-1)
		if !ok {
			return false
		}
		number := vs.number
		set, elig, recent := g.eligible(number)
		N := len(set)
		inturn := set[number%uint64(N)]
		// corruptions of the valid header: each must be refused
		nCorr := 2 + g.r.Intn(3)
		for i := 0; i < nCorr; i++ {
			s := vs
			label := ""
			expect := -1
			switch g.r.Intn(22) {
			case 0:
				s.parentHash = crypto.Keccak256Hash([]byte{byte(b), byte(i)})
				label = "parent-unknown"
			case 1:
				s.parentHash = common.BytesToHash(g.tip.ParentHash)
				label = "parent-is-grandparent"
			case 2:
				s.number = number + 1
				label = "number-skips"
			case 3:
				s.number = number - 1
				label = "number-repeats"
			case 4:
				// sealed by somebody outside the set in force (prefer a member of the other set around a rotation)
				var cand []int
				other := g.pend
				if other == nil {
					other = g.prev
				}
				for _, v := range other {
					if !containsInt(set, v) {
						cand = append(cand, v)
					}
				}
				label = "signer-of-other-set"
				if len(cand) == 0 {
					for v := range g.uni {
						if !containsInt(set, v) {
							cand = append(cand, v)
						}
					}
					label = "signer-outside-set"
				}
				s.signer = cand[g.r.Intn(len(cand))]
				s.difficulty = uint64(1 + g.r.Intn(2))
			case 5:
				// (after a recent change of the set size only the sealer of the previous block is claimed:
				// older entries may legitimately have been pruned under the smaller window)
				if number-g.lastSwitch <= 25 {
					prevSigner := g.signerOf[number-1]
					if N/2 >= 1 && containsInt(recent, prevSigner) {
						recent = []int{prevSigner}
					} else {
						recent = nil
					}
				}
				if len(recent) == 0 {
					continue
				}
				s.signer = recent[g.r.Intn(len(recent))]
				s.difficulty = 1
				if s.signer == inturn {
					s.difficulty = 2
				}
				label = "signer-sealed-recently"
			case 6:
				s.difficulty = 3 - vs.difficulty
				label = "difficulty-of-the-other-turn"
			case 7:
				s.difficulty = uint64([]int{0, 3, 7}[g.r.Intn(3)])
				label = "difficulty-invalid"
			case 8:
				s.gasLimit = g.tip.GasLimit + g.tip.GasLimit/256
				if s.gasUsed > s.gasLimit {
					s.gasUsed = 0
				}
				label = "gaslimit-at-upper-bound"
			case 9:
				if g.tip.GasLimit/256 == 0 {
					continue
				}
				s.gasLimit = g.tip.GasLimit - g.tip.GasLimit/256
				s.gasUsed = 0
				label = "gaslimit-at-lower-bound"
			case 10:
				s.gasLimit = 4999
				s.gasUsed = 0
				label = "gaslimit-below-minimum"
			case 11:
				s.gasLimit = 1 << 63
				label = "gaslimit-above-2^63-1"
			case 12:
				s.gasUsed = s.gasLimit + 1
				label = "gasused-above-limit"
			case 13:
				if number%g.epoch == 0 {
					s.stray = 1 + g.r.Intn(19)
					label = "epoch-stray-bytes"
				} else {
					s.announce = g.randSet(1 + g.r.Intn(3))
					label = "validators-on-non-epoch"
				}
			case 14:
				if number%g.epoch == 0 {
					continue
				}
				s.stray = 1 + g.r.Intn(19)
				label = "stray-bytes-on-non-epoch"
			case 15:
				other := g.uni[(vs.signer+1+g.r.Intn(len(g.uni)-1))%len(g.uni)].addr
				s.coinbase = &other
				label = "coinbase-is-not-the-signer"
			case 16:
				s.badSig = 1 + g.r.Intn(2)
				label = "seal-corrupted"
			case 17:
				s.mix = true
				label = "mixdigest-nonzero"
			case 18:
				s.uncle = true
				label = "uncle-hash"
			case 19:
				s.shortExtra = 1 + g.r.Intn(2)
				label = "extra-too-short"
			case 20:
				// an eligible out-of-turn / in-turn signer with the right difficulty: a second valid candidate
				if len(elig) < 2 {
					continue
				}
				alt := elig[g.r.Intn(len(elig))]
				s.signer = alt
				s.difficulty = 1
				if alt == inturn {
					s.difficulty = 2
				}
				label = "valid-alternative-probe"
				expect = 0 // would be accepted: do not submit (it would advance the chain)
				continue
			case 21:
				// epoch block announcing nothing at all
				if number%g.epoch != 0 {
					continue
				}
				continue
			}
			if label == "" {
				continue
			}
			g.submit(c, g.build(s), expect, label)
		}
		h := g.build(vs)
		lbl := "valid-outturn"
		if vs.difficulty == 2 {
			lbl = "valid-inturn"
		}
		if number%g.epoch == 0 {
			lbl += "-epoch"
		}
		if !g.submit(c, h, +1, lbl) {
			// the chain cannot be followed any further
			return false
		}
		g.advance(vs, h)
	}
	return true
}

func (g *BscGen) Run(nBlocks int, caseIdx int) {
	if !g.Init(caseIdx) {
		return
	}
	for b := 0; b < nBlocks; b++ {
		if !g.Step(b) {
			break
		}
	}
}
