package harness

// Generator for the Tendermint light-client stream (C07, C14): really signed headers of a
// fictitious counterparty chain (own ed25519 validator universe) against the real
// ClientKeeper.UpdateClient / ClientState.Status — validator sets of 1-6 with random powers,
// signer subsets landing exactly on, one below and one above 1/3 and 2/3, adjacent and
// non-adjacent headers, changed validator sets, times at the expiry / drift boundaries,
// wrong revision, wrong trusted validators, several stored consensus states.

import (
	"fmt"
	"sort"
	"strings"
	"time"

	"github.com/cometbft/cometbft/crypto/tmhash"
	cmtproto "github.com/cometbft/cometbft/proto/tendermint/types"
	cmtprotoversion "github.com/cometbft/cometbft/proto/tendermint/version"
	cmttypes "github.com/cometbft/cometbft/types"
	cmtversion "github.com/cometbft/cometbft/version"
	sdk "github.com/cosmos/cosmos-sdk/types"

	clienttypes "github.com/bianjieai/tibc-go/modules/tibc/core/02-client/types"
	commitmenttypes "github.com/bianjieai/tibc-go/modules/tibc/core/23-commitment/types"
	"github.com/bianjieai/tibc-go/modules/tibc/core/exported"
	ibctmtypes "github.com/bianjieai/tibc-go/modules/tibc/light-clients/07-tendermint/types"
	tibctesting "github.com/bianjieai/tibc-go/modules/tibc/testing"
	"github.com/bianjieai/tibc-go/modules/tibc/testing/mock"
)

type tmVal struct {
	pv   mock.PV
	name string
	addr []byte
}

type TmGen struct {
	w      *World
	r      *Rng
	stats  map[string]int
	univ   []*tmVal
	byAddr map[string]*tmVal
	sets   map[string]string // hex(valset hash) -> canonical list
}

func (g *TmGen) initUniverse(n int) {
	g.byAddr = map[string]*tmVal{}
	g.sets = map[string]string{}
	for i := 0; i < n; i++ {
		pv := mock.NewPV()
		pk, _ := pv.GetPubKey()
		v := &tmVal{pv: pv, name: fmt.Sprintf("v%d", i), addr: pk.Address()}
		g.univ = append(g.univ, v)
		g.byAddr[string(v.addr)] = v
	}
}

// makeSet builds a cometbft validator set from (universe index -> power)
func (g *TmGen) makeSet(powers map[int]int64) *cmttypes.ValidatorSet {
	var vals []*cmttypes.Validator
	for i, p := range powers {
		pk, _ := g.univ[i].pv.GetPubKey()
		vals = append(vals, cmttypes.NewValidator(pk, p))
	}
	sort.Slice(vals, func(a, b int) bool { return string(vals[a].Address) < string(vals[b].Address) })
	vs := cmttypes.NewValidatorSet(vals)
	g.sets[fmt.Sprintf("%x", vs.Hash())] = g.setStr(vs)
	return vs
}

func (g *TmGen) setStr(vs *cmttypes.ValidatorSet) string {
	if vs == nil || len(vs.Validators) == 0 {
		return "-"
	}
	var out []string
	for _, v := range vs.Validators {
		out = append(out, fmt.Sprintf("%s:%d", g.byAddr[string(v.Address)].name, v.VotingPower))
	}
	return strings.Join(out, ",")
}

func (g *TmGen) hashLabel(h []byte) string {
	if s, ok := g.sets[fmt.Sprintf("%x", h)]; ok {
		return s
	}
	return "0x" + fmt.Sprintf("%x", h)
}

func (g *TmGen) randSet() *cmttypes.ValidatorSet {
	n := 1 + g.r.Intn(6)
	powers := map[int]int64{}
	for len(powers) < n {
		i := g.r.Intn(len(g.univ))
		switch g.r.Intn(6) {
		case 0:
			powers[i] = 1
		case 1:
			powers[i] = 3
		case 2:
			powers[i] = int64(1 + g.r.Intn(5))
		case 3:
			powers[i] = 1000000007
		default:
			powers[i] = int64(1 + g.r.Intn(10))
		}
	}
	return g.makeSet(powers)
}

// signer decisions per validator of the header's set
type sigMode int

const (
	sigAbsent sigMode = iota
	sigGood
	sigBad
	sigNil
)

// header construction parameters
type hdrSpec struct {
	chainID     string
	height      int64
	t           time.Time
	vals        *cmttypes.ValidatorSet
	nextVals    *cmttypes.ValidatorSet
	modes       []sigMode
	valsHashOK  bool
	trustedH    clienttypes.Height
	trustedVals *cmttypes.ValidatorSet
	commitHOff  int64 // commit height offset (structural corruption)
	appHash     []byte
}

func (g *TmGen) buildHeader(s hdrSpec) (*ibctmtypes.Header, string) {
	vh := s.vals.Hash()
	if !s.valsHashOK {
		vh = tmhash.Sum([]byte("other validators"))
	}
	tmHeader := cmttypes.Header{
		Version:            cmtprotoversion.Consensus{Block: cmtversion.BlockProtocol, App: 2},
		ChainID:            s.chainID,
		Height:             s.height,
		Time:               s.t,
		LastBlockID:        tibctesting.MakeBlockID(make([]byte, tmhash.Size), 10_000, make([]byte, tmhash.Size)),
		LastCommitHash:     tmhash.Sum([]byte("last_commit")),
		DataHash:           tmhash.Sum([]byte("data_hash")),
		ValidatorsHash:     vh,
		NextValidatorsHash: s.nextVals.Hash(),
		ConsensusHash:      tmhash.Sum([]byte("consensus_hash")),
		AppHash:            s.appHash,
		LastResultsHash:    tmhash.Sum([]byte("last_results_hash")),
		EvidenceHash:       tmhash.Sum([]byte("evidence_hash")),
		ProposerAddress:    s.vals.Proposer.Address,
	}
	hhash := tmHeader.Hash()
	blockID := tibctesting.MakeBlockID(hhash, 3, tmhash.Sum([]byte("part_set")))
	commit := &cmttypes.Commit{Height: s.height + s.commitHOff, Round: 1, BlockID: blockID}
	var cstr []string
	for idx, v := range s.vals.Validators {
		tv := g.byAddr[string(v.Address)]
		mode := s.modes[idx]
		switch mode {
		case sigAbsent:
			commit.Signatures = append(commit.Signatures, cmttypes.NewCommitSigAbsent())
			cstr = append(cstr, fmt.Sprintf("a:%s:0", tv.name))
		default:
			bid := blockID
			flag := cmttypes.BlockIDFlagCommit
			if mode == sigNil {
				bid = cmttypes.BlockID{}
				flag = cmttypes.BlockIDFlagNil
			}
			vote := &cmtproto.Vote{Type: cmtproto.PrecommitType, Height: s.height + s.commitHOff, Round: 1, BlockID: bid.ToProto(),
				Timestamp: s.t, ValidatorAddress: v.Address, ValidatorIndex: int32(idx)}
			_ = tv.pv.SignVote(s.chainID, vote)
			sig := vote.Signature
			ok := 1
			if mode == sigBad {
				sig = append([]byte{}, sig...)
				sig[5] ^= 0x20
				ok = 0
			}
			commit.Signatures = append(commit.Signatures, cmttypes.CommitSig{BlockIDFlag: flag, ValidatorAddress: v.Address, Timestamp: s.t, Signature: sig})
			f := "c"
			if mode == sigNil {
				f = "n"
			}
			cstr = append(cstr, fmt.Sprintf("%s:%s:%d", f, tv.name, ok))
		}
	}
	sh := &cmtproto.SignedHeader{Header: tmHeader.ToProto(), Commit: commit.ToProto()}
	vsp, _ := s.vals.ToProto()
	tvp, _ := s.trustedVals.ToProto()
	return &ibctmtypes.Header{SignedHeader: sh, ValidatorSet: vsp, TrustedHeight: s.trustedH, TrustedValidators: tvp}, strings.Join(cstr, ",")
}

func hstr(h clienttypes.Height) string {
	return fmt.Sprintf("%d.%d", h.RevisionNumber, h.RevisionHeight)
}

// clientDump prints the real client's consensus states in iteration-key order.
func (g *TmGen) clientDump(c *tibctesting.TestChain, name string) string {
	ctx := c.GetContext()
	ck := c.App.TIBCKeeper.ClientKeeper
	csI, ok := ck.GetClientState(ctx, name)
	if !ok {
		return "none"
	}
	cs := csI.(*ibctmtypes.ClientState)
	store := ck.ClientStore(ctx, name)
	var parts []string
	ibctmtypes.IterateConsensusStateAscending(store, func(h exported.Height) bool {
		cons, err := ibctmtypes.GetConsensusState(store, c.App.AppCodec(), h)
		if err != nil {
			parts = append(parts, hstr(h.(clienttypes.Height))+":missing")
			return false
		}
		pt, _ := ibctmtypes.GetProcessedTime(store, h)
		parts = append(parts, fmt.Sprintf("%s:%d:%x:%s:%d", hstr(h.(clienttypes.Height)), cons.Timestamp.UnixNano(), cons.Root.Hash, g.hashLabel(cons.NextValidatorsHash), pt))
		return false
	})
	return fmt.Sprintf("latest=%s cons=[%s]", hstr(cs.LatestHeight), strings.Join(parts, ";"))
}

type storedCons struct {
	h        clienttypes.Height
	t        time.Time
	nextVals *cmttypes.ValidatorSet
}

func (g *TmGen) Run(nOps int, caseIdx int) {
	w := g.w
	c := w.Chains[0]
	g.initUniverse(8)
	name := fmt.Sprintf("fictchain%d", caseIdx)
	chainID := "fict-1"
	ck := c.App.TIBCKeeper.ClientKeeper
	period := []time.Duration{time.Hour, 100 * time.Second, time.Duration(1 + g.r.Intn(1000000))}[g.r.Intn(3)]
	drift := []time.Duration{10 * time.Second, time.Nanosecond, time.Duration(1 + g.r.Intn(1000))}[g.r.Intn(3)]
	tl := []ibctmtypes.Fraction{{Numerator: 1, Denominator: 3}, {Numerator: 1, Denominator: 2}, {Numerator: 2, Denominator: 3}, {Numerator: 1, Denominator: 1}}[g.r.Intn(4)]
	now := w.Coord.CurrentTime.UTC()
	v0next := g.randSet()
	h0 := clienttypes.NewHeight(1, uint64(5+g.r.Intn(5)))
	t0 := now.Add(-time.Duration(g.r.Intn(int(period/2) + 1)))
	root := []byte{byte(g.r.Intn(256)), 1, 2}
	cs := ibctmtypes.NewClientState(chainID, tl, period, period*3, drift, h0, commitmenttypes.GetSDKSpecs(), tibctesting.Prefix, 0)
	cons := ibctmtypes.NewConsensusState(t0, commitmenttypes.NewMerkleRoot(root), v0next.Hash())
	ctx := c.GetContext().WithBlockTime(now)
	if err := ck.CreateClient(ctx, name, cs, cons); err != nil {
		w.T.Fatalf("create fict client: %v", err)
	}
	w.Coord.CommitBlock(c)
	w.emit(fmt.Sprintf("tm.create %s %d %d %d %d %s %d %x %s %d", name, tl.Numerator, tl.Denominator, int64(period), int64(drift), hstr(h0), t0.UnixNano(), root, g.setStr(v0next), now.UnixNano()),
		"res=ok | "+g.clientDump(c, name))
	stored := []storedCons{{h0, t0, v0next}}
	// in most cases the client is upgraded once (governance) to the next revision of the chain,
	// whose heights start again from a small number; headers of the old revision stay submittable
	upAt := -1
	if g.r.Chance(65) && nOps >= 6 {
		upAt = nOps/4 + g.r.Intn(nOps/2)
	}
	for i := 0; i < nOps; i++ {
		if i == upAt {
			h2 := clienttypes.NewHeight(2, uint64(1+g.r.Intn(4)))
			t2 := now
			v2 := g.randSet()
			root2 := []byte{byte(g.r.Intn(256)), 7, 7}
			cs2 := ibctmtypes.NewClientState("fict-2", tl, period, period*3, drift, h2, commitmenttypes.GetSDKSpecs(), tibctesting.Prefix, 0)
			cons2 := ibctmtypes.NewConsensusState(t2, commitmenttypes.NewMerkleRoot(root2), v2.Hash())
			if err := ck.UpgradeClient(c.GetContext().WithBlockTime(now), name, cs2, cons2); err != nil {
				w.T.Fatalf("upgrade fict client: %v", err)
			}
			w.Coord.CommitBlock(c)
			w.emit(fmt.Sprintf("tm.upgrade %s %d %d %d %d %s %d %x %s", name, tl.Numerator, tl.Denominator, int64(period), int64(drift), hstr(h2), t2.UnixNano(), root2, g.setStr(v2)),
				"res=ok | "+g.clientDump(c, name))
			stored = append(stored, storedCons{h2, t2, v2})
			g.stats["tm.upgrade"]++
		}
		// pick the trusted consensus state
		tr := stored[len(stored)-1]
		if g.r.Chance(25) {
			tr = stored[g.r.Intn(len(stored))]
		}
		latestCons := stored[0]
		for _, s := range stored {
			if latestCons.h.LT(s.h) {
				latestCons = s
			}
		}
		// block time "now": mostly inside the trusting period, sometimes exactly on its boundaries
		expiry := tr.t.Add(period)
		latestExpiry := latestCons.t.Add(period)
		switch g.r.Intn(22) {
		case 0:
			now = expiry.Add(-time.Nanosecond)
		case 1:
			now = expiry
		case 2:
			now = expiry.Add(time.Nanosecond)
		case 3:
			now = latestExpiry.Add(-time.Nanosecond)
		case 4:
			now = latestExpiry
		default:
			// well inside the trusting period of both the trusted and the latest state
			lo := latestCons.t
			if tr.t.After(lo) {
				lo = tr.t
			}
			hi := expiry
			if latestExpiry.Before(hi) {
				hi = latestExpiry
			}
			if hi.After(lo) {
				now = lo.Add(time.Duration(g.r.Next() % uint64(hi.Sub(lo))))
			} else {
				now = tr.t.Add(time.Duration(g.r.Next() % uint64(period)))
			}
		}
		// header height: adjacent or not
		var hh int64
		if g.r.Chance(45) {
			hh = int64(tr.h.RevisionHeight) + 1
		} else {
			hh = int64(tr.h.RevisionHeight) + 2 + int64(g.r.Intn(4))
		}
		if g.r.Chance(6) {
			hh = int64(tr.h.RevisionHeight) - int64(g.r.Intn(2)) // not newer
			if hh < 1 {
				hh = 1
			}
		}
		adjacent := hh == int64(tr.h.RevisionHeight)+1
		// header validator set
		vals := tr.nextVals
		if !adjacent || g.r.Chance(10) {
			if g.r.Chance(35) {
				vals = g.randSet()
			}
		}
		nextVals := vals
		if g.r.Chance(40) {
			nextVals = g.randSet()
		}
		// header time
		ht := tr.t.Add(time.Duration(1 + g.r.Next()%uint64(period)))
		if now.After(tr.t.Add(2)) && g.r.Chance(80) {
			ht = tr.t.Add(time.Duration(1 + g.r.Next()%uint64(now.Sub(tr.t))))
		}
		switch g.r.Intn(26) {
		case 0:
			ht = tr.t
		case 1:
			ht = tr.t.Add(time.Nanosecond)
		case 2:
			ht = now.Add(drift)
		case 3:
			ht = now.Add(drift - time.Nanosecond)
		case 4:
			ht = now.Add(drift + time.Nanosecond)
		}
		// signer modes: aim at the 2/3 and trust-level thresholds
		modes := make([]sigMode, len(vals.Validators))
		total := vals.TotalVotingPower()
		target := []int64{total, total, total, total*2/3 + 1, total * 2 / 3, total*2/3 + 1, total / 3, total/3 + 1, 0}[g.r.Intn(9)]
		var acc int64
		order := make([]int, len(modes))
		for k := range order {
			order[k] = k
		}
		if g.r.Chance(50) {
			for k := len(order) - 1; k > 0; k-- {
				j := g.r.Intn(k + 1)
				order[k], order[j] = order[j], order[k]
			}
		}
		for _, k := range order {
			if acc < target || (acc == 0 && target == 0 && g.r.Chance(30)) {
				modes[k] = sigGood
				acc += vals.Validators[k].VotingPower
			}
		}
		if g.r.Chance(12) {
			k := g.r.Intn(len(modes))
			modes[k] = []sigMode{sigBad, sigNil}[g.r.Intn(2)]
		}
		// trusted validators: the right ones, or another set
		tvals := tr.nextVals
		if g.r.Chance(6) {
			tvals = g.randSet()
		}
		chainID := fmt.Sprintf("fict-%d", tr.h.RevisionNumber)
		spec := hdrSpec{chainID: chainID, height: hh, t: ht, vals: vals, nextVals: nextVals, modes: modes, valsHashOK: !g.r.Chance(4),
			trustedH: tr.h, trustedVals: tvals, appHash: []byte{byte(i), byte(g.r.Intn(256))}}
		basic := 1
		switch g.r.Intn(30) {
		case 0:
			spec.chainID = fmt.Sprintf("fict-%d", tr.h.RevisionNumber+1) // later revision, consistently signed
		case 1:
			spec.commitHOff = 1 // structurally broken
			basic = 0
		case 2:
			spec.trustedH = clienttypes.NewHeight(tr.h.RevisionNumber, tr.h.RevisionHeight+uint64(50+g.r.Intn(5))) // no such consensus state
		}
		if !spec.valsHashOK {
			basic = 1 // handled by the explicit hash comparison in the model
		}
		hdr, cstr := g.buildHeader(spec)
		hHeight := hdr.GetHeight().(clienttypes.Height)
		// execute on a branch, commit on success
		ctx := c.GetContext().WithBlockTime(now)
		cctx, write := ctx.CacheContext()
		before := g.clientDump(c, name)
		statusBefore := mustClient(ck.GetClientState(cctx, name)).Status(cctx, ck.ClientStore(cctx, name), c.App.AppCodec())
		res := "ok"
		var err error
		if verr := hdr.ValidateBasic(); verr != nil {
			err = verr
		} else {
			err = ck.UpdateClient(cctx, name, hdr)
		}
		if err != nil {
			cs, code, _ := errorsABCI(err)
			if cs == "tibc-client" && code == 27 {
				res = "clientNotActive"
			} else {
				res = "invalid"
			}
		} else {
			write()
			w.Coord.CommitBlock(c)
			stored = append(stored, storedCons{hHeight, ht, nextVals})
			// pruning may have removed the earliest state
			stored = g.refreshStored(c, name, stored)
		}
		after := g.clientDump(c, name)
		if res != "ok" && before != after {
			w.hit("C07", "rejected-update-changed-client-state")
		}
		if res == "ok" {
			st := ck.ClientStore(c.GetContext(), name)
			if cons, err := ibctmtypes.GetConsensusState(st, c.App.AppCodec(), hHeight); err != nil || !cons.Timestamp.Equal(ht) ||
				string(cons.Root.Hash) != string(spec.appHash) || string(cons.NextValidatorsHash) != string(hdr.Header.NextValidatorsHash) {
				w.hit("C07", fmt.Sprintf("accepted-header-but-the-consensus-state-stored-at-its-height-is-not-the-header's height=%s", hstr(hHeight)))
			}
		}
		if lb, la := latestOfDump(before), latestOfDump(after); la.LT(lb) {
			w.hit("C07", fmt.Sprintf("latest-height-decreased-by-a-header-update %s->%s header=%s", hstr(lb), hstr(la), hstr(hHeight)))
		}
		if tr.h.RevisionNumber < latestCons.h.RevisionNumber {
			g.stats["tm.update.old-revision."+res]++
		}
		g.oracleTm(statusBefore, res, spec, tr, adjacent, modes, tl, now, period, drift, hHeight)
		valsHashLabel := g.hashLabel(hdr.Header.ValidatorsHash)
		w.emit(fmt.Sprintf("tm.update %s %d %s %d %x %s %s %s %s %s %s %d", name, now.UnixNano(), hstr(hHeight), ht.UnixNano(), spec.appHash,
			valsHashLabel, g.hashLabel(hdr.Header.NextValidatorsHash), g.setStr(vals), cstr, hstr(spec.trustedH), g.setStr(tvals), basic),
			fmt.Sprintf("res=%s | %s", res, after))
		g.stats["tm.update."+res]++
		// status probe at another time
		if g.r.Chance(30) {
			pn := latestCons.t.Add(period + time.Duration(int64(g.r.Intn(3))-1))
			sctx := c.GetContext().WithBlockTime(pn)
			st := mustClient(ck.GetClientState(sctx, name)).Status(sctx, ck.ClientStore(sctx, name), c.App.AppCodec())
			w.emit(fmt.Sprintf("tm.status %s %d", name, pn.UnixNano()), "res="+string(st))
			g.stats["tm.status."+string(st)]++
		}
	}
}

// latestOfDump reads the client's latest height back from a clientDump line
func latestOfDump(d string) clienttypes.Height {
	var r, h uint64
	fmt.Sscanf(d, "latest=%d.%d", &r, &h)
	return clienttypes.NewHeight(r, h)
}

func (g *TmGen) refreshStored(c *tibctesting.TestChain, name string, stored []storedCons) []storedCons {
	store := c.App.TIBCKeeper.ClientKeeper.ClientStore(c.GetContext(), name)
	var out []storedCons
	for _, s := range stored {
		// keep the record only while the store still holds this very state (a height may be pruned and
		// later written again by another header)
		if cs, err := ibctmtypes.GetConsensusState(store, c.App.AppCodec(), s.h); err == nil && cs.Timestamp.Equal(s.t) {
			out = append(out, s)
		}
	}
	return out
}

// oracleTm evaluates the light-client rule independently from the generator's ground truth.
func (g *TmGen) oracleTm(statusBefore exported.Status, res string, s hdrSpec, tr storedCons, adjacent bool, modes []sigMode,
	tl ibctmtypes.Fraction, now time.Time, period, drift time.Duration, hHeight clienttypes.Height) {
	if statusBefore != exported.Active {
		if res == "ok" {
			g.w.hit("C14", "header-update-accepted-by-a-client-that-is-not-Active status="+string(statusBefore))
			g.w.hit("C07", "header-update-accepted-by-a-client-that-is-not-Active")
		}
		return
	}
	if res != "ok" {
		return
	}
	// accepted: every clause of the rule must hold
	bad := func(what string) { g.w.hit("C07", "accepted-although-"+what) }
	if hHeight.RevisionNumber != tr.h.RevisionNumber {
		bad("header-is-from-another-revision")
	}
	if !(hHeight.RevisionHeight > tr.h.RevisionHeight) {
		bad("header-not-newer-than-trusted-state")
	}
	if string(s.trustedVals.Hash()) != string(tr.nextVals.Hash()) {
		bad("trusted-validators-are-not-the-committed-next-validators")
	}
	if !tr.t.Add(period).After(now) {
		bad("trusted-state-outside-trusting-period")
	}
	if !s.t.After(tr.t) || !s.t.Before(now.Add(drift)) {
		bad("header-time-outside-window")
	}
	var signedOwn, total int64
	for i, v := range s.vals.Validators {
		total += v.VotingPower
		if modes[i] == sigGood {
			signedOwn += v.VotingPower
		}
	}
	if !(signedOwn > total*2/3) {
		bad("not-more-than-two-thirds-of-own-set-signed")
	}
	if !adjacent {
		var signedTrusted int64
		for i, v := range s.vals.Validators {
			if modes[i] == sigGood {
				if _, tv := s.trustedVals.GetByAddress(v.Address); tv != nil {
					signedTrusted += tv.VotingPower
				}
			}
		}
		tt := s.trustedVals.TotalVotingPower()
		if !(signedTrusted > tt*int64(tl.Numerator)/int64(tl.Denominator)) {
			bad("trust-level-of-trusted-set-not-reached")
		}
	} else if string(s.vals.Hash()) != string(tr.nextVals.Hash()) {
		bad("adjacent-header-validators-differ-from-committed-next-validators")
	}
}

var _ = sdk.Context{}

func mustClient(cs exported.ClientState, ok bool) exported.ClientState {
	if !ok {
		panic("client not found")
	}
	return cs
}
