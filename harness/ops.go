package harness

// Execution of single operations on the real chains. Every function executes the operation,
// then emits the op line (with the implementation-provided inputs: heights, error texts) and
// the canonical outcome line.

import (
	"context"
	"crypto/sha256"
	"fmt"
	ics23 "github.com/cosmos/ics23/go"
	"math/rand"
	"strings"

	abci "github.com/cometbft/cometbft/abci/types"
	cmtproto "github.com/cometbft/cometbft/proto/tendermint/types"
	simtestutil "github.com/cosmos/cosmos-sdk/testutil/sims"
	sdk "github.com/cosmos/cosmos-sdk/types"

	mttransfertypes "github.com/bianjieai/tibc-go/modules/tibc/apps/mt_transfer/types"
	nfttransfertypes "github.com/bianjieai/tibc-go/modules/tibc/apps/nft_transfer/types"
	clienttypes "github.com/bianjieai/tibc-go/modules/tibc/core/02-client/types"
	packettypes "github.com/bianjieai/tibc-go/modules/tibc/core/04-packet/types"
	commitmenttypes "github.com/bianjieai/tibc-go/modules/tibc/core/23-commitment/types"
	host "github.com/bianjieai/tibc-go/modules/tibc/core/24-host"
	ibctmtypes "github.com/bianjieai/tibc-go/modules/tibc/light-clients/07-tendermint/types"
	tibctesting "github.com/bianjieai/tibc-go/modules/tibc/testing"
)

// ProofSpec describes which proof bytes to submit.
type ProofSpec struct {
	Kind   string // "honest" | "garbage" | "empty" | "truncated" | "flipped"
	Chain  string // chain the genuine proof is taken from
	Height uint64 // proof height the genuine proof is generated for (0 = that chain's client latest)
	Key    string // "commit" | "ack" | "clean" | "other"
	Src    string
	Dst    string
	Seq    uint64
}

func (ps ProofSpec) token() string {
	switch ps.Kind {
	case "empty":
		return "empty"
	case "honest":
		switch ps.Key {
		case "commit", "ack":
			return fmt.Sprintf("honest|%s|%d|%s|%s|%s|%d", undash(ps.Chain), ps.Height, ps.Key, undash(ps.Src), undash(ps.Dst), ps.Seq)
		case "clean":
			return fmt.Sprintf("honest|%s|%d|clean|%s|%s", undash(ps.Chain), ps.Height, undash(ps.Src), undash(ps.Dst))
		default:
			return fmt.Sprintf("honest|%s|%d|other|x", undash(ps.Chain), ps.Height)
		}
	}
	return "garbage"
}

func (ps ProofSpec) storeKey() []byte {
	switch ps.Key {
	case "commit":
		return host.PacketCommitmentKey(ps.Src, ps.Dst, ps.Seq)
	case "ack":
		return host.PacketAcknowledgementKey(ps.Src, ps.Dst, ps.Seq)
	case "clean":
		return host.CleanPacketCommitmentKey(ps.Src, ps.Dst)
	}
	return host.FullClientStateKey(ps.Src)
}

// proofBytes builds the real proof bytes for a spec.
func (w *World) proofBytes(ps *ProofSpec) []byte {
	switch ps.Kind {
	case "empty":
		return nil
	case "garbage":
		return []byte{0xde, 0xad, 0xbe, 0xef}
	}
	q := w.Chain(ps.Chain)
	if q == nil || ps.Height < 2 || int64(ps.Height) > q.App.LastBlockHeight()+1 {
		ps.Kind = "garbage"
		return []byte{0xde, 0xad, 0xbe, 0xef}
	}
	proof := w.queryProof(q, ps.storeKey(), int64(ps.Height))
	if proof == nil {
		ps.Kind = "garbage"
		return []byte{0xde, 0xad, 0xbe, 0xef}
	}
	switch ps.Kind {
	case "truncated":
		return proof[:len(proof)/2]
	case "flipped":
		p := append([]byte{}, proof...)
		p[len(p)/2] ^= 0x41
		return p
	case "leafop":
		// a genuine existence proof whose leaf operation is rewritten: the value is no longer
		// pre-hashed and the claimed value becomes the hash of the stored one, so every hash up to
		// the root stays the same while the proof "shows" another value (it violates the proof spec)
		var mp commitmenttypes.MerkleProof
		if err := q.App.AppCodec().Unmarshal(proof, &mp); err != nil || len(mp.Proofs) == 0 || mp.Proofs[0].GetExist() == nil {
			ps.Kind = "garbage"
			return []byte{0xde, 0xad, 0xbe, 0xef}
		}
		ep := mp.Proofs[0].GetExist()
		hv := sha256.Sum256(ep.Value)
		ep.Value = hv[:]
		ep.Leaf.PrehashValue = ics23.HashOp_NO_HASH
		out, err := q.App.AppCodec().Marshal(&mp)
		if err != nil {
			ps.Kind = "garbage"
			return []byte{0xde, 0xad, 0xbe, 0xef}
		}
		return out
	}
	return proof
}

// queryProof is TestChain.QueryProofAtHeight without the test assertions (nil on failure).
func (w *World) queryProof(q *tibctesting.TestChain, key []byte, height int64) []byte {
	res, err := q.App.Query(context.Background(), &abci.RequestQuery{
		Path:   fmt.Sprintf("store/%s/key", host.StoreKey),
		Height: height - 1,
		Data:   key,
		Prove:  true,
	})
	if err != nil || res.ProofOps == nil {
		return nil
	}
	merkleProof, err := commitmenttypes.ConvertProofs(res.ProofOps)
	if err != nil {
		return nil
	}
	proof, err := q.App.AppCodec().Marshal(&merkleProof)
	if err != nil {
		return nil
	}
	return proof
}

// storeValue reads the raw value of a tibc-store key on chain q as of proof height h.
func (w *World) storeValue(q *tibctesting.TestChain, key []byte, h uint64) []byte {
	if q == nil || h < 2 || int64(h) > q.App.LastBlockHeight()+1 {
		return nil
	}
	res, err := q.App.Query(context.Background(), &abci.RequestQuery{
		Path: fmt.Sprintf("store/%s/key", host.StoreKey), Height: int64(h) - 1, Data: key})
	if err != nil {
		return nil
	}
	return res.Value
}

func pkeyStr(p packettypes.Packet) string {
	return fmt.Sprintf("%s/%s/%d", undash(p.SourceChain), undash(p.DestinationChain), p.Sequence)
}

// cleanMonotone checks that the clean points of chain c never decrease (C10).
func (w *World) cleanMonotone(c *tibctesting.TestChain) {
	ctx := c.GetContext()
	store := ctx.KVStore(c.App.GetKey(host.StoreKey))
	it := storetypesIterator(store, []byte(host.KeyCleanPacketCommitmentPrefix+"/"))
	defer it.Close()
	seen := map[string]uint64{}
	for ; it.Valid(); it.Next() {
		seen[c.ChainName+"|"+string(it.Key())] = sdk.BigEndianToUint64(it.Value())
	}
	for k, old := range w.cleanPt {
		if strings.HasPrefix(k, c.ChainName+"|") && seen[k] < old {
			w.hit("C10", fmt.Sprintf("clean-point-decreased %s %d->%d", k, old, seen[k]))
		}
	}
	for k, v := range seen {
		w.cleanPt[k] = v
	}
}

func (w *World) cleanPoint(c *tibctesting.TestChain, src, dst string) uint64 {
	return sdk.BigEndianToUint64(c.App.TIBCKeeper.PacketKeeper.GetCleanPacketCommitment(c.GetContext(), src, dst))
}

// Tx delivers one message on chain c signed by account j of that chain; returns the result.
func (w *World) Tx(c *tibctesting.TestChain, j int, msg sdk.Msg) *abci.ExecTxResult {
	acc := c.SenderAccounts[j]
	real := c.App.AccountKeeper.GetAccount(c.GetContext(), acc.SenderAccount.GetAddress())
	_ = acc.SenderAccount.SetSequence(real.GetSequence())
	saveAcc, saveKey := c.SenderAccount, c.SenderPrivKey
	c.SenderAccount, c.SenderPrivKey = acc.SenderAccount, acc.SenderPrivKey
	res, err := w.sendMsgs(c, msg)
	c.SenderAccount, c.SenderPrivKey = saveAcc, saveKey
	if err != nil {
		// SendMsgs does not advance time on failure; keep block times strictly increasing
		w.Coord.IncrementTime()
	}
	if res == nil {
		w.T.Fatalf("tx delivery failed outright: %v", err)
	}
	return res
}

func (w *World) outcome(c *tibctesting.TestChain, res *abci.ExecTxResult) string {
	evs := ""
	if res.Code == 0 {
		evs = w.EventsStr(res.Events)
	}
	return fmt.Sprintf("res=%s | %s | %s", ErrClass(res.Codespace, res.Code), evs, w.Dump(c))
}

func pktFields(p packettypes.Packet, dataTok string) string {
	return fmt.Sprintf("%d %s %s %s %s %s", p.Sequence, undash(p.SourceChain), undash(p.DestinationChain),
		undash(p.RelayChain), undash(p.Port), dataTok)
}

// KSend calls PacketKeeper.SendPacket directly (as an application module would), then commits.
// KWriteAck: a module calling WriteAcknowledgement directly (asynchronous acknowledgement).
func (w *World) KWriteAck(c *tibctesting.TestChain, p packettypes.Packet, dataTok string, ack []byte) error {
	ctx := c.GetContext()
	err := c.App.TIBCKeeper.PacketKeeper.WriteAcknowledgement(ctx, p, ack)
	w.Coord.CommitBlock(c)
	res := "ok"
	evs := ""
	if err != nil {
		cs, code, _ := errorsABCI(err)
		res = ErrClass(cs, code)
	} else {
		evs = w.EventsStr(ctx.EventManager().ABCIEvents())
		if len(ack) == 0 {
			w.hit("C03", "empty-acknowledgement-recorded "+pkeyStr(p))
		}
	}
	ackTok := "raw|-"
	if len(ack) > 0 {
		ackTok = w.AckTok(ack)
	}
	w.emit(fmt.Sprintf("kwack %s %s %s", c.ChainName, pktFields(p, dataTok), ackTok), fmt.Sprintf("res=%s | %s | %s", res, evs, w.Dump(c)))
	return err
}

func (w *World) KSend(c *tibctesting.TestChain, p packettypes.Packet, dataTok string) error {
	before := w.Dump(c)
	nextBefore := c.App.TIBCKeeper.PacketKeeper.GetNextSequenceSend(c.GetContext(), p.SourceChain, p.DestinationChain)
	ctx := c.GetContext()
	err := c.App.TIBCKeeper.PacketKeeper.SendPacket(ctx, p)
	w.Coord.CommitBlock(c)
	res := "ok"
	evs := ""
	if err != nil {
		cs, code, _ := errorsABCI(err)
		res = ErrClass(cs, code)
	} else {
		evs = w.EventsStr(ctx.EventManager().ABCIEvents())
	}
	after := w.Dump(c)
	// oracle C09: gap-free sequence, one binding commitment, all-or-nothing
	pk := c.App.TIBCKeeper.PacketKeeper
	if err == nil {
		nctx := c.GetContext()
		if p.Sequence != nextBefore {
			w.hit("C09", fmt.Sprintf("send-accepted-with-sequence-%d-but-next-was-%d", p.Sequence, nextBefore))
		}
		hop := p.DestinationChain
		if p.RelayChain != "" {
			hop = p.RelayChain
		}
		if w.ClientLatest(c, hop) == 0 {
			w.hit("C09", fmt.Sprintf("send-accepted-although-no-light-client-of-the-next-hop hop=%s %s", hop, pkeyStr(p)))
		}
		if pk.GetNextSequenceSend(nctx, p.SourceChain, p.DestinationChain) != nextBefore+1 {
			w.hit("C09", "next-sequence-not-incremented-by-one-after-send")
		}
		want := packettypes.CommitPacket(p)
		if got := pk.GetPacketCommitment(nctx, p.SourceChain, p.DestinationChain, p.Sequence); string(got) != string(want) {
			w.hit("C09", "commitment-after-send-is-not-sha256-of-data")
		}
		if !strings.Contains(evs, "ev:send_packet:"+pkeyStr(p)+":") {
			w.hit("C09", "send-not-announced-by-send_packet-event")
		}
	} else if before != after {
		w.hit("C09", "failed-send-changed-state")
	}
	w.emit("ksend "+c.ChainName+" "+pktFields(p, dataTok), fmt.Sprintf("res=%s | %s | %s", res, evs, after))
	return err
}

// Update commits a block on q and updates c's client of q; on success emits the model op.
// Returns the new client height (0 on failure).
func (w *World) Update(c, q *tibctesting.TestChain) uint64 {
	w.Coord.CommitBlock(q)
	header, err := c.ConstructUpdateTMClientHeader(q, q.ChainName)
	if err != nil {
		return 0
	}
	msg, err := clienttypes.NewMsgUpdateClient(q.ChainName, header, c.SenderAccounts[0].SenderAccount.GetAddress())
	if err != nil {
		return 0
	}
	res := w.Tx(c, 0, msg)
	if res.Code != 0 {
		return 0
	}
	h := header.GetHeight().GetRevisionHeight()
	w.emit(fmt.Sprintf("update %s %s %d %d", c.ChainName, q.ChainName, h, uint64(header.GetTime().UnixNano())),
		"res=ok |  | "+w.Dump(c))
	return h
}

// ClientLatest returns the latest height of c's client of q (0 if none).
func (w *World) ClientLatest(c *tibctesting.TestChain, q string) uint64 {
	cs, ok := c.App.TIBCKeeper.ClientKeeper.GetClientState(c.GetContext(), q)
	if !ok {
		return 0
	}
	return cs.GetLatestHeight().GetRevisionHeight()
}

func (w *World) revision(chainName string) uint64 {
	if q := w.Chain(chainName); q != nil {
		return clienttypes.ParseChainID(q.ChainID)
	}
	return 0
}

// Recv submits MsgRecvPacket on c.
func (w *World) Recv(c *tibctesting.TestChain, signer int, p packettypes.Packet, dataTok string, ps ProofSpec, h uint64) *abci.ExecTxResult {
	proof := w.proofBytes(&ps)
	msg := packettypes.NewMsgRecvPacket(p, proof, clienttypes.NewHeight(0, h), c.SenderAccounts[signer].SenderAccount.GetAddress())
	before := w.FullDump(c)
	cleanBefore := w.cleanPoint(c, p.SourceChain, p.DestinationChain)
	res := w.Tx(c, signer, msg)
	w.recvOracle(c, p, h, res, before, cleanBefore)
	errText := "-"
	if res.Code == 0 {
		for _, e := range res.Events {
			if e.Type == packettypes.EventTypeWriteAck {
				var ack packettypes.Acknowledgement
				if err := ack.Unmarshal([]byte(attr(e, packettypes.AttributeKeyAck))); err == nil {
					if er, ok := ack.Response.(*packettypes.Acknowledgement_Error); ok {
						errText = hxs(er.Error)
					}
				}
			}
		}
	}
	w.emit(fmt.Sprintf("tx %s recv %s %s %d %s", c.ChainName, pktFields(p, dataTok), ps.token(), h, errText), w.outcome(c, res))
	return res
}

// Ack submits MsgAcknowledgement on c.
func (w *World) Ack(c *tibctesting.TestChain, signer int, p packettypes.Packet, dataTok string, ack []byte, ps ProofSpec, h uint64) *abci.ExecTxResult {
	proof := w.proofBytes(&ps)
	msg := packettypes.NewMsgAcknowledgement(p, ack, proof, clienttypes.NewHeight(0, h), c.SenderAccounts[signer].SenderAccount.GetAddress())
	before := w.FullDump(c)
	cleanBefore := w.cleanPoint(c, p.SourceChain, p.DestinationChain)
	commitBefore := c.App.TIBCKeeper.PacketKeeper.GetPacketCommitment(c.GetContext(), p.SourceChain, p.DestinationChain, p.Sequence)
	res := w.Tx(c, signer, msg)
	w.ackOracle(c, p, ack, h, res, before, cleanBefore, commitBefore)
	w.emit(fmt.Sprintf("tx %s ack %s %s %s %d", c.ChainName, pktFields(p, dataTok), w.AckTok(ack), ps.token(), h), w.outcome(c, res))
	return res
}

// Clean submits MsgCleanPacket on c.
func (w *World) Clean(c *tibctesting.TestChain, signer int, cp packettypes.CleanPacket) *abci.ExecTxResult {
	msg := packettypes.NewMsgCleanPacket(cp, c.SenderAccounts[signer].SenderAccount.GetAddress())
	before := w.FullDump(c)
	res := w.Tx(c, signer, msg)
	w.cleanOracle(c, packettypes.NewCleanPacket(cp.Sequence, c.ChainName, cp.DestinationChain, cp.RelayChain), true, 0, res, before)
	w.emit(fmt.Sprintf("tx %s clean %d %s %s %s", c.ChainName, cp.Sequence, undash(cp.SourceChain), undash(cp.DestinationChain), undash(cp.RelayChain)), w.outcome(c, res))
	return res
}

// RecvClean submits MsgRecvCleanPacket on c.
func (w *World) RecvClean(c *tibctesting.TestChain, signer int, cp packettypes.CleanPacket, ps ProofSpec, h uint64) *abci.ExecTxResult {
	proof := w.proofBytes(&ps)
	msg := packettypes.NewMsgRecvCleanPacket(cp, proof, clienttypes.NewHeight(0, h), c.SenderAccounts[signer].SenderAccount.GetAddress())
	before := w.FullDump(c)
	res := w.Tx(c, signer, msg)
	w.cleanOracle(c, cp, false, h, res, before)
	w.emit(fmt.Sprintf("tx %s recvclean %d %s %s %s %s %d", c.ChainName, cp.Sequence, undash(cp.SourceChain), undash(cp.DestinationChain), undash(cp.RelayChain), ps.token(), h), w.outcome(c, res))
	return res
}

// NftTransfer submits MsgNftTransfer; returns the packet that was sent (if any).
func (w *World) NftTransfer(c *tibctesting.TestChain, signer int, class, id, receiver, dst, relay, destContract string) (*packettypes.Packet, *abci.ExecTxResult) {
	sender := c.SenderAccounts[signer].SenderAccount.GetAddress().String()
	msg := nfttransfertypes.NewMsgNftTransfer(class, id, sender, receiver, dst, relay, destContract)
	res := w.Tx(c, signer, msg)
	w.emit(fmt.Sprintf("tx %s nfttransfer %s %s %s %s %s %s %s", c.ChainName, hxs(w.classCanon(c, class, false)), hxs(id),
		w.CanonAddr(sender), w.CanonAddr(receiver), undash(dst), undash(relay), hxs(destContract)), w.outcome(c, res))
	return sentPacket(res), res
}

// MtTransfer submits MsgMtTransfer.
func (w *World) MtTransfer(c *tibctesting.TestChain, signer int, class, id, receiver, dst, relay, destContract string, amount uint64) (*packettypes.Packet, *abci.ExecTxResult) {
	sender := c.SenderAccounts[signer].SenderAccount.GetAddress().String()
	msg := mttransfertypes.NewMsgMtTransfer(class, id, sender, receiver, dst, relay, destContract, amount)
	res := w.Tx(c, signer, msg)
	mtData := "-"
	if mt, err := c.App.MtKeeper.GetMT(c.GetContext(), class, id); err == nil {
		mtData = hx(mt.GetData())
	}
	w.emit(fmt.Sprintf("tx %s mttransfer %s %s %s %s %s %s %s %d %s", c.ChainName, hxs(w.classCanon(c, class, true)), hxs(id),
		w.CanonAddr(sender), w.CanonAddr(receiver), undash(dst), undash(relay), hxs(destContract), amount, mtData), w.outcome(c, res))
	return sentPacket(res), res
}

func (w *World) classCanon(c *tibctesting.TestChain, class string, mt bool) string {
	return w.voucherCanon(c, c.GetContext(), class, mt)
}

// sentPacket extracts the packet from the send_packet event of a successful transaction.
func sentPacket(res *abci.ExecTxResult) *packettypes.Packet {
	if res.Code != 0 {
		return nil
	}
	for _, e := range res.Events {
		if e.Type == packettypes.EventTypeSendPacket {
			var seq uint64
			fmt.Sscanf(attr(e, packettypes.AttributeKeySequence), "%d", &seq)
			p := packettypes.NewPacket([]byte(attr(e, packettypes.AttributeKeyData)), seq,
				attr(e, packettypes.AttributeKeySrcChain), attr(e, packettypes.AttributeKeyDstChain),
				attr(e, packettypes.AttributeKeyRelayChain), attr(e, packettypes.AttributeKeyPort))
			return &p
		}
	}
	return nil
}

// writtenAck extracts the acknowledgement bytes written by a successful MsgRecvPacket.
func writtenAck(res *abci.ExecTxResult) []byte {
	if res.Code != 0 {
		return nil
	}
	for _, e := range res.Events {
		if e.Type == packettypes.EventTypeWriteAck {
			return []byte(attr(e, packettypes.AttributeKeyAck))
		}
	}
	return nil
}

// SetRules sets routing rules on c through the keeper (governance path is exercised in C15).
func (w *World) SetRules(c *tibctesting.TestChain, rules []string) error {
	err := c.App.TIBCKeeper.RoutingKeeper.SetRoutingRules(c.GetContext(), rules)
	w.Coord.CommitBlock(c)
	res := "ok"
	if err != nil {
		cs, code, _ := errorsABCI(err)
		res = ErrClass(cs, code)
	}
	var hexRules []string
	for _, r := range rules {
		hexRules = append(hexRules, hxs(r))
	}
	w.emit(strings.TrimSpace(fmt.Sprintf("rules %s %s", c.ChainName, strings.Join(hexRules, " "))), fmt.Sprintf("res=%s |  | %s", res, w.Dump(c)))
	return err
}

var _ = ibctmtypes.Header{}

// sendMsgs is TestChain.SendMsgs, except that the block goes through SimApp.FinalizeBlock (so the
// verif-tagged ABCI recorder sees it) and the transaction is signed without wall-clock randomness.
func (w *World) sendMsgs(c *tibctesting.TestChain, msgs ...sdk.Msg) (*abci.ExecTxResult, error) {
	c.Coordinator.UpdateTimeForChain(c)
	defer func() {
		_ = c.SenderAccount.SetSequence(c.SenderAccount.GetSequence() + 1)
	}()
	w.txCount++
	tx, err := simtestutil.GenSignedMockTx(rand.New(rand.NewSource(int64(w.txCount))), c.TxConfig, msgs,
		sdk.Coins{sdk.NewInt64Coin(sdk.DefaultBondDenom, 0)}, simtestutil.DefaultGenTxGas, c.ChainID,
		[]uint64{c.SenderAccount.GetAccountNumber()}, []uint64{c.SenderAccount.GetSequence()}, c.SenderPrivKey)
	if err != nil {
		return nil, err
	}
	bz, err := c.TxConfig.TxEncoder()(tx)
	if err != nil {
		return nil, err
	}
	resp, err := c.App.FinalizeBlock(&abci.RequestFinalizeBlock{Height: c.App.LastBlockHeight() + 1, Time: c.ProposedHeader.GetTime(),
		NextValidatorsHash: c.NextVals.Hash(), Txs: [][]byte{bz}})
	if err != nil {
		return nil, err
	}
	// TestChain.commitBlock
	if _, err := c.App.Commit(); err != nil {
		return nil, err
	}
	c.LastHeader = c.CurrentTMClientHeader()
	c.Vals = c.NextVals
	c.NextVals = tibctesting.ApplyValSetChanges(c.T, c.Vals, resp.ValidatorUpdates)
	c.ProposedHeader = cmtproto.Header{ChainID: c.ChainID, Height: c.App.LastBlockHeight() + 1, AppHash: c.App.LastCommitID().Hash,
		Time: c.ProposedHeader.Time, ValidatorsHash: c.Vals.Hash(), NextValidatorsHash: c.NextVals.Hash(), ProposerAddress: c.ProposedHeader.ProposerAddress}
	if len(resp.TxResults) != 1 {
		return nil, fmt.Errorf("expected one tx result, got %d", len(resp.TxResults))
	}
	r := resp.TxResults[0]
	if r.Code != 0 {
		return r, fmt.Errorf("%s/%d: %q", r.Codespace, r.Code, r.Log)
	}
	c.Coordinator.IncrementTime()
	return r, nil
}
