package harness

// Ground-truth ledger for the token oracles (C04, C05, C06, C11). The harness follows every
// token by *provenance* (which native mint it descends from), never by parsing class paths, so
// the oracle is independent of the string arithmetic under test.

import (
	"fmt"
	"sort"
	"strings"

	abci "github.com/cometbft/cometbft/abci/types"

	mttransfertypes "github.com/bianjieai/tibc-go/modules/tibc/apps/mt_transfer/types"
	nfttransfertypes "github.com/bianjieai/tibc-go/modules/tibc/apps/nft_transfer/types"
	packettypes "github.com/bianjieai/tibc-go/modules/tibc/core/04-packet/types"
	tibctesting "github.com/bianjieai/tibc-go/modules/tibc/testing"
)

type pos struct{ chain, class, id string }

type flight struct {
	tok     string // native token identity
	amount  uint64
	sender  string
	srcPos  pos
	away    bool
	done    bool // delivered successfully, or refunded
	arrived bool // delivered successfully on the destination chain
	errAck  bool
	pkt     packettypes.Packet
}

type Ledger struct {
	ident   map[pos]string     // position -> native token identity
	from    map[pos]string     // voucher position -> chain it was received from (previous hop)
	burnt   map[string]bool    // NFT identities burnt by their holder
	minted  map[string]uint64  // MT identity -> natively minted units minus user burns (mod 2^64 never reached)
	flights map[string]*flight // packet key -> flight
	order   []string
	serial  int
	vburnt  map[string]uint64 // MT: units of vouchers burnt by their holders, per "identity|hops"
	depth   map[pos]int       // MT: number of hops between a position and the native position it descends from
}

func newLedger() *Ledger {
	return &Ledger{vburnt: map[string]uint64{}, depth: map[pos]int{}, from: map[pos]string{}, ident: map[pos]string{}, burnt: map[string]bool{}, minted: map[string]uint64{}, flights: map[string]*flight{}}
}

func fkey(p packettypes.Packet) string { return pkeyStr(p) }

// nftOwners snapshots owner of every NFT on a chain: "class\x00id" -> owner bech32
func nftOwners(c *tibctesting.TestChain) map[pos]string {
	out := map[pos]string{}
	cols, err := c.App.NftKeeper.GetCollections(c.GetContext())
	if err != nil {
		return out
	}
	for _, col := range cols {
		for _, n := range col.NFTs {
			out[pos{c.ChainName, col.Denom.Id, n.Id}] = n.Owner
		}
	}
	return out
}

func (w *World) isModule(a string) bool { return strings.HasPrefix(w.CanonAddr(a), "mod:") }

// ---- NFT ---------------------------------------------------------------------------------

func (g *TransferGen) nftAfterMint(c *tibctesting.TestChain, class, id string, res *abci.ExecTxResult) {
	if res.Code != 0 || strings.HasPrefix(class, "tibc-") {
		return
	}
	p := pos{c.ChainName, class, id}
	g.led.serial++
	g.led.ident[p] = fmt.Sprintf("%s:%s:%s#%d", c.ChainName, class, id, g.led.serial)
}

func (g *TransferGen) nftAfterBurn(c *tibctesting.TestChain, class, id string, res *abci.ExecTxResult) {
	if res.Code != 0 {
		return
	}
	p := pos{c.ChainName, class, id}
	if t, ok := g.led.ident[p]; ok {
		g.led.burnt[t] = true
		delete(g.led.ident, p)
	}
}

func (g *TransferGen) nftAfterTransfer(c *tibctesting.TestChain, class, id, sender string, p *packettypes.Packet) {
	if p == nil {
		return
	}
	var d nfttransfertypes.NonFungibleTokenPacketData
	if d.Unmarshal(p.Data) != nil {
		return
	}
	sp := pos{c.ChainName, class, id}
	tok, ok := g.led.ident[sp]
	if !ok {
		tok = "untracked:" + c.ChainName + ":" + class + ":" + id
	}
	g.led.flights[fkey(*p)] = &flight{tok: tok, sender: sender, srcPos: sp, away: d.AwayFromOrigin, pkt: *p}
	g.led.order = append(g.led.order, fkey(*p))
	// direction by provenance: a voucher goes "back" exactly when it is sent to the chain it was
	// received from; a native token always goes "away"
	if ok {
		prev, isVoucher := g.led.from[sp]
		wantAway := !isVoucher || prev != p.DestinationChain
		if wantAway != d.AwayFromOrigin {
			g.w.hit("C04", fmt.Sprintf("direction-misclassified away=%v but-token-came-from=%q dest=%q relay=%q %s", d.AwayFromOrigin, prev, p.DestinationChain, p.RelayChain, fkey(*p)))
		}
	}
	if !d.AwayFromOrigin {
		delete(g.led.ident, sp) // burnt on the sending chain
	}
}

// nftAfterRecv is called around a MsgRecvPacket on the destination chain of an NFT packet.
func (g *TransferGen) nftAfterRecv(c *tibctesting.TestChain, p packettypes.Packet, res *abci.ExecTxResult, before map[pos]string) {
	if res.Code != 0 || p.Port != "NFT" {
		return
	}
	after := nftOwners(c)
	fl := g.led.flights[fkey(p)]
	if c.ChainName != p.DestinationChain {
		// relay hop: no token effect allowed (C11)
		if fmt.Sprint(sortedOwners(before)) != fmt.Sprint(sortedOwners(after)) {
			g.w.hit("C11", "relay-chain-token-state-changed-on-receive "+fkey(p))
		}
		if a := writtenAck(res); a != nil && fl != nil { // rejected by the relay
			fl.errAck = true
		}
		return
	}
	ack := writtenAck(res)
	isErr := strings.HasPrefix(g.w.AckTok(ack), "ackerr|")
	var changed []pos
	for k, o := range after {
		if before[k] != o {
			changed = append(changed, k)
		}
	}
	for k := range before {
		if _, ok := after[k]; !ok {
			changed = append(changed, k)
		}
	}
	if isErr {
		if len(changed) != 0 {
			g.w.hit("C19", "error-ack-but-token-ownership-changed "+fkey(p))
			g.w.hit("C06", "error-ack-but-a-token-of-the-transfer-exists-on-the-receiving-side "+fkey(p))
		}
		if fl != nil {
			fl.errAck = true
		}
		return
	}
	if fl == nil {
		// a packet the ledger never saw being sent was delivered with effect
		if len(changed) != 0 {
			g.w.hit("C04", "delivery-of-untracked-packet-changed-ownership "+fkey(p))
		}
		return
	}
	if fl.done {
		g.w.hit("C04", "packet-delivered-with-effect-twice "+fkey(p))
		return
	}
	fl.done = true
	fl.arrived = true
	if len(changed) != 1 {
		g.w.hit("C04", fmt.Sprintf("successful-delivery-changed-%d-tokens %s", len(changed), fkey(p)))
		return
	}
	k := changed[0]
	if fl.away {
		if _, existed := before[k]; existed {
			g.w.hit("C04", "away-delivery-reassigned-an-existing-token "+fkey(p))
		}
		g.led.ident[k] = fl.tok
		g.led.from[k] = p.SourceChain
	} else {
		// unlock: the released token must be the one this packet's voucher represents
		if was, ok := g.led.ident[k]; !ok || was != fl.tok {
			g.w.hit("C04", fmt.Sprintf("escrow-released-to-wrong-claimant released=%s(%s) packet-carries=%s %s", k.class+"/"+k.id, was, fl.tok, fkey(p)))
		}
		if !g.w.isModule(before[k]) {
			g.w.hit("C04", "back-delivery-took-a-token-that-was-not-in-escrow "+fkey(p))
		}
	}
}

func sortedOwners(m map[pos]string) []string {
	var out []string
	for k, v := range m {
		out = append(out, k.class+"\x00"+k.id+"="+v)
	}
	sort.Strings(out)
	return out
}

// nftAfterAck is called around a MsgAcknowledgement for an NFT packet.
func (g *TransferGen) nftAfterAck(c *tibctesting.TestChain, p packettypes.Packet, ack []byte, honest bool, res *abci.ExecTxResult, before map[pos]string) {
	if p.Port != "NFT" {
		return
	}
	fl := g.led.flights[fkey(p)]
	isErr := strings.HasPrefix(g.w.AckTok(ack), "ackerr|")
	onSource := c.ChainName == p.SourceChain
	if res.Code != 0 {
		if honest && fl != nil && !fl.done && isErr {
			cls := ErrClass(res.Codespace, res.Code)
			if strings.HasPrefix(cls, "app:") || cls == "panic" || cls == "invalidRoute" {
				if onSource {
					g.w.hit("C06", fmt.Sprintf("refund-of-error-acknowledged-transfer-fails class=%s err=%s %s", fl.srcPos.class, cls, fkey(p)))
				} else {
					g.w.hit("C11", fmt.Sprintf("error-ack-cannot-pass-relay-chain err=%s %s", cls, fkey(p)))
				}
			}
		}
		return
	}
	after := nftOwners(c)
	if !onSource {
		if fmt.Sprint(sortedOwners(before)) != fmt.Sprint(sortedOwners(after)) {
			g.w.hit("C11", "relay-chain-token-state-changed-on-ack "+fkey(p))
		}
		return
	}
	if fl == nil {
		return
	}
	if isErr {
		// exact refund: the sender holds the token again, in its original class and id
		if o, ok := after[fl.srcPos]; !ok || o != fl.sender {
			g.w.hit("C06", fmt.Sprintf("refund-not-exact sender-does-not-hold %s/%s %s", fl.srcPos.class, fl.srcPos.id, fkey(p)))
		}
		g.led.ident[fl.srcPos] = fl.tok
		if fl.arrived {
			g.w.hit("C06", fmt.Sprintf("sender-refunded-although-the-token-was-delivered relay-named-in-ack=%s %s", undash(p.RelayChain), fkey(p)))
		}
		fl.done = true
	} else if fmt.Sprint(sortedOwners(before)) != fmt.Sprint(sortedOwners(after)) {
		g.w.hit("C06", "success-ack-changed-token-state "+fkey(p))
	}
}

// nftHolderCount checks "exactly one holder" for every tracked native NFT.
func (g *TransferGen) nftHolderCount() {
	counts := map[string]int{}
	where := map[string][]string{}
	for _, c := range g.w.Chains {
		owners := nftOwners(c)
		for k, tok := range g.led.ident {
			if k.chain != c.ChainName {
				continue
			}
			if o, ok := owners[k]; ok && !g.w.isModule(o) {
				counts[tok]++
				where[tok] = append(where[tok], k.chain+":"+k.class+"/"+k.id)
			}
		}
	}
	for _, fl := range g.led.flights {
		if !fl.done {
			counts[fl.tok]++
			where[fl.tok] = append(where[fl.tok], "in-flight:"+fkey(fl.pkt))
		}
	}
	toks := map[string]bool{}
	for _, t := range g.led.ident {
		toks[t] = true
	}
	for _, fl := range g.led.flights {
		toks[fl.tok] = true
	}
	for t := range toks {
		if g.led.burnt[t] || strings.HasPrefix(t, "untracked:") {
			continue
		}
		if counts[t] != 1 {
			sort.Strings(where[t])
			g.w.hit("C04", fmt.Sprintf("native-nft-has-%d-holders token=%s at=%v", counts[t], t, where[t]))
			g.led.burnt[t] = true // report once
		}
	}
}

// ---- MT ----------------------------------------------------------------------------------

type mtBal struct {
	bal    map[string]uint64 // "class\x00id\x00addr"
	supply map[string]uint64 // "class\x00id"
}

func mtState(c *tibctesting.TestChain) mtBal {
	gs := c.App.MtKeeper.ExportGenesisState(c.GetContext())
	out := mtBal{bal: map[string]uint64{}, supply: map[string]uint64{}}
	for _, col := range gs.Collections {
		for _, m := range col.Mts {
			out.supply[col.Denom.Id+"\x00"+m.Id] = m.Supply
		}
	}
	for _, o := range gs.Owners {
		for _, d := range o.Denoms {
			for _, b := range d.Balances {
				out.bal[d.DenomId+"\x00"+b.MtId+"\x00"+o.Address] = b.Amount
			}
		}
	}
	return out
}

func (g *TransferGen) mtAfterMint(c *tibctesting.TestChain, class, id string, amount uint64, res *abci.ExecTxResult) {
	if res.Code != 0 || strings.HasPrefix(class, "tibc-") {
		return
	}
	p := pos{c.ChainName, class, id}
	t := fmt.Sprintf("%s:%s:%s", c.ChainName, class, id)
	g.led.ident[p] = t
	g.led.minted[t] += amount
	g.led.depth[p] = 0
}

func (g *TransferGen) mtAfterBurn(c *tibctesting.TestChain, class, id string, amount uint64, res *abci.ExecTxResult) {
	if res.Code != 0 {
		return
	}
	if t, ok := g.led.ident[pos{c.ChainName, class, id}]; ok {
		g.led.minted[t] -= amount
		if d := g.led.depth[pos{c.ChainName, class, id}]; d >= 1 {
			// a holder may destroy vouchers; the units escrowed for them stay behind for good
			g.led.vburnt[fmt.Sprintf("%s|%d", t, d)] += amount
		}
	}
}

func (g *TransferGen) mtAfterTransfer(c *tibctesting.TestChain, class, id, sender string, p *packettypes.Packet) {
	if p == nil {
		return
	}
	var d mttransfertypes.MultiTokenPacketData
	if d.Unmarshal(p.Data) != nil {
		return
	}
	sp := pos{c.ChainName, class, id}
	tok, ok := g.led.ident[sp]
	if !ok {
		tok = "untracked:" + c.ChainName + ":" + class + ":" + id
	}
	g.led.flights[fkey(*p)] = &flight{tok: tok, amount: d.Amount, sender: sender, srcPos: sp, away: d.AwayFromOrigin, pkt: *p}
}

func (g *TransferGen) mtAfterRecv(c *tibctesting.TestChain, p packettypes.Packet, res *abci.ExecTxResult, before mtBal) {
	if res.Code != 0 || p.Port != "MT" {
		return
	}
	after := mtState(c)
	fl := g.led.flights[fkey(p)]
	same := fmt.Sprint(before) == fmt.Sprint(after)
	if c.ChainName != p.DestinationChain {
		if !same {
			g.w.hit("C11", "relay-chain-token-state-changed-on-receive "+fkey(p))
		}
		if a := writtenAck(res); a != nil && fl != nil {
			fl.errAck = true
		}
		return
	}
	isErr := strings.HasPrefix(g.w.AckTok(writtenAck(res)), "ackerr|")
	if isErr {
		if !same {
			g.w.hit("C19", "error-ack-but-balances-or-supply-changed "+fkey(p))
			g.w.hit("C06", "error-ack-but-units-of-the-transfer-exist-on-the-receiving-side "+fkey(p))
			g.w.hit("C05", "error-ack-but-balances-or-supply-changed "+fkey(p))
		}
		if fl != nil {
			fl.errAck = true
		}
		return
	}
	if fl == nil {
		if !same {
			g.w.hit("C05", "delivery-of-untracked-packet-changed-balances "+fkey(p))
		}
		return
	}
	if fl.done {
		g.w.hit("C05", "packet-delivered-with-effect-twice "+fkey(p))
		return
	}
	fl.done = true
	fl.arrived = true
	// which (class,id) gained units for a non-module holder, or for the module when it is the receiver
	for k, v := range after.bal {
		if v > before.bal[k] {
			parts := strings.Split(k, "\x00")
			kp := pos{c.ChainName, parts[0], parts[1]}
			if was, ok := g.led.ident[kp]; ok && was != fl.tok {
				g.w.hit("C05", fmt.Sprintf("units-credited-under-a-position-of-another-token %s", fkey(p)))
			}
			g.led.ident[kp] = fl.tok
			if _, seen := g.led.depth[kp]; !seen {
				// by provenance: a transfer returns iff it goes to the chain the voucher came from
				if d, ok := g.led.depth[fl.srcPos]; ok {
					if prev, isVoucher := g.led.from[fl.srcPos]; isVoucher && prev == c.ChainName {
						g.led.depth[kp] = d - 1
					} else {
						g.led.depth[kp] = d + 1
						g.led.from[kp] = p.SourceChain
					}
				}
			}
		}
	}
}

func (g *TransferGen) mtAfterAck(c *tibctesting.TestChain, p packettypes.Packet, ack []byte, honest bool, res *abci.ExecTxResult, before mtBal) {
	if p.Port != "MT" {
		return
	}
	fl := g.led.flights[fkey(p)]
	isErr := strings.HasPrefix(g.w.AckTok(ack), "ackerr|")
	onSource := c.ChainName == p.SourceChain
	if res.Code != 0 {
		if honest && fl != nil && !fl.done && isErr {
			cls := ErrClass(res.Codespace, res.Code)
			if strings.HasPrefix(cls, "app:") || cls == "panic" || cls == "invalidRoute" {
				if onSource {
					g.w.hit("C06", fmt.Sprintf("refund-of-error-acknowledged-transfer-fails err=%s %s", cls, fkey(p)))
				} else {
					g.w.hit("C11", fmt.Sprintf("error-ack-cannot-pass-relay-chain err=%s %s", cls, fkey(p)))
				}
			}
		}
		return
	}
	after := mtState(c)
	same := fmt.Sprint(before) == fmt.Sprint(after)
	if !onSource {
		if !same {
			g.w.hit("C11", "relay-chain-token-state-changed-on-ack "+fkey(p))
		}
		return
	}
	if fl == nil {
		return
	}
	if isErr {
		k := fl.srcPos.class + "\x00" + fl.srcPos.id + "\x00" + fl.sender
		if after.bal[k] != before.bal[k]+fl.amount {
			g.w.hit("C06", fmt.Sprintf("refund-not-exact sender-balance %d -> %d expected +%d %s", before.bal[k], after.bal[k], fl.amount, fkey(p)))
		}
		if fl.arrived {
			g.w.hit("C06", fmt.Sprintf("sender-refunded-although-the-token-was-delivered relay-named-in-ack=%s %s", undash(p.RelayChain), fkey(p)))
		}
		fl.done = true
	} else if !same {
		g.w.hit("C06", "success-ack-changed-token-state "+fkey(p))
	}
}

// mtConservation: per chain supply = sum of balances; across chains user-held + in-flight =
// natively minted - burnt; escrow = downstream circulation + in flight is implied by the two.
func (g *TransferGen) mtConservation() {
	held := map[string]uint64{}
	for _, c := range g.w.Chains {
		st := mtState(c)
		sums := map[string]uint64{}
		for k, v := range st.bal {
			parts := strings.Split(k, "\x00")
			sums[parts[0]+"\x00"+parts[1]] += v
			if tok, ok := g.led.ident[pos{c.ChainName, parts[0], parts[1]}]; ok && !g.w.isModule(parts[2]) {
				held[tok] += v
			}
		}
		for k, sup := range st.supply {
			if sums[k] != sup {
				g.w.hit("C05", fmt.Sprintf("supply-%d-differs-from-sum-of-balances-%d on %s", sup, sums[k], c.ChainName))
			}
		}
	}
	for _, fl := range g.led.flights {
		if !fl.done {
			held[fl.tok] += fl.amount
		}
	}
	for tok, m := range g.led.minted {
		if held[tok] != m && !g.led.burnt[tok] {
			g.w.hit("C05", fmt.Sprintf("units-not-conserved token=%s minted-minus-burnt=%d user-held-plus-in-flight=%d", tok, m, held[tok]))
			g.led.burnt[tok] = true
		}
	}
}

// mtEscrowBacking: every unit that exists d >= 1 hops away from its native class (whoever holds
// it, the transfer module included), or is on its way between the two levels, is backed by
// exactly one unit in the transfer module's account one hop nearer to the origin:
//
//	sum over positions at depth d of the supply there
//
// + units sent away from depth d-1 and neither delivered nor refunded
// + units sent back from depth d and neither delivered nor refunded
// + vouchers at depth d destroyed by their holders (MsgBurnMT), whose backing stays locked
// = sum over positions at depth d-1 of the module account's balance.
func (g *TransferGen) mtEscrowBacking() {
	type lv struct {
		tok string
		d   int
	}
	need := map[lv]uint64{}
	have := map[lv]uint64{}
	for _, c := range g.w.Chains {
		st := mtState(c)
		for k, v := range st.bal {
			parts := strings.Split(k, "\x00")
			kp := pos{c.ChainName, parts[0], parts[1]}
			tok, ok := g.led.ident[kp]
			d, okd := g.led.depth[kp]
			if !ok || !okd {
				continue
			}
			if d >= 1 {
				need[lv{tok, d}] += v
			}
			if g.w.isModule(parts[2]) {
				have[lv{tok, d + 1}] += v
			}
		}
	}
	for _, fl := range g.led.flights {
		d, okd := g.led.depth[fl.srcPos]
		if fl.done || !okd || strings.HasPrefix(fl.tok, "untracked:") {
			continue
		}
		if prev, isVoucher := g.led.from[fl.srcPos]; isVoucher && prev == fl.pkt.DestinationChain {
			need[lv{fl.tok, d}] += fl.amount
		} else {
			need[lv{fl.tok, d + 1}] += fl.amount
		}
	}
	for k, v := range g.led.vburnt {
		i := strings.LastIndex(k, "|")
		var d int
		fmt.Sscan(k[i+1:], &d)
		need[lv{k[:i], d}] += v
	}
	keys := map[lv]bool{}
	for k := range need {
		keys[k] = true
	}
	for k := range have {
		keys[k] = true
	}
	for k := range keys {
		if need[k] != have[k] && !g.led.burnt["escrow:"+k.tok] {
			g.w.hit("C05", fmt.Sprintf("escrow-does-not-back-circulation token=%s hops=%d units-downstream-or-in-flight=%d escrowed-one-hop-nearer=%d", k.tok, k.d, need[k], have[k]))
			g.led.burnt["escrow:"+k.tok] = true
		}
	}
}

func (g *TransferGen) tokenOracles() {
	if g.mt {
		g.mtConservation()
		g.mtEscrowBacking()
	} else {
		g.nftHolderCount()
	}
}
