package harness

import (
	"encoding/json"
	"fmt"
	"os"
	"path/filepath"
	"sort"
	"strconv"
	"strings"
	"testing"

	errorsmod "cosmossdk.io/errors"
)

func errorsABCI(err error) (string, uint32, string) { return errorsmod.ABCIInfo(err, false) }

func envInt(k string, def int) int {
	if v := os.Getenv(k); v != "" {
		if n, err := strconv.Atoi(v); err == nil {
			return n
		}
	}
	return def
}

func outDir(t *testing.T) string {
	d := os.Getenv("VERIF_OUT")
	if d == "" {
		d = t.TempDir()
	}
	_ = os.MkdirAll(d, 0o755)
	return d
}

type streamOut struct {
	ops, impl []string
	oracle    []string
	stats     map[string]int
	cases     int
}

func (s *streamOut) add(w *World, stats map[string]int) {
	s.ops = append(s.ops, w.Ops...)
	s.impl = append(s.impl, w.Impl...)
	for _, o := range w.Oracle {
		s.oracle = append(s.oracle, fmt.Sprintf("%s case=%d", o, s.cases))
	}
	for k, v := range stats {
		s.stats[k] += v
	}
	s.cases++
}

func (s *streamOut) write(t *testing.T, name string) {
	d := outDir(t)
	must := func(err error) {
		if err != nil {
			t.Fatal(err)
		}
	}
	must(os.WriteFile(filepath.Join(d, name+".ops"), []byte(strings.Join(s.ops, "\n")+"\n"), 0o644))
	must(os.WriteFile(filepath.Join(d, name+".impl"), []byte(strings.Join(s.impl, "\n")+"\n"), 0o644))
	must(os.WriteFile(filepath.Join(d, name+".oracle"), []byte(strings.Join(s.oracle, "\n")+"\n"), 0o644))
	keys := make([]string, 0, len(s.stats))
	for k := range s.stats {
		keys = append(keys, k)
	}
	sort.Strings(keys)
	js, _ := json.MarshalIndent(map[string]interface{}{"cases": s.cases, "ops": len(s.ops), "stats": s.stats}, "", " ")
	must(os.WriteFile(filepath.Join(d, name+".stats.json"), js, 0o644))
	fmt.Printf("stream %s: %d cases, %d ops\n", name, s.cases, len(s.ops))
}

// TestStreamPacket generates the packet-layer correspondence stream.
func TestStreamPacket(t *testing.T) {
	seed := uint64(envInt("VERIF_SEED", 1))
	cases := envInt("VERIF_CASES", 6)
	nops := envInt("VERIF_OPS", 60)
	out := &streamOut{stats: map[string]int{}}
	for i := 0; i < cases; i++ {
		r := &Rng{s: seed*1000003 + uint64(i)*7919}
		n := 2 + r.Intn(3)
		relay := n >= 3 && r.Chance(70)
		deep := i%4 == 3 || os.Getenv("VERIF_PROFILE") == "deep"
		if deep {
			n, relay = 2, false
		}
		c13 := i == 0 && !deep
		if c13 {
			n, relay = 3, false
		}
		w := NewWorld(t, n)
		g := &PacketGen{w: w, r: r, stats: map[string]int{}, relay: relay}
		if deep {
			g.RunDeep()
		} else if c13 {
			g.SetupTopology()
			g.RunC13()
			g.runOps(nops / 2)
		} else {
			g.Run(nops)
		}
		out.add(w, g.stats)
	}
	name := "packet"
	if os.Getenv("VERIF_PROFILE") == "deep" {
		name = "packetdeep"
	}
	out.write(t, name)
}

func runTransferStream(t *testing.T, name string, mt bool) {
	seed := uint64(envInt("VERIF_SEED", 1))
	cases := envInt("VERIF_CASES", 6)
	nops := envInt("VERIF_OPS", 60)
	out := &streamOut{stats: map[string]int{}}
	for i := 0; i < cases; i++ {
		r := &Rng{s: seed*1000003 + uint64(i)*7919 + 17}
		n := 2 + r.Intn(3)
		relay := n >= 3 && r.Chance(70)
		if !mt && i%3 == 2 && i%2 == 0 {
			n, relay = 4, false // room for a three-hop route
		}
		if !mt && i == 1 {
			n, relay = 3, false // three fully connected chains (forged three-segment class scenario)
		}
		if mt && i%3 == 2 {
			n, relay = 3, false // three fully connected chains (relay-edit scenario)
		}
		w := NewWorld(t, n)
		g := &TransferGen{w: w, r: r, stats: map[string]int{}, relay: relay, mt: mt, script: i % 3}
		g.Run(nops)
		out.add(w, g.stats)
	}
	out.write(t, name)
}

// TestStreamNft generates the NFT-transfer correspondence stream.
func TestStreamNft(t *testing.T) { runTransferStream(t, "nft", false) }

// TestStreamMt generates the multi-token-transfer correspondence stream.
func TestStreamMt(t *testing.T) { runTransferStream(t, "mt", true) }

// TestStreamRouting generates the routing-rules correspondence stream (C12).
func TestStreamRouting(t *testing.T) {
	seed := uint64(envInt("VERIF_SEED", 1))
	cases := envInt("VERIF_CASES", 4)
	nops := envInt("VERIF_OPS", 600)
	out := &streamOut{stats: map[string]int{}}
	for i := 0; i < cases; i++ {
		r := &Rng{s: seed*1000003 + uint64(i)*7919 + 29}
		w := NewWorld(t, 1)
		g := &RoutingGen{w: w, r: r, stats: map[string]int{}}
		g.Run(nops)
		out.add(w, g.stats)
	}
	out.write(t, "routing")
}

// TestStreamAuth generates the authority correspondence stream (C15).
func TestStreamAuth(t *testing.T) {
	seed := uint64(envInt("VERIF_SEED", 1))
	cases := envInt("VERIF_CASES", 4)
	nops := envInt("VERIF_OPS", 60)
	out := &streamOut{stats: map[string]int{}}
	for i := 0; i < cases; i++ {
		r := &Rng{s: seed*1000003 + uint64(i)*7919 + 41}
		w := NewWorld(t, 2)
		g := &AuthGen{w: w, r: r, stats: map[string]int{}}
		g.Run(nops)
		out.add(w, g.stats)
	}
	out.write(t, "auth")
}

// TestStreamTm generates the Tendermint light-client correspondence stream (C07, C14).
func TestStreamTm(t *testing.T) {
	seed := uint64(envInt("VERIF_SEED", 1))
	cases := envInt("VERIF_CASES", 6)
	nops := envInt("VERIF_OPS", 40)
	out := &streamOut{stats: map[string]int{}}
	w := NewWorld(t, 1)
	for i := 0; i < cases; i++ {
		r := &Rng{s: seed*1000003 + uint64(i)*7919 + 53}
		g := &TmGen{w: w, r: r, stats: map[string]int{}}
		g.Run(nops, i)
		for k, v := range g.stats {
			out.stats[k] += v
		}
	}
	out.add(w, map[string]int{})
	out.cases = cases
	out.write(t, "tm")
}

// TestStreamStatus generates the client-status correspondence stream (C14).
func TestStreamStatus(t *testing.T) {
	seed := uint64(envInt("VERIF_SEED", 1))
	cases := envInt("VERIF_CASES", 4)
	nops := envInt("VERIF_OPS", 30)
	out := &streamOut{stats: map[string]int{}}
	for i := 0; i < cases; i++ {
		r := &Rng{s: seed*1000003 + uint64(i)*7919 + 61}
		w := NewWorld(t, 2)
		g := &StatusGen{w: w, r: r, stats: map[string]int{}}
		g.Run(nops, i)
		g.RunExpiredPackets()
		out.add(w, g.stats)
	}
	out.write(t, "status")
}

// TestStreamKeys generates the store-key codec stream (key builders and iterator parsers).
func TestStreamKeys(t *testing.T) {
	seed := uint64(envInt("VERIF_SEED", 1))
	cases := envInt("VERIF_CASES", 2)
	nops := envInt("VERIF_OPS", 400)
	out := &streamOut{stats: map[string]int{}}
	for i := 0; i < cases; i++ {
		r := &Rng{s: seed*1000003 + uint64(i)*7919 + 131}
		w := NewWorld(t, 1)
		g := &KeysGen{w: w, r: r, stats: map[string]int{}}
		g.Run(nops)
		out.add(w, g.stats)
	}
	out.write(t, "keys")
}

// TestStreamProofs generates the state-proof verification stream (C08): real IAVL and real
// Merkle-Patricia proofs against the three client types.
func TestStreamProofs(t *testing.T) {
	seed := uint64(envInt("VERIF_SEED", 1))
	cases := envInt("VERIF_CASES", 4)
	nops := envInt("VERIF_OPS", 30)
	out := &streamOut{stats: map[string]int{}}
	for i := 0; i < cases; i++ {
		r := &Rng{s: seed*1000003 + uint64(i)*7919 + 71}
		w := NewWorld(t, 2)
		g := &ProofGen{w: w, r: r, stats: map[string]int{}}
		g.Run(nops/3+2, i)
		out.add(w, g.stats)
	}
	out.write(t, "proofs")
}

// TestStreamBsc generates the BSC header-chain stream (C17).
func TestStreamBsc(t *testing.T) {
	seed := uint64(envInt("VERIF_SEED", 1))
	cases := envInt("VERIF_CASES", 6)
	nops := envInt("VERIF_OPS", 60)
	out := &streamOut{stats: map[string]int{}}
	for i := 0; i < cases; i++ {
		r := &Rng{s: seed*1000003 + uint64(i)*7919 + 81}
		w := NewWorld(t, 1)
		g := &BscGen{w: w, r: r, stats: map[string]int{}}
		g.Run(nops, i)
		out.add(w, g.stats)
	}
	out.write(t, "bsc")
}

// TestStreamEth generates the ETH header stream (C18).
func TestStreamEth(t *testing.T) {
	seed := uint64(envInt("VERIF_SEED", 1))
	cases := envInt("VERIF_CASES", 6)
	nops := envInt("VERIF_OPS", 40)
	out := &streamOut{stats: map[string]int{}}
	for i := 0; i < cases; i++ {
		r := &Rng{s: seed*1000003 + uint64(i)*7919 + 91}
		w := NewWorld(t, 1)
		g := &EthGen{w: w, r: r, stats: map[string]int{}}
		g.Run(nops, i)
		out.add(w, g.stats)
	}
	{
		// the scripted history of known finding F-C18b
		w := NewWorld(t, 1)
		g := &EthGen{w: w, r: &Rng{s: 4242}, stats: map[string]int{}}
		g.RunSameRootScenario(cases)
		out.add(w, g.stats)
	}
	out.write(t, "eth")
}

// TestStreamDet generates and replays the determinism histories (C20).
func TestStreamDet(t *testing.T) {
	seed := uint64(envInt("VERIF_SEED", 1))
	cases := envInt("VERIF_CASES", 4)
	nops := envInt("VERIF_OPS", 60)
	replicas := 2
	if os.Getenv("VERIF_TIER") == "thorough" {
		replicas = 4
	}
	// history files of earlier runs were recorded with whatever the code was then
	_ = os.RemoveAll(filepath.Join(outDir(t), "detfiles"))
	out := &streamOut{stats: map[string]int{}}
	for i := 0; i < cases; i++ {
		r := &Rng{s: seed*1000003 + uint64(i)*7919 + 101}
		recorder.enabled = true
		w := NewWorld(t, 3)
		g := &DetGen{w: w, r: r, stats: map[string]int{}}
		g.Run(nops, i, replicas)
		out.add(w, g.stats)
		for _, c := range w.Chains {
			recorder.forget(c.App)
		}
	}
	out.write(t, "det")
}

// TestStreamGenesis runs the export / re-import comparison (C16).
func TestStreamGenesis(t *testing.T) {
	seed := uint64(envInt("VERIF_SEED", 1))
	cases := envInt("VERIF_CASES", 3)
	nops := envInt("VERIF_OPS", 60)
	out := &streamOut{stats: map[string]int{}}
	for i := 0; i < cases; i++ {
		r := &Rng{s: seed*1000003 + uint64(i)*7919 + 111}
		recorder.enabled = true
		w := NewWorld(t, 3)
		g := &GenesisGen{w: w, r: r, stats: map[string]int{}}
		g.Run(nops, i)
		out.add(w, g.stats)
		for _, c := range w.Chains {
			recorder.forget(c.App)
		}
	}
	out.write(t, "genesis")
}

// TestReplayDetFiles re-executes, in this (another) process, the histories TestStreamDet wrote to
// disk, and compares application hashes and transaction results with what that process observed.
func TestReplayDetFiles(t *testing.T) {
	dir := filepath.Join(outDir(t), "detfiles")
	files, _ := filepath.Glob(filepath.Join(dir, "case*.json"))
	sort.Strings(files)
	out := &streamOut{stats: map[string]int{}}
	w := &World{T: t}
	w.emit("reset", "reset")
	for i, f := range files {
		diff, nTx, err := replayDetFile(f)
		if err != nil {
			w.hit("C20", "harness: cannot replay history file: "+firstLine(err.Error()))
			continue
		}
		if diff != "" {
			w.hit("C20", fmt.Sprintf("%s file=%d", diff, i))
		}
		out.stats["detx.files"]++
		out.stats["detx.txs"] += nTx
		w.emit(fmt.Sprintf("detx.replayed %d %d", i, nTx), "identical="+fmt.Sprint(diff == ""))
	}
	if len(files) == 0 {
		w.hit("C20", "harness: no history files to replay")
	}
	out.add(w, map[string]int{})
	out.write(t, "detx")
}
