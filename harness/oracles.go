package harness

// Implementation-side property oracles (independent of the Lean model). They are used by the
// violation search: a hit is a concrete failing input on the real code.

import (
	"bytes"
	"crypto/sha256"
	"fmt"
	"net/url"
	"sort"
	"strings"

	storetypes "cosmossdk.io/store/types"
	abci "github.com/cometbft/cometbft/abci/types"
	sdk "github.com/cosmos/cosmos-sdk/types"

	packettypes "github.com/bianjieai/tibc-go/modules/tibc/core/04-packet/types"
	host "github.com/bianjieai/tibc-go/modules/tibc/core/24-host"
	tibctesting "github.com/bianjieai/tibc-go/modules/tibc/testing"
)

func storetypesIterator(store storetypes.KVStore, prefix []byte) storetypes.Iterator {
	return storetypes.KVStorePrefixIterator(store, prefix)
}

// FullDump is a raw dump of the tibc, NFT-transfer, MT-transfer, nft and mt stores of a chain
// (used for "a failed message changes nothing").
func (w *World) FullDump(c *tibctesting.TestChain) string {
	ctx := c.GetContext()
	var out []string
	for _, name := range []string{host.StoreKey, "NFT", "MT", "nft", "mt"} {
		key := c.App.GetKey(name)
		if key == nil {
			continue
		}
		store := ctx.KVStore(key)
		it := store.Iterator(nil, nil)
		h := sha256.New()
		n := 0
		for ; it.Valid(); it.Next() {
			h.Write(it.Key())
			h.Write([]byte{0})
			h.Write(it.Value())
			h.Write([]byte{1})
			n++
		}
		it.Close()
		out = append(out, fmt.Sprintf("%s:%d:%x", name, n, h.Sum(nil)[:8]))
	}
	sort.Strings(out)
	return strings.Join(out, " ")
}

// expected proving chain of a receive on chain c ("the chain it is proven from")
func recvProver(c *tibctesting.TestChain, p packettypes.Packet) string {
	if p.DestinationChain == c.ChainName && p.RelayChain != "" {
		return p.RelayChain
	}
	return p.SourceChain
}

func ackProver(c *tibctesting.TestChain, p packettypes.Packet) string {
	if p.SourceChain == c.ChainName && p.RelayChain != "" {
		return p.RelayChain
	}
	return p.DestinationChain
}

func (w *World) recvOracle(c *tibctesting.TestChain, p packettypes.Packet, h uint64, res *abci.ExecTxResult, before string, cleanBefore uint64) {
	key := c.ChainName + "|" + pkeyStr(p)
	if res.Code != 0 {
		if after := w.FullDump(c); after != before {
			w.hit("C19", "failed-MsgRecvPacket-changed-state")
			w.hit("C01", "rejected-receive-changed-state")
		}
		return
	}
	if c.ChainName != p.DestinationChain && c.ChainName != p.RelayChain {
		w.hit("C13", fmt.Sprintf("receive-accepted-by-a-chain-the-packet-does-not-name chain=%s %s relay=%s", c.ChainName, pkeyStr(p), undash(p.RelayChain)))
		w.hit("C01", fmt.Sprintf("receive-accepted-by-a-chain-the-packet-does-not-name chain=%s %s relay=%s", c.ChainName, pkeyStr(p), undash(p.RelayChain)))
	}
	if c.ChainName == p.DestinationChain && p.Port != "tibcmock" && p.Port != "NFT" && p.Port != "MT" {
		// no application is bound to the port: the message must fail as a whole (no receipt, no
		// acknowledgement), so that the genuine packet can still be delivered
		w.hit("C13", fmt.Sprintf("receive-accepted-on-the-destination-for-a-port-without-application port=%s %s", p.Port, key))
	}
	// C01: the proving chain committed exactly this packet at the proof height
	q := w.Chain(recvProver(c, p))
	want := sha256.Sum256(p.Data)
	got := w.storeValue(q, host.PacketCommitmentKey(p.SourceChain, p.DestinationChain, p.Sequence), h)
	if q == nil || !bytes.Equal(got, want[:]) {
		w.hit("C01", fmt.Sprintf("recv-accepted-without-commitment-at-prover key=%s prover=%s h=%d", pkeyStr(p), recvProver(c, p), h))
	}
	// C02: at most one accepted receive per key per chain, and never at or below the clean point
	w.recvOK[key]++
	if w.recvOK[key] > 1 {
		w.hit("C02", "packet-received-twice "+key)
	}
	// the same, whatever spelling of the chain names the message used (the Tendermint client's
	// Merkle path is handled as a URL path)
	if us, err1 := url.PathUnescape(p.SourceChain); err1 == nil {
		if ud, err2 := url.PathUnescape(p.DestinationChain); err2 == nil && (us != p.SourceChain || ud != p.DestinationChain) {
			key2 := fmt.Sprintf("%s|%s/%s/%d", c.ChainName, us, ud, p.Sequence)
			if w.recvOK[key2] > 0 {
				w.hit("C02", fmt.Sprintf("packet-received-again-under-another-spelling-of-its-chain-names %s as %s", key2, pkeyStr(p)))
			}
		}
	}
	if p.Sequence <= cleanBefore {
		w.hit("C10", "receive-accepted-at-or-below-clean-point "+key)
	}
	// C19 / C03: exactly receipt (+ack when this chain answers) recorded
	pk := c.App.TIBCKeeper.PacketKeeper
	if !pk.HasPacketReceipt(c.GetContext(), p.SourceChain, p.DestinationChain, p.Sequence) {
		w.hit("C02", "accepted-receive-left-no-receipt "+key)
		w.hit("C19", "accepted-receive-left-no-receipt "+key)
	}
	// C11: a relay chain either forwards (commitment for the next hop, no acknowledgement) or
	// refuses (error acknowledgement, nothing to prove onwards)
	if p.RelayChain == c.ChainName && p.DestinationChain != c.ChainName {
		hasC := len(pk.GetPacketCommitment(c.GetContext(), p.SourceChain, p.DestinationChain, p.Sequence)) > 0
		_, hasA := pk.GetPacketAcknowledgement(c.GetContext(), p.SourceChain, p.DestinationChain, p.Sequence)
		if hasC && hasA {
			w.hit("C11", "relay-refused-packet-but-left-forwarding-commitment "+key)
			w.hit("C13", "relay-refused-packet-but-left-forwarding-commitment "+key)
			w.hit("C19", "error-acknowledged-receive-left-a-forwarding-commitment "+key)
			w.hit("C06", "relay-chain-refused-the-transfer-but-left-a-commitment-the-destination-can-verify "+key)
		}
		if !hasC && !hasA {
			w.hit("C11", "relay-accepted-packet-but-neither-forwarded-nor-answered "+key)
		}
	}
	w.cleanMonotone(c)
}

func (w *World) ackOracle(c *tibctesting.TestChain, p packettypes.Packet, ack []byte, h uint64, res *abci.ExecTxResult, before string, cleanBefore uint64, commitBefore []byte) {
	key := c.ChainName + "|" + pkeyStr(p)
	if res.Code != 0 {
		if after := w.FullDump(c); after != before {
			w.hit("C19", "failed-MsgAcknowledgement-changed-state")
		}
		return
	}
	want := sha256.Sum256(p.Data)
	if !bytes.Equal(commitBefore, want[:]) {
		w.hit("C03", "ack-accepted-without-holding-the-packet-commitment "+key)
	}
	if c.ChainName != p.SourceChain && c.ChainName != p.RelayChain {
		w.hit("C13", fmt.Sprintf("acknowledgement-accepted-by-a-chain-the-packet-does-not-name chain=%s %s relay=%s", c.ChainName, pkeyStr(p), undash(p.RelayChain)))
		w.hit("C03", fmt.Sprintf("acknowledgement-accepted-by-a-chain-the-packet-does-not-name chain=%s %s relay=%s", c.ChainName, pkeyStr(p), undash(p.RelayChain)))
	}
	if c.ChainName == p.SourceChain && p.Port != "tibcmock" && p.Port != "NFT" && p.Port != "MT" {
		// no application is bound to the port: the acknowledgement consumed the commitment and no
		// callback ran (a refund, if it was an error acknowledgement, can never happen)
		w.hit("C13", fmt.Sprintf("ack-accepted-on-the-source-for-a-port-without-application port=%s %s", p.Port, key))
		w.hit("C03", fmt.Sprintf("ack-accepted-on-the-source-for-a-port-without-application port=%s %s", p.Port, key))
	}
	q := w.Chain(ackProver(c, p))
	wantAck := sha256.Sum256(ack)
	got := w.storeValue(q, host.PacketAcknowledgementKey(p.SourceChain, p.DestinationChain, p.Sequence), h)
	if q == nil || !bytes.Equal(got, wantAck[:]) {
		w.hit("C03", fmt.Sprintf("ack-accepted-without-that-ack-recorded-at-prover key=%s prover=%s h=%d", pkeyStr(p), ackProver(c, p), h))
	}
	w.ackOK[key]++
	if w.ackOK[key] > 1 {
		w.hit("C03", "packet-acknowledged-twice "+key)
	}
	if c.App.TIBCKeeper.PacketKeeper.HasPacketCommitment(c.GetContext(), p.SourceChain, p.DestinationChain, p.Sequence) {
		w.hit("C03", "commitment-still-present-after-accepted-ack "+key)
	}
	if p.Sequence <= cleanBefore {
		w.hit("C10", "ack-accepted-at-or-below-clean-point "+key)
	}
	w.cleanMonotone(c)
}

// cleanOracle: conditions under which a clean request may be accepted, and its exact effect.
func (w *World) cleanOracle(c *tibctesting.TestChain, cp packettypes.CleanPacket, onSource bool, h uint64, res *abci.ExecTxResult, before string) {
	if res.Code != 0 {
		if after := w.FullDump(c); after != before {
			w.hit("C19", "failed-clean-message-changed-state")
		}
		return
	}
	k := c.ChainName + "|" + host.KeyCleanPacketCommitmentPrefix + "/" + cp.SourceChain + "/" + cp.DestinationChain
	prev := w.cleanPt[k]
	if cp.Sequence <= prev {
		w.hit("C10", fmt.Sprintf("clean-accepted-not-above-previous-clean-point %s N=%d prev=%d", k, cp.Sequence, prev))
	}
	if !onSource {
		// proof of the source's clean point
		prover := cp.SourceChain
		if cp.DestinationChain == c.ChainName && cp.RelayChain != "" {
			prover = cp.RelayChain
		}
		got := w.storeValue(w.Chain(prover), host.CleanPacketCommitmentKey(cp.SourceChain, cp.DestinationChain), h)
		if !bytes.Equal(got, sdk.Uint64ToBigEndian(cp.Sequence)) {
			w.hit("C10", fmt.Sprintf("recv-clean-accepted-without-proof-of-clean-point %s N=%d", k, cp.Sequence))
		}
	}
	// after cleaning: no receipts / acks at or below N remain on this chain for the pair
	ctx := c.GetContext()
	pk := c.App.TIBCKeeper.PacketKeeper
	for _, s := range pk.GetAllPacketCommitments(ctx) {
		if s.SourceChain == cp.SourceChain && s.DestinationChain == cp.DestinationChain && s.Sequence <= cp.Sequence {
			w.hit("C10", fmt.Sprintf("clean-accepted-with-unacknowledged-packet-at-or-below-N %s seq=%d", k, s.Sequence))
		}
	}
	w.cleanMonotone(c)
}
