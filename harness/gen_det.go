package harness

// Determinism stream (C20). A history of signed transactions of every TIBC kind — NFT / MT
// transfers with receives, acknowledgements and refunds over a relay chain, Tendermint client
// updates, BSC header updates (valid and invalid, through validator-set rotations incl. sets
// that list a validator twice), ETH header updates (forks incl.), clean packets — is executed on
// chain 0 of a real multi-chain world while the verif-tagged ABCI recorder notes every block it
// handles. The recorded blocks are then replayed on two (thorough: more) fresh applications that
// start from a key/value snapshot of chain 0 taken at the start of the segment; every replay must
// give byte-identical transaction results (code, log, events, gas) and application hashes.

import (
	"fmt"
	"os"
	"path/filepath"
	"time"

	packettypes "github.com/bianjieai/tibc-go/modules/tibc/core/04-packet/types"
)

type DetGen struct {
	w     *World
	r     *Rng
	stats map[string]int
}

func (g *DetGen) Run(nOps int, caseIdx int, replicas int) {
	w := g.w
	c0 := w.Chains[0]
	// the recorded mainnet header the ETH client starts from must not lie in the future
	if target := time.Unix(1632455201+7200, 0).UTC(); w.Coord.CurrentTime.Before(target) {
		w.Coord.CurrentTime = target
		for _, c := range w.Chains {
			w.Coord.CommitBlock(c)
		}
	}
	tg := &TransferGen{w: w, r: g.r, stats: g.stats, relay: len(w.Chains) >= 3, mt: caseIdx%2 == 1}
	tg.setup()
	bsc := &BscGen{w: w, r: g.r, stats: g.stats, viaTx: true}
	bscOK := bsc.Init(caseIdx)
	eth := &EthGen{w: w, r: g.r, stats: g.stats, viaTx: true}
	ethOK := eth.setup(caseIdx, 400000)
	w.Coord.CommitBlock(c0)

	snap := snapshotKV(c0.App)
	recorder.watch(c0.App)

	for i := 0; i < nOps; i++ {
		switch x := g.r.Intn(100); {
		case x < 12:
			tg.opIssueMint()
		case x < 16:
			tg.opUserMove()
		case x < 34:
			tg.opTransfer()
		case x < 58:
			tg.opRelay()
		case x < 76:
			if bscOK {
				bscOK = bsc.Step(i)
			}
		case x < 92:
			if ethOK {
				eth.Step(i)
			}
		default:
			// clean packets on chain 0 (source side) for a random destination
			d := w.Chains[1+g.r.Intn(len(w.Chains)-1)]
			relay := ""
			if len(w.Chains) >= 3 && d == w.Chains[2] {
				relay = w.Chains[1].ChainName
			}
			w.Clean(c0, g.r.Intn(2), packettypes.NewCleanPacket(uint64(1+g.r.Intn(4)), c0.ChainName, d.ChainName, relay))
		}
	}
	blocks := recorder.stop(c0.App)
	if len(blocks) == 0 {
		w.hit("C20", "harness: no blocks recorded")
		return
	}
	nTx := 0
	for _, b := range blocks {
		nTx += len(b.req.Txs)
	}
	g.stats["det.blocks"] += len(blocks)
	g.stats["det.txs"] += nTx
	var ref replayOutcome
	for k := 0; k < replicas; k++ {
		app, err := newKVReplica(c0.App, snap, blocks[0].req)
		if err != nil {
			w.hit("C20", "harness: cannot build replica: "+err.Error())
			return
		}
		out, err := replayBlocks(app, blocks)
		if err != nil {
			w.hit("C20", fmt.Sprintf("replay-%d-aborted: %v", k, err))
			return
		}
		if k == 0 {
			ref = out
			// fidelity of the replay: the replica must accept / refuse what the recording chain did
			rc := recordedCodes(blocks)
			same, diff := 0, 0
			for bi := range rc {
				for ti := range rc[bi] {
					if bi < len(out.codes) && ti < len(out.codes[bi]) && out.codes[bi][ti] == rc[bi][ti] {
						same++
					} else {
						diff++
					}
				}
			}
			g.stats["det.replayed-tx-same-code-as-recording"] += same
			g.stats["det.replayed-tx-other-code-than-recording"] += diff
			for bi := range out.codes {
				for _, cd := range out.codes[bi] {
					g.stats["det.code."+cd]++
				}
			}
			continue
		}
		for bi := range ref.appHashes {
			for ti := range ref.txResults[bi] {
				if out.txResults[bi][ti] != ref.txResults[bi][ti] {
					w.hit("C20", fmt.Sprintf("transaction-result-differs-between-executions block=%d tx=%d replica=%d", bi, ti, k))
					w.emit(fmt.Sprintf("det.diverged %d %d", bi, ti), "first="+ref.txResults[bi][ti]+" other="+out.txResults[bi][ti])
					return
				}
			}
			if fmt.Sprintf("%x", out.appHashes[bi]) != fmt.Sprintf("%x", ref.appHashes[bi]) {
				w.hit("C20", fmt.Sprintf("application-hash-differs-between-executions block=%d replica=%d", bi, k))
				return
			}
		}
	}
	if dir := os.Getenv("VERIF_OUT"); dir != "" {
		_ = os.MkdirAll(filepath.Join(dir, "detfiles"), 0o755)
		if err := writeDetFile(filepath.Join(dir, "detfiles", fmt.Sprintf("case%d.json", caseIdx)), recorder.initOf(c0.App), snap, blocks, ref); err != nil {
			w.hit("C20", "harness: cannot write history file: "+err.Error())
		}
	}
	w.emit(fmt.Sprintf("det.replayed %d %d %d", len(blocks), nTx, replicas), "identical")
}
