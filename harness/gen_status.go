package harness

// Generator for the client-status stream (C14): for each client type, trusting periods and
// ages of the newest consensus state on, just below and just above the boundary, block times
// with every kind of sub-second part; then packet messages against an expired client.

import (
	"fmt"
	"time"

	clienttypes "github.com/bianjieai/tibc-go/modules/tibc/core/02-client/types"
	packettypes "github.com/bianjieai/tibc-go/modules/tibc/core/04-packet/types"
	commitmenttypes "github.com/bianjieai/tibc-go/modules/tibc/core/23-commitment/types"
	"github.com/bianjieai/tibc-go/modules/tibc/core/exported"
	ibctmtypes "github.com/bianjieai/tibc-go/modules/tibc/light-clients/07-tendermint/types"
	bsctypes "github.com/bianjieai/tibc-go/modules/tibc/light-clients/08-bsc/types"
	ethtypes "github.com/bianjieai/tibc-go/modules/tibc/light-clients/09-eth/types"
	tibctesting "github.com/bianjieai/tibc-go/modules/tibc/testing"
)

type StatusGen struct {
	w     *World
	r     *Rng
	stats map[string]int
}

func (g *StatusGen) subsec() int64 {
	return []int64{0, 1, 999999999, 500000000, int64(g.r.Intn(1000000000))}[g.r.Intn(5)]
}

func (g *StatusGen) probe(c *tibctesting.TestChain, kind, name string, cs exported.ClientState, tsTok string, period uint64, now time.Time, want string) {
	ctx := c.GetContext().WithBlockTime(now)
	ck := c.App.TIBCKeeper.ClientKeeper
	got := string(cs.Status(ctx, ck.ClientStore(ctx, name), c.App.AppCodec()))
	if got != want {
		g.w.hit("C14", fmt.Sprintf("status-%s-reports-%s-but-rule-says-%s ts=%s period=%d now=%d.%09d", kind, got, want, tsTok, period, now.Unix(), now.Nanosecond()))
	}
	g.w.emit(fmt.Sprintf("status %s %s %d %d", kind, tsTok, period, now.UnixNano()), "res="+got)
	g.stats["status."+kind+"."+got]++
}

func (g *StatusGen) Run(nOps int, caseIdx int) {
	w := g.w
	c := w.Chains[0]
	ck := c.App.TIBCKeeper.ClientKeeper
	ctx := c.GetContext()
	base := w.Coord.CurrentTime.UTC()
	for i := 0; i < nOps; i++ {
		kind := []string{"tm", "bsc", "eth"}[g.r.Intn(3)]
		name := fmt.Sprintf("st%sclient%d_%d", kind, caseIdx, i)
		missing := g.r.Chance(8)
		switch kind {
		case "tm":
			period := []time.Duration{time.Nanosecond, time.Second, 90 * time.Minute, time.Duration(1 + g.r.Intn(1000000007))}[g.r.Intn(4)]
			t0 := base.Add(-time.Duration(g.r.Intn(1000000))).Add(time.Duration(g.subsec()))
			h := clienttypes.NewHeight(0, uint64(3+g.r.Intn(9)))
			cs := ibctmtypes.NewClientState("fict", ibctmtypes.DefaultTrustLevel, period, period*2, time.Second, h, commitmenttypes.GetSDKSpecs(), tibctesting.Prefix, 0)
			ck.SetClientState(ctx, name, cs)
			tok := "-"
			if !missing {
				ck.SetClientConsensusState(ctx, name, h, ibctmtypes.NewConsensusState(t0, commitmenttypes.NewMerkleRoot([]byte{1}), []byte{2}))
				tok = fmt.Sprint(t0.UnixNano())
			}
			for _, d := range []time.Duration{-1, 0, 1, time.Duration(g.r.Intn(2000000000)) - 1000000000} {
				now := t0.Add(period).Add(d)
				want := "Active"
				if missing {
					want = "Unknown"
				} else if !t0.Add(period).After(now) {
					want = "Expired"
				}
				g.probe(c, "tm", name, cs, tok, uint64(period), now, want)
			}
		default:
			period := []uint64{1, 200, 3600, uint64(1 + g.r.Intn(100000))}[g.r.Intn(4)]
			ts := uint64(base.Unix()) - uint64(g.r.Intn(100000))
			h := clienttypes.NewHeight(0, uint64(200*(1+g.r.Intn(5))))
			var cs exported.ClientState
			var cons exported.ConsensusState
			if kind == "bsc" {
				b, _ := bscClientState()
				bc := b.(*bsctypes.ClientState)
				bc.Header.Height = h
				bc.TrustingPeriod = period
				cs, cons = bc, &bsctypes.ConsensusState{Timestamp: ts, Number: h, Root: []byte{1}}
			} else {
				ec := &ethtypes.ClientState{Header: ethtypes.Header{Height: h}, ChainId: 1, TrustingPeriod: period}
				cs, cons = ec, &ethtypes.ConsensusState{Timestamp: ts, Number: h, Root: []byte{1}}
			}
			ck.SetClientState(ctx, name, cs)
			tok := "-"
			if !missing {
				ck.SetClientConsensusState(ctx, name, h, cons)
				tok = fmt.Sprint(ts)
			}
			for _, d := range []int64{-1, 0, 1, 2, int64(g.r.Intn(200)) - 100} {
				sec := int64(ts+period) + d
				now := time.Unix(sec, g.subsec()).UTC()
				want := "Active"
				if missing {
					want = "Unknown"
				} else if ts+period < uint64(now.Unix()) {
					want = "Expired"
				}
				g.probe(c, kind, name, cs, tok, period, now, want)
			}
		}
	}
	w.Coord.CommitBlock(c)
}

// RunExpiredPackets: two real chains; a packet is committed and its proof is ready, then chain
// time passes beyond the trusting period: MsgRecvPacket, MsgAcknowledgement, MsgRecvCleanPacket
// and MsgUpdateClient must all be refused by the expired client.
func (g *StatusGen) RunExpiredPackets() {
	w := g.w
	a, b := w.Chains[0], w.Chains[1]
	w.Connect(a, b)
	w.Connect(b, a)
	pg := &PacketGen{w: w, r: g.r, stats: g.stats}
	data, tok := pg.randData()
	p := packettypes.NewPacket(data, 1, a.ChainName, b.ChainName, "", "tibcmock")
	if w.KSend(a, p, tok) != nil {
		return
	}
	h := w.Update(b, a)
	// a second packet, received and acknowledged normally, so that acks / cleans have something to work on
	data2, tok2 := pg.randData()
	p2 := packettypes.NewPacket(data2, 2, a.ChainName, b.ChainName, "", "tibcmock")
	_ = w.KSend(a, p2, tok2)
	h2 := w.Update(b, a)
	ps2 := ProofSpec{Kind: "honest", Chain: a.ChainName, Height: h2, Key: "commit", Src: a.ChainName, Dst: b.ChainName, Seq: 2}
	res := w.Recv(b, 0, p2, tok2, ps2, h2)
	ack := writtenAck(res)
	ha := w.Update(a, b)
	// let both clients expire (or, half of the time, stay just inside the period as a control)
	expire := g.r.Chance(70)
	if expire {
		w.Coord.IncrementTimeBy(tibctesting.TrustingPeriod + time.Duration(g.r.Intn(3))*time.Second)
	} else {
		w.Coord.IncrementTimeBy(tibctesting.TrustingPeriod - 10*time.Minute)
	}
	w.Coord.CommitBlock(a, b)
	setTime := func(c *tibctesting.TestChain) {
		w.emit(fmt.Sprintf("time %s %d", c.ChainName, w.Coord.CurrentTime.UnixNano()), "res=ok |  | "+w.Dump(c))
	}
	check := func(what string, code uint32) {
		if expire && code == 0 {
			w.hit("C14", "expired-client-used-to-accept-"+what)
		}
		if !expire && code != 0 {
			g.stats["expired.control-refused."+what]++
		}
	}
	setTime(b)
	ps := ProofSpec{Kind: "honest", Chain: a.ChainName, Height: h, Key: "commit", Src: a.ChainName, Dst: b.ChainName, Seq: 1}
	r1 := w.Recv(b, 0, p, tok, ps, h)
	check("packet", r1.Code)
	g.stats["expired.recv."+ErrClass(r1.Codespace, r1.Code)]++
	if ack != nil {
		setTime(a)
		psa := ProofSpec{Kind: "honest", Chain: b.ChainName, Height: ha, Key: "ack", Src: a.ChainName, Dst: b.ChainName, Seq: 2}
		r2 := w.Ack(a, 0, p2, tok2, ack, psa, ha)
		check("acknowledgement", r2.Code)
		g.stats["expired.ack."+ErrClass(r2.Codespace, r2.Code)]++
	}
}
