package harness

// Generator for the state-proof stream (C08): real IAVL multistores (through a real chain) and
// real go-ethereum Merkle-Patricia tries over generated key/value sets. Every Verify* method of
// the three client types is called with proofs that are valid, for another key, for another
// root, truncated, at another height, for absent keys, with wrong values, under every
// height / delay configuration; the real answer is compared with "is the claimed value stored
// under the protocol key in the state whose root the client recorded?" (oracle) and with the
// Lean glue model (correspondence). This also tests the binding / completeness hypotheses of
// the C08 theorems on the real libraries.

import (
	"encoding/hex"
	"encoding/json"
	"fmt"
	"math/big"
	"time"

	sdk "github.com/cosmos/cosmos-sdk/types"
	"github.com/ethereum/go-ethereum/common"
	"github.com/ethereum/go-ethereum/crypto"
	"github.com/ethereum/go-ethereum/ethdb/memorydb"
	"github.com/ethereum/go-ethereum/rlp"
	"github.com/ethereum/go-ethereum/trie"

	clienttypes "github.com/bianjieai/tibc-go/modules/tibc/core/02-client/types"
	host "github.com/bianjieai/tibc-go/modules/tibc/core/24-host"
	"github.com/bianjieai/tibc-go/modules/tibc/core/exported"
	ibctmtypes "github.com/bianjieai/tibc-go/modules/tibc/light-clients/07-tendermint/types"
	bsctypes "github.com/bianjieai/tibc-go/modules/tibc/light-clients/08-bsc/types"
	ethtypes "github.com/bianjieai/tibc-go/modules/tibc/light-clients/09-eth/types"
	tibctesting "github.com/bianjieai/tibc-go/modules/tibc/testing"
)

type ProofGen struct {
	w     *World
	r     *Rng
	stats map[string]int
}

// ---- ETH / BSC -----------------------------------------------------------------------------

type ethWorld struct {
	contract []byte
	storage  *trie.Trie
	accounts *trie.Trie
	root     common.Hash
	storHash common.Hash
	slots    map[string][]byte // hex(slot) -> stored 32-byte word
	nonce    *big.Int
	balance  *big.Int
	codeHash common.Hash
}

func slotOf(hostKey []byte) []byte {
	return crypto.Keccak256Hash(hostKey, common.LeftPadBytes(big.NewInt(104).Bytes(), 32)).Bytes()
}

func newTrie() *trie.Trie {
	t, _ := trie.New(common.Hash{}, trie.NewDatabase(memorydb.New()))
	return t
}

func (g *ProofGen) buildEthWorld(entries map[string][]byte) *ethWorld {
	ew := &ethWorld{contract: common.FromHex("0x6c2d2868487665C766740ec4cAD006110CfDCff8"), slots: map[string][]byte{},
		nonce: big.NewInt(1), balance: big.NewInt(0), codeHash: crypto.Keccak256Hash([]byte("code"))}
	ew.storage = newTrie()
	for hk, word := range entries {
		slot := slotOf([]byte(hk))
		trimmed := common.TrimLeftZeroes(word)
		enc, _ := rlp.EncodeToBytes(trimmed)
		ew.storage.Update(crypto.Keccak256(slot), enc)
		ew.slots[hex.EncodeToString(slot)] = common.LeftPadBytes(trimmed, 32)
	}
	// filler slots so that proofs have some depth
	for i := 0; i < 6+g.r.Intn(20); i++ {
		k := crypto.Keccak256([]byte{byte(i), byte(g.r.Intn(256)), 7})
		enc, _ := rlp.EncodeToBytes([]byte{byte(1 + i)})
		ew.storage.Update(crypto.Keccak256(k), enc)
	}
	ew.storHash = ew.storage.Hash()
	ew.accounts = newTrie()
	acc := &ethtypes.ProofAccount{Nonce: ew.nonce, Balance: ew.balance, Storage: ew.storHash, Codehash: ew.codeHash}
	accRlp, _ := rlp.EncodeToBytes(acc)
	ew.accounts.Update(crypto.Keccak256(ew.contract), accRlp)
	for i := 0; i < 5+g.r.Intn(10); i++ {
		a := crypto.Keccak256([]byte{9, byte(i), byte(g.r.Intn(256))})
		ew.accounts.Update(a, []byte{0xc2, 0x01, 0x02})
	}
	ew.root = ew.accounts.Hash()
	return ew
}

func proveHex(t *trie.Trie, key []byte) []string {
	db := memorydb.New()
	_ = t.Prove(key, 0, db)
	// trie.Prove writes nodes keyed by hash; the verifier only needs the set of nodes
	var out []string
	it := db.NewIterator(nil, nil)
	for it.Next() {
		out = append(out, "0x"+hex.EncodeToString(it.Value()))
	}
	it.Release()
	return out
}

type ethProofJSON struct {
	Address      string              `json:"address,omitempty"`
	Balance      string              `json:"balance,omitempty"`
	CodeHash     string              `json:"code_hash,omitempty"`
	Nonce        string              `json:"nonce,omitempty"`
	StorageHash  string              `json:"storage_hash,omitempty"`
	AccountProof []string            `json:"account_proof,omitempty"`
	StorageProof []ethStorageResultJ `json:"storage_proof,omitempty"`
}
type ethStorageResultJ struct {
	Key   string   `json:"key,omitempty"`
	Value string   `json:"value,omitempty"`
	Proof []string `json:"proof,omitempty"`
}

// ethCase: one verification attempt against an ETH or BSC client
// chain names of the protocol entries: every character class a chain name may contain
var proofSrcNames = []string{"chain0", "chain1", "hub+zone-a", "a.b_c-d#e"}
var proofDstNames = []string{"dest0", "dest1", "x+y+z", "p[q]<r>"}

func (g *ProofGen) ethCase(c *tibctesting.TestChain, kind string, idx int) {
	w := g.w
	ck := c.App.TIBCKeeper.ClientKeeper
	// stored protocol entries
	type ent struct {
		method   string
		src, dst string
		seq      uint64
		word     []byte
	}
	var ents []ent
	entries := map[string][]byte{}
	for i := 0; i < 3+g.r.Intn(4); i++ {
		src, dst := proofSrcNames[g.r.Intn(len(proofSrcNames))], proofDstNames[g.r.Intn(len(proofDstNames))]
		seq := uint64(1 + g.r.Intn(300))
		switch g.r.Intn(3) {
		case 0:
			h := crypto.Keccak256([]byte{byte(i), byte(g.r.Intn(256))})
			if g.r.Chance(15) {
				h[0], h[1] = 0, 0 // leading zero bytes: trimmed in storage
			}
			ents = append(ents, ent{"commit", src, dst, seq, h})
			entries[string(host.PacketCommitmentKey(src, dst, seq))] = h
		case 1:
			h := crypto.Keccak256([]byte{0xaa, byte(i), byte(g.r.Intn(256))})
			ents = append(ents, ent{"ack", src, dst, seq, h})
			entries[string(host.PacketAcknowledgementKey(src, dst, seq))] = h
		default:
			ents = append(ents, ent{"clean", src, dst, seq, common.LeftPadBytes(sdk.Uint64ToBigEndian(seq), 32)})
			entries[string(host.CleanPacketCommitmentKey(src, dst))] = common.LeftPadBytes(sdk.Uint64ToBigEndian(seq), 32)
		}
	}
	ew := g.buildEthWorld(entries)
	latest := uint64(200 * (2 + g.r.Intn(3)))
	hProof := latest - uint64(g.r.Intn(30))
	name := fmt.Sprintf("%sproof%d", kind, idx)
	ctx := c.GetContext()
	var cs exported.ClientState
	var delayBlock uint64
	lh := clienttypes.NewHeight(0, latest)
	if kind == "bsc" {
		b, _ := bscClientState()
		bc := b.(*bsctypes.ClientState)
		bc.Header.Height = lh
		bc.ContractAddress = ew.contract
		nv := g.r.Intn(22)
		bc.Validators = make([][]byte, nv)
		cs = bc
		delayBlock = bc.GetDelayBlock()
	} else {
		ec := &ethtypes.ClientState{Header: ethtypes.Header{Height: lh}, ChainId: 1, ContractAddress: ew.contract, TrustingPeriod: 1000000,
			BlockDelay: uint64(g.r.Intn(20))}
		cs = ec
		delayBlock = ec.GetDelayBlock()
	}
	ck.SetClientState(ctx, name, cs)
	consExists := !g.r.Chance(8)
	ph := clienttypes.NewHeight(0, hProof)
	if consExists {
		if kind == "bsc" {
			ck.SetClientConsensusState(ctx, name, ph, &bsctypes.ConsensusState{Timestamp: 1, Number: ph, Root: ew.root.Bytes()})
		} else {
			ck.SetClientConsensusState(ctx, name, ph, &ethtypes.ConsensusState{Timestamp: 1, Number: ph, Root: ew.root.Bytes()})
		}
	}
	// a second consensus state, one block earlier, recording the root of another state
	otherRoot := crypto.Keccak256([]byte{byte(idx), 0x77})
	oh := clienttypes.NewHeight(0, hProof-1)
	if kind == "bsc" {
		ck.SetClientConsensusState(ctx, name, oh, &bsctypes.ConsensusState{Timestamp: 1, Number: oh, Root: otherRoot})
	} else {
		ck.SetClientConsensusState(ctx, name, oh, &ethtypes.ConsensusState{Timestamp: 1, Number: oh, Root: otherRoot})
	}
	store := ck.ClientStore(ctx, name)
	for q := 0; q < 6; q++ {
		e := ents[g.r.Intn(len(ents))]
		// the query the keeper would make
		qsrc, qdst, qseq, method := e.src, e.dst, e.seq, e.method
		claimed := e.word
		if method == "clean" {
			claimed = sdk.Uint64ToBigEndian(e.seq)
		}
		stored := true
		clnWrong := false
		_ = clnWrong
		switch g.r.Intn(10) {
		case 0:
			qseq++ // other key (absent unless it happens to exist)
			if method == "clean" {
				claimed = sdk.Uint64ToBigEndian(qseq)
			}
		case 1:
			if method == "clean" {
				// the stored clean point is another sequence
				qseq += 5
				claimed = sdk.Uint64ToBigEndian(qseq)
				clnWrong = true
			} else {
				claimed = crypto.Keccak256([]byte("wrong value"))
			}
		case 2:
			qsrc = "otherchain"
		}
		var hostKey []byte
		switch method {
		case "commit":
			hostKey = host.PacketCommitmentKey(qsrc, qdst, qseq)
		case "ack":
			hostKey = host.PacketAcknowledgementKey(qsrc, qdst, qseq)
		default:
			hostKey = host.CleanPacketCommitmentKey(qsrc, qdst)
		}
		slot := slotOf(hostKey)
		word, present := ew.slots[hex.EncodeToString(slot)]
		stored = present && hex.EncodeToString(word) == hex.EncodeToString(common.LeftPadBytes(claimed, 32))
		// the proof: honest for this slot, or perturbed
		pj := ethProofJSON{Address: "0x" + hex.EncodeToString(ew.contract), Balance: "0x0", CodeHash: ew.codeHash.Hex(), Nonce: "0x1",
			StorageHash: ew.storHash.Hex(), AccountProof: proveHex(ew.accounts, crypto.Keccak256(ew.contract)),
			StorageProof: []ethStorageResultJ{{Key: "0x" + hex.EncodeToString(slot), Value: "0x" + hex.EncodeToString(word), Proof: proveHex(ew.storage, crypto.Keccak256(slot))}}}
		d := struct{ decodes, addrOk, acctOk, fieldsOk, keyIsSlot, storOk int }{1, 1, 1, 1, 1, 1}
		nStorage := 1
		wordTok := "-"
		if present {
			wordTok = hex.EncodeToString(word)
		} else {
			// absence: VerifyProof returns nil value without error -> rlp decode fails
			wordTok = "-"
		}
		h := hProof
		plabel := "honest"
		switch g.r.Intn(14) {
		case 0:
			pj.Address = "0x00000000000000000000000000000000000000aa"
			d.addrOk = 0
			plabel = "addr"
		case 1:
			pj.AccountProof = pj.AccountProof[:len(pj.AccountProof)/2]
			d.acctOk = 0
			plabel = "acct-truncated"
		case 2:
			pj.Nonce = "0x2"
			d.fieldsOk = 0
			plabel = "acct-fields"
		case 3:
			pj.StorageProof = append(pj.StorageProof, pj.StorageProof[0])
			nStorage = 2
			plabel = "two-storage"
		case 4:
			pj.StorageProof = nil
			nStorage = 0
			plabel = "no-storage"
		case 5:
			// a genuine proof, but for another slot
			other := slotOf(host.PacketCommitmentKey("zz", "yy", 77))
			pj.StorageProof[0].Key = "0x" + hex.EncodeToString(other)
			pj.StorageProof[0].Proof = proveHex(ew.storage, crypto.Keccak256(other))
			d.keyIsSlot = 0
			wordTok = "-"
			plabel = "other-slot"
		case 6:
			if len(pj.StorageProof[0].Proof) > 1 {
				pj.StorageProof[0].Proof = pj.StorageProof[0].Proof[1:]
				d.storOk = 0
				wordTok = "-"
				plabel = "stor-truncated"
			}
		case 7:
			h = latest + 1
			plabel = "h>latest"
		case 8:
			pj.StorageProof[0].Key = "0x" + hex.EncodeToString(crypto.Keccak256(slot))
			d.keyIsSlot = 0
			d.storOk = 0
			wordTok = "-"
			plabel = "hashed-key"
		case 9:
			// honest proof against the recorded root of another state
			h = hProof - 1
			d.acctOk = 0
			plabel = "other-root"
		case 10:
			// nodes of the storage proof in reverse order: the node set is unordered
			sp := pj.StorageProof[0].Proof
			for i, j := 0, len(sp)-1; i < j; i, j = i+1, j-1 {
				sp[i], sp[j] = sp[j], sp[i]
			}
			plabel = "reordered"
		}
		proofBz, _ := json.Marshal(pj)
		if g.r.Chance(4) {
			proofBz = []byte("{not json")
			d.decodes = 0
			plabel = "undecodable"
		}
		hh := clienttypes.NewHeight(0, h)
		var err error
		switch method {
		case "commit":
			err = cs.VerifyPacketCommitment(ctx, store, c.App.AppCodec(), hh, proofBz, qsrc, qdst, qseq, claimed)
		case "ack":
			err = cs.VerifyPacketAcknowledgement(ctx, store, c.App.AppCodec(), hh, proofBz, qsrc, qdst, qseq, claimed)
		default:
			err = cs.VerifyPacketCleanCommitment(ctx, store, c.App.AppCodec(), hh, proofBz, qsrc, qdst, qseq)
		}
		res := "ok"
		if err != nil {
			res = "fail"
		}
		ce := 0
		if (consExists && h == hProof) || h == hProof-1 {
			ce = 1
		}
		// oracle: sound and complete w.r.t. "stored under the protocol key" for honest proofs
		honest := plabel == "honest" || plabel == "reordered"
		ideal := stored && ce == 1 && h == hProof && h <= latest && latest-h >= delayBlock
		if res == "ok" && !ideal {
			w.hit("C08", fmt.Sprintf("%s-%s-verification-accepted-although-value-not-stored-or-conditions-unmet proof=%s", kind, method, plabel))
		}
		if honest && ideal && res != "ok" {
			w.hit("C08", fmt.Sprintf("%s-%s-honest-proof-of-stored-value-rejected", kind, method))
		}
		w.emit(fmt.Sprintf("ethverify %s %d %d %d %d %d %d %d %d %d %d %d %s %s", kind, latest, ce, h, delayBlock, d.decodes, d.addrOk, d.acctOk, d.fieldsOk,
			nStorage, d.keyIsSlot, d.storOk, wordTok, hex.EncodeToString(claimed)), "res="+res)
		g.stats[fmt.Sprintf("%s.%s.%s.%s", kind, method, plabel, res)]++
	}
}

// ---- Tendermint ---------------------------------------------------------------------------

// tmCases: chain b holds a client of chain a with a random TimeDelay; protocol entries are
// written on a, proofs of every kind are verified on b through the three Verify* methods.
func (g *ProofGen) tmCases(n int) {
	w := g.w
	a, b := w.Chains[0], w.Chains[1]
	w.Connect(b, a)
	ck := b.App.TIBCKeeper.ClientKeeper
	// give the client a time delay
	delay := []uint64{0, 1, uint64(5 * time.Second), uint64(7 * time.Second), uint64(time.Hour), ^uint64(0) - uint64(g.r.Intn(1000)),
		^uint64(0) - uint64(w.Coord.CurrentTime.UnixNano()) + uint64(time.Minute)}[g.r.Intn(7)]
	{
		ctx := b.GetContext()
		cs := b.GetClientState(a.ChainName).(*ibctmtypes.ClientState)
		cs.TimeDelay = delay
		ck.SetClientState(ctx, a.ChainName, cs)
		w.Coord.CommitBlock(b)
	}
	pk := a.App.TIBCKeeper.PacketKeeper
	type ent struct {
		method   string
		src, dst string
		seq      uint64
		val      []byte
	}
	var ents []ent
	actx := a.GetContext()
	for i := 0; i < 6; i++ {
		src, dst := proofSrcNames[g.r.Intn(len(proofSrcNames))], proofDstNames[g.r.Intn(len(proofDstNames))]
		seq := uint64(1 + g.r.Intn(400))
		switch g.r.Intn(3) {
		case 0:
			v := crypto.Keccak256([]byte{byte(i), 1})
			pk.SetPacketCommitment(actx, src, dst, seq, v)
			ents = append(ents, ent{"commit", src, dst, seq, v})
		case 1:
			v := crypto.Keccak256([]byte{byte(i), 2})
			pk.SetPacketAcknowledgement(actx, src, dst, seq, v)
			ents = append(ents, ent{"ack", src, dst, seq, v})
		default:
			pk.SetCleanPacketCommitment(actx, src, dst, seq)
			ents = append(ents, ent{"clean", src, dst, seq, sdk.Uint64ToBigEndian(seq)})
		}
	}
	w.Coord.CommitBlock(a)
	h1 := w.Update(b, a)
	w.Coord.CommitBlock(a)
	h2 := w.Update(b, a)
	_ = h1
	store := func() (sdk.Context, exported.ClientState) {
		ctx := b.GetContext()
		cs, _ := ck.GetClientState(ctx, a.ChainName)
		return ctx, cs
	}
	for q := 0; q < n; q++ {
		e := ents[g.r.Intn(len(ents))]
		qsrc, qdst, qseq, method, claimed := e.src, e.dst, e.seq, e.method, e.val
		switch g.r.Intn(10) {
		case 0:
			qseq += 1000
			if method == "clean" {
				claimed = sdk.Uint64ToBigEndian(qseq)
			}
		case 1:
			if method != "clean" {
				claimed = crypto.Keccak256([]byte("wrong"))
			}
		case 2:
			qdst = "elsewhere"
		}
		var key []byte
		switch method {
		case "commit":
			key = host.PacketCommitmentKey(qsrc, qdst, qseq)
		case "ack":
			key = host.PacketAcknowledgementKey(qsrc, qdst, qseq)
		default:
			key = host.CleanPacketCommitmentKey(qsrc, qdst)
		}
		h := h2
		ctx, cs := store()
		latest := cs.GetLatestHeight().GetRevisionHeight()
		// what is stored on a at the proof height
		storedVal := w.storeValue(a, key, h)
		// the proof
		plabel := "honest"
		proofKey := key
		proofH := h
		switch g.r.Intn(12) {
		case 0:
			proofKey = host.PacketCommitmentKey("zz", "yy", 5)
			plabel = "other-key"
		case 1:
			proofH = h1
			plabel = "other-height-proof"
		case 2:
			h = h1
			proofH = h1
			storedVal = w.storeValue(a, key, h)
			plabel = "honest@h1"
		case 3:
			h = latest + 3
			plabel = "h>latest"
		case 4:
			h = h2 - 1
			plabel = "no-cons-state"
		}
		proof := w.queryProof(a, proofKey, int64(proofH))
		ptok := fmt.Sprintf("genuine|%s|", hxs("tibc/"+string(proofKey)))
		if pv := w.storeValue(a, proofKey, proofH); pv != nil {
			ptok += hx(pv)
		} else {
			ptok += "none"
		}
		if proofH != h {
			ptok = "foreign"
		}
		switch g.r.Intn(16) {
		case 0:
			proof = proof[:len(proof)/2]
			ptok = "undecodable"
			plabel = "truncated"
		case 1:
			proof = nil
			ptok = "nil"
			plabel = "nil"
		}
		// block time: around the delay boundary
		pt, hasPt := ibctmtypes.GetProcessedTime(ck.ClientStore(ctx, a.ChainName), clienttypes.NewHeight(0, h))
		now := w.Coord.CurrentTime.UTC()
		if hasPt {
			switch g.r.Intn(4) {
			case 0:
				now = time.Unix(0, int64(pt+delay)).UTC()
			case 1:
				now = time.Unix(0, int64(pt+delay)-1).UTC()
			case 2:
				now = time.Unix(0, int64(pt+delay)+1).UTC()
			}
		}
		vctx := ctx.WithBlockTime(now)
		hh := clienttypes.NewHeight(0, h)
		cstore := ck.ClientStore(vctx, a.ChainName)
		if tmcs, ok := cs.(*ibctmtypes.ClientState); ok && h == h2 && h1 < h2 && g.r.Chance(12) {
			// the client state was rolled back (governance upgrade) to an earlier latest height while
			// the consensus state of the later height is still stored: the proof height is above latest
			rolled := *tmcs
			rolled.LatestHeight = clienttypes.NewHeight(0, h1)
			cs = &rolled
			latest = h1
			plabel += "+latest-rolled-back"
		}
		var err error
		switch method {
		case "commit":
			err = cs.VerifyPacketCommitment(vctx, cstore, b.App.AppCodec(), hh, proof, qsrc, qdst, qseq, claimed)
		case "ack":
			err = cs.VerifyPacketAcknowledgement(vctx, cstore, b.App.AppCodec(), hh, proof, qsrc, qdst, qseq, claimed)
		default:
			err = cs.VerifyPacketCleanCommitment(vctx, cstore, b.App.AppCodec(), hh, proof, qsrc, qdst, qseq)
		}
		res := "ok"
		if err != nil {
			res = "fail"
		}
		_, cerr := ibctmtypes.GetConsensusState(cstore, b.App.AppCodec(), hh)
		rootTok := "-"
		if cerr == nil {
			rootTok = "r"
		}
		ptTok := "-"
		if hasPt {
			ptTok = fmt.Sprint(pt)
		}
		stored := storedVal != nil && string(storedVal) == string(claimed)
		// the delay has elapsed: no wrap-around (a delay reaching past 2^64 ns never elapses)
		elapsed := hasPt && pt+delay >= pt && pt+delay <= uint64(now.UnixNano())
		ideal := stored && h <= latest && cerr == nil && elapsed
		if res == "ok" && !ideal {
			w.hit("C08", fmt.Sprintf("tm-%s-verification-accepted-although-value-not-stored-or-conditions-unmet proof=%s", method, plabel))
		}
		if ideal && (plabel == "honest" || plabel == "honest@h1") && ptok != "undecodable" && ptok != "nil" && res != "ok" {
			w.hit("C08", fmt.Sprintf("tm-%s-honest-proof-of-stored-value-rejected", method))
		}
		w.emit(fmt.Sprintf("tmverify %d %d %s %s %d %d %s %s %s", latest, h, rootTok, ptTok, delay, now.UnixNano(), ptok, hxs("tibc/"+string(key)), hx(claimed)), "res="+res)
		g.stats[fmt.Sprintf("tm.%s.%s.%s", method, plabel, res)]++
	}
}

func (g *ProofGen) Run(nOps int, caseIdx int) {
	c := g.w.Chains[0]
	for i := 0; i < nOps; i++ {
		g.ethCase(c, []string{"eth", "bsc"}[i%2], caseIdx*1000+i)
	}
	g.w.Coord.CommitBlock(c)
	g.tmCases(nOps * 4)
}
