package harness

// Generator for the routing stream (C12): rule lists and (source, destination, port) triples over
// the full permitted identifier alphabet, weighted to regular-expression metacharacters, against
// the real RoutingKeeper.SetRoutingRules / Authenticate.

import (
	"fmt"
	"strings"
)

const idAlphabet = "abAB01._+-#[]<>"

func (r *Rng) ident(maxLen int) string {
	n := 1 + r.Intn(maxLen)
	var b strings.Builder
	for i := 0; i < n; i++ {
		b.WriteByte(idAlphabet[r.Intn(len(idAlphabet))])
	}
	return b.String()
}

func (r *Rng) field() string {
	switch r.Intn(10) {
	case 0, 1, 2:
		return "*"
	case 3:
		return strings.Repeat("a", 64)
	case 4:
		return strings.Repeat("a", 65) // too long
	case 5:
		return []string{"", "**", "a*", "*a", "a,b", "a b", "a/b", "é"}[r.Intn(8)] // invalid fields
	}
	return r.ident(4)
}

// fieldwise is the independent reference: some rule matches field by field, '*' matches anything.
func fieldwise(rules []string, s, d, p string) bool {
	for _, r := range rules {
		f := strings.Split(r, ",")
		if len(f) != 3 {
			continue
		}
		ok := true
		for i, x := range []string{s, d, p} {
			if f[i] != "*" && f[i] != x {
				ok = false
			}
		}
		if ok {
			return true
		}
	}
	return false
}

func validField(f string) bool {
	if f == "*" {
		return true
	}
	if len(f) < 1 || len(f) > 64 {
		return false
	}
	for _, c := range f {
		if !strings.ContainsRune("abcdefghijklmnopqrstuvwxyzABCDEFGHIJKLMNOPQRSTUVWXYZ0123456789._+-#[]<>", c) {
			return false
		}
	}
	return true
}

func validRule(r string) bool {
	f := strings.Split(r, ",")
	if len(f) != 3 {
		return false
	}
	return validField(f[0]) && validField(f[1]) && validField(f[2])
}

type RoutingGen struct {
	w     *World
	r     *Rng
	stats map[string]int
}

func (g *RoutingGen) Run(nOps int) {
	w := g.w
	c := w.Chains[0]
	var stored []string
	haveRules := false
	for i := 0; i < nOps; i++ {
		if i%12 == 0 {
			// a new rule list
			n := g.r.Intn(5)
			var rules []string
			for k := 0; k < n; k++ {
				nf := 3
				if g.r.Chance(6) {
					nf = 2 + 2*g.r.Intn(2)
				}
				var fs []string
				for j := 0; j < nf; j++ {
					fs = append(fs, g.r.field())
				}
				rule := strings.Join(fs, ",")
				if g.r.Chance(12) {
					// an extra empty field (leading / trailing / doubled comma) in an otherwise plausible rule
					switch g.r.Intn(3) {
					case 0:
						rule = "," + rule
					case 1:
						rule += ","
					default:
						rule = strings.Replace(rule, ",", ",,", 1)
					}
				}
				rules = append(rules, rule)
			}
			err := w.SetRules(c, rules)
			allValid := true
			for _, r := range rules {
				if !validRule(r) {
					allValid = false
				}
			}
			if (err == nil) != allValid {
				w.hit("C12", fmt.Sprintf("rule-set-acceptance-differs-from-syntax accepted=%v rules=%q", err == nil, rules))
			}
			if err == nil {
				stored, haveRules = rules, true
				g.stats["rules.accepted"]++
			} else {
				g.stats["rules.rejected"]++
			}
			continue
		}
		if i%12 == 6 && g.r.Chance(40) {
			// a rule set written on a branch of the state that is then discarded (a failing
			// transaction, a simulation): the stored rules — and what they authorise — stay as they were
			cctx, _ := c.GetContext().CacheContext()
			_ = c.App.TIBCKeeper.RoutingKeeper.SetRoutingRules(cctx, []string{"*,*,*"})
			_ = c.App.TIBCKeeper.RoutingKeeper.SetRoutingRules(cctx, []string{g.r.ident(3) + ",*,*"})
			g.stats["rules.set-on-discarded-branch"]++
		}
		// a triple: mostly derived from a stored rule so that matches are frequent
		s, d, p := g.r.ident(4), g.r.ident(4), g.r.ident(4)
		if len(stored) > 0 && g.r.Chance(75) {
			f := strings.Split(stored[g.r.Intn(len(stored))], ",")
			// (a stored rule is well-formed on the unchanged tree; be robust when it is not)
			var nonEmpty []string
			for _, x := range f {
				if x != "" {
					nonEmpty = append(nonEmpty, x)
				}
			}
			if len(nonEmpty) == 3 {
				f = nonEmpty
			}
			for len(f) < 3 {
				f = append(f, "*")
			}
			pickf := func(x, alt string) string {
				if x == "*" || x == "" {
					return alt
				}
				switch g.r.Intn(8) {
				case 0:
					return x + x[len(x)-1:] // doubled last char ("a+" -> "a++", "a" -> "aa")
				case 1:
					return alt
				case 2:
					if len(x) > 1 {
						return x[:len(x)-1]
					}
				case 3:
					return "x" + x
				case 4:
					// the same letters in the other case ("aB" -> "Ab"): identifiers are case-sensitive
					return strings.Map(func(r rune) rune {
						switch {
						case r >= 'a' && r <= 'z':
							return r - 32
						case r >= 'A' && r <= 'Z':
							return r + 32
						}
						return r
					}, x)
				}
				return x
			}
			s, d, p = pickf(f[0], s), pickf(f[1], d), pickf(f[2], p)
		}
		got := c.App.TIBCKeeper.RoutingKeeper.Authenticate(c.GetContext(), s, d, p)
		want := haveRules && fieldwise(stored, s, d, p)
		if got != want {
			w.hit("C12", fmt.Sprintf("authenticate=%v-but-fieldwise-match=%v rules=%q triple=%q,%q,%q", got, want, stored, s, d, p))
		}
		res := "res=unauthorized"
		if got {
			res = "res=ok"
			g.stats["auth.true"]++
		} else {
			g.stats["auth.false"]++
		}
		w.emit(fmt.Sprintf("auth %s %s %s %s", c.ChainName, hxs(s), hxs(d), hxs(p)), res)
	}
}
