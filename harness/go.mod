module verifharness

go 1.21

require (
	cosmossdk.io/errors v1.0.1
	cosmossdk.io/log v1.4.1
	cosmossdk.io/store v1.1.1
	github.com/bianjieai/tibc-go v0.0.0
	github.com/cometbft/cometbft v0.38.12
	github.com/cosmos/cosmos-db v1.0.2
	github.com/cosmos/cosmos-sdk v0.50.10
	github.com/cosmos/ics23/go v0.11.0
	github.com/ethereum/go-ethereum v1.10.17
	golang.org/x/crypto v0.26.0
	mods.irisnet.org/modules/mt v0.0.0-20241202072418-ae2ffd0c842e
	mods.irisnet.org/modules/nft v0.0.0-20241202072418-ae2ffd0c842e
)

require (
	cloud.google.com/go v0.112.1 // indirect
	cloud.google.com/go/compute/metadata v0.3.0 // indirect
	cloud.google.com/go/iam v1.1.6 // indirect
	cloud.google.com/go/storage v1.38.0 // indirect
	cosmossdk.io/api v0.7.5 // indirect
	cosmossdk.io/collections v0.4.0 // indirect
	cosmossdk.io/core v0.11.1 // indirect
	cosmossdk.io/depinject v1.0.0 // indirect
	cosmossdk.io/math v1.3.0 // indirect
	cosmossdk.io/x/evidence v0.1.1 // indirect
	cosmossdk.io/x/feegrant v0.1.1 // indirect
	cosmossdk.io/x/nft v0.1.1 // indirect
	cosmossdk.io/x/tx v0.13.5 // indirect
	cosmossdk.io/x/upgrade v0.1.4 // indirect
	filippo.io/edwards25519 v1.0.0 // indirect
	github.com/99designs/keyring v1.2.1 // indirect
	github.com/DataDog/datadog-go v3.2.0+incompatible // indirect
	github.com/VictoriaMetrics/fastcache v1.6.0 // indirect
	github.com/aws/aws-sdk-go v1.44.224 // indirect
	github.com/beorn7/perks v1.0.1 // indirect
	github.com/bgentry/go-netrc v0.0.0-20140422174119-9fd32a8b3d3d // indirect
	github.com/bgentry/speakeasy v0.1.1-0.20220910012023-760eaf8b6816 // indirect
	github.com/bits-and-blooms/bitset v1.8.0 // indirect
	github.com/btcsuite/btcd/btcec/v2 v2.3.4 // indirect
	github.com/cenkalti/backoff/v4 v4.1.3 // indirect
	github.com/cespare/xxhash/v2 v2.3.0 // indirect
	github.com/chzyer/readline v1.5.1 // indirect
	github.com/cockroachdb/errors v1.11.3 // indirect
	github.com/cockroachdb/logtags v0.0.0-20230118201751-21c54148d20b // indirect
	github.com/cockroachdb/redact v1.1.5 // indirect
	github.com/cometbft/cometbft-db v0.11.0 // indirect
	github.com/cosmos/btcutil v1.0.5 // indirect
	github.com/cosmos/cosmos-proto v1.0.0-beta.5 // indirect
	github.com/cosmos/go-bip39 v1.0.0 // indirect
	github.com/cosmos/gogogateway v1.2.0 // indirect
	github.com/cosmos/gogoproto v1.7.0 // indirect
	github.com/cosmos/iavl v1.2.0 // indirect
	github.com/davecgh/go-spew v1.1.2-0.20180830191138-d8f796af33cc // indirect
	github.com/deckarep/golang-set v1.8.0 // indirect
	github.com/decred/dcrd/dcrec/secp256k1/v4 v4.2.0 // indirect
	github.com/desertbit/timer v0.0.0-20180107155436-c41aec40b27f // indirect
	github.com/dvsekhvalnov/jose2go v1.6.0 // indirect
	github.com/edsrzf/mmap-go v1.0.0 // indirect
	github.com/emicklei/dot v1.6.1 // indirect
	github.com/fatih/color v1.15.0 // indirect
	github.com/felixge/httpsnoop v1.0.4 // indirect
	github.com/fsnotify/fsnotify v1.7.0 // indirect
	github.com/getsentry/sentry-go v0.27.0 // indirect
	github.com/go-kit/kit v0.12.0 // indirect
	github.com/go-kit/log v0.2.1 // indirect
	github.com/go-logfmt/logfmt v0.6.0 // indirect
	github.com/go-logr/logr v1.4.1 // indirect
	github.com/go-logr/stdr v1.2.2 // indirect
	github.com/go-stack/stack v1.8.0 // indirect
	github.com/godbus/dbus v0.0.0-20190726142602-4481cbc300e2 // indirect
	github.com/gogo/googleapis v1.4.1 // indirect
	github.com/gogo/protobuf v1.3.2 // indirect
	github.com/golang/groupcache v0.0.0-20210331224755-41bb18bfe9da // indirect
	github.com/golang/mock v1.6.0 // indirect
	github.com/golang/protobuf v1.5.4 // indirect
	github.com/golang/snappy v0.0.4 // indirect
	github.com/google/btree v1.1.2 // indirect
	github.com/google/go-cmp v0.6.0 // indirect
	github.com/google/orderedcode v0.0.1 // indirect
	github.com/google/s2a-go v0.1.7 // indirect
	github.com/google/uuid v1.6.0 // indirect
	github.com/googleapis/enterprise-certificate-proxy v0.3.2 // indirect
	github.com/googleapis/gax-go/v2 v2.12.3 // indirect
	github.com/gorilla/handlers v1.5.1 // indirect
	github.com/gorilla/mux v1.8.0 // indirect
	github.com/gorilla/websocket v1.5.3 // indirect
	github.com/grpc-ecosystem/go-grpc-middleware v1.4.0 // indirect
	github.com/grpc-ecosystem/grpc-gateway v1.16.0 // indirect
	github.com/gsterjov/go-libsecret v0.0.0-20161001094733-a6f4afe4910c // indirect
	github.com/hashicorp/go-cleanhttp v0.5.2 // indirect
	github.com/hashicorp/go-getter v1.7.4 // indirect
	github.com/hashicorp/go-hclog v1.5.0 // indirect
	github.com/hashicorp/go-immutable-radix v1.3.1 // indirect
	github.com/hashicorp/go-metrics v0.5.3 // indirect
	github.com/hashicorp/go-plugin v1.5.2 // indirect
	github.com/hashicorp/go-safetemp v1.0.0 // indirect
	github.com/hashicorp/go-version v1.6.0 // indirect
	github.com/hashicorp/golang-lru v1.0.2 // indirect
	github.com/hashicorp/golang-lru/v2 v2.0.7 // indirect
	github.com/hashicorp/hcl v1.0.0 // indirect
	github.com/hashicorp/yamux v0.1.1 // indirect
	github.com/hdevalence/ed25519consensus v0.1.0 // indirect
	github.com/holiman/bloomfilter/v2 v2.0.3 // indirect
	github.com/holiman/uint256 v1.2.0 // indirect
	github.com/huandu/skiplist v1.2.0 // indirect
	github.com/iancoleman/strcase v0.3.0 // indirect
	github.com/improbable-eng/grpc-web v0.15.0 // indirect
	github.com/jmespath/go-jmespath v0.4.0 // indirect
	github.com/klauspost/compress v1.17.9 // indirect
	github.com/kr/pretty v0.3.1 // indirect
	github.com/kr/text v0.2.0 // indirect
	github.com/lib/pq v1.10.7 // indirect
	github.com/magiconair/properties v1.8.7 // indirect
	github.com/manifoldco/promptui v0.9.0 // indirect
	github.com/mattn/go-colorable v0.1.13 // indirect
	github.com/mattn/go-isatty v0.0.20 // indirect
	github.com/mattn/go-runewidth v0.0.9 // indirect
	github.com/minio/highwayhash v1.0.2 // indirect
	github.com/mitchellh/go-homedir v1.1.0 // indirect
	github.com/mitchellh/go-testing-interface v1.14.1 // indirect
	github.com/mitchellh/mapstructure v1.5.0 // indirect
	github.com/mtibben/percent v0.2.1 // indirect
	github.com/munnerz/goautoneg v0.0.0-20191010083416-a7dc8b61c822 // indirect
	github.com/oasisprotocol/curve25519-voi v0.0.0-20230904125328-1f23a7beb09a // indirect
	github.com/oklog/run v1.1.0 // indirect
	github.com/olekukonko/tablewriter v0.0.5 // indirect
	github.com/pelletier/go-toml/v2 v2.2.2 // indirect
	github.com/pkg/errors v0.9.1 // indirect
	github.com/pmezard/go-difflib v1.0.1-0.20181226105442-5d4384ee4fb2 // indirect
	github.com/prometheus/client_golang v1.20.1 // indirect
	github.com/prometheus/client_model v0.6.1 // indirect
	github.com/prometheus/common v0.55.0 // indirect
	github.com/prometheus/procfs v0.15.1 // indirect
	github.com/prometheus/tsdb v0.7.1 // indirect
	github.com/rcrowley/go-metrics v0.0.0-20201227073835-cf1acfcdf475 // indirect
	github.com/rogpeppe/go-internal v1.12.0 // indirect
	github.com/rs/cors v1.11.1 // indirect
	github.com/rs/zerolog v1.33.0 // indirect
	github.com/sagikazarmark/slog-shim v0.1.0 // indirect
	github.com/shirou/gopsutil v3.21.4-0.20210419000835-c7a38de76ee5+incompatible // indirect
	github.com/spf13/afero v1.11.0 // indirect
	github.com/spf13/cast v1.6.0 // indirect
	github.com/spf13/cobra v1.8.1 // indirect
	github.com/spf13/pflag v1.0.5 // indirect
	github.com/spf13/viper v1.19.0 // indirect
	github.com/stretchr/testify v1.9.0 // indirect
	github.com/subosito/gotenv v1.6.0 // indirect
	github.com/syndtr/goleveldb v1.0.1-0.20220721030215-126854af5e6d // indirect
	github.com/tendermint/go-amino v0.16.0 // indirect
	github.com/tidwall/btree v1.7.0 // indirect
	github.com/tidwall/gjson v1.14.4 // indirect
	github.com/tidwall/match v1.1.1 // indirect
	github.com/tidwall/pretty v1.2.0 // indirect
	github.com/tklauser/go-sysconf v0.3.10 // indirect
	github.com/tklauser/numcpus v0.4.0 // indirect
	github.com/ulikunitz/xz v0.5.11 // indirect
	go.opencensus.io v0.24.0 // indirect
	go.opentelemetry.io/contrib/instrumentation/google.golang.org/grpc/otelgrpc v0.49.0 // indirect
	go.opentelemetry.io/contrib/instrumentation/net/http/otelhttp v0.49.0 // indirect
	go.opentelemetry.io/otel v1.24.0 // indirect
	go.opentelemetry.io/otel/metric v1.24.0 // indirect
	go.opentelemetry.io/otel/trace v1.24.0 // indirect
	golang.org/x/exp v0.0.0-20240404231335-c0f41cb1a7a0 // indirect
	golang.org/x/net v0.28.0 // indirect
	golang.org/x/oauth2 v0.21.0 // indirect
	golang.org/x/sync v0.8.0 // indirect
	golang.org/x/sys v0.24.0 // indirect
	golang.org/x/term v0.23.0 // indirect
	golang.org/x/text v0.17.0 // indirect
	golang.org/x/time v0.5.0 // indirect
	google.golang.org/api v0.171.0 // indirect
	google.golang.org/genproto v0.0.0-20240227224415-6ceb2ff114de // indirect
	google.golang.org/genproto/googleapis/api v0.0.0-20240318140521-94a12d6c2237 // indirect
	google.golang.org/genproto/googleapis/rpc v0.0.0-20240709173604-40e1e62336c5 // indirect
	google.golang.org/grpc v1.64.1 // indirect
	google.golang.org/protobuf v1.34.2 // indirect
	gopkg.in/ini.v1 v1.67.0 // indirect
	gopkg.in/yaml.v3 v3.0.1 // indirect
	gotest.tools/v3 v3.5.1 // indirect
	mods.irisnet.org/api v0.0.0-20241118093307-345265846e1d // indirect
	nhooyr.io/websocket v1.8.6 // indirect
	pgregory.net/rapid v1.1.0 // indirect
	sigs.k8s.io/yaml v1.4.0 // indirect
)

replace github.com/bianjieai/tibc-go => /repo
