import Tibc.World
import Tibc.LC.Tendermint
import Tibc.LC.Status
import Tibc.Commitment.Verify
import Tibc.LC.Bsc
import Tibc.LC.Eth
import Tibc.Host.Keys
/-
  Line-protocol driver: reads one operation per line on stdin, runs the model, prints one
  canonical outcome line per operation. Core Lean only.
-/
open Tibc

namespace Drv

def hexVal (c : Char) : Option Nat :=
  if '0' ≤ c && c ≤ '9' then some (c.toNat - '0'.toNat)
  else if 'a' ≤ c && c ≤ 'f' then some (c.toNat - 'a'.toNat + 10)
  else if 'A' ≤ c && c ≤ 'F' then some (c.toNat - 'A'.toNat + 10)
  else none

/-- hex → bytes-as-chars (each byte one `Char` < 256); "-" = empty -/
partial def unhexL : List Char → Option (List Char)
  | [] => some []
  | a :: b :: rest => do
    let x ← hexVal a; let y ← hexVal b
    let r ← unhexL rest
    pure (Char.ofNat (x * 16 + y) :: r)
  | _ => none

def unhex (s : String) : Option Str := if s == "-" then some [] else unhexL s.toList

def hexDigit (n : Nat) : Char := if n < 10 then Char.ofNat (48 + n) else Char.ofNat (87 + n)
def hexOf (s : Str) : String :=
  if s.isEmpty then "-" else String.ofList (s.flatMap (fun c => [hexDigit (c.toNat / 16 % 16), hexDigit (c.toNat % 16)]))

def dash (s : String) : String := if s == "-" then "" else s
def undash (s : String) : String := if s == "" then "-" else s

def unhexS (s : String) : Option String := (unhex s).map String.ofList

/-- the driver's hash: an injective tag -/
def dataTok : Data → String
  | .raw s => "raw|" ++ undash s
  | .nft d => s!"nft|{hexOf d.cls}|{hexOf d.id}|{hexOf d.uri.toList}|{undash d.sender}|{undash d.receiver}|{if d.away then 1 else 0}|{hexOf d.destContract.toList}"
  | .mt d => s!"mt|{hexOf d.cls}|{hexOf d.id}|{hexOf d.data.toList}|{undash d.sender}|{undash d.receiver}|{if d.away then 1 else 0}|{hexOf d.destContract.toList}|{d.amount}"
  | .ackOk r => "ackok|" ++ undash r
  | .ackErr t => "ackerr|" ++ undash t

def H (d : Data) : Digest := "H(" ++ dataTok d ++ ")"
def Hc (p : Str) : Str := p

def parseData (tok : String) : Option Data :=
  match tok.splitOn "|" with
  | ["raw", s] => some (.raw (dash s))
  | ["nft", c, i, u, sd, rc, aw, dc] => do
    let c ← unhex c; let i ← unhex i; let u ← unhexS u; let dc ← unhexS dc
    pure (.nft { cls := c, id := i, uri := u, sender := dash sd, receiver := dash rc, away := aw == "1", destContract := dc })
  | ["mt", c, i, dd, sd, rc, aw, dc, amt] => do
    let c ← unhex c; let i ← unhex i; let dd ← unhexS dd; let dc ← unhexS dc; let a ← amt.toNat?
    pure (.mt { cls := c, id := i, data := dd, sender := dash sd, receiver := dash rc, away := aw == "1", destContract := dc, amount := a })
  | ["ackok", r] => some (.ackOk (dash r))
  | ["ackerr", t] => some (.ackErr (dash t))
  | _ => none

def parseProof (tok : String) : Option Proof :=
  match tok.splitOn "|" with
  | ["empty"] => some .empty
  | ["garbage"] => some .garbage
  | ["honest", q, h, "commit", s, d, n] => do
    let h ← h.toNat?; let n ← n.toNat?; pure (.honest (dash q) h (.commit ⟨dash s, dash d, n⟩))
  | ["honest", q, h, "ack", s, d, n] => do
    let h ← h.toNat?; let n ← n.toNat?; pure (.honest (dash q) h (.ack ⟨dash s, dash d, n⟩))
  | ["honest", q, h, "clean", s, d] => do
    let h ← h.toNat?; pure (.honest (dash q) h (.clean ⟨dash s, dash d⟩))
  | ["honest", q, h, "other", l] => do
    let h ← h.toNat?; pure (.honest (dash q) h (.other l))
  | _ => none

def parsePacket (seq src dst relay port data : String) : Option Packet := do
  let n ← seq.toNat?; let d ← parseData data
  pure { seq := n, src := dash src, dst := dash dst, relay := dash relay, port := dash port, data := d }

/-- the universe of store keys mentioned so far (function stores cannot be enumerated) -/
structure Univ where
  keys    : List PKey := []
  pairs   : List Pair := []
  classes : List Str := []
  ids     : List Str := []
  addrs   : List Addr := ["mod:NFT", "mod:MT"]
  mclasses : List Str := []
  mids    : List Str := []
  names   : List Chain := []

def addU {α} [DecidableEq α] (l : List α) (x : α) : List α := if l.contains x then l else x :: l

def Univ.addKey (u : Univ) (k : PKey) : Univ :=
  { u with keys := addU u.keys k, pairs := addU u.pairs k.pair }

def Univ.addNftData (u : Univ) (p : Packet) (d : NftData) : Univ :=
  let cs := [d.cls, ibcClass Hc d.cls,
             ibcClass Hc (ClassPath.getAway nftPfx p.src.toList p.dst.toList d.cls)] ++
            (match ClassPath.getBack d.cls with | some b => [ibcClass Hc b] | none => [])
  { u with classes := cs.foldl addU u.classes, ids := addU u.ids d.id,
           addrs := addU (addU u.addrs d.sender) d.receiver }

def Univ.addMtData (u : Univ) (p : Packet) (d : MtData) : Univ :=
  let cs := [d.cls, ibcClass Hc d.cls,
             ibcClass Hc (ClassPath.getAway mtPfx p.src.toList p.dst.toList d.cls)] ++
            (match ClassPath.getBack d.cls with | some b => [ibcClass Hc b] | none => [])
  { u with mclasses := cs.foldl addU u.mclasses, mids := addU u.mids d.id,
           addrs := addU (addU u.addrs d.sender) d.receiver }

def Univ.addPacket (u : Univ) (p : Packet) : Univ :=
  let u := u.addKey p.key
  -- the payload may be handed to either transfer application (`decodeNft` / `decodeMt`)
  let u := match decodeNft p.data with | some d => u.addNftData p d | none => u
  match decodeMt p.data with | some d => u.addMtData p d | none => u

def keyStr (k : PKey) : String := s!"{undash k.src}/{undash k.dst}/{k.seq}"
def pairStr (p : Pair) : String := s!"{undash p.src}/{undash p.dst}"

def evStr (e : Event) : String :=
  s!"ev:{e.kind}:{keyStr e.key}:{undash e.port}:{undash e.relay}:{dataTok e.data}:{dataTok e.ack}"

def sortStrs (l : List String) : List String := (l.toArray.qsort (· < ·)).toList

/-- canonical dump of one chain over the known universe -/
def dump (u : Univ) (s : State) : String :=
  let ps := s.core.ps
  let a := u.pairs.filterMap (fun p => if ps.nextSend p != 1 then some s!"ns:{pairStr p}={ps.nextSend p}" else none)
  let b := u.keys.filterMap (fun k => (ps.commit k).map (fun d => s!"cm:{keyStr k}={d}"))
  let c := u.keys.filterMap (fun k => if ps.receipt k then some s!"rc:{keyStr k}" else none)
  let d := u.keys.filterMap (fun k => (ps.ack k).map (fun d => s!"ak:{keyStr k}={d}"))
  let e := u.pairs.filterMap (fun p => if ps.clean p != 0 then some s!"cl:{pairStr p}={ps.clean p}" else none)
  let f := u.pairs.filterMap (fun p => if ps.maxAck p != 0 then some s!"mx:{pairStr p}={ps.maxAck p}" else none)
  let g := u.classes.filterMap (fun c => (s.apps.nft.denom c).map (fun d => s!"nd:{hexOf c}={d.creator}"))
  let h := u.classes.flatMap (fun c => u.ids.filterMap (fun i =>
              (s.apps.nft.owner (c, i)).map (fun o => s!"no:{hexOf c}/{hexOf i}={o}")))
  let i := u.mclasses.filterMap (fun c => (s.apps.mt.denom c).map (fun o => s!"md:{hexOf c}={o}"))
  let j := u.mclasses.flatMap (fun c => u.mids.flatMap (fun i =>
              (if s.apps.mt.supply (c, i) != 0 then [s!"ms:{hexOf c}/{hexOf i}={s.apps.mt.supply (c, i)}"] else []) ++
              u.addrs.filterMap (fun a => if s.apps.mt.bal (c, i, a) != 0 then some s!"mb:{hexOf c}/{hexOf i}/{a}={s.apps.mt.bal (c, i, a)}" else none)))
  " ".intercalate (sortStrs (a ++ b ++ c ++ d ++ e ++ f ++ g ++ h ++ i ++ j))

/-- registry dump: client types / latest heights, relayers, routing rules -/
def dumpReg (u : Univ) (s : State) : String :=
  let a := u.names.filterMap (fun q => (s.core.clients q).map (fun cl => s!"ct:{undash q}={cl.ctype}@{cl.latest}"))
  let b := u.names.filterMap (fun q => if (s.core.relayers q).isEmpty then none
              else some s!"rl:{undash q}={",".intercalate (s.core.relayers q)}")
  let c := match s.core.rules with
    | none => []
    | some rs => if rs.isEmpty then [] else ["rr:" ++ ",".intercalate (rs.map hexOf)]
  " ".intercalate (sortStrs (a ++ b ++ c))

structure St where
  w : World := World.init
  u : Univ := {}
  tm : String → Option TM.Client := fun _ => none
  bsc : String → Option (BSC.Client × List Nat) := fun _ => none
  eth : String → Option (ETH.Client × List ETH.Key × List ETH.Key) := fun _ => none

namespace BSCD
open BSC

def parseNats (tok : String) : Option (List Nat) :=
  if tok == "-" then some [] else (tok.splitOn ",").mapM (fun x => x.toNat?)

def parseHdr (tok : String) : Option Hdr :=
  match tok.splitOn ";" with
  | [number, parent, hash, coinbase, signer, diff, gasLimit, gasUsed, time, root, vals, rem, vanity, sealB, mix, uncle] => do
    let number ← number.toNat?
    let coinbase ← coinbase.toNat?
    let signer : Option Nat ← (if signer == "-" then some none else signer.toNat?.map some)
    let diff ← diff.toNat?
    let gasLimit ← gasLimit.toNat?
    let gasUsed ← gasUsed.toNat?
    let time ← time.toNat?
    let vals ← parseNats vals
    let rem ← rem.toNat?
    pure { number := number, parent := parent, hash := hash, coinbase := coinbase, signer := signer, difficulty := diff,
           gasLimit := gasLimit, gasUsed := gasUsed, time := time, root := root, extraVals := vals, extraRem := rem,
           vanityOk := vanity == "1", sealOk := sealB == "1", mixZero := mix == "1", uncleOk := uncle == "1" }
  | _ => none

def parseRecs (tok : String) : Option (List (Nat × Nat)) :=
  if tok == "-" then some [] else
  (tok.splitOn ",").mapM (fun x => match x.splitOn ":" with
    | [n, a] => do let n ← n.toNat?; let a ← a.toNat?; pure (n, a)
    | _ => none)

def natsStr (xs : List Nat) : String := if xs.isEmpty then "-" else ",".intercalate (xs.map toString)

def insertRec (e : Nat × Nat) : List (Nat × Nat) → List (Nat × Nat)
  | [] => [e]
  | x :: rest => if e.1 ≤ x.1 then e :: x :: rest else x :: insertRec e rest

def dump (c : BSC.Client) (heights : List Nat) : String :=
  let rs := (c.recents.foldr insertRec []).map (fun e => s!"{e.1}:{e.2}")
  let cs := heights.filterMap (fun h => (c.cons h).map (fun k => s!"{h}:{k.time}:{k.number}:{k.root}"))
  let dash := fun (l : List String) => if l.isEmpty then "-" else ",".intercalate l
  s!"latest={c.latest.number}:{c.latest.hash} vals={natsStr c.validators} recents={dash rs} pending={natsStr c.pending} cons={dash cs}"

end BSCD

namespace ETHD
open ETH

def parseHdr (tok : String) : Option Hdr :=
  match tok.splitOn ";" with
  | [number, hash, parent, time, root, gasLimit, gasUsed, baseFee, diff, uncles, extraLen, wf, sealB] => do
    let number ← number.toNat?
    let time ← time.toNat?
    let gasLimit ← gasLimit.toNat?
    let gasUsed ← gasUsed.toNat?
    let baseFee ← baseFee.toNat?
    let diff ← diff.toNat?
    let extraLen ← extraLen.toNat?
    pure { number := number, hash := hash, parent := parent, time := time, root := root, gasLimit := gasLimit, gasUsed := gasUsed,
           baseFee := baseFee, difficulty := diff, uncles := uncles == "1", extraLen := extraLen, wellFormed := wf == "1",
           sealOk := sealB == "1" }
  | _ => none

def insKey (e : Nat × String) : List (Nat × String) → List (Nat × String)
  | [] => [e]
  | x :: rest => if e.1 < x.1 || (e.1 == x.1 && e.2 ≤ x.2) then e :: x :: rest else x :: insKey e rest

def dash (l : List String) : String := if l.isEmpty then "-" else ",".intercalate l

/-- `ks`: all header-index keys ever written, `rs`: all root-index keys ever written -/
def dump (c : ETH.Client) (base maxH : Nat) (ks rs : List Key) : String :=
  let hs := (List.range (maxH + 1 - base)).map (· + base)
  let cs := hs.filterMap (fun h => (c.cons h).map (fun k => s!"{h}:{k.time}:{k.number}:{k.root}"))
  let idx := (ks.filterMap (fun k => (c.idx k).map (fun _ => (k.2, s!"{k.2}:{k.1}")))).foldr insKey []
  let rm := (rs.filterMap (fun k => (c.rootMain k).map (fun v => (k.2, s!"{k.2}:{k.1}>{v.2}:{v.1}")))).foldr insKey []
  s!"latest={c.latest.number}:{c.latest.hash} cons={dash cs} idx={dash (idx.map (·.2))} rm={dash (rm.map (·.2))}"

def addKey (k : Key) (ks : List Key) : List Key := if ks.contains k then ks else ks ++ [k]

end ETHD

namespace TMD
open TM

def Hv (vs : List Val) : Digest := ",".intercalate (vs.map (fun v => s!"{v.addr}:{v.power}"))

def parseVals (tok : String) : Option (List Val) :=
  if tok == "-" then some [] else
  (tok.splitOn ",").mapM (fun x => match x.splitOn ":" with
    | [a, p] => p.toNat?.map (fun n => (⟨a, n⟩ : Val))
    | _ => none)

def parseCommit (tok : String) : Option (List CSig) :=
  if tok == "-" then some [] else
  (tok.splitOn ",").mapM (fun x => match x.splitOn ":" with
    | [f, a, ok] =>
      let flag := if f == "c" then Flag.commit else if f == "n" then Flag.nil else Flag.absent
      some (⟨flag, a, ok == "1"⟩ : CSig)
    | _ => none)

def parseHeight (tok : String) : Option Height :=
  match tok.splitOn "." with
  | [r, h] => do let r ← r.toNat?; let h ← h.toNat?; pure ⟨r, h⟩
  | _ => none

def hStr (h : Height) : String := s!"{h.rev}.{h.h}"

def dump (cl : TM.Client) : String :=
  let cs := cl.heights.filterMap (fun h => (cl.cons h).map (fun c =>
    s!"{hStr h}:{c.time}:{c.root}:{c.nextVals}:{(cl.processed h).getD 0}"))
  s!"latest={hStr cl.latest} cons=[{";".intercalate cs}]"

end TMD

def newEvents (before after : State) : String :=
  let n := before.core.evlog.length
  " ".intercalate ((after.core.evlog.drop n).map evStr)

def runOp (st : St) (c : Chain) (u : Univ) (op : Op) : St × String :=
  let before := st.w c
  let (w', r) := step H Hc st.w op
  let after := w' c
  ({ w := w', u := u }, s!"res={r.toString} | {newEvents before after} | {dump u after}")

def stepLine (st : St) (line : String) : St × String :=
  let toks := (line.trimAscii.toString.splitOn " ").filter (· != "")
  let bad : St × String := (st, "bad-op")
  match toks with
  | ["reset"] => ({}, "reset")
  | ["tx", c, "recv", seq, src, dst, relay, port, data, proof, h, et] =>
    match parsePacket seq src dst relay port data, parseProof proof, h.toNat? with
    | some p, some π, some h =>
      runOp st c (st.u.addPacket p) (.tx c (.recvPacket p π h (dash et)))
    | _, _, _ => bad
  | ["tx", c, "ack", seq, src, dst, relay, port, data, ack, proof, h] =>
    match parsePacket seq src dst relay port data, parseData ack, parseProof proof, h.toNat? with
    | some p, some a, some π, some h =>
      runOp st c (st.u.addPacket p) (.tx c (.acknowledgement p a π h))
    | _, _, _, _ => bad
  | ["tx", c, "clean", seq, src, dst, relay] =>
    match seq.toNat? with
    | some n =>
      -- the keeper overrides the source with its own chain name
      let u := st.u.addKey ⟨c, dash dst, n⟩
      runOp st c u (.tx c (.cleanPacket ⟨n, dash src, dash dst, dash relay⟩))
    | none => bad
  | ["tx", c, "recvclean", seq, src, dst, relay, proof, h] =>
    match seq.toNat?, parseProof proof, h.toNat? with
    | some n, some π, some h =>
      runOp st c (st.u.addKey ⟨dash src, dash dst, n⟩) (.tx c (.recvCleanPacket ⟨n, dash src, dash dst, dash relay⟩ π h))
    | _, _, _ => bad
  | ["tx", c, "nfttransfer", cls, id, sender, receiver, dst, relay, dc] =>
    match unhex cls, unhex id, unhexS dc with
    | some cls, some id, some dc =>
      let u := { st.u with classes := addU st.u.classes cls, ids := addU st.u.ids id,
                           addrs := addU (addU st.u.addrs (dash sender)) (dash receiver) }
      let u := u.addKey ⟨c, dash dst, (st.w c).core.ps.nextSend ⟨c, dash dst⟩⟩
      runOp st c u (.tx c (.nftTransfer cls id (dash sender) (dash receiver) (dash dst) (dash relay) dc))
    | _, _, _ => bad
  | ["tx", c, "mttransfer", cls, id, sender, receiver, dst, relay, dc, amt, md] =>
    match unhex cls, unhex id, unhexS dc, amt.toNat?, unhexS md with
    | some cls, some id, some dc, some amt, some md =>
      let u := { st.u with mclasses := addU st.u.mclasses cls, mids := addU st.u.mids id,
                           addrs := addU (addU st.u.addrs (dash sender)) (dash receiver) }
      let u := u.addKey ⟨c, dash dst, (st.w c).core.ps.nextSend ⟨c, dash dst⟩⟩
      runOp st c u (.tx c (.mtTransfer cls id (dash sender) (dash receiver) (dash dst) (dash relay) dc amt md))
    | _, _, _, _, _ => bad
  | ["ksend", c, seq, src, dst, relay, port, data] =>
    match parsePacket seq src dst relay port data with
    | some p => runOp st c (st.u.addPacket p) (.ksend c p)
    | none => bad
  | ["kwack", c, seq, src, dst, relay, port, data, ack] =>
    -- a module calling `WriteAcknowledgement` directly (asynchronous acknowledgement)
    match parsePacket seq src dst relay port data, parseData ack with
    | some p, some a =>
      let before := st.w c
      let r := before.core.writeAck H p a
      let after : State := { before with core := r.1 }
      let w' : World := fun x => if x = c then after else st.w x
      let u := st.u.addPacket p
      ({ w := w', u := u }, s!"res={r.2.toString} | {newEvents before after} | {dump u after}")
    | _, _ => bad
  | ["client", c, q, h, t, period] =>
    match h.toNat?, t.toNat?, period.toNat? with
    | some h, some t, some pd => runOp st c { st.u with names := addU st.u.names q } (.createClient c q h t pd)
    | _, _, _ => bad
  | ["update", c, q, h, t] =>
    match h.toNat?, t.toNat? with
    | some h, some t => runOp st c st.u (.update c q h t)
    | _, _ => bad
  | "rules" :: c :: rules =>
    match rules.mapM unhex with
    | some rs => runOp st c st.u (.setRules c rs)
    | none => bad
  | ["time", c, now] =>
    match now.toNat? with
    | some n => runOp st c st.u (.setTime c n)
    | none => bad
  | ["nftissue", c, a, cls, mr] =>
    match unhex cls with
    | some cls => runOp st c { st.u with classes := addU st.u.classes cls, addrs := addU st.u.addrs a } (.nftIssue c a cls (mr == "1"))
    | none => bad
  | ["nftmint", c, a, cls, id, uri, rc] =>
    match unhex cls, unhex id, unhexS uri with
    | some cls, some id, some uri =>
      runOp st c { st.u with classes := addU st.u.classes cls, ids := addU st.u.ids id,
                             addrs := addU (addU st.u.addrs a) rc } (.nftMint c a cls id uri rc)
    | _, _, _ => bad
  | ["nftsend", c, a, cls, id, rc] =>
    match unhex cls, unhex id with
    | some cls, some id =>
      runOp st c { st.u with classes := addU st.u.classes cls, ids := addU st.u.ids id,
                             addrs := addU (addU st.u.addrs a) rc } (.nftSend c a cls id rc)
    | _, _ => bad
  | ["nftburn", c, a, cls, id] =>
    match unhex cls, unhex id with
    | some cls, some id =>
      runOp st c { st.u with classes := addU st.u.classes cls, ids := addU st.u.ids id } (.nftBurn c a cls id)
    | _, _ => bad
  | ["mtissue", c, a, cls] =>
    match unhex cls with
    | some cls => runOp st c { st.u with mclasses := addU st.u.mclasses cls, addrs := addU st.u.addrs a } (.mtIssue c a cls)
    | none => bad
  | ["mtmint", c, a, cls, id, fresh, amt, rc] =>
    match unhex cls, unhex id, amt.toNat? with
    | some cls, some id, some amt =>
      runOp st c { st.u with mclasses := addU st.u.mclasses cls, mids := addU st.u.mids id,
                             addrs := addU (addU st.u.addrs a) rc } (.mtMint c a cls id (fresh == "1") amt rc)
    | _, _, _ => bad
  | ["mtsend", c, a, cls, id, amt, rc] =>
    match unhex cls, unhex id, amt.toNat? with
    | some cls, some id, some amt =>
      runOp st c { st.u with mclasses := addU st.u.mclasses cls, mids := addU st.u.mids id,
                             addrs := addU (addU st.u.addrs a) rc } (.mtSend c a cls id amt rc)
    | _, _, _ => bad
  | ["mtburn", c, a, cls, id, amt] =>
    match unhex cls, unhex id, amt.toNat? with
    | some cls, some id, some amt =>
      runOp st c { st.u with mclasses := addU st.u.mclasses cls, mids := addU st.u.mids id } (.mtBurn c a cls id amt)
    | _, _, _ => bad
  | ["m.create", c, auth, q, ct, h, t, pd, v, cs] =>
    match h.toNat?, t.toNat?, pd.toNat? with
    | some h, some t, some pd =>
      let u := { st.u with names := addU st.u.names (dash q) }
      let (w', r) := step H Hc st.w (.createClientMsg c (dash auth) (dash q) ct h t pd (v == "1") (cs == "1"))
      ({ w := w', u := u }, s!"res={r.toString} |  | {dumpReg u (w' c)}")
    | _, _, _ => bad
  | ["m.upgrade", c, auth, q, ct, h, t, pd, v, cs] =>
    match h.toNat?, t.toNat?, pd.toNat? with
    | some h, some t, some pd =>
      let u := { st.u with names := addU st.u.names (dash q) }
      let (w', r) := step H Hc st.w (.upgradeClientMsg c (dash auth) (dash q) ct h t pd (v == "1") (cs == "1"))
      ({ w := w', u := u }, s!"res={r.toString} |  | {dumpReg u (w' c)}")
    | _, _, _ => bad
  | "m.relayers" :: c :: auth :: q :: rs =>
    let u := { st.u with names := addU st.u.names (dash q) }
    let (w', r) := step H Hc st.w (.registerRelayerMsg c (dash auth) (dash q) (rs.map dash))
    ({ w := w', u := u }, s!"res={r.toString} |  | {dumpReg u (w' c)}")
  | "m.rules" :: c :: auth :: rules =>
    match rules.mapM unhex with
    | some rs =>
      let (w', r) := step H Hc st.w (.setRulesMsg c (dash auth) rs)
      ({ w := w', u := st.u }, s!"res={r.toString} |  | {dumpReg st.u (w' c)}")
    | none => bad
  | ["m.update", c, sg, q, h, t, ok] =>
    match h.toNat?, t.toNat? with
    | some h, some t =>
      let u := { st.u with names := addU st.u.names (dash q) }
      let (w', r) := step H Hc st.w (.updateClientMsg c (dash sg) (dash q) h t (ok == "1"))
      ({ w := w', u := u }, s!"res={r.toString} |  | {dumpReg u (w' c)}")
    | _, _ => bad
  | ["relayers", c, q, r1] =>
    -- test set-up: the testing package registers the chain's first account as relayer
    let s := st.w c
    let s' : State := { s with core := { s.core with relayers := upd s.core.relayers q [r1] } }
    ({ st with w := upd st.w c s', u := { st.u with names := addU st.u.names q } }, "res=ok")
  | ["authority", c, a] =>
    let s := st.w c
    let s' : State := { s with core := { s.core with authority := a } }
    ({ st with w := upd st.w c s' }, "res=ok")
  | ["tm.create", name, num, den, period, drift, h0, t0, root, nextVals, now] =>
    match num.toNat?, den.toNat?, period.toNat?, drift.toNat?, TMD.parseHeight h0, t0.toNat?, TMD.parseVals nextVals, now.toNat? with
    | some num, some den, some pd, some dr, some h0, some t0, some nv, some now =>
      let c0 : TM.Cons := ⟨t0, root, TMD.Hv nv⟩
      let cl : TM.Client :=
        { trustNum := num
          trustDen := den
          period := pd
          drift := dr
          latest := h0
          cons := (fun h => if h = h0 then some c0 else none)
          heights := [h0]
          processed := (fun h => if h = h0 then some now else none) }
      ({ st with tm := upd st.tm name (some cl) }, s!"res=ok | {TMD.dump cl}")
    | _, _, _, _, _, _, _, _ => bad
  | ["tm.update", name, now, hh, ht, app, vh, nvh, vals, commit, th, tvals, basic] =>
    match st.tm name, now.toNat?, TMD.parseHeight hh, ht.toNat?, TMD.parseVals vals, TMD.parseCommit commit,
          TMD.parseHeight th, TMD.parseVals tvals with
    | some cl, some now, some hh, some ht, some vals, some commit, some th, some tvals =>
      let hdr : TM.Header :=
        { height := hh
          time := ht
          appHash := app
          valsHash := vh
          nextValsHash := nvh
          vals := vals
          commit := commit
          trustedHeight := th
          trustedVals := tvals
          basicOk := (basic == "1") }
      match TM.deliverUpdate TMD.Hv cl hdr now with
      | .ok cl' => ({ st with tm := upd st.tm name (some cl') }, s!"res=ok | {TMD.dump cl'}")
      | .error .notActive => (st, s!"res=clientNotActive | {TMD.dump cl}")
      | .error .invalid => (st, s!"res=invalid | {TMD.dump cl}")
    | _, _, _, _, _, _, _, _ => bad
  | ["tm.upgrade", name, num, den, period, drift, h0, t0, root, nextVals] =>
    match st.tm name, num.toNat?, den.toNat?, period.toNat?, drift.toNat?, TMD.parseHeight h0, t0.toNat?, TMD.parseVals nextVals with
    | some cl, some num, some den, some pd, some dr, some h0, some t0, some nv =>
      let cl' := TM.upgrade cl num den pd dr h0 ⟨t0, root, TMD.Hv nv⟩
      ({ st with tm := upd st.tm name (some cl') }, s!"res=ok | {TMD.dump cl'}")
    | _, _, _, _, _, _, _, _ => bad
  | ["tm.status", name, now] =>
    match st.tm name, now.toNat? with
    | some cl, some now =>
      let r := match TM.status cl now with | .active => "Active" | .expired => "Expired" | .unknown => "Unknown"
      (st, s!"res={r}")
    | _, _ => bad
  | ["hostkey", fam, src, dst, seq] =>
    match unhex src, unhex dst, seq.toNat? with
    | some src, some dst, some n =>
      let path : Option Str :=
        if fam == "commit" then some (Host.packetCommitmentPath src dst n)
        else if fam == "ack" then some (Host.packetAcknowledgementPath src dst n)
        else if fam == "receipt" then some (Host.packetReceiptPath src dst n)
        else if fam == "clean" then some (Host.cleanPacketCommitmentPath src dst)
        else if fam == "maxack" then some (Host.maxAckSeqPath src dst)
        else if fam == "nextsend" then some (Host.nextSequenceSendPath src dst)
        else none
      match path with
      | some p => (st, s!"res={hexOf p}")
      | none => bad
    | _, _, _ => bad
  | ["hostparse", kind, path] =>
    match unhex path with
    | some p =>
      if kind == "pair" then
        match Host.parseChannelPath p with
        | some (a, b) => (st, s!"res=ok {hexOf a} {hexOf b}")
        | none => (st, "res=error")
      else
        match Host.parseSeqPath p with
        | some (a, b, n) => (st, s!"res=ok {hexOf a} {hexOf b} {n}")
        | none => (st, "res=panic")
    | none => bad
  | ["status", kind, ts, period, now] =>
    match period.toNat?, now.toNat? with
    | some pd, some now =>
      let t : Option Nat := if ts == "-" then none else ts.toNat?
      let r := if kind == "tm" then LCStatus.tm t pd now else LCStatus.eth t pd now
      (st, "res=" ++ (match r with | .active => "Active" | .expired => "Expired" | .unknown => "Unknown"))
    | _, _ => bad
  | ["eth.create", name, period, hdr] =>
    match period.toNat?, ETHD.parseHdr hdr with
    | some period, some h =>
      let c : ETH.Client := { latest := h, period := period, heights := [h.number],
                              idx := fun k => if k == (h.hash, h.number) then some h else none,
                              rootMain := fun k => if k == (h.root, h.number) then some (h.hash, h.number) else none,
                              cons := fun n => if n == h.number then some (ETH.consOf h) else none }
      let ks := [(h.hash, h.number)]
      let rs := [(h.root, h.number)]
      ({ st with eth := upd st.eth name (some (c, ks, rs)) }, s!"res=ok | {ETHD.dump c h.number h.number ks rs}")
    | _, _ => bad
  | ["eth.update", name, now, hdr] =>
    match st.eth name, now.toNat?, ETHD.parseHdr hdr with
    | some (c, ks, rs), some now, some h =>
      let base := (ks.head?.map (·.2)).getD 0
      let maxOf := fun (c : ETH.Client) => c.heights.foldl max base
      match ETH.deliverUpdate c h now with
      | some c' =>
        let ks' := ETHD.addKey (h.hash, h.number) ks
        let rs' := ETHD.addKey (h.root, h.number) rs
        ({ st with eth := upd st.eth name (some (c', ks', rs')) }, s!"res=ok | {ETHD.dump c' base (max (maxOf c') (maxOf c)) ks' rs'}")
      | none => (st, s!"res=fail | {ETHD.dump c base (maxOf c) ks rs}")
    | _, _, _ => bad
  | ["bsc.create", name, epoch, hdr, vals, recs] =>
    match epoch.toNat?, BSCD.parseHdr hdr, BSCD.parseNats vals, BSCD.parseRecs recs with
    | some epoch, some h, some vals, some recs =>
      let c : BSC.Client := { epoch := epoch, latest := h, validators := vals, recents := recs, pending := h.extraVals,
                              cons := fun n => if n == h.number then some ⟨h.time, h.number, h.root⟩ else none }
      ({ st with bsc := upd st.bsc name (some (c, [h.number])) }, s!"res=ok | {BSCD.dump c [h.number]}")
    | _, _, _, _ => bad
  | ["bsc.update", name, hdr] =>
    match st.bsc name, BSCD.parseHdr hdr with
    | some (c, hs), some h =>
      match BSC.checkHeaderAndUpdate c h with
      | some c' => ({ st with bsc := upd st.bsc name (some (c', hs ++ [h.number])) }, s!"res=ok | {BSCD.dump c' (hs ++ [h.number])}")
      | none => (st, s!"res=fail | {BSCD.dump c hs}")
    | _, _ => bad
  | ["tmverify", latest, h, root, pt, delay, now, ptok, path, value] =>
    match latest.toNat?, h.toNat?, delay.toNat?, now.toNat? with
    | some latest, some h, some delay, some now =>
      let π : Option Verify.TmProof :=
        match ptok.splitOn "|" with
        | ["nil"] => some .nil
        | ["undecodable"] => some .undecodable
        | ["foreign"] => some .foreign
        | ["genuine", k, v] => some (.genuine k (if v == "none" then none else some v))
        | _ => none
      match π with
      | some π =>
        let ctx : Verify.TmCtx := { latest := latest, consRoot := if root == "-" then none else some root,
                                    processed := if pt == "-" then none else pt.toNat?, delay := delay, now := now }
        (st, if Verify.tmVerify ctx h π path value then "res=ok" else "res=fail")
      | none => bad
    | _, _, _, _ => bad
  | ["ethverify", kind, latest, ce, h, delayBlock, decodes, addrOk, acctOk, fieldsOk, nStorage, keyIsSlot, storOk, word, claimed] =>
    match latest.toNat?, h.toNat?, delayBlock.toNat?, nStorage.toNat? with
    | some latest, some h, some db, some ns =>
      let π : Verify.EthProof := { decodes := decodes == "1", addrOk := addrOk == "1", acctProofOk := acctOk == "1",
                                   acctFieldsOk := fieldsOk == "1", nStorage := ns, keyIsSlot := keyIsSlot == "1",
                                   storProofOk := storOk == "1", word := if word == "-" then none else some word }
      let ctx : Verify.EthCtx := { latest := latest, consExists := ce == "1", delayBlock := db }
      let r := if kind == "bsc" then Verify.bscVerify ctx h π claimed else Verify.ethVerify ctx h π claimed
      (st, if r then "res=ok" else "res=fail")
    | _, _, _, _ => bad
  | ["auth", c, sh, dh, ph] =>
    match unhex sh, unhex dh, unhex ph with
    | some sc, some d, some pt =>
      let ok := Routing.authenticate (st.w c).core.rules sc d pt
      (st, if ok then "res=ok" else "res=unauthorized")
    | _, _, _ => bad
  | ["dump", c] => (st, s!"res=ok |  | {dump st.u (st.w c)}")
  | _ => bad

partial def loop (h : IO.FS.Stream) (out : IO.FS.Stream) (st : St) : IO Unit := do
  let line ← h.getLine
  if line.isEmpty then return ()
  if line.trimAscii.toString.isEmpty || line.startsWith "#" then
    loop h out st
  else
    let (st', o) := stepLine st line
    out.putStrLn o
    loop h out st'

end Drv

def main : IO Unit := do
  let stdin ← IO.getStdin
  let stdout ← IO.getStdout
  Drv.loop stdin stdout {}
