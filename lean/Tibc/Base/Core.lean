/-
  Base definitions shared by the whole TIBC model (core Lean only, no Mathlib).
-/
namespace Tibc

abbrev Chain  := String
/-- output of the commitment hash -/
abbrev Digest := String
abbrev Addr   := String
/-- text whose exact characters matter (class ids, class paths, routing rules) -/
abbrev Str    := List Char

/-- Go `strings.Split(s, sep)` for a one-character separator: keeps empty fields, never `[]` -/
def splitOnChar (sep : Char) : Str → List Str
  | [] => [[]]
  | c :: cs =>
    if c = sep then [] :: splitOnChar sep cs
    else match splitOnChar sep cs with
      | [] => [[c]]          -- unreachable: the result is never empty
      | f :: fs => (c :: f) :: fs

/-- Go `strings.Join(parts, sep)` -/
def joinWith (sep : Char) : List Str → Str
  | [] => []
  | [x] => x
  | x :: y :: rest => x ++ sep :: joinWith sep (y :: rest)

/-- Go `strings.HasPrefix` -/
def hasPrefix (pre s : Str) : Bool := pre.isPrefixOf s

/-- decoded TICS-30 NFT packet data (`NonFungibleTokenPacketData`) -/
structure NftData where
  cls      : Str        -- full class path
  id       : Str
  uri      : String
  sender   : Addr
  receiver : Addr
  away     : Bool
  destContract : String
deriving DecidableEq, Repr

/-- decoded multi-token packet data (`MultiTokenPacketData`) -/
structure MtData where
  cls      : Str
  id       : Str
  data     : String
  sender   : Addr
  receiver : Addr
  away     : Bool
  destContract : String
  amount   : Nat
deriving DecidableEq, Repr

/-- Byte strings that get hashed into the provable store: packet payloads and acknowledgements.
    They are kept structured (the protobuf codec is outside the model): a payload either decodes
    as NFT data, as MT data, or is `raw` bytes that decode as neither; an acknowledgement is
    `ackOk`/`ackErr` (the `Acknowledgement` message) or `raw`. `raw ""` is the empty string. -/
inductive Data
  | raw (s : String)
  | nft (d : NftData)
  | mt  (d : MtData)
  | ackOk (res : String)
  | ackErr (text : String)
deriving DecidableEq, Repr

def Data.isEmpty : Data → Bool
  | .raw s => s == ""
  | _ => false

instance : Inhabited Data := ⟨.raw ""⟩

/-- total-function store with point update -/
def upd {κ : Type} {α : Type} [DecidableEq κ] (m : κ → α) (k : κ) (v : α) : κ → α :=
  fun k' => if k' = k then v else m k'

@[simp] theorem upd_same {κ α} [DecidableEq κ] (m : κ → α) (k : κ) (v : α) :
    upd m k v k = v := by simp [upd]

@[simp] theorem upd_other {κ α} [DecidableEq κ] (m : κ → α) (k k' : κ) (v : α) (h : k' ≠ k) :
    upd m k v k' = m k' := by simp [upd, h]

theorem upd_apply {κ α} [DecidableEq κ] (m : κ → α) (k k' : κ) (v : α) :
    upd m k v k' = if k' = k then v else m k' := rfl

theorem ite_iff_congr {α : Type} {p q : Prop} [Decidable p] [Decidable q] (h : p ↔ q) (a b : α) :
    (if p then a else b) = (if q then a else b) := by
  by_cases hp : p
  · rw [if_pos hp, if_pos (h.mp hp)]
  · rw [if_neg hp, if_neg (fun hq => hp (h.mpr hq))]

/-- `(source, destination, sequence)` : the identity of a packet in every store -/
structure PKey where
  src : Chain
  dst : Chain
  seq : Nat
deriving DecidableEq, Repr

/-- `(source, destination)` : a "channel" -/
structure Pair where
  src : Chain
  dst : Chain
deriving DecidableEq, Repr

def PKey.pair (k : PKey) : Pair := ⟨k.src, k.dst⟩

/-- A collision of the commitment hash, exhibited by two concrete pre-images. -/
def Collision (H : Data → Digest) : Prop := ∃ a b, a ≠ b ∧ H a = H b

theorem eq_or_collision (H : Data → Digest) {a b : Data} (h : H a = H b) :
    a = b ∨ Collision H := by
  by_cases hab : a = b
  · exact Or.inl hab
  · exact Or.inr ⟨a, b, hab, h⟩

/-- Error classes (keyed on the Go error's registered codespace/code, never on text). -/
inductive Err
  | invalidPacket        -- tibc-packet/5
  | invalidAck           -- tibc-packet/6
  | ackExists            -- tibc-packet/9
  | invalidClean         -- tibc-packet/10
  | clientNotFound       -- tibc-client/4
  | clientNotActive      -- tibc-client/27
  | clientExists         -- tibc-client/2
  | invalidClientType    -- tibc-client/10
  | unauthorized         -- sdk/4
  | invalidRoute         -- tibc-routing/2
  | invalidRule          -- tibc-routing/3
  | verify               -- any failure inside the light client's Verify* method
  | invalidProof         -- tibc-commitment/2 (stateless: empty proof)
  | invalidHeight        -- sdk/26 (stateless: zero proof height)
  | invalidAddress       -- sdk/7
  | unknownRequest       -- sdk/6 (payload cannot be decoded)
  | app (s : String)     -- application-level error class
  | panic                -- Go runtime panic recovered by BaseApp
deriving DecidableEq, Repr

def Err.toString : Err → String
  | .invalidPacket => "invalidPacket"
  | .invalidAck => "invalidAck"
  | .ackExists => "ackExists"
  | .invalidClean => "invalidClean"
  | .clientNotFound => "clientNotFound"
  | .clientNotActive => "clientNotActive"
  | .clientExists => "clientExists"
  | .invalidClientType => "invalidClientType"
  | .unauthorized => "unauthorized"
  | .invalidRoute => "invalidRoute"
  | .invalidRule => "invalidRule"
  | .verify => "verify"
  -- the stateless proof / height checks share their (codespace, code) with failures inside
  -- the light client's Verify* methods, so they are reported under the same class
  | .invalidProof => "verify"
  | .invalidHeight => "verify"
  | .invalidAddress => "invalidAddress"
  | .unknownRequest => "unknownRequest"
  | .app s => "app:" ++ s
  | .panic => "panic"

/-- result of a keeper call: the state is returned separately so partial writes stay visible -/
inductive Res
  | ok
  | err (e : Err)
deriving DecidableEq, Repr

def Res.isOk : Res → Bool
  | .ok => true
  | .err _ => false

def Res.toString : Res → String
  | .ok => "ok"
  | .err e => e.toString

end Tibc
