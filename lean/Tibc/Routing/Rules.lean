import Tibc.Base.Core
/-
  26-routing: rule syntax (`RulePattern`), `SetRoutingRules`, `Authenticate`.
  Strings are `List Char` here because the property (C12) turns on exact character classes.
-/
namespace Tibc.Routing
open Tibc

/-- `[a-zA-Z0-9._+\-#\[\]<>]` -/
def isIdChar (c : Char) : Bool :=
  c.isAlphanum || c == '.' || c == '_' || c == '+' || c == '-' || c == '#' ||
  c == '[' || c == ']' || c == '<' || c == '>'

/-- one field of a rule: 1–64 identifier characters, or a single `*` -/
def fieldOk (f : List Char) : Bool :=
  f == ['*'] || (decide (1 ≤ f.length) && decide (f.length ≤ 64) && f.all isIdChar)

/-- the language of `RulePattern` -/
def ruleOk (r : List Char) : Bool :=
  match splitOnChar ',' r with
  | [a, b, c] => fieldOk a && fieldOk b && fieldOk c
  | _ => false

/-- one field of a stored rule against one identifier -/
def fieldMatch (f x : List Char) : Bool := f == ['*'] || f == x

/-- a stored rule against a triple -/
def ruleMatch (r : List Char) (s d p : List Char) : Bool :=
  match splitOnChar ',' r with
  | [a, b, c] => fieldMatch a s && fieldMatch b d && fieldMatch c p
  | _ => false

/-- `Keeper.SetRoutingRules`: all-or-nothing -/
def setRules (rules : List (List Char)) : Option (List (List Char)) :=
  if rules.all ruleOk then some rules else none

/-- `Keeper.Authenticate` over the stored rules (`none` = key absent) -/
def authenticate (stored : Option (List (List Char))) (s d p : List Char) : Bool :=
  match stored with
  | none => false
  | some rules => rules.any (fun r => ruleMatch r s d p)

end Tibc.Routing
