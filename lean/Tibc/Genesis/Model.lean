import Tibc.World
/-
  Genesis export / import of the TIBC state (core/genesis.go, 02-client/genesis.go,
  04-packet/genesis.go, 26-routing/genesis.go, transfer modules' moudle.go) and the byte-level
  store-key codec the client export relies on (02-client/keeper/keeper.go:IterateConsensusStates,
  07-tendermint/types/store.go:IterateProcessedTime).
-/
namespace Tibc.Genesis
open Tibc

/-! ## what the genesis types can carry -/

/-- 04-packet `GenesisState`: acknowledgements, commitments, receipts, send sequences
    (the recv / ack sequence lists are never filled by this protocol) -/
structure PacketGenesis where
  acks     : PKey → Option Digest
  commits  : PKey → Option Digest
  receipts : PKey → Bool
  sendSeqs : Pair → Nat

/-- 02-client + 26-routing genesis: clients with all their consensus states and metadata,
    relayer registry, native chain name, routing rules -/
structure CoreGenesis where
  name     : Chain
  packet   : PacketGenesis
  clients  : Chain → Option Client
  relayers : Chain → List Addr
  rules    : Option (List (List Char))

def exportPacket (ps : PStore) : PacketGenesis :=
  { acks := ps.ack, commits := ps.commit, receipts := ps.receipt, sendSeqs := ps.nextSend }

/-- `packet.InitGenesis`: clean points and highest acknowledged sequences have no genesis field -/
def importPacket (g : PacketGenesis) : PStore :=
  { nextSend := g.sendSeqs, commit := g.commits, receipt := g.receipts, ack := g.acks,
    clean := fun _ => 0, maxAck := fun _ => 0 }

def exportCore (s : Core) : CoreGenesis :=
  { name := s.name, packet := exportPacket s.ps, clients := s.clients, relayers := s.relayers, rules := s.rules }

/-- a fresh chain started from the genesis (`authority`, block time: application configuration) -/
def importCore (g : CoreGenesis) (authority : Addr) (now : Nat) : Core :=
  { name := g.name, ps := importPacket g.packet, clients := g.clients, rules := g.rules, relayers := g.relayers,
    authority := authority, now := now, evlog := [], sent := [], ackLog := [] }

/-- the NFT / MT transfer modules have no genesis: voucher class traces start empty; the token
    modules (irismod nft / mt: not TIBC's) carry their own state over -/
def importApps (a : Apps) : Apps := { a with nftTraces := fun _ => none, mtTraces := fun _ => none }

/-! ## the consensus-state key codec -/

abbrev Bytes := List Nat       -- each < 256

def slash : Nat := 47

/-- 8 big-endian bytes of a 64-bit number -/
def be8 (n : Nat) : Bytes :=
  [n / 72057594037927936 % 256, n / 281474976710656 % 256, n / 1099511627776 % 256, n / 4294967296 % 256,
   n / 16777216 % 256, n / 65536 % 256, n / 256 % 256, n % 256]

def ofBe8 : Bytes → Nat
  | [a, b, c, d, e, f, g, h] =>
    a * 72057594037927936 + b * 281474976710656 + c * 1099511627776 + d * 4294967296 + e * 16777216 + f * 65536 + g * 256 + h
  | _ => 0

def strBytes (s : String) : Bytes := s.toList.map (fun c => c.toNat)

def pClients : Bytes := strBytes "clients/"
def pCons : Bytes := strBytes "consensusStates/"
def sProcessed : Bytes := strBytes "/processedTime"

/-- `host.FullClientKey(chain, host.ConsensusStateKey(height))` -/
def consKey (chain : Bytes) (rev h : Nat) : Bytes := pClients ++ chain ++ [slash] ++ pCons ++ be8 rev ++ be8 h

def processedKey (chain : Bytes) (rev h : Nat) : Bytes := consKey chain rev h ++ sProcessed

def stripPrefix (p : Bytes) (l : Bytes) : Option Bytes := if p.isPrefixOf l then some (l.drop p.length) else none

/-- split at the first '/' -/
def cutSlash : Bytes → Option (Bytes × Bytes)
  | [] => none
  | b :: rest => if b = slash then some ([], rest) else (cutSlash rest).map (fun (x, y) => (b :: x, y))

/-- the (repaired) parser of `IterateConsensusStates`: prefix, chain name up to the next '/',
    "consensusStates/", then exactly 16 raw bytes -/
def parseConsKey (key : Bytes) : Option (Bytes × Nat × Nat) :=
  match stripPrefix pClients key with
  | none => none
  | some rest =>
    match cutSlash rest with
    | none => none
    | some (chain, tail) =>
      match stripPrefix pCons tail with
      | none => none
      | some hb => if hb.length = 16 then some (chain, ofBe8 (hb.take 8), ofBe8 (hb.drop 8)) else none

/-- the parser before the repair: split the whole key on '/' and expect four fields -/
def splitOn (sep : Nat) : Bytes → List Bytes
  | [] => [[]]
  | b :: rest =>
    match splitOn sep rest with
    | [] => [[]]
    | f :: fs => if b = sep then [] :: f :: fs else (b :: f) :: fs

def parseConsKeyBySplit (key : Bytes) : Option (Bytes × Nat × Nat) :=
  match splitOn slash key with
  | [_, chain, mid, hb] => if mid = strBytes "consensusStates" then some (chain, ofBe8 (hb.take 8), ofBe8 (hb.drop 8)) else none
  | _ => none

end Tibc.Genesis
