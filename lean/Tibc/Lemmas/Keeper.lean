import Tibc.Packet.Keeper
/-
  Helper lemmas about the packet keeper: a case characterisation of every keeper function
  ("rejected and unchanged" or "all checks passed and the result is the write phase") and the
  effect of the write phases on each store.
-/
namespace Tibc
namespace Core

variable (H : Data → Digest)

/-! ### setters: projections -/
section setters
variable (s : Core) (k : PKey) (pr : Pair) (d : Digest) (n : Nat) (e : Event)

@[simp] theorem emit_ps : (s.emit e).ps = s.ps := rfl
@[simp] theorem emit_clients : (s.emit e).clients = s.clients := rfl
@[simp] theorem emit_name : (s.emit e).name = s.name := rfl
@[simp] theorem emit_sent : (s.emit e).sent = s.sent := rfl
@[simp] theorem emit_ackLog : (s.emit e).ackLog = s.ackLog := rfl
@[simp] theorem emit_rules : (s.emit e).rules = s.rules := rfl
@[simp] theorem emit_evlog : (s.emit e).evlog = s.evlog ++ [e] := rfl
@[simp] theorem emit_now : (s.emit e).now = s.now := rfl
@[simp] theorem emit_relayers : (s.emit e).relayers = s.relayers := rfl
@[simp] theorem emit_authority : (s.emit e).authority = s.authority := rfl

@[simp] theorem setCommit_commit : (s.setCommit k d).ps.commit = upd s.ps.commit k (some d) := rfl
@[simp] theorem setCommit_receipt : (s.setCommit k d).ps.receipt = s.ps.receipt := rfl
@[simp] theorem setCommit_ack : (s.setCommit k d).ps.ack = s.ps.ack := rfl
@[simp] theorem setCommit_clean : (s.setCommit k d).ps.clean = s.ps.clean := rfl
@[simp] theorem setCommit_maxAck : (s.setCommit k d).ps.maxAck = s.ps.maxAck := rfl
@[simp] theorem setCommit_nextSend : (s.setCommit k d).ps.nextSend = s.ps.nextSend := rfl
@[simp] theorem setCommit_clients : (s.setCommit k d).clients = s.clients := rfl
@[simp] theorem setCommit_name : (s.setCommit k d).name = s.name := rfl
@[simp] theorem setCommit_sent : (s.setCommit k d).sent = s.sent := rfl
@[simp] theorem setCommit_ackLog : (s.setCommit k d).ackLog = s.ackLog := rfl
@[simp] theorem setCommit_evlog : (s.setCommit k d).evlog = s.evlog := rfl
@[simp] theorem setCommit_rules : (s.setCommit k d).rules = s.rules := rfl

@[simp] theorem delCommit_commit : (s.delCommit k).ps.commit = upd s.ps.commit k none := rfl
@[simp] theorem delCommit_receipt : (s.delCommit k).ps.receipt = s.ps.receipt := rfl
@[simp] theorem delCommit_ack : (s.delCommit k).ps.ack = s.ps.ack := rfl
@[simp] theorem delCommit_clean : (s.delCommit k).ps.clean = s.ps.clean := rfl
@[simp] theorem delCommit_maxAck : (s.delCommit k).ps.maxAck = s.ps.maxAck := rfl
@[simp] theorem delCommit_nextSend : (s.delCommit k).ps.nextSend = s.ps.nextSend := rfl
@[simp] theorem delCommit_clients : (s.delCommit k).clients = s.clients := rfl
@[simp] theorem delCommit_name : (s.delCommit k).name = s.name := rfl
@[simp] theorem delCommit_sent : (s.delCommit k).sent = s.sent := rfl
@[simp] theorem delCommit_ackLog : (s.delCommit k).ackLog = s.ackLog := rfl
@[simp] theorem delCommit_evlog : (s.delCommit k).evlog = s.evlog := rfl

@[simp] theorem setReceipt_commit : (s.setReceipt k).ps.commit = s.ps.commit := rfl
@[simp] theorem setReceipt_receipt : (s.setReceipt k).ps.receipt = upd s.ps.receipt k true := rfl
@[simp] theorem setReceipt_ack : (s.setReceipt k).ps.ack = s.ps.ack := rfl
@[simp] theorem setReceipt_clean : (s.setReceipt k).ps.clean = s.ps.clean := rfl
@[simp] theorem setReceipt_maxAck : (s.setReceipt k).ps.maxAck = s.ps.maxAck := rfl
@[simp] theorem setReceipt_nextSend : (s.setReceipt k).ps.nextSend = s.ps.nextSend := rfl
@[simp] theorem setReceipt_clients : (s.setReceipt k).clients = s.clients := rfl
@[simp] theorem setReceipt_name : (s.setReceipt k).name = s.name := rfl
@[simp] theorem setReceipt_sent : (s.setReceipt k).sent = s.sent := rfl
@[simp] theorem setReceipt_ackLog : (s.setReceipt k).ackLog = s.ackLog := rfl
@[simp] theorem setReceipt_evlog : (s.setReceipt k).evlog = s.evlog := rfl
@[simp] theorem setReceipt_rules : (s.setReceipt k).rules = s.rules := rfl

@[simp] theorem delReceipt_commit : (s.delReceipt k).ps.commit = s.ps.commit := rfl
@[simp] theorem delReceipt_receipt : (s.delReceipt k).ps.receipt = upd s.ps.receipt k false := rfl
@[simp] theorem delReceipt_ack : (s.delReceipt k).ps.ack = s.ps.ack := rfl
@[simp] theorem delReceipt_clean : (s.delReceipt k).ps.clean = s.ps.clean := rfl
@[simp] theorem delReceipt_maxAck : (s.delReceipt k).ps.maxAck = s.ps.maxAck := rfl
@[simp] theorem delReceipt_nextSend : (s.delReceipt k).ps.nextSend = s.ps.nextSend := rfl
@[simp] theorem delReceipt_clients : (s.delReceipt k).clients = s.clients := rfl
@[simp] theorem delReceipt_name : (s.delReceipt k).name = s.name := rfl
@[simp] theorem delReceipt_sent : (s.delReceipt k).sent = s.sent := rfl
@[simp] theorem delReceipt_ackLog : (s.delReceipt k).ackLog = s.ackLog := rfl
@[simp] theorem delReceipt_evlog : (s.delReceipt k).evlog = s.evlog := rfl

@[simp] theorem setAck_commit : (s.setAck k d).ps.commit = s.ps.commit := rfl
@[simp] theorem setAck_receipt : (s.setAck k d).ps.receipt = s.ps.receipt := rfl
@[simp] theorem setAck_ack : (s.setAck k d).ps.ack = upd s.ps.ack k (some d) := rfl
@[simp] theorem setAck_clean : (s.setAck k d).ps.clean = s.ps.clean := rfl
@[simp] theorem setAck_maxAck : (s.setAck k d).ps.maxAck = s.ps.maxAck := rfl
@[simp] theorem setAck_nextSend : (s.setAck k d).ps.nextSend = s.ps.nextSend := rfl
@[simp] theorem setAck_clients : (s.setAck k d).clients = s.clients := rfl
@[simp] theorem setAck_name : (s.setAck k d).name = s.name := rfl
@[simp] theorem setAck_sent : (s.setAck k d).sent = s.sent := rfl
@[simp] theorem setAck_ackLog : (s.setAck k d).ackLog = s.ackLog := rfl
@[simp] theorem setAck_evlog : (s.setAck k d).evlog = s.evlog := rfl

@[simp] theorem delAck_commit : (s.delAck k).ps.commit = s.ps.commit := rfl
@[simp] theorem delAck_receipt : (s.delAck k).ps.receipt = s.ps.receipt := rfl
@[simp] theorem delAck_ack : (s.delAck k).ps.ack = upd s.ps.ack k none := rfl
@[simp] theorem delAck_clean : (s.delAck k).ps.clean = s.ps.clean := rfl
@[simp] theorem delAck_maxAck : (s.delAck k).ps.maxAck = s.ps.maxAck := rfl
@[simp] theorem delAck_nextSend : (s.delAck k).ps.nextSend = s.ps.nextSend := rfl
@[simp] theorem delAck_clients : (s.delAck k).clients = s.clients := rfl
@[simp] theorem delAck_name : (s.delAck k).name = s.name := rfl
@[simp] theorem delAck_sent : (s.delAck k).sent = s.sent := rfl
@[simp] theorem delAck_ackLog : (s.delAck k).ackLog = s.ackLog := rfl
@[simp] theorem delAck_evlog : (s.delAck k).evlog = s.evlog := rfl

@[simp] theorem setClean_commit : (s.setClean pr n).ps.commit = s.ps.commit := rfl
@[simp] theorem setClean_receipt : (s.setClean pr n).ps.receipt = s.ps.receipt := rfl
@[simp] theorem setClean_ack : (s.setClean pr n).ps.ack = s.ps.ack := rfl
@[simp] theorem setClean_clean : (s.setClean pr n).ps.clean = upd s.ps.clean pr n := rfl
@[simp] theorem setClean_maxAck : (s.setClean pr n).ps.maxAck = s.ps.maxAck := rfl
@[simp] theorem setClean_nextSend : (s.setClean pr n).ps.nextSend = s.ps.nextSend := rfl
@[simp] theorem setClean_clients : (s.setClean pr n).clients = s.clients := rfl
@[simp] theorem setClean_name : (s.setClean pr n).name = s.name := rfl
@[simp] theorem setClean_sent : (s.setClean pr n).sent = s.sent := rfl
@[simp] theorem setClean_ackLog : (s.setClean pr n).ackLog = s.ackLog := rfl
@[simp] theorem setClean_evlog : (s.setClean pr n).evlog = s.evlog := rfl

@[simp] theorem setMaxAck_commit : (s.setMaxAck pr n).ps.commit = s.ps.commit := rfl
@[simp] theorem setMaxAck_receipt : (s.setMaxAck pr n).ps.receipt = s.ps.receipt := rfl
@[simp] theorem setMaxAck_ack : (s.setMaxAck pr n).ps.ack = s.ps.ack := rfl
@[simp] theorem setMaxAck_clean : (s.setMaxAck pr n).ps.clean = s.ps.clean := rfl
@[simp] theorem setMaxAck_nextSend : (s.setMaxAck pr n).ps.nextSend = s.ps.nextSend := rfl
@[simp] theorem setMaxAck_clients : (s.setMaxAck pr n).clients = s.clients := rfl
@[simp] theorem setMaxAck_name : (s.setMaxAck pr n).name = s.name := rfl
@[simp] theorem setMaxAck_sent : (s.setMaxAck pr n).sent = s.sent := rfl
@[simp] theorem setMaxAck_ackLog : (s.setMaxAck pr n).ackLog = s.ackLog := rfl
@[simp] theorem setMaxAck_evlog : (s.setMaxAck pr n).evlog = s.evlog := rfl
theorem setMaxAck_maxAck : (s.setMaxAck pr n).ps.maxAck =
    upd s.ps.maxAck pr (if n > s.ps.maxAck pr then n else s.ps.maxAck pr) := rfl

@[simp] theorem setNextSend_commit : (s.setNextSend pr n).ps.commit = s.ps.commit := rfl
@[simp] theorem setNextSend_receipt : (s.setNextSend pr n).ps.receipt = s.ps.receipt := rfl
@[simp] theorem setNextSend_ack : (s.setNextSend pr n).ps.ack = s.ps.ack := rfl
@[simp] theorem setNextSend_clean : (s.setNextSend pr n).ps.clean = s.ps.clean := rfl
@[simp] theorem setNextSend_maxAck : (s.setNextSend pr n).ps.maxAck = s.ps.maxAck := rfl
@[simp] theorem setNextSend_nextSend : (s.setNextSend pr n).ps.nextSend = upd s.ps.nextSend pr n := rfl
@[simp] theorem setNextSend_clients : (s.setNextSend pr n).clients = s.clients := rfl
@[simp] theorem setNextSend_name : (s.setNextSend pr n).name = s.name := rfl
@[simp] theorem setNextSend_sent : (s.setNextSend pr n).sent = s.sent := rfl
@[simp] theorem setNextSend_ackLog : (s.setNextSend pr n).ackLog = s.ackLog := rfl
@[simp] theorem setNextSend_evlog : (s.setNextSend pr n).evlog = s.evlog := rfl
end setters

/-- the light-client check unpacked -/
theorem verify_iff (cl : Client) (q : Chain) (h : Nat) (π : Proof) (k : ProvKey) (v : PVal) :
    verify cl q h π k v = true ↔
      h ≤ cl.latest ∧ ∃ sn, cl.cons h = some sn ∧ π = Proof.honest q h k ∧ sn.holds k v = true := by
  unfold verify
  cases hc : cl.cons h with
  | none => simp
  | some sn => simp

/-! ### `SendPacket` -/

/-- the conditions under which `SendPacket` accepts -/
def SendOk (s : Core) (p : Packet) : Prop :=
  packetBasic p = true ∧ p.src = s.name ∧
  (s.clients (sendTarget p)).isSome = true ∧
  p.seq = s.ps.nextSend p.pair

/-- the write phase of `SendPacket` -/
def sendWrites (s : Core) (p : Packet) : Core :=
  let s := s.setNextSend p.pair (s.ps.nextSend p.pair + 1)
  let s := s.setCommit p.key (H p.data)
  let s := { s with sent := s.sent ++ [(p.key, p.data)] }
  s.emit (pktEvent "send_packet" p)

theorem sendPacket_cases (s : Core) (p : Packet) :
    (SendOk s p ∧ sendPacket H s p = (sendWrites H s p, .ok)) ∨
    (¬ SendOk s p ∧ ∃ e, sendPacket H s p = (s, .err e)) := by
  unfold sendPacket SendOk sendWrites
  by_cases h1 : packetBasic p = true
  · by_cases h2 : p.src = s.name
    · cases h3 : s.clients (sendTarget p) with
      | none => right; simp [h1, h2, h3]
      | some cl =>
        by_cases h4 : p.seq = s.ps.nextSend p.pair
        · left; simp [h1, h2, h3, h4]
        · right; simp [h1, h2, h3, h4]
    · right; simp [h1, h2]
  · right; simp [h1]

/-- a failed `SendPacket` changes nothing -/
theorem sendPacket_err (s : Core) (p : Packet) (e : Err) (h : (sendPacket H s p).2 = .err e) :
    (sendPacket H s p).1 = s := by
  rcases sendPacket_cases H s p with ⟨_, h'⟩ | ⟨_, e', h'⟩
  · rw [h'] at h; cases h
  · rw [h']

/-! ### `RecvPacket` -/

/-- all checks `RecvPacket` performs before its first write -/
def RecvOk (s : Core) (p : Packet) (π : Proof) (h : Nat) : Prop :=
  validatePacket s p = .ok ∧ s.ps.receipt p.key = false ∧
  ∃ cl sn, s.clients (recvProver s p) = some cl ∧ cl.active s.now = true ∧ h ≤ cl.latest ∧ cl.cons h = some sn ∧
    π = Proof.honest (recvProver s p) h (.commit p.key) ∧
    sn.commit p.key = some (H p.data)

theorem validatePacket_err (s : Core) (p : Packet) (e : Err) (h : validatePacket s p = .err e) :
    e = .invalidPacket := by
  unfold validatePacket at h
  split at h
  · cases h; rfl
  · split at h
    · cases h; rfl
    · split at h
      · cases h; rfl
      · cases h

theorem recvPacket_cases (s : Core) (p : Packet) (π : Proof) (h : Nat) :
    (RecvOk H s p π h ∧ recvPacket H s p π h = recvWrites H s p) ∨
    (¬ RecvOk H s p π h ∧ ∃ e, (e = .invalidPacket ∨ e = .clientNotFound ∨ e = .clientNotActive ∨ e = .verify) ∧
        recvPacket H s p π h = (s, .err e)) := by
  unfold recvPacket RecvOk
  cases hv : validatePacket s p with
  | err e => right; exact ⟨by simp, e, Or.inl (validatePacket_err s p e hv), rfl⟩
  | ok =>
    cases hr : s.ps.receipt p.key with
    | true => right; exact ⟨by simp, .invalidPacket, Or.inl rfl, by simp⟩
    | false =>
      cases hcl : s.clients (recvProver s p) with
      | none => right; exact ⟨by simp, .clientNotFound, Or.inr (Or.inl rfl), by simp⟩
      | some cl =>
        cases hact : cl.active s.now with
        | false =>
          right
          refine ⟨?_, .clientNotActive, Or.inr (Or.inr (Or.inl rfl)), by simp [hact]⟩
          rintro ⟨_, _, cl', sn, hcl', ha, _⟩
          cases hcl'; rw [hact] at ha; cases ha
        | true =>
        cases hver : verify cl (recvProver s p) h π (.commit p.key) (.digest (H p.data)) with
        | false =>
          right
          refine ⟨?_, .verify, Or.inr (Or.inr (Or.inr rfl)), ?_⟩
          · rintro ⟨_, _, cl', sn, hcl', _, hle, hsn, hπ, hc⟩
            have : verify cl (recvProver s p) h π (.commit p.key) (.digest (H p.data)) = true := by
              rw [verify_iff]
              cases hcl'
              exact ⟨hle, sn, hsn, hπ, by simp [Snapshot.holds, hc]⟩
            rw [hver] at this; cases this
          · simp [hver, hact]
        | true =>
          left
          have hver' := hver
          rw [verify_iff] at hver
          obtain ⟨hle, sn, hsn, hπ, hholds⟩ := hver
          refine ⟨⟨rfl, rfl, cl, sn, rfl, hact, hle, hsn, hπ, ?_⟩, by simp [hver', hact]⟩
          simpa [Snapshot.holds] using hholds

/-! ### `WriteAcknowledgement` -/

def WriteAckOk (s : Core) (p : Packet) (ack : Data) : Prop :=
  ack.isEmpty = false ∧ s.ps.ack p.key = none ∧
  (s.clients (writeAckTarget s p)).isSome = true

def writeAckWrites (s : Core) (p : Packet) (ack : Data) : Core :=
  let s := s.setAck p.key (H ack)
  let s := s.setMaxAck p.pair p.seq
  let s := { s with ackLog := s.ackLog ++ [(p.key, ack)] }
  s.emit (pktEvent "write_acknowledgement" p ack)

theorem writeAck_cases (s : Core) (p : Packet) (ack : Data) :
    (WriteAckOk s p ack ∧ writeAck H s p ack = (writeAckWrites H s p ack, .ok)) ∨
    (¬ WriteAckOk s p ack ∧ ∃ e, writeAck H s p ack = (s, .err e)) := by
  unfold writeAck WriteAckOk writeAckWrites
  cases h1 : ack.isEmpty with
  | true => right; simp
  | false =>
    cases h2 : s.ps.ack p.key with
    | some d => right; simp
    | none =>
      cases h3 : s.clients (writeAckTarget s p) with
      | none => right; simp [h3]
      | some cl => left; simp [h3]

/-! ### `AcknowledgePacket` -/

def AckOk (s : Core) (p : Packet) (ack : Data) (π : Proof) (h : Nat) : Prop :=
  validatePacket s p = .ok ∧ s.ps.commit p.key = some (H p.data) ∧
  ∃ cl sn, s.clients (ackProver s p) = some cl ∧ cl.active s.now = true ∧ h ≤ cl.latest ∧ cl.cons h = some sn ∧
    π = Proof.honest (ackProver s p) h (.ack p.key) ∧
    sn.ack p.key = some (H ack)

theorem acknowledgePacket_cases (s : Core) (p : Packet) (ack : Data) (π : Proof) (h : Nat) :
    (AckOk H s p ack π h ∧ acknowledgePacket H s p ack π h = ackWrites H s p ack) ∨
    (¬ AckOk H s p ack π h ∧ ∃ e, acknowledgePacket H s p ack π h = (s, .err e)) := by
  unfold acknowledgePacket AckOk
  cases hv : validatePacket s p with
  | err e => right; simp
  | ok =>
    by_cases hc : s.ps.commit p.key = some (H p.data)
    · cases hcl : s.clients (ackProver s p) with
      | none => right; simp [hc]
      | some cl =>
        cases hact : cl.active s.now with
        | false =>
          right
          refine ⟨?_, by simp [hc, hact]⟩
          rintro ⟨_, _, cl', sn, hcl', ha, _⟩
          cases hcl'; rw [hact] at ha; cases ha
        | true =>
        cases hver : verify cl (ackProver s p) h π (.ack p.key) (.digest (H ack)) with
        | false =>
          right
          refine ⟨?_, ?_⟩
          · rintro ⟨_, _, cl', sn, hcl', _, hle, hsn, hπ, hc'⟩
            have : verify cl (ackProver s p) h π (.ack p.key) (.digest (H ack)) = true := by
              rw [verify_iff]
              cases hcl'
              exact ⟨hle, sn, hsn, hπ, by simp [Snapshot.holds, hc']⟩
            rw [hver] at this; cases this
          · simp [hc, hver, hact]
        | true =>
          left
          have hver' := hver
          rw [verify_iff] at hver
          obtain ⟨hle, sn, hsn, hπ, hholds⟩ := hver
          refine ⟨⟨rfl, hc, cl, sn, rfl, hact, hle, hsn, hπ, ?_⟩, by simp [hc, hver', hact]⟩
          simpa [Snapshot.holds] using hholds
    · right; simp [hc]

/-! ### `RecvCleanPacket` -/

def RecvCleanOk (s : Core) (cp : CleanPacket) (π : Proof) (h : Nat) : Prop :=
  validateClean s cp = .ok ∧
  ∃ cl sn, s.clients (cleanProver s cp) = some cl ∧ cl.active s.now = true ∧ h ≤ cl.latest ∧ cl.cons h = some sn ∧
    π = Proof.honest (cleanProver s cp) h (.clean cp.pair) ∧
    cp.seq ≠ 0 ∧ sn.clean cp.pair = cp.seq

theorem recvCleanPacket_cases (s : Core) (cp : CleanPacket) (π : Proof) (h : Nat) :
    (RecvCleanOk s cp π h ∧ recvCleanPacket s cp π h = recvCleanWrites s cp) ∨
    (¬ RecvCleanOk s cp π h ∧ ∃ e, recvCleanPacket s cp π h = (s, .err e)) := by
  unfold recvCleanPacket RecvCleanOk
  cases hv : validateClean s cp with
  | err e => right; simp
  | ok =>
    cases hcl : s.clients (cleanProver s cp) with
    | none => right; simp
    | some cl =>
      cases hact : cl.active s.now with
      | false =>
        right
        refine ⟨?_, by simp [hact]⟩
        rintro ⟨_, cl', sn, hcl', ha, _⟩
        cases hcl'; rw [hact] at ha; cases ha
      | true =>
      cases hver : verify cl (cleanProver s cp) h π (.clean cp.pair) (.seq cp.seq) with
      | false =>
        right
        refine ⟨?_, ?_⟩
        · rintro ⟨_, cl', sn, hcl', _, hle, hsn, hπ, hn, hc'⟩
          have : verify cl (cleanProver s cp) h π (.clean cp.pair) (.seq cp.seq) = true := by
            rw [verify_iff]
            cases hcl'
            exact ⟨hle, sn, hsn, hπ, by simp [Snapshot.holds, hc', hn]⟩
          rw [hver] at this; cases this
        · simp [hver, hact]
      | true =>
        left
        have hver' := hver
        rw [verify_iff] at hver
        obtain ⟨hle, sn, hsn, hπ, hholds⟩ := hver
        simp [Snapshot.holds] at hholds
        exact ⟨⟨rfl, cl, sn, rfl, hact, hle, hsn, hπ, hholds.1, hholds.2⟩, by simp [hver', hact]⟩

end Core
end Tibc

namespace Tibc
namespace Core

/-! ### the cleanup loops: what they leave alone -/

/-- everything except the acknowledgement store -/
structure SameButAck (s t : Core) : Prop where
  name : t.name = s.name
  clients : t.clients = s.clients
  rules : t.rules = s.rules
  sent : t.sent = s.sent
  ackLog : t.ackLog = s.ackLog
  evlog : t.evlog = s.evlog
  commit : t.ps.commit = s.ps.commit
  receipt : t.ps.receipt = s.ps.receipt
  clean : t.ps.clean = s.ps.clean
  maxAck : t.ps.maxAck = s.ps.maxAck
  nextSend : t.ps.nextSend = s.ps.nextSend

theorem cleanAcksFrom_same (s : Core) (src dst : Chain) (start fuel : Nat) :
    SameButAck s (cleanAcksFrom s src dst start fuel) := by
  induction fuel generalizing s start with
  | zero => exact ⟨rfl, rfl, rfl, rfl, rfl, rfl, rfl, rfl, rfl, rfl, rfl⟩
  | succ n ih =>
    unfold cleanAcksFrom
    simp only
    split
    · have := ih (s.delAck ⟨src, dst, start⟩) (start + 1)
      exact ⟨this.name, this.clients, this.rules, this.sent, this.ackLog, this.evlog, this.commit,
        this.receipt, this.clean, this.maxAck, this.nextSend⟩
    · exact ih s (start + 1)

/-- acknowledgements after the loop: entries with `start ≤ seq < start + fuel` on this pair are
    gone, all others are untouched -/
theorem cleanAcksFrom_ack (s : Core) (src dst : Chain) (start fuel : Nat) (k : PKey) :
    (cleanAcksFrom s src dst start fuel).ps.ack k =
      if k.src = src ∧ k.dst = dst ∧ start ≤ k.seq ∧ k.seq < start + fuel then none else s.ps.ack k := by
  induction fuel generalizing s start with
  | zero =>
    have : ¬ (k.src = src ∧ k.dst = dst ∧ start ≤ k.seq ∧ k.seq < start + 0) := by omega
    rw [if_neg this]; rfl
  | succ n ih =>
    have key : ∀ (t : Core), (t.ps.ack k = if k = ⟨src, dst, start⟩ then none else s.ps.ack k) →
        (cleanAcksFrom t src dst (start + 1) n).ps.ack k =
        if k.src = src ∧ k.dst = dst ∧ start ≤ k.seq ∧ k.seq < start + (n + 1) then none else s.ps.ack k := by
      intro t ht
      rw [ih, ht]
      by_cases hk : k = ⟨src, dst, start⟩
      · subst hk
        have h1 : ¬ (True ∧ True ∧ start + 1 ≤ start ∧ start < start + 1 + n) := by omega
        have h2 : (True ∧ True ∧ start ≤ start ∧ start < start + (n + 1)) := by
          refine ⟨trivial, trivial, ?_, ?_⟩ <;> omega
        simp only [if_pos h2, if_neg h1, if_true]
      · have hne : ¬ (k.src = src ∧ k.dst = dst ∧ k.seq = start) := by
          intro ⟨h1, h2, h3⟩; apply hk; cases k; simp_all
        have hA : (k.src = src ∧ k.dst = dst ∧ start + 1 ≤ k.seq ∧ k.seq < start + 1 + n) ↔
            (k.src = src ∧ k.dst = dst ∧ start ≤ k.seq ∧ k.seq < start + (n + 1)) := by
          constructor
          · rintro ⟨a, b, c, d⟩; exact ⟨a, b, by omega, by omega⟩
          · rintro ⟨a, b, c, d⟩
            have : k.seq ≠ start := fun h3 => hne ⟨a, b, h3⟩
            exact ⟨a, b, by omega, by omega⟩
        simp only [if_neg hk]
        by_cases hc : (k.src = src ∧ k.dst = dst ∧ start ≤ k.seq ∧ k.seq < start + (n + 1))
        · rw [if_pos hc, if_pos (hA.mpr hc)]
        · rw [if_neg hc, if_neg (fun h => hc (hA.mp h))]
    unfold cleanAcksFrom
    simp only
    split
    · apply key
      simp only [delAck_ack, upd_apply]
    · rename_i hnone
      apply key
      by_cases hk : k = ⟨src, dst, start⟩
      · subst hk
        simp only [if_true]
        simpa using hnone
      · simp only [if_neg hk]

/-- everything except the receipt store -/
structure SameButReceipt (s t : Core) : Prop where
  name : t.name = s.name
  clients : t.clients = s.clients
  rules : t.rules = s.rules
  sent : t.sent = s.sent
  ackLog : t.ackLog = s.ackLog
  evlog : t.evlog = s.evlog
  commit : t.ps.commit = s.ps.commit
  ack : t.ps.ack = s.ps.ack
  clean : t.ps.clean = s.ps.clean
  maxAck : t.ps.maxAck = s.ps.maxAck
  nextSend : t.ps.nextSend = s.ps.nextSend

theorem cleanReceiptsFrom_same (s : Core) (src dst : Chain) (start fuel : Nat) :
    SameButReceipt s (cleanReceiptsFrom s src dst start fuel) := by
  induction fuel generalizing s start with
  | zero => exact ⟨rfl, rfl, rfl, rfl, rfl, rfl, rfl, rfl, rfl, rfl, rfl⟩
  | succ n ih =>
    unfold cleanReceiptsFrom
    simp only
    split
    · have := ih (s.delReceipt ⟨src, dst, start⟩) (start + 1)
      exact ⟨this.name, this.clients, this.rules, this.sent, this.ackLog, this.evlog, this.commit,
        this.ack, this.clean, this.maxAck, this.nextSend⟩
    · exact ih s (start + 1)

theorem cleanReceiptsFrom_receipt (s : Core) (src dst : Chain) (start fuel : Nat) (k : PKey) :
    (cleanReceiptsFrom s src dst start fuel).ps.receipt k =
      if k.src = src ∧ k.dst = dst ∧ start ≤ k.seq ∧ k.seq < start + fuel then false else s.ps.receipt k := by
  induction fuel generalizing s start with
  | zero =>
    have : ¬ (k.src = src ∧ k.dst = dst ∧ start ≤ k.seq ∧ k.seq < start + 0) := by omega
    rw [if_neg this]; rfl
  | succ n ih =>
    have key : ∀ (t : Core), (t.ps.receipt k = if k = ⟨src, dst, start⟩ then false else s.ps.receipt k) →
        (cleanReceiptsFrom t src dst (start + 1) n).ps.receipt k =
        if k.src = src ∧ k.dst = dst ∧ start ≤ k.seq ∧ k.seq < start + (n + 1) then false else s.ps.receipt k := by
      intro t ht
      rw [ih, ht]
      by_cases hk : k = ⟨src, dst, start⟩
      · subst hk
        have h1 : ¬ (True ∧ True ∧ start + 1 ≤ start ∧ start < start + 1 + n) := by omega
        have h2 : (True ∧ True ∧ start ≤ start ∧ start < start + (n + 1)) := by
          refine ⟨trivial, trivial, ?_, ?_⟩ <;> omega
        simp only [if_pos h2, if_neg h1, if_true]
      · have hne : ¬ (k.src = src ∧ k.dst = dst ∧ k.seq = start) := by
          intro ⟨h1, h2, h3⟩; apply hk; cases k; simp_all
        have hA : (k.src = src ∧ k.dst = dst ∧ start + 1 ≤ k.seq ∧ k.seq < start + 1 + n) ↔
            (k.src = src ∧ k.dst = dst ∧ start ≤ k.seq ∧ k.seq < start + (n + 1)) := by
          constructor
          · rintro ⟨a, b, c, d⟩; exact ⟨a, b, by omega, by omega⟩
          · rintro ⟨a, b, c, d⟩
            have : k.seq ≠ start := fun h3 => hne ⟨a, b, h3⟩
            exact ⟨a, b, by omega, by omega⟩
        simp only [if_neg hk]
        by_cases hc : (k.src = src ∧ k.dst = dst ∧ start ≤ k.seq ∧ k.seq < start + (n + 1))
        · rw [if_pos hc, if_pos (hA.mpr hc)]
        · rw [if_neg hc, if_neg (fun h => hc (hA.mp h))]
    unfold cleanReceiptsFrom
    simp only
    split
    · apply key
      simp only [delReceipt_receipt, upd_apply]
    · rename_i hnone
      apply key
      by_cases hk : k = ⟨src, dst, start⟩
      · subst hk
        simp only [if_true]
        simpa using hnone
      · simp only [if_neg hk]

end Core
end Tibc

namespace Tibc
namespace Core

/-! ### `ValidateCleanPacket` / `CleanPacket` -/

theorem anyCommit_iff (s : Core) (src dst : Chain) (start fuel : Nat) :
    anyCommit s src dst start fuel = true ↔
      ∃ n, start ≤ n ∧ n < start + fuel ∧ (s.ps.commit ⟨src, dst, n⟩).isSome = true := by
  induction fuel generalizing start with
  | zero =>
    simp only [anyCommit]
    constructor
    · intro h; cases h
    · rintro ⟨n, h1, h2, _⟩; omega
  | succ k ih =>
    simp only [anyCommit, Bool.or_eq_true, ih]
    constructor
    · rintro (h | ⟨n, h1, h2, h3⟩)
      · exact ⟨start, Nat.le_refl _, by omega, h⟩
      · exact ⟨n, by omega, by omega, h3⟩
    · rintro ⟨n, h1, h2, h3⟩
      by_cases hn : n = start
      · subst hn; exact Or.inl h3
      · exact Or.inr ⟨n, by omega, by omega, h3⟩

/-- the range conditions of a clean request: strictly above the previous clean point, not above
    the highest acknowledged sequence, and no commitment left anywhere in `[cleanPoint, N]` -/
def CleanRangeOk (s : Core) (cp : CleanPacket) : Prop :=
  s.ps.clean cp.pair < cp.seq ∧ cp.seq ≤ s.ps.maxAck cp.pair ∧
  ∀ n, s.ps.clean cp.pair ≤ n → n ≤ cp.seq → s.ps.commit ⟨cp.src, cp.dst, n⟩ = none

theorem validateClean_ok_iff (s : Core) (cp : CleanPacket) :
    validateClean s cp = .ok ↔ CleanRangeOk s cp := by
  unfold validateClean CleanRangeOk
  simp only
  by_cases h1 : cp.seq ≤ s.ps.clean cp.pair
  · simp [h1]; omega
  · by_cases h2 : cp.seq > s.ps.maxAck cp.pair
    · simp [h1, h2]; intro _ h; omega
    · simp only [h1, h2, decide_false, Bool.or_self, Bool.false_eq_true, if_false]
      cases hc : anyCommit s cp.src cp.dst (s.ps.clean cp.pair) (cp.seq + 1 - s.ps.clean cp.pair) with
      | true =>
        simp only [if_true]
        rw [anyCommit_iff] at hc
        obtain ⟨n, hn1, hn2, hn3⟩ := hc
        constructor
        · intro h; cases h
        · rintro ⟨_, _, hall⟩
          have := hall n hn1 (by omega)
          rw [this] at hn3; cases hn3
      | false =>
        simp only [Bool.false_eq_true, if_false, true_iff]
        refine ⟨by omega, by omega, ?_⟩
        intro n hn1 hn2
        cases hcm : s.ps.commit ⟨cp.src, cp.dst, n⟩ with
        | none => rfl
        | some d =>
          have : anyCommit s cp.src cp.dst (s.ps.clean cp.pair) (cp.seq + 1 - s.ps.clean cp.pair) = true := by
            rw [anyCommit_iff]; exact ⟨n, hn1, by omega, by simp [hcm]⟩
          rw [hc] at this; cases this

theorem validateClean_err (s : Core) (cp : CleanPacket) (e : Err) (h : validateClean s cp = .err e) :
    e = .invalidClean := by
  unfold validateClean at h
  simp only at h
  split at h
  · cases h; rfl
  · split at h
    · cases h; rfl
    · cases h

/-- acceptance conditions of `CleanPacket` on the source chain -/
def CleanOk (s : Core) (cp : CleanPacket) : Prop :=
  cp.seq ≠ 0 ∧ CleanRangeOk s { cp with src := s.name } ∧ (s.clients (cleanTarget cp)).isSome = true

def cleanWrites (s : Core) (cp : CleanPacket) : Core :=
  let cp' : CleanPacket := { cp with src := s.name }
  let s := s.setClean cp'.pair cp.seq
  let s := cleanAcks s cp'.src cp'.dst cp.seq
  let s := cleanReceipts s cp'.src cp'.dst cp.seq
  s.emit (cleanEvent "send_clean_packet" cp')

theorem cleanPacket_cases (s : Core) (cp : CleanPacket) :
    (CleanOk s cp ∧ cleanPacket s cp = (cleanWrites s cp, .ok)) ∨
    (¬ CleanOk s cp ∧ ∃ e, cleanPacket s cp = (s, .err e)) := by
  unfold cleanPacket CleanOk cleanWrites
  by_cases h0 : cp.seq = 0
  · right; simp [h0]
  · cases hv : validateClean s { cp with src := s.name } with
    | err e =>
      right
      refine ⟨?_, e, by simp [h0, hv]⟩
      rintro ⟨_, hr, _⟩
      rw [← validateClean_ok_iff] at hr
      rw [hr] at hv; cases hv
    | ok =>
      have hr := (validateClean_ok_iff s _).mp hv
      cases hc : s.clients (cleanTarget cp) with
      | none => right; simp [h0, hv, hc]
      | some cl => left; exact ⟨⟨h0, hr, by simp [hc]⟩, by simp [h0, hv, hc]⟩

/-! ### the clean point only moves forward; receipts disappear only below it -/

theorem cleanAcks_same (s : Core) (src dst : Chain) (n : Nat) : SameButAck s (cleanAcks s src dst n) :=
  cleanAcksFrom_same s src dst _ _

theorem cleanReceipts_same (s : Core) (src dst : Chain) (n : Nat) : SameButReceipt s (cleanReceipts s src dst n) :=
  cleanReceiptsFrom_same s src dst _ _

end Core
end Tibc
