import Tibc.Lemmas.World
/-
  Send sequences: only `SendPacket` touches the send counter and the ghost log of sent packets.
-/
namespace Tibc
open Core

variable (H : Data → Digest) (Hc : Str → Str)

theorem recvWrites_sendframe (s : Core) (p : Packet) :
    (recvWrites H s p).1.sent = s.sent ∧ (recvWrites H s p).1.ps.nextSend = s.ps.nextSend := by
  unfold recvWrites; simp only
  split
  · split
    · exact ⟨rfl, rfl⟩
    · split <;> exact ⟨rfl, rfl⟩
  · exact ⟨rfl, rfl⟩

theorem ackWrites_sendframe (s : Core) (p : Packet) (a : Data) :
    (ackWrites H s p a).1.sent = s.sent ∧ (ackWrites H s p a).1.ps.nextSend = s.ps.nextSend := by
  unfold ackWrites; simp only
  split
  · split <;> exact ⟨rfl, rfl⟩
  · exact ⟨rfl, rfl⟩

theorem cleanWrites_sendframe (s : Core) (cp : CleanPacket) :
    (cleanWrites s cp).sent = s.sent ∧ (cleanWrites s cp).ps.nextSend = s.ps.nextSend := by
  unfold cleanWrites; simp only
  have hA := cleanAcks_same (s.setClean ⟨s.name, cp.dst⟩ cp.seq) s.name cp.dst cp.seq
  have hR := cleanReceipts_same (cleanAcks (s.setClean ⟨s.name, cp.dst⟩ cp.seq) s.name cp.dst cp.seq) s.name cp.dst cp.seq
  constructor
  · exact (hR.sent.trans hA.sent)
  · exact (hR.nextSend.trans hA.nextSend)

theorem recvCleanWrites_sendframe (s : Core) (cp : CleanPacket) :
    (recvCleanWrites s cp).1.sent = s.sent ∧ (recvCleanWrites s cp).1.ps.nextSend = s.ps.nextSend := by
  have hA := cleanAcks_same s cp.src cp.dst cp.seq
  have hR := cleanReceipts_same (cleanAcks s cp.src cp.dst cp.seq) cp.src cp.dst cp.seq
  have base : ((cleanReceipts (cleanAcks s cp.src cp.dst cp.seq) cp.src cp.dst cp.seq).setClean cp.pair cp.seq).sent = s.sent ∧
      ((cleanReceipts (cleanAcks s cp.src cp.dst cp.seq) cp.src cp.dst cp.seq).setClean cp.pair cp.seq).ps.nextSend = s.ps.nextSend := by
    constructor
    · show (cleanReceipts _ _ _ _).sent = _
      rw [hR.sent, hA.sent]
    · show (cleanReceipts _ _ _ _).ps.nextSend = _
      rw [hR.nextSend, hA.nextSend]
  unfold recvCleanWrites; simp only
  split
  · split <;> exact base
  · exact base

/-- a primitive either leaves the send counter and the sent log alone, or is an accepted send -/
theorem prim_sendframe {s t : Core} (h : Prim H s t) :
    (t.sent = s.sent ∧ t.ps.nextSend = s.ps.nextSend) ∨ (∃ p, SendOk s p ∧ t = sendWrites H s p) := by
  cases h with
  | send p =>
    rcases sendPacket_cases H s p with ⟨hok, e⟩ | ⟨_, _, e⟩ <;> rw [e]
    · exact Or.inr ⟨p, hok, rfl⟩
    · exact Or.inl ⟨rfl, rfl⟩
  | recv p π h =>
    rcases recvPacket_cases H s p π h with ⟨_, e⟩ | ⟨_, _, _, e⟩ <;> rw [e]
    · exact Or.inl (recvWrites_sendframe H s p)
    · exact Or.inl ⟨rfl, rfl⟩
  | writeAck p a =>
    rcases writeAck_cases H s p a with ⟨_, e⟩ | ⟨_, _, e⟩ <;> rw [e]
    · exact Or.inl ⟨rfl, rfl⟩
    · exact Or.inl ⟨rfl, rfl⟩
  | ack p a π h =>
    rcases acknowledgePacket_cases H s p a π h with ⟨_, e⟩ | ⟨_, _, e⟩ <;> rw [e]
    · exact Or.inl (ackWrites_sendframe H s p a)
    · exact Or.inl ⟨rfl, rfl⟩
  | clean cp =>
    rcases cleanPacket_cases s cp with ⟨_, e⟩ | ⟨_, _, e⟩ <;> rw [e]
    · exact Or.inl (cleanWrites_sendframe s cp)
    · exact Or.inl ⟨rfl, rfl⟩
  | recvClean cp π h =>
    rcases recvCleanPacket_cases s cp π h with ⟨_, e⟩ | ⟨_, _, e⟩ <;> rw [e]
    · exact Or.inl (recvCleanWrites_sendframe s cp)
    · exact Or.inl ⟨rfl, rfl⟩

end Tibc
