import Tibc.Host.Keys
/- Lemmas about the store-key codec. -/
namespace Tibc.Host

theorem splitSlash_ne_nil (s : Str) : splitSlash s ≠ [] := by
  induction s with
  | nil => simp [splitSlash]
  | cons c cs ih =>
    unfold splitSlash
    split
    · simp
    · split <;> simp

/-- a slash-free prefix stays in the first segment -/
theorem splitSlash_append (p rest : Str) (hp : '/' ∉ p) :
    splitSlash (p ++ rest) = (p ++ (splitSlash rest).headD []) :: (splitSlash rest).tail := by
  induction p with
  | nil =>
    simp only [List.nil_append]
    cases h : splitSlash rest with
    | nil => exact absurd h (splitSlash_ne_nil rest)
    | cons q qs => simp
  | cons c cs ih =>
    have hc : c ≠ '/' := fun h => hp (by simp [h])
    have hcs : '/' ∉ cs := fun h => hp (by simp [h])
    have := ih hcs
    simp only [List.cons_append]
    rw [splitSlash]
    simp only [hc, if_false]
    rw [this]

theorem splitSlash_noslash (p : Str) (hp : '/' ∉ p) : splitSlash p = [p] := by
  have := splitSlash_append p [] hp
  simpa [splitSlash] using this

theorem splitSlash_seg (p rest : Str) (hp : '/' ∉ p) :
    splitSlash (p ++ '/' :: rest) = p :: splitSlash rest := by
  rw [splitSlash_append p _ hp]
  simp [splitSlash]

/-- **`strings.Split` inverts `strings.Join`** on segments that contain no `/`. -/
theorem split_join (parts : List Str) (hne : parts ≠ []) (h : ∀ p ∈ parts, '/' ∉ p) :
    splitSlash (join parts) = parts := by
  induction parts with
  | nil => exact absurd rfl hne
  | cons p ps ih =>
    cases ps with
    | nil => simpa [join] using splitSlash_noslash p (h p (by simp))
    | cons q qs =>
      have hp := h p (by simp)
      have := ih (by simp) (fun x hx => h x (by simp [hx]))
      simp only [join]
      rw [splitSlash_seg p _ hp, this]

/-! ### decimal numerals -/

theorem charVal_digitChar (d : Nat) (h : d < 10) : charVal (digitChar d) = d := by
  match d, h with
  | 0, _ => rfl | 1, _ => rfl | 2, _ => rfl | 3, _ => rfl | 4, _ => rfl
  | 5, _ => rfl | 6, _ => rfl | 7, _ => rfl | 8, _ => rfl | 9, _ => rfl
  | n + 10, h => omega

theorem isDigit_digitChar (d : Nat) : isDigit (digitChar d) = true := by
  unfold digitChar
  split <;> rfl

theorem digitChar_ne_slash (d : Nat) : digitChar d ≠ '/' := by
  unfold digitChar
  split <;> decide

theorem val_append (s : Str) (c : Char) : val (s ++ [c]) = 10 * val s + charVal c := by
  unfold val
  rw [List.foldl_append]
  rfl

theorem val_digits (n : Nat) : val (digits n) = n := by
  induction n using Nat.strongRecOn with
  | _ n ih =>
    rw [digits]
    split
    · rename_i h
      simp [val, charVal_digitChar n h]
    · rename_i h
      rw [val_append, ih (n / 10) (by omega), charVal_digitChar _ (by omega)]
      omega

theorem digits_injective {a b : Nat} (h : digits a = digits b) : a = b := by
  have := congrArg val h
  rwa [val_digits, val_digits] at this

theorem digits_all (n : Nat) : ∀ c ∈ digits n, isDigit c = true ∧ c ≠ '/' := by
  induction n using Nat.strongRecOn with
  | _ n ih =>
    rw [digits]
    split
    · intro c hc
      simp only [List.mem_singleton] at hc
      subst hc
      exact ⟨isDigit_digitChar n, digitChar_ne_slash n⟩
    · rename_i h
      intro c hc
      simp only [List.mem_append, List.mem_singleton] at hc
      rcases hc with hc | hc
      · exact ih (n / 10) (by omega) c hc
      · subst hc
        exact ⟨isDigit_digitChar _, digitChar_ne_slash _⟩

theorem digits_noslash (n : Nat) : '/' ∉ digits n := fun h => (digits_all n '/' h).2 rfl

theorem digits_ne_nil (n : Nat) : digits n ≠ [] := by
  rw [digits]
  split <;> simp

theorem parseUint_digits (n : Nat) (h : n < 2 ^ 64) : parseUint (digits n) = some n := by
  unfold parseUint
  have hall : (digits n).all isDigit = true := by
    rw [List.all_eq_true]
    exact fun c hc => (digits_all n c hc).1
  rw [val_digits]
  simp [digits_ne_nil, hall, h]

end Tibc.Host

namespace Tibc.Host

/-! ### the key builders -/

theorem seqPath_flat (pfx src dst : Str) (n : Nat) :
    seqPath pfx src dst n = join [pfx, src, dst, sequencesSeg, digits n] := by
  simp [seqPath, seqPrefixPath, packetPath, join, List.append_assoc]

theorem pairPath_flat (pfx src dst : Str) : pairPath pfx src dst = join [pfx, src, dst] := by
  simp [pairPath, packetPath, join]

theorem sequencesSeg_noslash : '/' ∉ sequencesSeg := by decide

theorem seqPath_split (pfx src dst : Str) (n : Nat) (hp : '/' ∉ pfx) (hs : '/' ∉ src) (hd : '/' ∉ dst) :
    splitSlash (seqPath pfx src dst n) = [pfx, src, dst, sequencesSeg, digits n] := by
  rw [seqPath_flat]
  apply split_join _ (by simp)
  intro p hp'
  simp only [List.mem_cons, List.not_mem_nil, or_false] at hp'
  rcases hp' with rfl | rfl | rfl | rfl | rfl
  · exact hp
  · exact hs
  · exact hd
  · exact sequencesSeg_noslash
  · exact digits_noslash n

theorem pairPath_split (pfx src dst : Str) (hp : '/' ∉ pfx) (hs : '/' ∉ src) (hd : '/' ∉ dst) :
    splitSlash (pairPath pfx src dst) = [pfx, src, dst] := by
  rw [pairPath_flat]
  apply split_join _ (by simp)
  intro p hp'
  simp only [List.mem_cons, List.not_mem_nil, or_false] at hp'
  rcases hp' with rfl | rfl | rfl
  · exact hp
  · exact hs
  · exact hd

/-- keys of the sequence-indexed families are injective in every component -/
theorem seqPath_injective {pfx pfx' src src' dst dst' : Str} {n n' : Nat}
    (hp : '/' ∉ pfx) (hs : '/' ∉ src) (hd : '/' ∉ dst) (hp' : '/' ∉ pfx') (hs' : '/' ∉ src') (hd' : '/' ∉ dst')
    (h : seqPath pfx src dst n = seqPath pfx' src' dst' n') :
    pfx = pfx' ∧ src = src' ∧ dst = dst' ∧ n = n' := by
  have := congrArg splitSlash h
  rw [seqPath_split _ _ _ _ hp hs hd, seqPath_split _ _ _ _ hp' hs' hd'] at this
  simp only [List.cons.injEq, and_true, true_and] at this
  exact ⟨this.1, this.2.1, this.2.2.1, digits_injective this.2.2.2⟩

theorem pairPath_injective {pfx pfx' src src' dst dst' : Str}
    (hp : '/' ∉ pfx) (hs : '/' ∉ src) (hd : '/' ∉ dst) (hp' : '/' ∉ pfx') (hs' : '/' ∉ src') (hd' : '/' ∉ dst')
    (h : pairPath pfx src dst = pairPath pfx' src' dst') :
    pfx = pfx' ∧ src = src' ∧ dst = dst' := by
  have := congrArg splitSlash h
  rw [pairPath_split _ _ _ hp hs hd, pairPath_split _ _ _ hp' hs' hd'] at this
  simp only [List.cons.injEq, and_true] at this
  exact ⟨this.1, this.2.1, this.2.2⟩

/-- a key of a sequence-indexed family is never a key of a per-pair family -/
theorem seqPath_ne_pairPath {pfx pfx' src src' dst dst' : Str} {n : Nat}
    (hp : '/' ∉ pfx) (hs : '/' ∉ src) (hd : '/' ∉ dst) (hp' : '/' ∉ pfx') (hs' : '/' ∉ src') (hd' : '/' ∉ dst') :
    seqPath pfx src dst n ≠ pairPath pfx' src' dst' := by
  intro h
  have := congrArg splitSlash h
  rw [seqPath_split _ _ _ _ hp hs hd, pairPath_split _ _ _ hp' hs' hd'] at this
  simp at this

theorem parseSeqPath_seqPath (pfx src dst : Str) (n : Nat) (hp : '/' ∉ pfx) (hs : '/' ∉ src) (hd : '/' ∉ dst)
    (hn : n < 2 ^ 64) : parseSeqPath (seqPath pfx src dst n) = some (src, dst, n) := by
  unfold parseSeqPath
  rw [seqPath_split _ _ _ _ hp hs hd]
  simp [parseUint_digits n hn]

theorem parseChannelPath_pairPath (pfx src dst : Str) (hp : '/' ∉ pfx) (hs : '/' ∉ src) (hd : '/' ∉ dst) :
    parseChannelPath (pairPath pfx src dst) = some (src, dst) := by
  unfold parseChannelPath
  rw [pairPath_split _ _ _ hp hs hd]

end Tibc.Host
