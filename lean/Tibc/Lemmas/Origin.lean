import Tibc.Lemmas.AckOnce
/-
  Where commitments come from: every commitment in a chain's store is either one this chain's
  application sent (`SendPacket`, recorded in the ghost log `sent`) or one copied, by the relay
  branch of `RecvPacket`, from a state the chain's light client recorded for another chain.
-/
namespace Tibc
open Core

variable (H : Data → Digest) (Hc : Str → Str)

/-- origin of the commitments of `t`, relative to an earlier state `s` of the same chain -/
def CommitOrigin (s t : Core) : Prop :=
  ∀ k d, t.ps.commit k = some d →
    s.ps.commit k = some d ∨
    (k.src = s.name ∧ ∃ data, d = H data ∧ (k, data) ∈ t.sent) ∨
    (∃ q cl hh sn, s.clients q = some cl ∧ cl.cons hh = some sn ∧ sn.commit k = some d)

theorem CommitOrigin.refl (s : Core) : CommitOrigin H s s := fun _ _ h => Or.inl h

theorem CommitOrigin.trans {s t u : Core} (m1 : Mono s t) (m2 : Mono t u)
    (h1 : CommitOrigin H s t) (h2 : CommitOrigin H t u) : CommitOrigin H s u := by
  intro k d hu
  rcases h2 k d hu with ht | ⟨hsrc, data, hd, hm⟩ | ⟨q, cl, hh, sn, hc, hs, hk⟩
  · rcases h1 k d ht with hs | ⟨hsrc, data, hd, hm⟩ | h3
    · exact Or.inl hs
    · obtain ⟨l, hl⟩ := m2.sent
      exact Or.inr (Or.inl ⟨hsrc, data, hd, by rw [hl]; exact List.mem_append_left _ hm⟩)
    · exact Or.inr (Or.inr h3)
  · exact Or.inr (Or.inl ⟨by rw [← m1.name]; exact hsrc, data, hd, hm⟩)
  · exact Or.inr (Or.inr ⟨q, cl, hh, sn, by rw [← m1.clients]; exact hc, hs, hk⟩)

theorem prim_commitOrigin {s t : Core} (h : Prim H s t) : CommitOrigin H s t := by
  intro k d ht
  cases h with
  | send p =>
    rcases sendPacket_cases H s p with ⟨hok, e⟩ | ⟨_, _, e⟩ <;> rw [e] at ht
    · simp only [sendWrites, emit_ps] at ht
      have hc : (upd s.ps.commit p.key (some (H p.data))) k = some d := ht
      rw [upd_apply] at hc
      split at hc
      · rename_i hkey
        simp only [Option.some.injEq] at hc
        right; left
        refine ⟨by rw [hkey]; exact hok.2.1, p.data, hc.symm, ?_⟩
        rw [e]; simp [sendWrites, hkey]
      · exact Or.inl hc
    · exact Or.inl ht
  | recv p π h =>
    rcases recvPacket_cases H s p π h with ⟨hok, e⟩ | ⟨_, _, _, e⟩ <;> rw [e] at ht
    · by_cases hkey : k = p.key
      · by_cases hsame : s.ps.commit k = some d
        · exact Or.inl hsame
        · -- the relay branch wrote it: it is the commitment verified against the prover's recorded state
          right; right
          obtain ⟨_, _, cl, sn, hcl, _, _, hcons, _, hsn⟩ := hok
          have hd : d = H p.data := by
            unfold recvWrites at ht
            simp only at ht
            split at ht
            · split at ht
              · simp only [emit_ps, setReceipt_commit] at ht; rw [hkey] at hsame; rw [hkey] at ht; exact absurd ht hsame
              · split at ht
                · simp only [emit_ps, setReceipt_commit] at ht; rw [hkey] at hsame; rw [hkey] at ht; exact absurd ht hsame
                · simp only [emit_ps, setCommit_commit, setReceipt_commit, upd_apply, hkey, if_true, Option.some.injEq] at ht
                  exact ht.symm
            · simp only [emit_ps, setReceipt_commit] at ht; rw [hkey] at hsame; rw [hkey] at ht; exact absurd ht hsame
          exact ⟨recvProver s p, cl, h, sn, hcl, hcons, by rw [hkey, hd]; exact hsn⟩
      · left
        have := (recvWrites_commitframe H s p).2.1 k hkey
        rw [← this]; exact ht
    · exact Or.inl ht
  | writeAck p a =>
    rcases writeAck_cases H s p a with ⟨_, e⟩ | ⟨_, _, e⟩ <;> rw [e] at ht
    · exact Or.inl ht
    · exact Or.inl ht
  | ack p a π h =>
    rcases acknowledgePacket_cases H s p a π h with ⟨_, e⟩ | ⟨_, _, e⟩ <;> rw [e] at ht
    · left
      have hc : (ackWrites H s p a).1.ps.commit = upd s.ps.commit p.key none := by
        unfold ackWrites; simp only
        split
        · split <;> rfl
        · rfl
      rw [hc, upd_apply] at ht
      split at ht
      · cases ht
      · exact ht
    · exact Or.inl ht
  | clean cp =>
    rcases cleanPacket_cases s cp with ⟨_, e⟩ | ⟨_, _, e⟩ <;> rw [e] at ht
    · left
      have hA := cleanAcks_same (s.setClean ⟨s.name, cp.dst⟩ cp.seq) s.name cp.dst cp.seq
      have hR := cleanReceipts_same (cleanAcks (s.setClean ⟨s.name, cp.dst⟩ cp.seq) s.name cp.dst cp.seq) s.name cp.dst cp.seq
      have hc : (cleanWrites s cp).ps.commit = s.ps.commit := by unfold cleanWrites; exact hR.commit.trans hA.commit
      rw [← hc]; exact ht
    · exact Or.inl ht
  | recvClean cp π h =>
    rcases recvCleanPacket_cases s cp π h with ⟨_, e⟩ | ⟨_, _, e⟩ <;> rw [e] at ht
    · left
      have hA := cleanAcks_same s cp.src cp.dst cp.seq
      have hR := cleanReceipts_same (cleanAcks s cp.src cp.dst cp.seq) cp.src cp.dst cp.seq
      have hc : (recvCleanWrites s cp).1.ps.commit = s.ps.commit := by
        have base : ((cleanReceipts (cleanAcks s cp.src cp.dst cp.seq) cp.src cp.dst cp.seq).setClean cp.pair cp.seq).ps.commit = s.ps.commit := by
          show (cleanReceipts _ _ _ _).ps.commit = _
          rw [hR.commit, hA.commit]
        unfold recvCleanWrites; simp only
        split
        · split <;> exact base
        · exact base
      rw [← hc]; exact ht
    · exact Or.inl ht

theorem prims_commitOrigin {s t : Core} (h : Prims H s t) : Mono s t ∧ CommitOrigin H s t := by
  induction h with
  | refl => exact ⟨Mono.refl _, CommitOrigin.refl H _⟩
  | step _ hp ih =>
    have m2 := mono_prim H hp
    exact ⟨ih.1.trans m2, CommitOrigin.trans H ih.1 m2 ih.2 (prim_commitOrigin H hp)⟩

end Tibc

namespace Tibc
open Core

variable (H : Data → Digest) (Hc : Str → Str)

/-- the commitment `d` under key `k` is that of a packet the source chain's application sent -/
def WasSent (w : World) (k : PKey) (d : Digest) : Prop :=
  ∃ data, d = H data ∧ (k, data) ∈ (w k.src).core.sent

def CommitsSent (w : World) (f : PKey → Option Digest) : Prop := ∀ k d, f k = some d → WasSent H w k d

/-- world invariant: every commitment in any chain's store, and in any state recorded by any
    light client of any chain, is that of a packet really sent by its source chain -/
structure OriginInv (w : World) : Prop where
  name : ∀ x, (w x).core.name = x
  store : ∀ x, CommitsSent H w (w x).core.ps.commit
  snaps : ∀ x q cl hh sn, (w x).core.clients q = some cl → cl.cons hh = some sn → CommitsSent H w sn.commit

theorem wasSent_mono {w w' : World} (hg : ∀ x, ∃ l, (w' x).core.sent = (w x).core.sent ++ l) {k : PKey} {d : Digest}
    (h : WasSent H w k d) : WasSent H w' k d := by
  obtain ⟨data, hd, hm⟩ := h
  obtain ⟨l, hl⟩ := hg k.src
  exact ⟨data, hd, by rw [hl]; exact List.mem_append_left _ hm⟩

/-- how an operation may change the commitments of the chain it acts on -/
theorem step_commitOrigin (w : World) (op : Op) :
    CommitOrigin H (w op.chain).core ((step H Hc w op).1 op.chain).core := by
  have same : ∀ (t : State), (step H Hc w op).1 op.chain = t → t.core.ps = (w op.chain).core.ps →
      CommitOrigin H (w op.chain).core ((step H Hc w op).1 op.chain).core :=
    fun t e hps k d h => Or.inl (by rw [e, hps] at h; exact h)
  cases op with
  | tx c m => simp only [step, Op.chain, setChain_same]; exact (prims_commitOrigin H (deliver_prims H Hc (w c) m)).2
  | ksend c p => simp only [step, Op.chain, setChain_same]; exact prim_commitOrigin H (Prim.send _ _)
  | createClient c q' h t pd => simp only [step, Op.chain, setChain_same]; exact fun k d h => Or.inl h
  | update c q' h t =>
    simp only [step, Op.chain]
    split
    · exact CommitOrigin.refl H _
    · simp only [setChain_same]; exact fun k d h => Or.inl h
  | setRules c rules =>
    simp only [step, Op.chain]
    split
    · exact CommitOrigin.refl H _
    · simp only [setChain_same]; exact fun k d h => Or.inl h
  | setTime c now => simp only [step, Op.chain, setChain_same]; exact fun k d h => Or.inl h
  | createClientMsg c auth q' ct h t pd v cs =>
    simp only [step, Op.chain, setChain_same]
    have ha := createClientMsg_admin (w c) auth q' ct h t pd v cs (w q').core.ps.snapshot
    exact fun k d h => Or.inl (by rw [ha.ps] at h; exact h)
  | upgradeClientMsg c auth q' ct h t pd v cs =>
    simp only [step, Op.chain, setChain_same]
    have ha := upgradeClientMsg_admin (w c) auth q' ct h t pd v cs (w q').core.ps.snapshot
    exact fun k d h => Or.inl (by rw [ha.ps] at h; exact h)
  | registerRelayerMsg c auth q' rs =>
    simp only [step, Op.chain, setChain_same]
    have ha := registerRelayerMsg_admin (w c) auth q' rs
    exact fun k d h => Or.inl (by rw [ha.ps] at h; exact h)
  | setRulesMsg c auth rules =>
    simp only [step, Op.chain, setChain_same]
    have ha := setRulesMsg_admin (w c) auth rules
    exact fun k d h => Or.inl (by rw [ha.ps] at h; exact h)
  | updateClientMsg c sg q' h t ok =>
    simp only [step, Op.chain, setChain_same]
    have ha := updateClientMsg_admin (w c) sg q' h t ok (w q').core.ps.snapshot
    exact fun k d h => Or.inl (by rw [ha.ps] at h; exact h)
  | nftIssue c a cls mr => simp only [step, Op.chain, setChain_same, nftIssueMsg_core]; exact CommitOrigin.refl H _
  | nftMint c a cls id u rc => simp only [step, Op.chain, setChain_same, nftMintMsg_core]; exact CommitOrigin.refl H _
  | nftSend c a cls id rc => simp only [step, Op.chain, setChain_same, nftSendMsg_core]; exact CommitOrigin.refl H _
  | nftBurn c a cls id => simp only [step, Op.chain, setChain_same, nftBurnMsg_core]; exact CommitOrigin.refl H _
  | mtIssue c a cls => simp only [step, Op.chain, setChain_same, mtIssueMsg_core]; exact CommitOrigin.refl H _
  | mtMint c a cls id f amt rc => simp only [step, Op.chain, setChain_same, mtMintMsg_core]; exact CommitOrigin.refl H _
  | mtSend c a cls id amt rc => simp only [step, Op.chain, setChain_same, mtSendMsg_core]; exact CommitOrigin.refl H _
  | mtBurn c a cls id amt => simp only [step, Op.chain, setChain_same, mtBurnMsg_core]; exact CommitOrigin.refl H _


theorem createClientMsg_shape (s : State) (auth : Addr) (q : Chain) (ct : String) (h t pd : Nat) (v cs : Bool) (sn : Snapshot) :
    (createClientMsg s auth q ct h t pd v cs sn).1 = s ∨
    ∃ cl1, (createClientMsg s auth q ct h t pd v cs sn).1 = setClient s q cl1 ∧
      ∀ hh sn', cl1.cons hh = some sn' → sn' = sn := by
  unfold createClientMsg; repeat' split
  all_goals first
    | exact Or.inl rfl
    | (refine Or.inr ⟨_, rfl, fun hh sn' hs => ?_⟩
       simp only at hs
       split at hs
       · exact (Option.some.inj hs).symm
       · cases hs)

theorem upgradeClientMsg_shape (s : State) (auth : Addr) (q : Chain) (ct : String) (h t pd : Nat) (v cs : Bool) (sn : Snapshot) :
    (upgradeClientMsg s auth q ct h t pd v cs sn).1 = s ∨
    ∃ cl0, s.core.clients q = some cl0 ∧
      (upgradeClientMsg s auth q ct h t pd v cs sn).1 =
        setClient s q { cl0 with latest := h, cons := upd cl0.cons h (if cs then some sn else none),
                                 consTime := upd cl0.consTime h t, period := pd } := by
  unfold upgradeClientMsg
  cases hcl : s.core.clients q with
  | none =>
    left
    repeat' split
    all_goals first | rfl | (rename_i heq _ _; cases heq) | (rename_i heq _; cases heq) | (rename_i heq _ _ _; cases heq)
  | some cl0 =>
    simp only
    repeat' split
    all_goals first | exact Or.inl rfl | exact Or.inr ⟨cl0, rfl, rfl⟩

theorem updateClientMsg_shape (s : State) (signer : Addr) (q : Chain) (h t : Nat) (ok : Bool) (sn : Snapshot) :
    (updateClientMsg s signer q h t ok sn).1 = s ∨
    ∃ cl0 lt, s.core.clients q = some cl0 ∧
      (updateClientMsg s signer q h t ok sn).1 =
        setClient s q { cl0 with latest := lt, cons := upd cl0.cons h (some sn), consTime := upd cl0.consTime h t } := by
  unfold updateClientMsg
  cases hcl : s.core.clients q with
  | none =>
    left
    repeat' split
    all_goals first | rfl | (rename_i heq _ _; cases heq) | (rename_i heq _; cases heq) | (rename_i heq _ _ _; cases heq)
  | some cl0 =>
    simp only
    repeat' split
    all_goals first | exact Or.inl rfl | exact Or.inr ⟨cl0, _, rfl, rfl⟩

/-- every state recorded by a light client after an operation was recorded before it, or is the
    current state of some chain of the world -/
theorem step_snaps (w : World) (op : Op) (q : Chain) (cl : Client) (hh : Nat) (sn : Snapshot)
    (hc : ((step H Hc w op).1 op.chain).core.clients q = some cl) (hs : cl.cons hh = some sn) :
    (∃ cl0, (w op.chain).core.clients q = some cl0 ∧ cl0.cons hh = some sn) ∨ (∃ q', sn = (w q').core.ps.snapshot) := by
  have same : ((step H Hc w op).1 op.chain).core.clients = (w op.chain).core.clients →
      (∃ cl0, (w op.chain).core.clients q = some cl0 ∧ cl0.cons hh = some sn) ∨ (∃ q', sn = (w q').core.ps.snapshot) :=
    fun e => Or.inl ⟨cl, by rw [← e]; exact hc, hs⟩
  cases op with
  | tx c m => apply same; simp only [step, Op.chain, setChain_same]; exact (mono_prims H (deliver_prims H Hc (w c) m)).clients
  | ksend c p => apply same; simp only [step, Op.chain, setChain_same]; exact (mono_prim H (Prim.send _ _)).clients
  | createClient c q' h t pd =>
    simp only [step, Op.chain, setChain_same, upd_apply] at hc
    split at hc
    · simp only [Option.some.injEq] at hc
      subst hc
      simp only [Client.init] at hs
      split at hs
      · right; exact ⟨q', by simpa using hs.symm⟩
      · cases hs
    · exact Or.inl ⟨cl, hc, hs⟩
  | update c q' h t =>
    simp only [step, Op.chain] at hc
    split at hc
    · exact Or.inl ⟨cl, hc, hs⟩
    · rename_i cl0 hcl0
      simp only [setChain_same, upd_apply] at hc
      split at hc
      · rename_i hq
        simp only [Option.some.injEq] at hc
        subst hc
        simp only [upd_apply] at hs
        split at hs
        · right; exact ⟨q', by simpa using hs.symm⟩
        · left; exact ⟨cl0, by rw [hq]; exact hcl0, hs⟩
      · exact Or.inl ⟨cl, hc, hs⟩
  | setRules c rules =>
    simp only [step, Op.chain] at hc
    split at hc
    · exact Or.inl ⟨cl, hc, hs⟩
    · simp only [setChain_same] at hc; exact Or.inl ⟨cl, hc, hs⟩
  | setTime c now => simp only [step, Op.chain, setChain_same] at hc; exact Or.inl ⟨cl, hc, hs⟩
  | createClientMsg c auth q' ct h t pd v cs =>
    simp only [step, Op.chain, setChain_same] at hc
    rcases createClientMsg_shape (w c) auth q' ct h t pd v cs (w q').core.ps.snapshot with e | ⟨cl1, e, hcl1⟩
    · rw [e] at hc; exact Or.inl ⟨cl, hc, hs⟩
    · rw [e] at hc
      simp only [setClient, upd_apply] at hc
      split at hc
      · simp only [Option.some.injEq] at hc
        subst hc
        right; exact ⟨q', hcl1 hh sn hs⟩
      · exact Or.inl ⟨cl, hc, hs⟩
  | upgradeClientMsg c auth q' ct h t pd v cs =>
    simp only [step, Op.chain, setChain_same] at hc
    rcases upgradeClientMsg_shape (w c) auth q' ct h t pd v cs (w q').core.ps.snapshot with e | ⟨cl0, hcl0, e⟩
    · rw [e] at hc; exact Or.inl ⟨cl, hc, hs⟩
    · rw [e] at hc
      simp only [setClient, upd_apply] at hc
      split at hc
      · rename_i hq
        simp only [Option.some.injEq] at hc
        subst hc
        simp only [upd_apply] at hs
        split at hs
        · cases cs
          · simp at hs
          · right; exact ⟨q', by simpa using hs.symm⟩
        · left; exact ⟨cl0, by rw [hq]; exact hcl0, hs⟩
      · exact Or.inl ⟨cl, hc, hs⟩
  | registerRelayerMsg c auth q' rs =>
    simp only [step, Op.chain, setChain_same] at hc
    unfold registerRelayerMsg at hc
    repeat' split at hc
    all_goals exact Or.inl ⟨cl, hc, hs⟩
  | setRulesMsg c auth rules =>
    simp only [step, Op.chain, setChain_same] at hc
    unfold setRulesMsg at hc
    repeat' split at hc
    all_goals exact Or.inl ⟨cl, hc, hs⟩
  | updateClientMsg c sg q' h t ok =>
    simp only [step, Op.chain, setChain_same] at hc
    rcases updateClientMsg_shape (w c) sg q' h t ok (w q').core.ps.snapshot with e | ⟨cl0, lt, hcl0, e⟩
    · rw [e] at hc; exact Or.inl ⟨cl, hc, hs⟩
    · rw [e] at hc
      simp only [setClient, upd_apply] at hc
      split at hc
      · rename_i hq
        simp only [Option.some.injEq] at hc
        subst hc
        simp only [upd_apply] at hs
        split at hs
        · right; exact ⟨q', by simpa using hs.symm⟩
        · left; exact ⟨cl0, by rw [hq]; exact hcl0, hs⟩
      · exact Or.inl ⟨cl, hc, hs⟩
  | nftIssue c a cls mr => apply same; simp only [step, Op.chain, setChain_same, nftIssueMsg_core]
  | nftMint c a cls id u rc => apply same; simp only [step, Op.chain, setChain_same, nftMintMsg_core]
  | nftSend c a cls id rc => apply same; simp only [step, Op.chain, setChain_same, nftSendMsg_core]
  | nftBurn c a cls id => apply same; simp only [step, Op.chain, setChain_same, nftBurnMsg_core]
  | mtIssue c a cls => apply same; simp only [step, Op.chain, setChain_same, mtIssueMsg_core]
  | mtMint c a cls id f amt rc => apply same; simp only [step, Op.chain, setChain_same, mtMintMsg_core]
  | mtSend c a cls id amt rc => apply same; simp only [step, Op.chain, setChain_same, mtSendMsg_core]
  | mtBurn c a cls id amt => apply same; simp only [step, Op.chain, setChain_same, mtBurnMsg_core]

end Tibc
