import Tibc.LC.Eth
/- Helper lemmas for the ETH client model: ancestor chains in the header index, and the
   main-chain rewrite (`restrict`). -/
namespace Tibc.ETH

/-- `a` is `x` or one of its ancestors through stored parent links -/
inductive Anc (c : Client) : Hdr → Hdr → Prop
  | refl (x : Hdr) : Anc c x x
  | step {x p a : Hdr} : parentOf c x = some p → Anc c p a → Anc c x a

def Stored (c : Client) (x : Hdr) : Prop := c.idx (x.hash, x.number) = some x

/-- keys of the header index are the hash and number of the header they hold -/
def KeysOk (c : Client) : Prop := ∀ k n x, c.idx (k, n) = some x → x.hash = k ∧ x.number = n

theorem stored_of_idx {c : Client} (hk : KeysOk c) {k : String} {n : Nat} {x : Hdr} (h : c.idx (k, n) = some x) : Stored c x := by
  obtain ⟨h1, h2⟩ := hk k n x h
  unfold Stored; rw [h1, h2]; exact h

theorem parentOf_spec {c : Client} (hk : KeysOk c) {x p : Hdr} (h : parentOf c x = some p) :
    x.number ≠ 0 ∧ p.number + 1 = x.number ∧ p.hash = x.parent ∧ Stored c p := by
  unfold parentOf at h
  split at h
  · cases h
  · rename_i h0
    have h0' : x.number ≠ 0 := by simpa using h0
    obtain ⟨h1, h2⟩ := hk _ _ _ h
    exact ⟨h0', by omega, h1, stored_of_idx hk h⟩

theorem Anc.number_le {c : Client} (hk : KeysOk c) {x a : Hdr} (h : Anc c x a) : a.number ≤ x.number := by
  induction h with
  | refl => exact Nat.le_refl _
  | step hp _ ih => have := (parentOf_spec hk hp).2.1; omega

theorem Anc.stored {c : Client} (hk : KeysOk c) {x a : Hdr} (hx : Stored c x) (h : Anc c x a) : Stored c a := by
  induction h with
  | refl => exact hx
  | step hp _ ih => exact ih (parentOf_spec hk hp).2.2.2

theorem Anc.trans {c : Client} {x y z : Hdr} (h1 : Anc c x y) (h2 : Anc c y z) : Anc c x z := by
  induction h1 with
  | refl => exact h2
  | step hp _ ih => exact Anc.step hp (ih h2)

/-- ancestors at one height coincide -/
theorem Anc.unique {c : Client} (hk : KeysOk c) {x a a' : Hdr} (h : Anc c x a) (h' : Anc c x a')
    (hn : a.number = a'.number) : a = a' := by
  induction h with
  | refl =>
    cases h' with
    | refl => rfl
    | step hp hr =>
      have := (parentOf_spec hk hp).2.1
      have := hr.number_le hk
      omega
  | step hp hr ih =>
    cases h' with
    | refl =>
      have := (parentOf_spec hk hp).2.1
      have := hr.number_le hk
      omega
    | step hp' hr' =>
      rw [hp] at hp'
      cases hp'
      exact ih hr' hn

/-- an ancestor exists at every height between an ancestor's and the header's -/
theorem Anc.exists_at {c : Client} (hk : KeysOk c) {x b : Hdr} (h : Anc c x b) (n : Nat)
    (h1 : b.number ≤ n) (h2 : n ≤ x.number) : ∃ a, Anc c x a ∧ a.number = n ∧ Anc c a b := by
  induction h with
  | refl x => exact ⟨x, Anc.refl x, by omega, Anc.refl x⟩
  | @step x p a hp hr ih =>
    have hnum := (parentOf_spec hk hp).2.1
    by_cases hx : n = x.number
    · exact ⟨x, Anc.refl x, hx.symm, Anc.step hp hr⟩
    · obtain ⟨a', ha1, ha2, ha3⟩ := ih h1 (by omega)
      exact ⟨a', Anc.step hp ha1, ha2, ha3⟩

/-- a strictly lower ancestor is an ancestor of the parent -/
theorem Anc.lower {c : Client} (hk : KeysOk c) {x a : Hdr} (h : Anc c x a) (hlt : a.number < x.number) :
    ∃ p, parentOf c x = some p ∧ Anc c p a := by
  cases h with
  | refl => omega
  | step hp hr => exact ⟨_, hp, hr⟩

/-- `l` lists, bottom up, the headers strictly above `lo` on one parent-linked path -/
def IsPath (c : Client) : Hdr → List Hdr → Prop
  | _, [] => True
  | lo, x :: rest => parentOf c x = some lo ∧ IsPath c x rest

def lastOf : Hdr → List Hdr → Hdr
  | lo, [] => lo
  | _, x :: rest => lastOf x rest

theorem IsPath.anc {c : Client} : ∀ {lo : Hdr} {l : List Hdr}, IsPath c lo l → Anc c (lastOf lo l) lo
  | lo, [], _ => Anc.refl lo
  | lo, x :: rest, h => (IsPath.anc h.2).trans (Anc.step h.1 (Anc.refl lo))

theorem IsPath.mem_anc {c : Client} : ∀ {lo : Hdr} {l : List Hdr}, IsPath c lo l → ∀ y ∈ lo :: l, Anc c (lastOf lo l) y
  | lo, [], _, y, hy => by
    simp only [List.mem_singleton] at hy; subst hy; exact Anc.refl _
  | lo, x :: rest, h, y, hy => by
    rcases List.mem_cons.mp hy with rfl | hy
    · exact IsPath.anc h
    · exact IsPath.mem_anc h.2 y hy

theorem descend_spec {c : Client} (k : Nat) : ∀ (new : Hdr) (acc : List Hdr) (n1 : Hdr) (acc1 : List Hdr),
    IsPath c new acc → descend c new acc k = some (n1, acc1) →
    IsPath c n1 acc1 ∧ lastOf n1 acc1 = lastOf new acc ∧ Anc c new n1 ∧ (∀ hk : KeysOk c, n1.number + k = new.number) := by
  induction k with
  | zero =>
    intro new acc n1 acc1 hp hd
    simp only [descend, Option.some.injEq, Prod.mk.injEq] at hd
    obtain ⟨rfl, rfl⟩ := hd
    exact ⟨hp, rfl, Anc.refl _, fun _ => by omega⟩
  | succ k ih =>
    intro new acc n1 acc1 hp hd
    simp only [descend] at hd
    cases hpar : parentOf c new with
    | none => rw [hpar] at hd; cases hd
    | some p =>
      rw [hpar] at hd
      simp only at hd
      obtain ⟨h1, h2, h3, h4⟩ := ih p (new :: acc) n1 acc1 ⟨hpar, hp⟩ hd
      refine ⟨h1, by rw [h2]; rfl, Anc.step hpar h3, fun hk => ?_⟩
      have := h4 hk
      have := (parentOf_spec hk hpar).2.1
      omega

/-- `descend` succeeds when an ancestor exists `k` blocks below -/
theorem descend_some {c : Client} (hk : KeysOk c) (k : Nat) : ∀ (new : Hdr) (acc : List Hdr) (b : Hdr),
    Anc c new b → b.number + k ≤ new.number → ∃ r, descend c new acc k = some r := by
  induction k with
  | zero => intro new acc b _ _; exact ⟨_, rfl⟩
  | succ k ih =>
    intro new acc b hb hle
    obtain ⟨p, hp, hpb⟩ := hb.lower hk (by omega)
    simp only [descend, hp]
    have := (parentOf_spec hk hp).2.1
    exact ih p (new :: acc) b hpb (by omega)


/-! ### everything about chains depends on the header index only -/

theorem parentOf_congr {c1 c2 : Client} (h : c1.idx = c2.idx) (x : Hdr) : parentOf c1 x = parentOf c2 x := by
  unfold parentOf; rw [h]

theorem Anc.congr {c1 c2 : Client} (h : c1.idx = c2.idx) {x a : Hdr} (ha : Anc c1 x a) : Anc c2 x a := by
  induction ha with
  | refl => exact Anc.refl _
  | step hp _ ih => exact Anc.step (by rw [← parentOf_congr h]; exact hp) ih

theorem IsPath.congr {c1 c2 : Client} (h : c1.idx = c2.idx) : ∀ {lo : Hdr} {l : List Hdr}, IsPath c1 lo l → IsPath c2 lo l
  | _, [], _ => trivial
  | _, _ :: _, hp => ⟨by rw [← parentOf_congr h]; exact hp.1, IsPath.congr h hp.2⟩

/-! ### second loop -/

theorem meet_spec {c : Client} (hk : KeysOk c) (f : Nat) : ∀ (cur new : Hdr) (acc : List Hdr) (n2 : Hdr) (acc2 : List Hdr),
    IsPath c new acc → cur.number = new.number → meet c cur new acc f = some (n2, acc2) →
    ∃ cur2, IsPath c n2 acc2 ∧ lastOf n2 acc2 = lastOf new acc ∧ Anc c cur cur2 ∧ Anc c new n2 ∧
      cur2.number = n2.number ∧ cur2.parent = n2.parent := by
  induction f with
  | zero =>
    intro cur new acc n2 acc2 hp hn hm
    simp only [meet] at hm
    split at hm
    · rename_i heq
      simp only [Option.some.injEq, Prod.mk.injEq] at hm
      obtain ⟨rfl, rfl⟩ := hm
      exact ⟨cur, hp, rfl, Anc.refl _, Anc.refl _, hn, by simpa using heq⟩
    · cases hm
  | succ f ih =>
    intro cur new acc n2 acc2 hp hn hm
    simp only [meet] at hm
    split at hm
    · rename_i heq
      simp only [Option.some.injEq, Prod.mk.injEq] at hm
      obtain ⟨rfl, rfl⟩ := hm
      exact ⟨cur, hp, rfl, Anc.refl _, Anc.refl _, hn, by simpa using heq⟩
    · cases hpn : parentOf c new with
      | none => rw [hpn] at hm; cases hm
      | some pn =>
        cases hpc : parentOf c cur with
        | none => rw [hpn, hpc] at hm; cases hm
        | some pc =>
          rw [hpn, hpc] at hm
          simp only at hm
          have e1 := (parentOf_spec hk hpn).2.1
          have e2 := (parentOf_spec hk hpc).2.1
          obtain ⟨cur2, h1, h2, h3, h4, h5, h6⟩ := ih pc pn (new :: acc) n2 acc2 ⟨hpn, hp⟩ (by omega) hm
          exact ⟨cur2, h1, by rw [h2]; rfl, Anc.step hpc h3, Anc.step hpn h4, h5, h6⟩

/-- the second loop terminates successfully when both headers descend from a common stored base -/
theorem meet_some {c : Client} (hk : KeysOk c) (b : Hdr) (f : Nat) : ∀ (cur new : Hdr) (acc : List Hdr),
    Anc c cur b → Anc c new b → cur.number = new.number → new.number ≤ b.number + f →
    ∃ r, meet c cur new acc f = some r := by
  induction f with
  | zero =>
    intro cur new acc hcb hnb hn hf
    -- both are at the base height: both are the base
    have h1 := hcb.number_le hk
    have h2 := hnb.number_le hk
    have ec : cur = b := Anc.unique hk (Anc.refl cur) hcb (by omega)
    have en : new = b := Anc.unique hk (Anc.refl new) hnb (by omega)
    simp [meet, ec, en]
  | succ f ih =>
    intro cur new acc hcb hnb hn hf
    simp only [meet]
    split
    · exact ⟨_, rfl⟩
    · rename_i hne
      by_cases hb : new.number = b.number
      · have h1 := hcb.number_le hk
        have ec : cur = b := Anc.unique hk (Anc.refl cur) hcb (by omega)
        have en : new = b := Anc.unique hk (Anc.refl new) hnb (by omega)
        rw [ec, en] at hne
        simp at hne
      · have h2 := hnb.number_le hk
        obtain ⟨pn, hpn, hpnb⟩ := hnb.lower hk (by omega)
        obtain ⟨pc, hpc, hpcb⟩ := hcb.lower hk (by omega)
        simp only [hpn, hpc]
        have e1 := (parentOf_spec hk hpn).2.1
        have e2 := (parentOf_spec hk hpc).2.1
        exact ih pc pn (new :: acc) hpcb hpnb (by omega) (by omega)

/-! ### third loop -/

theorem rewrite_spec (l : List Hdr) : ∀ (c : Client) (lo : Hdr) (height : Nat), KeysOk c →
    IsPath c lo l → (∀ x ∈ lo :: l, Stored c x) → lo.number = height →
    ∃ c', rewrite c (lo :: l) height = some c' ∧
      c'.idx = c.idx ∧ c'.rootMain = c.rootMain ∧ c'.latest = c.latest ∧ c'.period = c.period ∧
      (∀ x ∈ lo :: l, c'.cons x.number = some (consOf x)) ∧
      (∀ n, n < lo.number → c'.cons n = c.cons n) ∧ (∀ n, n > (lastOf lo l).number → c'.cons n = c.cons n) := by
  induction l with
  | nil =>
    intro c lo height _ _ hs hn
    have hlo : c.idx (lo.hash, height) = some lo := by rw [← hn]; exact hs lo (by simp)
    refine ⟨{ c with cons := upd c.cons height (some (consOf lo)), heights := insertHeight height c.heights },
      by simp only [rewrite, hlo], rfl, rfl, rfl, rfl, ?_, ?_, ?_⟩
    · intro x hx; simp only [List.mem_singleton] at hx; subst hx; simp [upd, hn]
    · intro n hlt; simp only [upd]; split
      · omega
      · rfl
    · intro n hgt; simp only [lastOf] at hgt; simp only [upd]; split
      · omega
      · rfl
  | cons x rest ih =>
    intro c lo height hk hp hs hn
    have hlo : c.idx (lo.hash, height) = some lo := by rw [← hn]; exact hs lo (by simp)
    have hxn := (parentOf_spec hk hp.1).2.1
    let c1 : Client := { c with cons := upd c.cons height (some (consOf lo)), heights := insertHeight height c.heights }
    have hidx : c1.idx = c.idx := rfl
    have hk1 : KeysOk c1 := hk
    obtain ⟨c', hr, h1, h2, h3, h4, h5, h6, h7⟩ := ih c1 x (height + 1) hk1 (IsPath.congr hidx.symm hp.2)
      (fun y hy => hs y (List.mem_cons_of_mem _ hy)) (by omega)
    refine ⟨c', ?_, h1, h2, h3, h4, ?_, ?_, ?_⟩
    · simp only [rewrite, hlo]; exact hr
    · intro y hy
      rcases List.mem_cons.mp hy with rfl | hy
      · rw [h6 y.number (by omega)]; simp [c1, upd, hn]
      · exact h5 y hy
    · intro n hlt
      rw [h6 n (by omega)]
      simp only [c1, upd]; split
      · omega
      · rfl
    · intro n hgt
      simp only [lastOf] at hgt
      rw [h7 n hgt]
      have : (lastOf x rest).number ≥ x.number := (IsPath.anc hp.2).number_le hk
      simp only [c1, upd]; split
      · omega
      · rfl


theorem Anc.between {c : Client} (hk : KeysOk c) {x a y : Hdr} (ha : Anc c x a) (hy : Anc c x y)
    (hle : a.number ≤ y.number) : Anc c y a := by
  obtain ⟨y', h1, h2, h3⟩ := ha.exists_at hk y.number hle (hy.number_le hk)
  have : y' = y := Anc.unique hk h1 hy h2
  rw [← this]; exact h3

theorem IsPath.covers {c : Client} (hk : KeysOk c) : ∀ {lo : Hdr} {l : List Hdr}, IsPath c lo l → ∀ n,
    lo.number ≤ n → n ≤ (lastOf lo l).number → ∃ y ∈ lo :: l, y.number = n
  | lo, [], _, n, h1, h2 => ⟨lo, by simp, by simp only [lastOf] at h2; omega⟩
  | lo, x :: rest, hp, n, h1, h2 => by
    have hx := (parentOf_spec hk hp.1).2.1
    by_cases hn : n = lo.number
    · exact ⟨lo, by simp, hn.symm⟩
    · obtain ⟨y, hy, hyn⟩ := IsPath.covers hk hp.2 n (by omega) h2
      exact ⟨y, List.mem_cons_of_mem _ hy, hyn⟩

/-! ### adding a header to the index -/

/-- the new header collides with nothing stored: its hash is new, nobody names it as parent yet,
    and no stored header of its height has its state root -/
def Fresh (c : Client) (h : Hdr) : Prop :=
  ∀ k n x, c.idx (k, n) = some x → x.hash ≠ h.hash ∧ x.parent ≠ h.hash ∧ (x.number = h.number → x.root ≠ h.root)

theorem index_keys {c : Client} (hk : KeysOk c) (h : Hdr) : KeysOk (index c h) := by
  intro k n x hx
  simp only [index, upd] at hx
  split at hx
  · rename_i heq
    simp only [Option.some.injEq] at hx
    subst hx
    simp only [Prod.mk.injEq] at heq
    exact ⟨heq.1.symm, heq.2.symm⟩
  · exact hk k n x hx

theorem index_stored_old {c : Client} {h x : Hdr} (hf : Fresh c h) (hx : Stored c x) : Stored (index c h) x := by
  unfold Stored at *
  simp only [index, upd]
  split
  · rename_i heq
    simp only [Prod.mk.injEq] at heq
    exact absurd heq.1 (hf _ _ _ hx).1
  · exact hx

theorem index_stored_new (c : Client) (h : Hdr) : Stored (index c h) h := by
  unfold Stored; simp [index, upd]

theorem index_idx_cases {c : Client} {h : Hdr} {k : String} {n : Nat} {x : Hdr} (hx : (index c h).idx (k, n) = some x) :
    x = h ∨ c.idx (k, n) = some x := by
  simp only [index, upd] at hx
  split at hx
  · left; simpa using hx.symm
  · right; exact hx

theorem index_parentOf_old {c : Client} {h x : Hdr} (hne : x.parent ≠ h.hash) : parentOf (index c h) x = parentOf c x := by
  unfold parentOf
  split
  · rfl
  · simp only [index, upd]
    split
    · rename_i heq
      simp only [Prod.mk.injEq] at heq
      exact absurd heq.1 hne
    · rfl

theorem index_parentOf_new (c : Client) (h : Hdr) : parentOf (index c h) h = parentOf c h := by
  unfold parentOf
  split
  · rfl
  · rename_i h0
    have h0' : h.number ≠ 0 := by simpa using h0
    simp only [index, upd]
    split
    · rename_i heq
      simp only [Prod.mk.injEq] at heq
      omega
    · rfl

theorem index_anc_old {c : Client} (hk : KeysOk c) {h x a : Hdr} (hf : Fresh c h) (hx : Stored c x) :
    Anc (index c h) x a ↔ Anc c x a := by
  constructor
  · intro ha
    induction ha with
    | refl => exact Anc.refl _
    | @step x p a hp _ ih =>
      have hne : x.parent ≠ h.hash := (hf _ _ _ hx).2.1
      rw [index_parentOf_old hne] at hp
      exact Anc.step hp (ih (parentOf_spec hk hp).2.2.2)
  · intro ha
    induction ha with
    | refl => exact Anc.refl _
    | @step x p a hp _ ih =>
      have hne : x.parent ≠ h.hash := (hf _ _ _ hx).2.1
      exact Anc.step (by rw [index_parentOf_old hne]; exact hp) (ih (parentOf_spec hk hp).2.2.2)

theorem index_rootMain_old {c : Client} {h x : Hdr} (hf : Fresh c h) (hx : Stored c x) :
    (index c h).rootMain (x.root, x.number) = c.rootMain (x.root, x.number) := by
  simp only [index, upd]
  split
  · rename_i heq
    simp only [Prod.mk.injEq] at heq
    exact absurd heq.1 ((hf _ _ _ hx).2.2 heq.2)
  · rfl

end Tibc.ETH
