import Tibc.World
/-
  A concrete history (definitions only; the theorems about it are in Props/C04, C05, C06).

  Chain A sends a token to chain C *directly*. It is delivered to C (voucher minted, success
  acknowledgement). The same committed packet is then presented to a third chain B with the
  relay field set to B; B has no routing rule for it and records an error acknowledgement. The
  packet commitment binds neither the port nor the relay chain (C13), so A — shown the packet
  with relay = B and B's acknowledgement — verifies it against its client of B, deletes the
  commitment and refunds the sender.  Replayed on the real chains by the `nft` / `mt` streams
  (scenario `relay-edit-after-delivery`; known findings F-C04-relayedit, F-C05-relayedit,
  F-C06-relayedit).
-/
namespace Tibc.RelayEdit
open Tibc Core

/-- a toy digest that keeps the payload kinds apart (no string arithmetic, so that the kernel
    can evaluate it) -/
def exH : Data → Digest := fun d =>
  match d with
  | .raw s => s
  | .nft _ => "nft"
  | .mt _ => "mt"
  | .ackErr e => e
  | .ackOk e => e

def clients : List Op :=
  [.createClient "A" "B" 5 100 1000, .createClient "B" "A" 5 100 1000, .createClient "C" "A" 5 100 1000,
   .createClient "A" "C" 5 100 1000]

/-- hex("unauthorized"): the text of the error acknowledgement a relay chain writes when no
    routing rule admits the packet -/
def refusal : Data := .ackErr "756e617574686f72697a6564"

/-! NFT -/
def nd : NftData := { cls := "dog".toList, id := "rex".toList, uri := "uri", sender := "alice", receiver := "carol", away := true, destContract := "" }
def pkt : Packet := { seq := 1, src := "A", dst := "C", relay := "", port := "NFT", data := .nft nd }
def pktB : Packet := { pkt with relay := "B" }

def nftHistory : List Op :=
  clients ++
  [.nftIssue "A" "alice" "dog".toList false,
   .nftMint "A" "alice" "dog".toList "rex".toList "uri" "alice",
   .tx "A" (.nftTransfer "dog".toList "rex".toList "alice" "carol" "C" "" ""),
   .update "C" "A" 9 110, .update "B" "A" 9 110,
   -- honest delivery to the destination
   .tx "C" (.recvPacket pkt (.honest "A" 9 (.commit pkt.key)) 9 ""),
   -- the same packet shown to B as if B were its relay chain
   .tx "B" (.recvPacket pktB (.honest "A" 9 (.commit pkt.key)) 9 ""),
   .update "A" "B" 9 120,
   -- B's refusal proven to A
   .tx "A" (.acknowledgement pktB refusal (.honest "B" 9 (.ack pkt.key)) 9)]

def nftWorld : World := run exH id World.init nftHistory

/-! MT -/
def md : MtData := { cls := "gold".toList, id := "bar".toList, data := "", sender := "alice", receiver := "carol", away := true, destContract := "", amount := 4 }
def mpkt : Packet := { seq := 1, src := "A", dst := "C", relay := "", port := "MT", data := .mt md }
def mpktB : Packet := { mpkt with relay := "B" }

def mtHistory : List Op :=
  clients ++
  [.mtIssue "A" "alice" "gold".toList,
   .mtMint "A" "alice" "gold".toList "bar".toList true 9 "alice",
   .tx "A" (.mtTransfer "gold".toList "bar".toList "alice" "carol" "C" "" "" 4 ""),
   .update "C" "A" 9 110, .update "B" "A" 9 110,
   .tx "C" (.recvPacket mpkt (.honest "A" 9 (.commit mpkt.key)) 9 ""),
   .tx "B" (.recvPacket mpktB (.honest "A" 9 (.commit mpkt.key)) 9 ""),
   .update "A" "B" 9 120,
   .tx "A" (.acknowledgement mpktB refusal (.honest "B" 9 (.ack mpkt.key)) 9)]

def mtWorld : World := run exH id World.init mtHistory

/-! Port edit (F-C05-portedit): the multi-token packet is delivered to C with `port := "NFT"`;
    the NFT application decodes the payload (same protobuf layout) and mints an NFT voucher. -/
def mpktNft : Packet := { mpkt with port := "NFT" }

def portHistory : List Op :=
  clients ++
  [.mtIssue "A" "alice" "gold".toList,
   .mtMint "A" "alice" "gold".toList "bar".toList true 9 "alice",
   .tx "A" (.mtTransfer "gold".toList "bar".toList "alice" "carol" "C" "" "" 4 ""),
   .update "C" "A" 9 110,
   .tx "C" (.recvPacket mpktNft (.honest "A" 9 (.commit mpkt.key)) 9 ""),
   .update "A" "C" 9 120,
   .tx "A" (.acknowledgement mpkt (.ackOk "01") (.honest "C" 9 (.ack mpkt.key)) 9)]

def portWorld : World := run exH id World.init portHistory

/-- results of every step of a history -/
def results (ops : List Op) : List Res :=
  (ops.foldl (fun (acc : World × List Res) op => let r := step exH id acc.1 op; (r.1, acc.2 ++ [r.2])) (World.init, [])).2

end Tibc.RelayEdit
