import Tibc.App.ClassPath
/-
  Lemmas about `splitOnChar` / `joinWith` (Go `strings.Split` / `strings.Join`).
-/
namespace Tibc

theorem splitOnChar_ne_nil (sep : Char) (s : Str) : splitOnChar sep s ≠ [] := by
  induction s with
  | nil => simp [splitOnChar]
  | cons c cs ih =>
    unfold splitOnChar
    split
    · simp
    · split
      · simp
      · simp

/-- `strings.Join(strings.Split(s, sep), sep) == s` -/
theorem join_split (sep : Char) (s : Str) : joinWith sep (splitOnChar sep s) = s := by
  induction s with
  | nil => simp [splitOnChar, joinWith]
  | cons c cs ih =>
    unfold splitOnChar
    split
    · rename_i h
      subst h
      cases hs : splitOnChar c cs with
      | nil => exact absurd hs (splitOnChar_ne_nil _ _)
      | cons f fs =>
        rw [hs] at ih
        simp only [joinWith]
        rw [ih]; rfl
    · cases hs : splitOnChar sep cs with
      | nil => exact absurd hs (splitOnChar_ne_nil _ _)
      | cons f fs =>
        rw [hs] at ih
        simp only
        cases fs with
        | nil => simp only [joinWith] at ih ⊢; rw [ih]
        | cons g gs => simp only [joinWith] at ih ⊢; rw [← ih]; rfl

/-- a string without the separator is a single field -/
theorem split_nosep (sep : Char) (a : Str) (h : sep ∉ a) : splitOnChar sep a = [a] := by
  induction a with
  | nil => simp [splitOnChar]
  | cons c cs ih =>
    have hc : c ≠ sep := fun e => h (by simp [e])
    have hcs : sep ∉ cs := fun e => h (by simp [e])
    unfold splitOnChar
    simp only [hc, if_false]
    rw [ih hcs]

/-- splitting `a ++ sep :: b` when `a` is free of the separator -/
theorem split_append (sep : Char) (a b : Str) (h : sep ∉ a) :
    splitOnChar sep (a ++ sep :: b) = a :: splitOnChar sep b := by
  induction a with
  | nil => simp [splitOnChar]
  | cons c cs ih =>
    have hc : c ≠ sep := fun e => h (by simp [e])
    have hcs : sep ∉ cs := fun e => h (by simp [e])
    show splitOnChar sep (c :: (cs ++ sep :: b)) = _
    simp only [splitOnChar, hc, if_false]
    rw [ih hcs]

/-- `strings.Split(strings.Join(parts, sep), sep) == parts` when no part contains the separator -/
theorem split_join (sep : Char) (parts : List Str) (hne : parts ≠ []) (h : ∀ x ∈ parts, sep ∉ x) :
    splitOnChar sep (joinWith sep parts) = parts := by
  induction parts with
  | nil => exact absurd rfl hne
  | cons x rest ih =>
    cases rest with
    | nil => simp only [joinWith]; exact split_nosep sep x (h x (by simp))
    | cons y ys =>
      simp only [joinWith]
      rw [split_append sep x _ (h x (by simp))]
      rw [ih (by simp) (fun z hz => h z (by simp [hz]))]

/-- every field produced by a split is free of the separator -/
theorem split_field_nosep (sep : Char) (s : Str) (f : Str) (h : f ∈ splitOnChar sep s) : sep ∉ f := by
  induction s generalizing f with
  | nil => simp [splitOnChar] at h; subst h; simp
  | cons c cs ih =>
    simp only [splitOnChar] at h
    split at h
    · simp only [List.mem_cons] at h
      rcases h with rfl | h
      · simp
      · exact ih f h
    · rename_i hc
      cases hs : splitOnChar sep cs with
      | nil => exact absurd hs (splitOnChar_ne_nil _ _)
      | cons g gs =>
        rw [hs] at h ih
        simp only [List.mem_cons] at h
        rcases h with rfl | h
        · intro hm
          simp only [List.mem_cons] at hm
          rcases hm with e | hm
          · exact hc e.symm
          · exact ih g (by simp) hm
        · exact ih f (by simp [h])

theorem contains_iff_mem (s : Str) (c : Char) : s.contains c = true ↔ c ∈ s := by
  simp [List.contains_iff_mem]

end Tibc
