import Tibc.Lemmas.Eth
/- The one-chain invariant of the ETH client model and its preservation by an accepted header
   (no pruning in this step). -/
namespace Tibc.ETH

/-- well-formedness of the client store + the one-chain clause, relative to the trusted header `b` -/
structure Inv (c : Client) (b : Hdr) : Prop where
  keys    : KeysOk c
  latest  : Stored c c.latest
  roots   : ∀ k n x, c.idx (k, n) = some x → c.rootMain (x.root, x.number) = some (x.hash, x.number)
  hashinj : ∀ k n x k' n' y, c.idx (k, n) = some x → c.idx (k', n') = some y → x.hash = y.hash → x = y
  desc    : ∀ k n x, c.idx (k, n) = some x → Anc c x b
  /-- the consensus states exposed for heights up to the latest header are its ancestors' -/
  main    : ∀ a, Anc c c.latest a → c.cons a.number = some (consOf a)

/-- index the header, rewrite the main chain if it does not extend the latest header, make it the
    latest header and expose its consensus state (`CheckHeaderAndUpdateState` after validity check
    and pruning, plus the keeper's writes) -/
def applyHeader (c : Client) (h : Hdr) : Option Client :=
  let c2 := index c h
  let c3 := if c.latest.hash == h.parent then some c2 else restrict c2 c.latest h
  c3.map (fun c3 => { c3 with latest := h, cons := upd c3.cons h.number (some (consOf h)),
                              heights := insertHeight h.number c3.heights })

/-- the store-level part of the invariant after any state `c3` that shares index and root index
    with `index c h` -/
theorem inv_store {c : Client} {b h p : Hdr} (hi : Inv c b) (hf : Fresh c h)
    (hpar : parentOf c h = some p) (c' : Client)
    (hidx : c'.idx = (index c h).idx) (hrm : c'.rootMain = (index c h).rootMain) (hl : c'.latest = h) :
    KeysOk c' ∧ Stored c' c'.latest ∧
    (∀ k n x, c'.idx (k, n) = some x → c'.rootMain (x.root, x.number) = some (x.hash, x.number)) ∧
    (∀ k n x k' n' y, c'.idx (k, n) = some x → c'.idx (k', n') = some y → x.hash = y.hash → x = y) ∧
    (∀ k n x, c'.idx (k, n) = some x → Anc c' x b) := by
  have hk2 : KeysOk (index c h) := index_keys hi.keys h
  have hk' : KeysOk c' := by intro k n x hx; rw [hidx] at hx; exact hk2 k n x hx
  have hps := parentOf_spec hi.keys hpar
  have hpar2 : parentOf (index c h) h = some p := by rw [index_parentOf_new]; exact hpar
  have hancp : Anc (index c h) p b := (index_anc_old hi.keys hf hps.2.2.2).mpr (hi.desc _ _ _ hps.2.2.2)
  refine ⟨hk', ?_, ?_, ?_, ?_⟩
  · unfold Stored; rw [hl, hidx]; exact index_stored_new c h
  · intro k n x hx
    rw [hidx] at hx
    rw [hrm]
    rcases index_idx_cases hx with ex | hx
    · rw [ex]; simp [index, upd]
    · have hsx := stored_of_idx hi.keys hx
      rw [index_rootMain_old hf hsx]
      exact hi.roots _ _ _ hx
  · intro k n x k' n' y hx hy hxy
    rw [hidx] at hx hy
    rcases index_idx_cases hx with ex | hx
    · rcases index_idx_cases hy with ey | hy
      · rw [ex, ey]
      · rw [ex] at hxy; exact absurd hxy.symm (hf _ _ _ hy).1
    · rcases index_idx_cases hy with ey | hy
      · rw [ey] at hxy; exact absurd hxy (hf _ _ _ hx).1
      · exact hi.hashinj _ _ _ _ _ _ hx hy hxy
  · intro k n x hx
    rw [hidx] at hx
    apply Anc.congr hidx.symm
    rcases index_idx_cases hx with ex | hx
    · rw [ex]; exact Anc.step hpar2 hancp
    · have hsx := stored_of_idx hi.keys hx
      exact (index_anc_old hi.keys hf hsx).mpr (hi.desc _ _ _ hx)


/-- what the main-chain rewrite achieves, given a start header on the old chain -/
theorem restrict_spec {c2 : Client} (hk : KeysOk c2) {b old h cur : Hdr}
    (hsh : Stored c2 h) (hhb : Anc c2 h b)
    (hstart : startOf c2 old h = some cur) (hoc : Anc c2 old cur) (hcb : Anc c2 cur b) (hcn : cur.number ≤ h.number) :
    ∃ c3 n2 acc2 cur2, restrict c2 old h = some c3 ∧ c3.idx = c2.idx ∧ c3.rootMain = c2.rootMain ∧
      IsPath c2 n2 acc2 ∧ lastOf n2 acc2 = h ∧ Anc c2 old cur2 ∧ cur2.number = n2.number ∧ cur2.parent = n2.parent ∧
      Anc c2 h n2 ∧ (∀ x ∈ n2 :: acc2, c3.cons x.number = some (consOf x)) ∧ (∀ n, n < n2.number → c3.cons n = c2.cons n) := by
  have hbn := hcb.number_le hk
  -- first loop
  obtain ⟨⟨n1, acc1⟩, hd⟩ := descend_some hk (h.number - cur.number) h [] b hhb (by omega)
  obtain ⟨hp1, hl1, ha1, hn1⟩ := descend_spec (h.number - cur.number) h [] n1 acc1 trivial hd
  have hn1' := hn1 hk
  have hn1c : cur.number = n1.number := by omega
  have hn1b : Anc c2 n1 b := Anc.between hk hhb ha1 (by omega)
  -- second loop
  obtain ⟨⟨n2, acc2⟩, hm⟩ := meet_some hk b n1.number cur n1 acc1 hcb hn1b hn1c (by omega)
  obtain ⟨cur2, hp2, hl2, hc2, ha2, hnum2, hpar2⟩ := meet_spec hk n1.number cur n1 acc1 n2 acc2 hp1 hn1c hm
  have hlast : lastOf n2 acc2 = h := by rw [hl2, hl1]; rfl
  -- third loop
  have hstored : ∀ x ∈ n2 :: acc2, Stored c2 x := by
    intro x hx
    have := IsPath.mem_anc hp2 x hx
    rw [hlast] at this
    exact this.stored hk hsh
  obtain ⟨c3, hr, h1, h2, _, _, h5, h6, _⟩ := rewrite_spec acc2 c2 n2 n2.number hk hp2 hstored rfl
  refine ⟨c3, n2, acc2, cur2, ?_, h1, h2, hp2, hlast, hoc.trans hc2, hnum2, hpar2, ha1.trans ha2, h5, h6⟩
  unfold restrict
  simp only [hstart, hd, hm]
  exact hr

/-- **An accepted header keeps the client on one chain** (no consensus state is pruned in this
    step): the store stays well-formed, every stored header still descends from the trusted header,
    and the consensus states exposed for heights up to the new latest header are exactly its
    ancestors' — whether the header extends the latest one or switches to a fork of any depth.
    Also: the main-chain rewrite cannot fail. -/
theorem applyHeader_inv {c : Client} {b h p : Hdr} (hi : Inv c b) (hf : Fresh c h) (hpar : parentOf c h = some p) :
    ∃ c', applyHeader c h = some c' ∧ Inv c' b ∧ c'.latest = h := by
  have hk := hi.keys
  have hk2 : KeysOk (index c h) := index_keys hk h
  have hps := parentOf_spec hk hpar
  have hpar2 : parentOf (index c h) h = some p := by rw [index_parentOf_new]; exact hpar
  have hpst : Stored c p := hps.2.2.2
  -- common final step: from a state `c3` sharing the indexes, whose consensus states are right
  have finish : ∀ (c3 : Client), c3.idx = (index c h).idx → c3.rootMain = (index c h).rootMain →
      (∀ a, Anc (index c h) h a → a.number < h.number → c3.cons a.number = some (consOf a)) →
      Inv { c3 with latest := h, cons := upd c3.cons h.number (some (consOf h)), heights := insertHeight h.number c3.heights } b := by
    intro c3 hidx hrm hcons
    obtain ⟨s1, s2, s3, s4, s5⟩ := inv_store hi hf hpar
      { c3 with latest := h, cons := upd c3.cons h.number (some (consOf h)), heights := insertHeight h.number c3.heights }
      hidx hrm rfl
    refine ⟨s1, s2, s3, s4, s5, ?_⟩
    intro a ha
    have ha2 : Anc (index c h) h a :=
      @Anc.congr { c3 with latest := h, cons := upd c3.cons h.number (some (consOf h)), heights := insertHeight h.number c3.heights }
        (index c h) hidx h a ha
    simp only [upd]
    split
    · rename_i heq
      have : a = h := Anc.unique hk2 ha2 (Anc.refl h) heq
      rw [this]
    · rename_i hne
      have hle := ha2.number_le hk2
      exact hcons a ha2 (by omega)
  unfold applyHeader
  by_cases hext : (c.latest.hash == h.parent) = true
  · -- the header extends the latest header
    simp only [hext, if_true, Option.map_some]
    refine ⟨_, rfl, ?_, rfl⟩
    apply finish (index c h) rfl rfl
    intro a ha hlt
    obtain ⟨p', hp', hr⟩ := ha.lower hk2 hlt
    rw [hpar2] at hp'
    cases hp'
    have hr' : Anc c p a := (index_anc_old hk hf hpst).mp hr
    have hpl : p = c.latest := by
      have := hi.latest
      unfold Stored at this hpst
      exact hi.hashinj _ _ _ _ _ _ hpst this (by rw [hps.2.2.1]; exact (by simpa using hext : c.latest.hash = h.parent).symm)
    rw [hpl] at hr'
    show (index c h).cons a.number = some (consOf a)
    exact hi.main a hr'
  · -- the header is on another branch: main-chain rewrite
    have hext' : (c.latest.hash == h.parent) = false := by simpa using hext
    simp only [hext', Bool.false_eq_true, if_false]
    have hso : Stored c c.latest := hi.latest
    have hob : Anc c c.latest b := by unfold Stored at hso; exact hi.desc _ _ _ hso
    have hob2 : Anc (index c h) c.latest b := (index_anc_old hk hf hso).mpr hob
    have hpb2 : Anc (index c h) p b := (index_anc_old hk hf hpst).mpr (by unfold Stored at hpst; exact hi.desc _ _ _ hpst)
    have hhb2 : Anc (index c h) h b := Anc.step hpar2 hpb2
    have hbp := hpb2.number_le hk2
    -- the start header
    have hst : ∃ cur, startOf (index c h) c.latest h = some cur ∧ Anc (index c h) c.latest cur ∧ cur.number ≤ h.number := by
      unfold startOf
      by_cases hgt : c.latest.number > h.number
      · simp only [hgt, if_true]
        obtain ⟨m, hm1, hm2, _⟩ := hob.exists_at hk h.number (by omega) (by omega)
        have hms : Stored c m := hm1.stored hk hso
        have hcm : (index c h).cons h.number = some (consOf m) := by
          show c.cons h.number = some (consOf m)
          rw [← hm2]; exact hi.main m hm1
        have hrm : (index c h).rootMain ((consOf m).root, h.number) = some (m.hash, m.number) := by
          show (index c h).rootMain (m.root, h.number) = _
          rw [← hm2, index_rootMain_old hf hms]
          exact hi.roots _ _ _ (by unfold Stored at hms; exact hms)
        refine ⟨m, ?_, (index_anc_old hk hf hso).mpr hm1, by omega⟩
        simp only [hcm, hrm]
        exact index_stored_old hf hms
      · simp only [hgt, if_false]
        exact ⟨c.latest, rfl, Anc.refl _, by omega⟩
    obtain ⟨cur, hstart, hoc, hcn⟩ := hst
    have hcb : Anc (index c h) cur b := Anc.between hk2 hob2 hoc (by
      have := hoc.stored hk2 (index_stored_old hf hso)
      -- cur is stored, hence descends from b in c; its number is at least b's
      have hcs : Stored c cur ∨ cur = h := by
        unfold Stored at this
        rcases index_idx_cases this with e | e
        · right; exact e
        · left; exact stored_of_idx hk e
      rcases hcs with hcs | hcs
      · exact (by unfold Stored at hcs; exact (hi.desc _ _ _ hcs).number_le hk)
      · rw [hcs]; omega)
    obtain ⟨c3, n2, acc2, cur2, hres, hidx, hrm, hp2, hlast, hoc2, hnum2, hparent2, hhn2, hcons, hbelow⟩ :=
      restrict_spec hk2 (index_stored_new c h) hhb2 hstart hoc hcb hcn
    simp only [hres, Option.map_some]
    refine ⟨_, rfl, ?_, rfl⟩
    apply finish c3 hidx hrm
    intro a ha hlt
    by_cases hge : n2.number ≤ a.number
    · -- on the rewritten part of the new branch
      have hlastn : (lastOf n2 acc2).number = h.number := by rw [hlast]
      obtain ⟨y, hy, hyn⟩ := IsPath.covers hk2 hp2 a.number hge (by rw [hlastn]; exact ha.number_le hk2)
      have hya : Anc (index c h) h y := by have := IsPath.mem_anc hp2 y hy; rw [hlast] at this; exact this
      have : a = y := Anc.unique hk2 ha hya hyn.symm
      rw [this]; exact hcons y hy
    · -- below the fork point: shared with the old main chain
      have hlt2 : a.number < n2.number := by omega
      have han2 : Anc (index c h) n2 a := Anc.between hk2 ha hhn2 (by omega)
      obtain ⟨q, hq, hqa⟩ := han2.lower hk2 hlt2
      have hq2 : parentOf (index c h) cur2 = some q := by
        unfold parentOf at hq ⊢
        rw [hnum2, hparent2]; exact hq
      have hoa : Anc (index c h) c.latest a := hoc2.trans (Anc.step hq2 hqa)
      have hoa' : Anc c c.latest a := (index_anc_old hk hf hso).mp hoa
      rw [hbelow a.number hlt2]
      show c.cons a.number = some (consOf a)
      exact hi.main a hoa'

end Tibc.ETH
