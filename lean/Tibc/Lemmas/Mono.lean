import Tibc.Lemmas.Msg
/-
  What no packet-keeper primitive ever does: the clean point never decreases, a receipt
  disappears only at or below the clean point, the ghost logs only grow, the chain's name and
  client registry are untouched.  Lifted to every message handler through `Prims.lift`.
-/
namespace Tibc
open Core

variable (H : Data → Digest)

structure Mono (s t : Core) : Prop where
  name : t.name = s.name
  clients : t.clients = s.clients
  rules : t.rules = s.rules
  clean : ∀ pr, s.ps.clean pr ≤ t.ps.clean pr
  receipt : ∀ k, s.ps.receipt k = true → t.ps.receipt k = true ∨ k.seq ≤ t.ps.clean k.pair
  sent : ∃ l, t.sent = s.sent ++ l
  ackLog : ∃ l, t.ackLog = s.ackLog ++ l
  evlog : ∃ l, t.evlog = s.evlog ++ l

theorem Mono.refl (s : Core) : Mono s s :=
  ⟨rfl, rfl, rfl, fun _ => Nat.le_refl _, fun _ h => Or.inl h, ⟨[], by simp⟩, ⟨[], by simp⟩, ⟨[], by simp⟩⟩

theorem Mono.trans {s t u : Core} (h1 : Mono s t) (h2 : Mono t u) : Mono s u := by
  refine ⟨h2.name.trans h1.name, h2.clients.trans h1.clients, h2.rules.trans h1.rules,
    fun pr => Nat.le_trans (h1.clean pr) (h2.clean pr), ?_, ?_, ?_, ?_⟩
  · intro k hk
    rcases h1.receipt k hk with h | h
    · exact h2.receipt k h
    · exact Or.inr (Nat.le_trans h (h2.clean _))
  · obtain ⟨l1, e1⟩ := h1.sent; obtain ⟨l2, e2⟩ := h2.sent
    exact ⟨l1 ++ l2, by rw [e2, e1, List.append_assoc]⟩
  · obtain ⟨l1, e1⟩ := h1.ackLog; obtain ⟨l2, e2⟩ := h2.ackLog
    exact ⟨l1 ++ l2, by rw [e2, e1, List.append_assoc]⟩
  · obtain ⟨l1, e1⟩ := h1.evlog; obtain ⟨l2, e2⟩ := h2.evlog
    exact ⟨l1 ++ l2, by rw [e2, e1, List.append_assoc]⟩

/-! atomic writes -/
theorem mono_emit (s : Core) (e : Event) : Mono s (s.emit e) :=
  ⟨rfl, rfl, rfl, fun _ => Nat.le_refl _, fun _ h => Or.inl h, ⟨[], by simp⟩, ⟨[], by simp⟩, ⟨[e], rfl⟩⟩
theorem mono_setCommit (s : Core) (k : PKey) (d : Digest) : Mono s (s.setCommit k d) :=
  ⟨rfl, rfl, rfl, fun _ => Nat.le_refl _, fun _ h => Or.inl h, ⟨[], by simp⟩, ⟨[], by simp⟩, ⟨[], by simp⟩⟩
theorem mono_delCommit (s : Core) (k : PKey) : Mono s (s.delCommit k) :=
  ⟨rfl, rfl, rfl, fun _ => Nat.le_refl _, fun _ h => Or.inl h, ⟨[], by simp⟩, ⟨[], by simp⟩, ⟨[], by simp⟩⟩
theorem mono_setAck (s : Core) (k : PKey) (d : Digest) : Mono s (s.setAck k d) :=
  ⟨rfl, rfl, rfl, fun _ => Nat.le_refl _, fun _ h => Or.inl h, ⟨[], by simp⟩, ⟨[], by simp⟩, ⟨[], by simp⟩⟩
theorem mono_setMaxAck (s : Core) (pr : Pair) (n : Nat) : Mono s (s.setMaxAck pr n) :=
  ⟨rfl, rfl, rfl, fun _ => Nat.le_refl _, fun _ h => Or.inl h, ⟨[], by simp⟩, ⟨[], by simp⟩, ⟨[], by simp⟩⟩
theorem mono_setNextSend (s : Core) (pr : Pair) (n : Nat) : Mono s (s.setNextSend pr n) :=
  ⟨rfl, rfl, rfl, fun _ => Nat.le_refl _, fun _ h => Or.inl h, ⟨[], by simp⟩, ⟨[], by simp⟩, ⟨[], by simp⟩⟩
theorem mono_setReceipt (s : Core) (k : PKey) : Mono s (s.setReceipt k) := by
  refine ⟨rfl, rfl, rfl, fun _ => Nat.le_refl _, ?_, ⟨[], by simp⟩, ⟨[], by simp⟩, ⟨[], by simp⟩⟩
  intro k' hk; left; simp only [setReceipt_receipt, upd_apply]; split <;> simp [hk]
theorem mono_addSent (s : Core) (x : PKey × Data) : Mono s { s with sent := s.sent ++ [x] } :=
  ⟨rfl, rfl, rfl, fun _ => Nat.le_refl _, fun _ h => Or.inl h, ⟨[x], rfl⟩, ⟨[], by simp⟩, ⟨[], by simp⟩⟩
theorem mono_addAckLog (s : Core) (x : PKey × Data) : Mono s { s with ackLog := s.ackLog ++ [x] } :=
  ⟨rfl, rfl, rfl, fun _ => Nat.le_refl _, fun _ h => Or.inl h, ⟨[], by simp⟩, ⟨[x], rfl⟩, ⟨[], by simp⟩⟩
theorem mono_setClean (s : Core) (pr : Pair) (n : Nat) (h : s.ps.clean pr ≤ n) : Mono s (s.setClean pr n) := by
  refine ⟨rfl, rfl, rfl, ?_, fun _ h => Or.inl h, ⟨[], by simp⟩, ⟨[], by simp⟩, ⟨[], by simp⟩⟩
  intro pr'; simp only [setClean_clean, upd_apply]; split
  · rename_i e; subst e; exact h
  · exact Nat.le_refl _
theorem mono_of_sameButAck {s t : Core} (h : SameButAck s t) : Mono s t :=
  ⟨h.name, h.clients, h.rules, fun pr => by rw [h.clean]; exact Nat.le_refl _,
   fun k hk => Or.inl (by rw [h.receipt]; exact hk), ⟨[], by simp [h.sent]⟩, ⟨[], by simp [h.ackLog]⟩, ⟨[], by simp [h.evlog]⟩⟩

/-- peel atomic writes off the outside of the goal state -/
macro "mono_peel" : tactic => `(tactic|
  repeat (first
    | exact Mono.refl _
    | refine Mono.trans ?_ (mono_emit _ _)
    | refine Mono.trans ?_ (mono_setCommit _ _ _)
    | refine Mono.trans ?_ (mono_delCommit _ _)
    | refine Mono.trans ?_ (mono_setAck _ _ _)
    | refine Mono.trans ?_ (mono_setMaxAck _ _ _)
    | refine Mono.trans ?_ (mono_setNextSend _ _ _)
    | refine Mono.trans ?_ (mono_setReceipt _ _)
    | refine Mono.trans ?_ (mono_addSent _ _)
    | refine Mono.trans ?_ (mono_addAckLog _ _)))

theorem mono_sendWrites (s : Core) (p : Packet) : Mono s (sendWrites H s p) := by
  unfold sendWrites; simp only; mono_peel

theorem mono_recvWrites (s : Core) (p : Packet) : Mono s (recvWrites H s p).1 := by
  unfold recvWrites
  simp only
  split
  · split
    · mono_peel
    · split <;> mono_peel
  · mono_peel

theorem mono_writeAckWrites (s : Core) (p : Packet) (a : Data) : Mono s (writeAckWrites H s p a) := by
  unfold writeAckWrites; simp only; mono_peel

theorem mono_ackWrites (s : Core) (p : Packet) (a : Data) : Mono s (ackWrites H s p a).1 := by
  unfold ackWrites
  simp only
  split
  · split <;> mono_peel
  · mono_peel

theorem cleanReceipts_noop (s : Core) (src dst : Chain) (n : Nat) (h : s.ps.clean ⟨src, dst⟩ = n) :
    cleanReceipts s src dst n = s := by
  unfold cleanReceipts; simp only [h, Nat.sub_self, cleanReceiptsFrom]

theorem mono_cleanWrites (s : Core) (cp : CleanPacket) (hok : CleanOk s cp) : Mono s (cleanWrites s cp) := by
  obtain ⟨_, ⟨hlt, _, _⟩, _⟩ := hok
  unfold cleanWrites
  simp only
  have hA := cleanAcks_same (s.setClean ⟨s.name, cp.dst⟩ cp.seq) s.name cp.dst cp.seq
  have hno : cleanReceipts (cleanAcks (s.setClean ⟨s.name, cp.dst⟩ cp.seq) s.name cp.dst cp.seq) s.name cp.dst cp.seq
      = cleanAcks (s.setClean ⟨s.name, cp.dst⟩ cp.seq) s.name cp.dst cp.seq := by
    apply cleanReceipts_noop
    rw [hA.clean]; simp
  show Mono s ((cleanReceipts (cleanAcks (s.setClean ⟨s.name, cp.dst⟩ cp.seq) s.name cp.dst cp.seq) s.name cp.dst cp.seq).emit _)
  rw [hno]
  refine Mono.trans ?_ (mono_emit _ _)
  refine Mono.trans ?_ (mono_of_sameButAck hA)
  exact mono_setClean s _ _ (Nat.le_of_lt hlt)

/-- deleting the receipts in `(cleanPoint, N]` and then moving the clean point to `N` -/
theorem mono_cleanReceipts_setClean (t : Core) (cp : CleanPacket) (hlt : t.ps.clean cp.pair < cp.seq) :
    Mono t ((cleanReceipts t cp.src cp.dst cp.seq).setClean cp.pair cp.seq) := by
  have hR := cleanReceipts_same t cp.src cp.dst cp.seq
  refine ⟨by simp [hR.name], by simp [hR.clients], ?_, ?_, ?_, ⟨[], by simp [hR.sent]⟩,
    ⟨[], by simp [hR.ackLog]⟩, ⟨[], by simp [hR.evlog]⟩⟩
  · show (cleanReceipts t cp.src cp.dst cp.seq).rules = t.rules
    exact hR.rules
  · intro pr
    simp only [setClean_clean, hR.clean, upd_apply]
    split
    · rename_i h; subst h; exact Nat.le_of_lt hlt
    · exact Nat.le_refl _
  · intro k hk
    simp only [setClean_receipt, setClean_clean, hR.clean]
    unfold cleanReceipts
    rw [cleanReceiptsFrom_receipt]
    by_cases hc : k.src = cp.src ∧ k.dst = cp.dst ∧ t.ps.clean ⟨cp.src, cp.dst⟩ + 1 ≤ k.seq ∧
        k.seq < t.ps.clean ⟨cp.src, cp.dst⟩ + 1 + (cp.seq - t.ps.clean ⟨cp.src, cp.dst⟩)
    · right
      obtain ⟨h1, h2, h3, h4⟩ := hc
      have e : k.pair = cp.pair := by simp [PKey.pair, CleanPacket.pair, h1, h2]
      rw [e, upd_same]
      have : t.ps.clean ⟨cp.src, cp.dst⟩ = t.ps.clean cp.pair := rfl
      omega
    · left; rw [if_neg hc]; exact hk

theorem mono_recvCleanWrites (s : Core) (cp : CleanPacket) (hok : CleanRangeOk s cp) :
    Mono s (recvCleanWrites s cp).1 := by
  obtain ⟨hlt, _, _⟩ := hok
  have hA := cleanAcks_same s cp.src cp.dst cp.seq
  have base : Mono s ((cleanReceipts (cleanAcks s cp.src cp.dst cp.seq) cp.src cp.dst cp.seq).setClean cp.pair cp.seq) := by
    refine Mono.trans (mono_of_sameButAck hA) (mono_cleanReceipts_setClean _ cp ?_)
    rw [hA.clean]; exact hlt
  unfold recvCleanWrites
  simp only
  split
  · split
    · exact Mono.trans base (mono_emit _ _)
    · exact Mono.trans (Mono.trans base (mono_emit _ _)) (mono_emit _ _)
  · exact Mono.trans base (mono_emit _ _)

/-- every primitive is monotone in this sense -/
theorem mono_prim {s t : Core} (h : Prim H s t) : Mono s t := by
  cases h with
  | send p =>
    rcases sendPacket_cases H s p with ⟨_, e⟩ | ⟨_, _, e⟩ <;> rw [e]
    · exact mono_sendWrites H s p
    · exact Mono.refl s
  | recv p π h =>
    rcases recvPacket_cases H s p π h with ⟨_, e⟩ | ⟨_, _, _, e⟩ <;> rw [e]
    · exact mono_recvWrites H s p
    · exact Mono.refl s
  | writeAck p a =>
    rcases writeAck_cases H s p a with ⟨_, e⟩ | ⟨_, _, e⟩ <;> rw [e]
    · exact mono_writeAckWrites H s p a
    · exact Mono.refl s
  | ack p a π h =>
    rcases acknowledgePacket_cases H s p a π h with ⟨_, e⟩ | ⟨_, _, e⟩ <;> rw [e]
    · exact mono_ackWrites H s p a
    · exact Mono.refl s
  | clean cp =>
    rcases cleanPacket_cases s cp with ⟨hok, e⟩ | ⟨_, _, e⟩ <;> rw [e]
    · exact mono_cleanWrites s cp hok
    · exact Mono.refl s
  | recvClean cp π h =>
    rcases recvCleanPacket_cases s cp π h with ⟨hok, e⟩ | ⟨_, _, e⟩ <;> rw [e]
    · exact mono_recvCleanWrites s cp ((validateClean_ok_iff s cp).mp hok.1)
    · exact Mono.refl s

theorem mono_prims {s t : Core} (h : Prims H s t) : Mono s t :=
  Prims.lift H Mono.refl (fun _ _ _ => Mono.trans) (fun _ _ => mono_prim H) h

end Tibc
