import Tibc.App.Transfer
import Tibc.Lemmas.ClassPath
/- Ownership effect of the two custody steps of the NFT transfer application (used by C04 and C06). -/
namespace Tibc
open ClassPath

variable (Hc : Str → Str)

theorem nftSendToken_owner (a : Apps) (cls id : Str) (sender : Addr) (away : Bool)
    (hok : (nftSendToken a cls id sender away).2 = .ok) :
    a.nft.owner (cls, id) = some sender ∧
    (nftSendToken a cls id sender away).1.nft.owner =
      upd a.nft.owner (cls, id) (if away then some nftModAddr else none) := by
  unfold nftSendToken at hok ⊢
  cases away with
  | true =>
    simp only [if_true] at hok ⊢
    unfold NftMod.transferOwner at hok ⊢
    cases ho : a.nft.owner (cls, id) with
    | none => simp [liftNft, ho] at hok
    | some o =>
      simp only [ho] at hok ⊢
      by_cases hs : o = sender
      · subst hs
        cases hd : a.nft.denom cls with
        | none => simp [liftNft, hd] at hok
        | some dn => simp [liftNft, hd]
      · simp [liftNft, hs] at hok
  | false =>
    simp only [Bool.false_eq_true, if_false] at hok ⊢
    unfold NftMod.burn at hok ⊢
    by_cases ho : a.nft.owner (cls, id) = some sender
    · cases hd : a.nft.denom cls with
      | none => simp [liftNft, ho, hd] at hok
      | some dn => simp [liftNft, ho, hd]
    · simp [liftNft, ho] at hok

theorem nftRecvBack_owner (a : Apps) (d : NftData)
    (hok : (nftRecvBack Hc a d).2 = .ok) :
    ∃ newPath, getBack d.cls = some newPath ∧
      a.nft.owner (ibcClass Hc newPath, d.id) = some nftModAddr ∧
      (nftRecvBack Hc a d).1.nft.owner = upd a.nft.owner (ibcClass Hc newPath, d.id) (some d.receiver) := by
  unfold nftRecvBack at hok ⊢
  cases hp : hasPrefix nftPfx d.cls with
  | false => simp [hp] at hok
  | true =>
    simp only [hp, Bool.not_true, Bool.false_eq_true, if_false] at hok ⊢
    cases hgb : getBack d.cls with
    | none => simp [hgb] at hok
    | some np =>
      simp only [hgb] at hok ⊢
      refine ⟨np, rfl, ?_⟩
      unfold NftMod.transferOwner at hok ⊢
      cases ho : a.nft.owner (ibcClass Hc np, d.id) with
      | none => simp [liftNft, ho] at hok
      | some o =>
        simp only [ho] at hok ⊢
        by_cases hs : o = nftModAddr
        · subst hs
          cases hd : a.nft.denom (ibcClass Hc np) with
          | none => simp [liftNft, hd] at hok
          | some dn => simp [liftNft, hd, bne_self_eq_false]
        · simp [liftNft, hs] at hok

end Tibc
