import Tibc.LC.Tendermint
/-
  The order-sensitive commit rule of cometbft's `VerifyCommitLight`, characterised.
-/
namespace Tibc.TM

/-- the commit entries that count (flag = commit), paired by index with the validator's power -/
def counted : List Val → List CSig → List (Nat × Bool)
  | v :: vs, s :: ss => if s.flag != .commit then counted vs ss else (v.power, s.sigOk) :: counted vs ss
  | _, _ => []

/-- the scan over counted entries -/
def scanC (needed : Nat) : List (Nat × Bool) → Nat → Bool
  | (p, ok) :: rest, tally =>
    if !ok then false else if tally + p > needed then true else scanC needed rest (tally + p)
  | [], _ => false

theorem scanByIndex_eq (needed : Nat) (vals : List Val) (commit : List CSig) (tally : Nat) :
    scanByIndex needed vals commit tally = scanC needed (counted vals commit) tally := by
  induction vals generalizing commit tally with
  | nil => cases commit <;> simp [scanByIndex, counted, scanC]
  | cons v vs ih =>
    cases commit with
    | nil => simp [scanByIndex, counted, scanC]
    | cons s ss =>
      unfold scanByIndex counted
      by_cases hf : (s.flag != Flag.commit) = true
      · simp only [hf, if_true]; exact ih ss tally
      · simp only [hf, if_false]
        unfold scanC
        by_cases hok : s.sigOk = true
        · simp only [hok, Bool.not_true, Bool.false_eq_true, if_false]
          by_cases ht : tally + v.power > needed
          · simp [ht]
          · simp only [ht, if_false]; exact ih ss (tally + v.power)
        · simp [hok]

def sumPow (l : List (Nat × Bool)) : Nat := (l.map (·.1)).foldl (· + ·) 0

theorem foldl_add_start (l : List Nat) (a : Nat) : l.foldl (· + ·) a = a + l.foldl (· + ·) 0 := by
  induction l generalizing a with
  | nil => simp
  | cons x xs ih => simp only [List.foldl_cons]; rw [ih (a + x), ih (0 + x)]; omega

theorem sumPow_cons (x : Nat × Bool) (l : List (Nat × Bool)) : sumPow (x :: l) = x.1 + sumPow l := by
  unfold sumPow; simp only [List.map_cons, List.foldl_cons]; rw [foldl_add_start]; omega

/-- **The rule.** The scan accepts iff some non-empty prefix of the counted entries consists of
    valid signatures only and carries more than `needed` voting power (on top of `tally`), and no
    shorter prefix already did — i.e. the *shortest* prefix that exceeds the threshold is all-valid. -/
theorem scanC_iff (needed : Nat) (l : List (Nat × Bool)) (tally : Nat) (ht : tally ≤ needed) :
    scanC needed l tally = true ↔
      ∃ k, 1 ≤ k ∧ k ≤ l.length ∧ (∀ x ∈ l.take k, x.2 = true) ∧ tally + sumPow (l.take k) > needed := by
  induction l generalizing tally with
  | nil => simp [scanC]; intro k h1 h2; omega
  | cons x rest ih =>
    obtain ⟨p, ok⟩ := x
    unfold scanC
    cases ok with
    | false =>
      simp only [Bool.not_false, if_true]
      constructor
      · intro h; cases h
      · rintro ⟨k, h1, _, hall, _⟩
        have : ((p, false) : Nat × Bool) ∈ ((p, false) :: rest).take k := by
          cases k with
          | zero => omega
          | succ n => simp
        have := hall _ this
        cases this
    | true =>
      simp only [Bool.not_true, Bool.false_eq_true, if_false]
      by_cases hgt : tally + p > needed
      · simp only [hgt, if_true, true_iff]
        exact ⟨1, Nat.le_refl _, by simp, by simp, by simp [sumPow_cons, sumPow]; omega⟩
      · simp only [hgt, if_false]
        rw [ih (tally + p) (by omega)]
        constructor
        · rintro ⟨k, h1, h2, hall, hs⟩
          refine ⟨k + 1, by omega, by simp; omega, ?_, ?_⟩
          · intro x hx
            simp only [List.take_succ_cons, List.mem_cons] at hx
            rcases hx with rfl | hx
            · rfl
            · exact hall x hx
          · simp only [List.take_succ_cons, sumPow_cons]; omega
        · rintro ⟨k, h1, h2, hall, hs⟩
          cases k with
          | zero => omega
          | succ n =>
            simp only [List.take_succ_cons, sumPow_cons] at hs
            simp only [List.length_cons] at h2
            have hn : 1 ≤ n := by
              cases n with
              | zero => simp [sumPow] at hs; omega
              | succ m => omega
            refine ⟨n, hn, by omega, ?_, by omega⟩
            intro x hx
            exact hall x (by simp [List.take_succ_cons, hx])

end Tibc.TM
