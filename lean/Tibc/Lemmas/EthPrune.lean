import Tibc.Lemmas.EthChain
/-
  Pruning of the ETH client (`prune`): deleting the earliest visible consensus state together
  with its header-index and root-index entries never exposes a consensus state that is not an
  ancestor's of the latest header.
-/
namespace Tibc.ETH

/-- the consensus states exposed for heights up to the latest header are its ancestors' -/
def MainOk (c : Client) : Prop := ∀ a, Anc c c.latest a → c.cons a.number = some (consOf a)

/-- every stored header is the one its state root points at -/
def RootsOk (c : Client) : Prop :=
  ∀ k n x, c.idx (k, n) = some x → c.rootMain (x.root, x.number) = some (x.hash, x.number)

/-- a root-index entry points at a header of its own height -/
def RootHeights (c : Client) : Prop := ∀ r n key, c.rootMain (r, n) = some key → key.2 = n

theorem index_rootHeights {c : Client} (h : RootHeights c) (x : Hdr) : RootHeights (index c x) := by
  intro r n key hk
  unfold index at hk
  simp only [upd] at hk
  split at hk
  · rename_i heq
    injection hk with hk
    have : (r, n) = (x.root, x.number) := heq
    injection this with _ h2
    rw [← hk, h2]
  · exact h r n key hk

/-- the three outcomes of `prune` -/
theorem prune_cases (c : Client) (now : Nat) :
    prune c now = some c ∨ prune c now = none ∨
    ∃ e k key, c.cons e = some k ∧ k.time + c.period < now ∧ c.rootMain (k.root, e) = some key ∧
      prune c now = some { c with idx := upd c.idx key none
                                  rootMain := upd c.rootMain (k.root, e) none
                                  cons := upd c.cons e none
                                  heights := c.heights.filter (fun x => x != e) } := by
  unfold prune
  cases minOf (c.heights.filter visible) with
  | none => left; rfl
  | some e =>
    simp only
    cases hk : c.cons e with
    | none => right; left; rfl
    | some k =>
      simp only
      by_cases hexp : k.time + c.period < now
      · simp only [hexp, if_true]
        cases hr : c.rootMain (k.root, e) with
        | none => right; left; rfl
        | some key => right; right; exact ⟨e, k, key, hk, hexp, hr, rfl⟩
      · simp only [hexp, if_false]; left; trivial

/-- ancestors in a sub-index are ancestors in the index -/
theorem Anc.of_sub {c c' : Client} (hsub : ∀ k x, c'.idx k = some x → c.idx k = some x) {x a : Hdr}
    (h : Anc c' x a) : Anc c x a := by
  induction h with
  | refl => exact Anc.refl _
  | step hp _ ih =>
    refine Anc.step ?_ ih
    unfold parentOf at hp ⊢
    split at hp
    · cases hp
    · rename_i h0; simp only [h0]; exact hsub _ _ hp

/-- a proper ancestor is found through the index -/
theorem Anc.eq_or_stored {c : Client} (hk : KeysOk c) {x a : Hdr} (h : Anc c x a) : a = x ∨ Stored c a := by
  induction h with
  | refl => left; rfl
  | step hp _ ih =>
    have hps := (parentOf_spec hk hp).2.2.2
    rcases ih with e | s
    · right; rw [e]; exact hps
    · right; exact s

/-- **Pruning keeps the client on one chain.** For an Active client (its latest consensus state
    is inside the trusting period) whose exposed consensus states are its latest header's
    ancestors', pruning leaves that so: the entries it deletes are exactly those of the ancestor
    at the pruned height, and no other consensus state becomes visible. -/
theorem prune_keeps_main {c c' : Client} {now : Nat} (hk : KeysOk c) (hr : RootsOk c) (hrh : RootHeights c) (hm : MainOk c)
    (hl : Stored c c.latest) (hact : active c now = true) (hp : prune c now = some c') :
    KeysOk c' ∧ RootsOk c' ∧ RootHeights c' ∧ MainOk c' ∧ Stored c' c'.latest ∧ c'.latest = c.latest ∧ c'.period = c.period := by
  rcases prune_cases c now with h | h | ⟨e, k, key, hce, hexp, hrm, h⟩
  · rw [h] at hp; cases hp; exact ⟨hk, hr, hrh, hm, hl, rfl, rfl⟩
  · rw [h] at hp; cases hp
  · rw [h] at hp
    cases hp
    -- the latest header is not at the pruned height (its consensus state has not expired)
    have hlat : c.latest.number ≠ e := by
      intro heq
      unfold active at hact
      rw [heq, hce] at hact
      simp only [decide_eq_true_eq] at hact
      omega
    have hsub : ∀ q x, (upd c.idx key none) q = some x → c.idx q = some x := by
      intro q x hq
      simp only [upd] at hq
      split at hq
      · cases hq
      · exact hq
    have hk' : KeysOk { c with idx := upd c.idx key none, rootMain := upd c.rootMain (k.root, e) none,
                               cons := upd c.cons e none, heights := c.heights.filter (fun x => x != e) } := by
      intro q n x hq; exact hk q n x (hsub _ _ hq)
    refine ⟨hk', ?_, ?_, ?_, ?_, rfl, rfl⟩
    · -- root index
      intro q n x hq
      have hq0 := hsub _ _ hq
      have hx := hr q n x hq0
      show (upd c.rootMain (k.root, e) none) (x.root, x.number) = _
      simp only [upd]
      split
      · rename_i heq
        -- then `key` is x's own index key, which was deleted
        have : (x.root, x.number) = (k.root, e) := heq
        rw [this, hrm] at hx
        have hkey : key = (x.hash, x.number) := by injection hx
        obtain ⟨h1, h2⟩ := hk q n x hq0
        have hq' : (upd c.idx key none) (q, n) = some x := hq
        have : (upd c.idx key none) (q, n) = none := by
          simp only [upd, hkey, ← h1, ← h2, if_true]
        rw [this] at hq'; cases hq'
      · exact hx
    · -- root-index heights
      intro r n key' hk2
      have hk2' : (upd c.rootMain (k.root, e) none) (r, n) = some key' := hk2
      simp only [upd] at hk2'
      split at hk2'
      · cases hk2'
      · exact hrh r n key' hk2'
    · -- exposed consensus states
      intro a ha
      have ha0 : Anc c c.latest a := Anc.of_sub hsub ha
      have hca := hm a ha0
      show (upd c.cons e none) a.number = _
      simp only [upd]
      split
      · rename_i heq
        exfalso
        -- a is the ancestor at the pruned height: its index entry is the deleted one
        have hka : k = consOf a := by rw [heq, hce] at hca; injection hca
        have has : Stored c a := ha0.stored hk hl
        have hkey : key = (a.hash, a.number) := by
          have := hr _ _ _ has
          rw [hka] at hrm
          simp only [consOf] at hrm
          rw [← heq] at hrm
          rw [hrm] at this; injection this
        rcases Anc.eq_or_stored hk' ha with e1 | s
        · exact hlat (by rw [← e1]; exact heq)
        · have s' : (upd c.idx key none) (a.hash, a.number) = some a := s
          have : (upd c.idx key none) (a.hash, a.number) = none := by simp only [upd, hkey, if_true]
          rw [this] at s'; cases s'
      · exact hca
    · -- the latest header stays stored
      unfold Stored at hl ⊢
      show (upd c.idx key none) (c.latest.hash, c.latest.number) = some c.latest
      simp only [upd]
      split
      · rename_i heq
        exfalso
        -- a root-index entry for height e points at a header of height e, not at the latest header
        have := hrh _ _ _ hrm
        rw [← heq] at this
        exact hlat this
      · exact hl

end Tibc.ETH
