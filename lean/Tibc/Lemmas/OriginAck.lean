import Tibc.Lemmas.Origin
/-
  Where acknowledgement records come from: `WriteAcknowledgement` on this chain (ghost log
  `ackLog`), or copied by the relay branch of `AcknowledgePacket` from a state recorded by a light
  client.
-/
namespace Tibc
open Core

variable (H : Data → Digest) (Hc : Str → Str)

def AckOrigin (s t : Core) : Prop :=
  ∀ k d, t.ps.ack k = some d →
    s.ps.ack k = some d ∨
    (∃ a, d = H a ∧ (k, a) ∈ t.ackLog) ∨
    (∃ q cl hh sn, s.clients q = some cl ∧ cl.cons hh = some sn ∧ sn.ack k = some d)

theorem AckOrigin.refl (s : Core) : AckOrigin H s s := fun _ _ h => Or.inl h

theorem AckOrigin.trans {s t u : Core} (m1 : Mono s t) (m2 : Mono t u)
    (h1 : AckOrigin H s t) (h2 : AckOrigin H t u) : AckOrigin H s u := by
  intro k d hu
  rcases h2 k d hu with ht | ⟨a, hd, hm⟩ | ⟨q, cl, hh, sn, hc, hs, hk⟩
  · rcases h1 k d ht with hs | ⟨a, hd, hm⟩ | h3
    · exact Or.inl hs
    · obtain ⟨l, hl⟩ := m2.ackLog
      exact Or.inr (Or.inl ⟨a, hd, by rw [hl]; exact List.mem_append_left _ hm⟩)
    · exact Or.inr (Or.inr h3)
  · exact Or.inr (Or.inl ⟨a, hd, hm⟩)
  · exact Or.inr (Or.inr ⟨q, cl, hh, sn, by rw [← m1.clients]; exact hc, hs, hk⟩)

theorem cleanAcks_ack_sub (s : Core) (src dst : Chain) (n : Nat) (k : PKey) (d : Digest)
    (h : (cleanAcks s src dst n).ps.ack k = some d) : s.ps.ack k = some d := by
  unfold cleanAcks at h
  rw [cleanAcksFrom_ack] at h
  split at h
  · cases h
  · exact h

theorem prim_ackOrigin {s t : Core} (h : Prim H s t) : AckOrigin H s t := by
  intro k d ht
  cases h with
  | send p =>
    rcases sendPacket_cases H s p with ⟨_, e⟩ | ⟨_, _, e⟩ <;> rw [e] at ht
    · exact Or.inl ht
    · exact Or.inl ht
  | recv p π h =>
    rcases recvPacket_cases H s p π h with ⟨_, e⟩ | ⟨_, _, _, e⟩ <;> rw [e] at ht
    · left
      have : (recvWrites H s p).1.ps.ack = s.ps.ack := by
        unfold recvWrites; simp only
        split
        · split
          · rfl
          · split <;> rfl
        · rfl
      rw [← this]; exact ht
    · exact Or.inl ht
  | writeAck p a =>
    rcases writeAck_cases H s p a with ⟨_, e⟩ | ⟨_, _, e⟩ <;> rw [e] at ht
    · have hc : (upd s.ps.ack p.key (some (H a))) k = some d := ht
      rw [upd_apply] at hc
      split at hc
      · rename_i hkey
        simp only [Option.some.injEq] at hc
        right; left
        refine ⟨a, hc.symm, ?_⟩
        rw [e]; simp [writeAckWrites, hkey]
      · exact Or.inl hc
    · exact Or.inl ht
  | ack p a π h =>
    rcases acknowledgePacket_cases H s p a π h with ⟨hok, e⟩ | ⟨_, _, e⟩ <;> rw [e] at ht
    · by_cases hsame : s.ps.ack k = some d
      · exact Or.inl hsame
      · right; right
        obtain ⟨_, _, cl, sn, hcl, _, _, hcons, _, hsn⟩ := hok
        unfold ackWrites at ht
        simp only at ht
        split at ht
        · split at ht
          · exact absurd ht hsame
          · simp only [emit_ps, setAck_ack, upd_apply] at ht
            split at ht
            · rename_i hkey
              simp only [Option.some.injEq] at ht
              exact ⟨ackProver s p, cl, h, sn, hcl, hcons, by rw [hkey, ← ht]; exact hsn⟩
            · exact absurd ht hsame
        · exact absurd ht hsame
    · exact Or.inl ht
  | clean cp =>
    rcases cleanPacket_cases s cp with ⟨_, e⟩ | ⟨_, _, e⟩ <;> rw [e] at ht
    · left
      unfold cleanWrites at ht
      simp only [emit_ps] at ht
      rw [(cleanReceipts_same _ _ _ _).ack] at ht
      have := cleanAcks_ack_sub _ _ _ _ k d ht
      simpa using this
    · exact Or.inl ht
  | recvClean cp π h =>
    rcases recvCleanPacket_cases s cp π h with ⟨_, e⟩ | ⟨_, _, e⟩ <;> rw [e] at ht
    · left
      have hc : (recvCleanWrites s cp).1.ps.ack = (cleanAcks s cp.src cp.dst cp.seq).ps.ack := by
        have base : ((cleanReceipts (cleanAcks s cp.src cp.dst cp.seq) cp.src cp.dst cp.seq).setClean cp.pair cp.seq).ps.ack =
            (cleanAcks s cp.src cp.dst cp.seq).ps.ack := by
          show (cleanReceipts _ _ _ _).ps.ack = _
          exact (cleanReceipts_same _ _ _ _).ack
        unfold recvCleanWrites; simp only
        split
        · split <;> exact base
        · exact base
      rw [hc] at ht
      exact cleanAcks_ack_sub _ _ _ _ k d ht
    · exact Or.inl ht

theorem prims_ackOrigin {s t : Core} (h : Prims H s t) : Mono s t ∧ AckOrigin H s t := by
  induction h with
  | refl => exact ⟨Mono.refl _, AckOrigin.refl H _⟩
  | step _ hp ih =>
    have m2 := mono_prim H hp
    exact ⟨ih.1.trans m2, AckOrigin.trans H ih.1 m2 ih.2 (prim_ackOrigin H hp)⟩

/-- the acknowledgement record `d` under key `k` was written by some chain's `WriteAcknowledgement` -/
def WasAcked (w : World) (k : PKey) (d : Digest) : Prop :=
  ∃ a x, d = H a ∧ (k, a) ∈ (w x).core.ackLog

structure AckOriginInv (w : World) : Prop where
  store : ∀ x k d, (w x).core.ps.ack k = some d → WasAcked H w k d
  snaps : ∀ x q cl hh sn, (w x).core.clients q = some cl → cl.cons hh = some sn → ∀ k d, sn.ack k = some d → WasAcked H w k d

theorem wasAcked_mono {w w' : World} (hg : ∀ x, ∃ l, (w' x).core.ackLog = (w x).core.ackLog ++ l) {k : PKey} {d : Digest}
    (h : WasAcked H w k d) : WasAcked H w' k d := by
  obtain ⟨a, x, hd, hm⟩ := h
  obtain ⟨l, hl⟩ := hg x
  exact ⟨a, x, hd, by rw [hl]; exact List.mem_append_left _ hm⟩

theorem step_ackOrigin (w : World) (op : Op) :
    AckOrigin H (w op.chain).core ((step H Hc w op).1 op.chain).core := by
  cases op with
  | tx c m => simp only [step, Op.chain, setChain_same]; exact (prims_ackOrigin H (deliver_prims H Hc (w c) m)).2
  | ksend c p => simp only [step, Op.chain, setChain_same]; exact prim_ackOrigin H (Prim.send _ _)
  | createClient c q' h t pd => simp only [step, Op.chain, setChain_same]; exact fun k d h => Or.inl h
  | update c q' h t =>
    simp only [step, Op.chain]
    split
    · exact AckOrigin.refl H _
    · simp only [setChain_same]; exact fun k d h => Or.inl h
  | setRules c rules =>
    simp only [step, Op.chain]
    split
    · exact AckOrigin.refl H _
    · simp only [setChain_same]; exact fun k d h => Or.inl h
  | setTime c now => simp only [step, Op.chain, setChain_same]; exact fun k d h => Or.inl h
  | createClientMsg c auth q' ct h t pd v cs =>
    simp only [step, Op.chain, setChain_same]
    have ha := createClientMsg_admin (w c) auth q' ct h t pd v cs (w q').core.ps.snapshot
    exact fun k d h => Or.inl (by rw [ha.ps] at h; exact h)
  | upgradeClientMsg c auth q' ct h t pd v cs =>
    simp only [step, Op.chain, setChain_same]
    have ha := upgradeClientMsg_admin (w c) auth q' ct h t pd v cs (w q').core.ps.snapshot
    exact fun k d h => Or.inl (by rw [ha.ps] at h; exact h)
  | registerRelayerMsg c auth q' rs =>
    simp only [step, Op.chain, setChain_same]
    have ha := registerRelayerMsg_admin (w c) auth q' rs
    exact fun k d h => Or.inl (by rw [ha.ps] at h; exact h)
  | setRulesMsg c auth rules =>
    simp only [step, Op.chain, setChain_same]
    have ha := setRulesMsg_admin (w c) auth rules
    exact fun k d h => Or.inl (by rw [ha.ps] at h; exact h)
  | updateClientMsg c sg q' h t ok =>
    simp only [step, Op.chain, setChain_same]
    have ha := updateClientMsg_admin (w c) sg q' h t ok (w q').core.ps.snapshot
    exact fun k d h => Or.inl (by rw [ha.ps] at h; exact h)
  | nftIssue c a cls mr => simp only [step, Op.chain, setChain_same, nftIssueMsg_core]; exact AckOrigin.refl H _
  | nftMint c a cls id u rc => simp only [step, Op.chain, setChain_same, nftMintMsg_core]; exact AckOrigin.refl H _
  | nftSend c a cls id rc => simp only [step, Op.chain, setChain_same, nftSendMsg_core]; exact AckOrigin.refl H _
  | nftBurn c a cls id => simp only [step, Op.chain, setChain_same, nftBurnMsg_core]; exact AckOrigin.refl H _
  | mtIssue c a cls => simp only [step, Op.chain, setChain_same, mtIssueMsg_core]; exact AckOrigin.refl H _
  | mtMint c a cls id f amt rc => simp only [step, Op.chain, setChain_same, mtMintMsg_core]; exact AckOrigin.refl H _
  | mtSend c a cls id amt rc => simp only [step, Op.chain, setChain_same, mtSendMsg_core]; exact AckOrigin.refl H _
  | mtBurn c a cls id amt => simp only [step, Op.chain, setChain_same, mtBurnMsg_core]; exact AckOrigin.refl H _

theorem step_ackOriginInv (w : World) (op : Op) (hi : AckOriginInv H w) : AckOriginInv H (step H Hc w op).1 := by
  have hlog : ∀ x, ∃ l, ((step H Hc w op).1 x).core.ackLog = (w x).core.ackLog ++ l :=
    fun x => (step_grow H Hc w op x).ackLog
  have hao := step_ackOrigin H Hc w op
  refine ⟨?_, ?_⟩
  · intro x k d hk
    by_cases hx : x = op.chain
    · subst hx
      rcases hao k d hk with h1 | ⟨a, hd, hm⟩ | ⟨q, cl, hh, sn, hc, hs, hkk⟩
      · exact wasAcked_mono H hlog (hi.store _ k d h1)
      · exact ⟨a, _, hd, hm⟩
      · exact wasAcked_mono H hlog (hi.snaps _ q cl hh sn hc hs k d hkk)
    · rw [step_other H Hc w op x hx] at hk
      exact wasAcked_mono H hlog (hi.store x k d hk)
  · intro x q cl hh sn hc hs k d hk
    by_cases hx : x = op.chain
    · subst hx
      rcases step_snaps H Hc w op q cl hh sn hc hs with ⟨cl0, hc0, hs0⟩ | ⟨q', hq'⟩
      · exact wasAcked_mono H hlog (hi.snaps _ q cl0 hh sn hc0 hs0 k d hk)
      · rw [hq'] at hk
        exact wasAcked_mono H hlog (hi.store q' k d hk)
    · rw [step_other H Hc w op x hx] at hc
      exact wasAcked_mono H hlog (hi.snaps x q cl hh sn hc hs k d hk)

theorem run_ackOriginInv (ops : List Op) : AckOriginInv H (run H Hc World.init ops) := by
  suffices h : ∀ w, AckOriginInv H w → AckOriginInv H (run H Hc w ops) by
    apply h
    refine ⟨fun x k d hk => ?_, fun x q cl hh sn hc _ => ?_⟩
    · simp [World.init, State.init, Core.init, PStore.empty] at hk
    · simp [World.init, State.init, Core.init] at hc
  induction ops with
  | nil => intro w hw; exact hw
  | cons op ops ih => intro w hw; simp only [run, List.foldl_cons]; exact ih _ (step_ackOriginInv H Hc w op hw)

end Tibc
