import Tibc.Lemmas.MtSupply
import Tibc.Lemmas.World
/-
  Lifting the multi-token conservation invariant through the transfer application, the message
  server and every operation of the world.
-/
namespace Tibc
open Core MtMod

variable (H : Data → Digest) (Hc : Str → Str)

theorem fst_mt_of_eq {x : Apps × Res} {a : Apps} {r : Res} (h : x = (a, r)) : a.mt = x.1.mt := by rw [h]
theorem fst_of_eq {α β : Type} {x : α × β} {a : α} {r : β} (h : x = (a, r)) : a = x.1 := by rw [h]

/-! ### NFT-side functions never touch the MT module -/

theorem nftVoucherClass_mt (a : Apps) (path : Str) : (nftVoucherClass Hc a path).1.mt = a.mt := by
  unfold nftVoucherClass; simp only; split <;> rfl

theorem nftRecvAway_mt (a : Apps) (p : Packet) (d : NftData) : (nftRecvAway Hc a p d).1.mt = a.mt := by
  have h0 := nftVoucherClass_mt Hc a (ClassPath.getAway nftPfx p.src.toList p.dst.toList d.cls)
  unfold nftRecvAway
  simp only
  have hr1 : ∀ (x : Apps × Res),
      (match (nftVoucherClass Hc a (ClassPath.getAway nftPfx p.src.toList p.dst.toList d.cls)).1.nft.denom
          (nftVoucherClass Hc a (ClassPath.getAway nftPfx p.src.toList p.dst.toList d.cls)).2 with
        | some _ => ((nftVoucherClass Hc a (ClassPath.getAway nftPfx p.src.toList p.dst.toList d.cls)).1, Res.ok)
        | none => liftNft (nftVoucherClass Hc a (ClassPath.getAway nftPfx p.src.toList p.dst.toList d.cls)).1
            ((nftVoucherClass Hc a (ClassPath.getAway nftPfx p.src.toList p.dst.toList d.cls)).1.nft.issueDenom
              (nftVoucherClass Hc a (ClassPath.getAway nftPfx p.src.toList p.dst.toList d.cls)).2 nftModAddr true)) = x →
      x.1.mt = a.mt := by
    intro x hx
    rw [← hx]
    split
    · exact h0
    · exact h0
  split
  · rename_i heq; rw [fst_mt_of_eq heq]; exact hr1 _ rfl
  · rename_i s1 heq
    have hs1 : s1.mt = a.mt := by rw [fst_mt_of_eq heq]; exact hr1 _ rfl
    split
    · rename_i heq2; rw [fst_mt_of_eq heq2]; exact hs1
    · rename_i s2 heq2
      have hs2 : s2.mt = a.mt := by rw [fst_mt_of_eq heq2]; exact hs1
      exact hs2

theorem nftRecvBack_mt (a : Apps) (d : NftData) : (nftRecvBack Hc a d).1.mt = a.mt := by
  unfold nftRecvBack; repeat' split
  all_goals rfl

theorem nftOnRecv_mt (a : Apps) (p : Packet) (d : NftData) : (nftOnRecv Hc a p d).1.mt = a.mt := by
  unfold nftOnRecv; repeat' split
  all_goals first | rfl | exact nftRecvAway_mt Hc a p d | exact nftRecvBack_mt Hc a d

theorem nftRefund_mt (a : Apps) (d : NftData) : (nftRefund Hc a d).1.mt = a.mt := by
  unfold nftRefund; simp only
  split
  · rfl
  · split
    · rfl
    · split
      · rename_i heq; rw [fst_mt_of_eq heq]; rfl
      · rename_i heq; show _ = a.mt; simp only [liftNft]; rw [fst_mt_of_eq heq]; rfl

/-! ### MT-side functions keep the invariant, whatever their outcome -/

theorem mtVoucherClass_mt (a : Apps) (path : Str) : (mtVoucherClass Hc a path).1.mt = a.mt := by
  unfold mtVoucherClass; simp only; split <;> rfl

theorem mtSendToken_inv (a : Apps) (cls id : Str) (amt : Nat) (sender : Addr) (away : Bool) (h : MtInv a.mt) :
    MtInv (mtSendToken a cls id amt sender away).1.mt := by
  unfold mtSendToken; split
  · exact transferOwner_inv h _ _ _ _ _
  · exact burn_inv h _ _ _ _

theorem mtRecvAway_inv (a : Apps) (p : Packet) (d : MtData) (h : MtInv a.mt) : MtInv (mtRecvAway Hc a p d).1.mt := by
  have h0 : MtInv (mtVoucherClass Hc a (ClassPath.getAway mtPfx p.src.toList p.dst.toList d.cls)).1.mt := by
    rw [mtVoucherClass_mt]; exact h
  unfold mtRecvAway
  simp only
  -- the state after the voucher class / denom step
  have h1 : ∀ (a1 : Apps) (vc : Str), MtInv a1.mt →
      MtInv (match a1.mt.denom vc with | some _ => a1 | none => { a1 with mt := a1.mt.issueDenom vc mtModAddr }).mt := by
    intro a1 vc ha1
    split
    · exact ha1
    · exact issueDenom_inv ha1 _ _
  have h2 : ∀ (a2 : Apps) (vc : Str), MtInv a2.mt →
      MtInv (if !a2.mt.exists_ (vc, d.id) then liftMt a2 (a2.mt.issueMT vc d.id d.amount mtModAddr)
             else liftMt a2 (a2.mt.mintMT vc d.id d.amount mtModAddr)).1.mt := by
    intro a2 vc ha2
    split
    · exact issueMT_inv ha2 _ _ _ _
    · exact mintMT_inv ha2 _ _ _ _
  split
  · rename_i heq
    rw [fst_of_eq heq]
    exact h2 _ _ (h1 _ _ h0)
  · rename_i s3 heq
    have hs3 : MtInv s3.mt := by rw [fst_of_eq heq]; exact h2 _ _ (h1 _ _ h0)
    exact transferOwner_inv hs3 _ _ _ _ _

theorem mtRecvBack_inv (a : Apps) (d : MtData) (h : MtInv a.mt) : MtInv (mtRecvBack Hc a d).1.mt := by
  unfold mtRecvBack; repeat' split
  all_goals first | exact h | exact transferOwner_inv h _ _ _ _ _

theorem mtOnRecv_inv (a : Apps) (p : Packet) (d : MtData) (h : MtInv a.mt) : MtInv (mtOnRecv Hc a p d).1.mt := by
  unfold mtOnRecv; repeat' split
  all_goals first | exact h | exact mtRecvAway_inv Hc a p d h | exact mtRecvBack_inv Hc a d h

theorem mtRefund_inv (a : Apps) (d : MtData) (h : MtInv a.mt) : MtInv (mtRefund Hc a d).1.mt := by
  unfold mtRefund
  simp only
  split
  · exact h
  · split
    · exact transferOwner_inv h _ _ _ _ _
    · have h1 : MtInv (liftMt a (a.mt.mintMT (ibcClass Hc d.cls) d.id d.amount mtModAddr)).1.mt := mintMT_inv h _ _ _ _
      split
      · rename_i heq; rw [fst_of_eq heq]; exact h1
      · rename_i s1 heq
        have hs1 : MtInv s1.mt := by rw [fst_of_eq heq]; exact h1
        exact transferOwner_inv hs1 _ _ _ _ _

theorem appOnRecv_inv (a : Apps) (p : Packet) (t : String) (h : MtInv a.mt) : MtInv (appOnRecv Hc a p t).1.mt := by
  unfold appOnRecv
  split
  · exact h
  · split
    · split
      · rename_i d _
        split
        · rename_i heq; show MtInv _; simp only; rw [fst_mt_of_eq heq, nftOnRecv_mt]; exact h
        · rename_i heq; show MtInv _; simp only; rw [fst_mt_of_eq heq, nftOnRecv_mt]; exact h
      · exact h
    · split
      · split
        · rename_i d _
          split
          · rename_i heq; show MtInv _; simp only; rw [fst_of_eq heq]; exact mtOnRecv_inv Hc a p d h
          · rename_i heq; show MtInv _; simp only; rw [fst_of_eq heq]; exact mtOnRecv_inv Hc a p d h
        · exact h
      · exact h

theorem appOnAck_inv (a : Apps) (p : Packet) (ack : Data) (h : MtInv a.mt) : MtInv (appOnAck Hc a p ack).1.mt := by
  unfold appOnAck
  repeat' split
  all_goals first
    | exact h
    | (rw [nftRefund_mt]; exact h)
    | exact mtRefund_inv Hc a _ h

end Tibc

namespace Tibc
open Core MtMod

variable (H : Data → Digest) (Hc : Str → Str)

theorem msgRecvPacket_mtInv (s : State) (p : Packet) (π : Proof) (h : Nat) (t : String) (hi : MtInv s.apps.mt) :
    MtInv (msgRecvPacket H Hc s p π h t).1.apps.mt := by
  unfold msgRecvPacket
  split
  · exact hi
  · exact hi
  · split
    · split
      · exact hi
      · have := appOnRecv_inv Hc s.apps p t hi
        split
        · rename_i heq; show MtInv _; simp only; rw [fst_of_eq heq]; exact this
        · rename_i heq; show MtInv _; simp only; rw [fst_of_eq heq]; exact this
    · exact hi

theorem msgAcknowledgement_mtInv (s : State) (p : Packet) (a : Data) (π : Proof) (h : Nat) (hi : MtInv s.apps.mt) :
    MtInv (msgAcknowledgement H Hc s p a π h).1.apps.mt := by
  unfold msgAcknowledgement
  simp only
  split
  · exact hi
  · split
    · exact hi
    · split
      · exact appOnAck_inv Hc s.apps p a hi
      · exact hi

theorem sendNftTransfer_mt (s : State) (cls id : Str) (sender receiver : Addr) (dst relay : Chain) (dc : String) :
    (sendNftTransfer H s cls id sender receiver dst relay dc).1.apps.mt = s.apps.mt := by
  unfold sendNftTransfer
  split
  · rfl
  · have hst : ∀ away, (nftSendToken s.apps cls id sender away).1.mt = s.apps.mt := by
      intro away; unfold nftSendToken; split <;> rfl
    split
    · rename_i heq; show _ = s.apps.mt; simp only; rw [fst_mt_of_eq heq]; exact hst _
    · rename_i heq; show _ = s.apps.mt; simp only; rw [fst_mt_of_eq heq]; exact hst _

theorem sendMtTransfer_mtInv (s : State) (cls id : Str) (sender receiver : Addr) (dst relay : Chain) (dc : String)
    (amt : Nat) (md : String) (hi : MtInv s.apps.mt) :
    MtInv (sendMtTransfer H s cls id sender receiver dst relay dc amt md).1.apps.mt := by
  unfold sendMtTransfer
  split
  · exact hi
  · split
    · rename_i heq; show MtInv _; simp only; rw [fst_of_eq heq]; exact mtSendToken_inv _ _ _ _ _ _ hi
    · rename_i heq; show MtInv _; simp only; rw [fst_of_eq heq]; exact mtSendToken_inv _ _ _ _ _ _ hi

theorem handle_mtInv (s : State) (m : Msg) (hi : MtInv s.apps.mt) : MtInv (handle H Hc s m).1.apps.mt := by
  cases m with
  | recvPacket p π h t => exact msgRecvPacket_mtInv H Hc s p π h t hi
  | acknowledgement p a π h => exact msgAcknowledgement_mtInv H Hc s p a π h hi
  | cleanPacket cp => exact hi
  | recvCleanPacket cp π h => exact hi
  | nftTransfer cls id sender receiver dst relay dc =>
    simp only [handle]; split
    · exact hi
    · rw [sendNftTransfer_mt]; exact hi
  | mtTransfer cls id sender receiver dst relay dc amt md =>
    simp only [handle]; split
    · exact hi
    · exact sendMtTransfer_mtInv H s _ _ _ _ _ _ _ _ _ hi

theorem deliver_mtInv (s : State) (m : Msg) (hi : MtInv s.apps.mt) : MtInv (deliver H Hc s m).1.apps.mt := by
  unfold deliver
  split
  · exact hi
  · split
    · rename_i s' heq
      have : s' = (handle H Hc s m).1 := by rw [heq]
      rw [this]; exact handle_mtInv H Hc s m hi
    · exact hi

theorem userTx_mtInv (s : State) (r : State × Res) (hi : MtInv s.apps.mt) (hr : MtInv r.1.apps.mt) :
    MtInv (userTx s r).1.apps.mt := by
  unfold userTx; split
  · exact hr
  · exact hi

/-- every operation of the world keeps the conservation invariant of every chain -/
theorem step_mtInv (w : World) (op : Op) (hi : ∀ q, MtInv (w q).apps.mt) (q : Chain) :
    MtInv ((step H Hc w op).1 q).apps.mt := by
  by_cases hq : q = op.chain
  · subst hq
    have hI := hi op.chain
    cases op with
    | tx c m => simp only [step, Op.chain, setChain_same]; exact deliver_mtInv H Hc (w c) m hI
    | ksend c p => simp only [step, Op.chain, setChain_same]; exact hI
    | createClient c q' h t pd => simp only [step, Op.chain, setChain_same]; exact hI
    | update c q' h t =>
      simp only [step, Op.chain]; split
      · exact hI
      · simp only [setChain_same]; exact hI
    | setRules c rules =>
      simp only [step, Op.chain]; split
      · exact hI
      · simp only [setChain_same]; exact hI
    | setTime c now => simp only [step, Op.chain, setChain_same]; exact hI
    | createClientMsg c auth q' ct h t pd v cs =>
      simp only [step, Op.chain, setChain_same]; rw [(createClientMsg_admin _ _ _ _ _ _ _ _ _ _).apps]; exact hI
    | upgradeClientMsg c auth q' ct h t pd v cs =>
      simp only [step, Op.chain, setChain_same]; rw [(upgradeClientMsg_admin _ _ _ _ _ _ _ _ _ _).apps]; exact hI
    | registerRelayerMsg c auth q' rs =>
      simp only [step, Op.chain, setChain_same]; rw [(registerRelayerMsg_admin _ _ _ _).apps]; exact hI
    | setRulesMsg c auth rules =>
      simp only [step, Op.chain, setChain_same]; rw [(setRulesMsg_admin _ _ _).apps]; exact hI
    | updateClientMsg c sg q' h t ok =>
      simp only [step, Op.chain, setChain_same]; rw [(updateClientMsg_admin _ _ _ _ _ _ _).apps]; exact hI
    | nftIssue c a cls mr =>
      simp only [step, Op.chain, setChain_same]
      unfold nftIssueMsg; repeat' split
      all_goals first | exact hI | exact userTx_mtInv _ _ hI hI
    | nftMint c a cls id u rc =>
      simp only [step, Op.chain, setChain_same]
      unfold nftMintMsg; repeat' split
      all_goals first | exact hI | exact userTx_mtInv _ _ hI hI
    | nftSend c a cls id rc =>
      simp only [step, Op.chain, setChain_same]
      unfold nftSendMsg; repeat' split
      all_goals first | exact hI | exact userTx_mtInv _ _ hI hI
    | nftBurn c a cls id =>
      simp only [step, Op.chain, setChain_same]
      unfold nftBurnMsg; repeat' split
      all_goals first | exact hI | exact userTx_mtInv _ _ hI hI
    | mtIssue c a cls => simp only [step, Op.chain, setChain_same]; exact issueDenom_inv hI _ _
    | mtMint c a cls id f amt rc =>
      simp only [step, Op.chain, setChain_same]
      unfold mtMintMsg; repeat' split
      all_goals first
        | exact hI
        | exact userTx_mtInv _ _ hI (issueMT_inv hI _ _ _ _)
        | exact userTx_mtInv _ _ hI (mintMT_inv hI _ _ _ _)
    | mtSend c a cls id amt rc =>
      simp only [step, Op.chain, setChain_same]
      unfold mtSendMsg; repeat' split
      all_goals first | exact hI | exact userTx_mtInv _ _ hI (transferOwner_inv hI _ _ _ _ _)
    | mtBurn c a cls id amt =>
      simp only [step, Op.chain, setChain_same]
      unfold mtBurnMsg; repeat' split
      all_goals first | exact hI | exact userTx_mtInv _ _ hI (burn_inv hI _ _ _ _)
  · rw [step_other H Hc w op q hq]; exact hi q

end Tibc
