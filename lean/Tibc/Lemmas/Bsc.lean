import Tibc.LC.Bsc
/- Helper lemmas for the BSC client model. -/
namespace Tibc.BSC

theorem mem_insertAsc (a x : Addr) (l : List Addr) : x ∈ insertAsc a l ↔ x = a ∨ x ∈ l := by
  induction l with
  | nil => simp [insertAsc]
  | cons b rest ih =>
    unfold insertAsc
    split
    · simp
    · split
      · rename_i h; subst h; simp
      · simp only [List.mem_cons, ih]
        constructor
        · rintro (h | h | h)
          · exact Or.inr (Or.inl h)
          · exact Or.inl h
          · exact Or.inr (Or.inr h)
        · rintro (h | h | h)
          · exact Or.inr (Or.inl h)
          · exact Or.inl h
          · exact Or.inr (Or.inr h)

theorem mem_vset (x : Addr) (vals : List Addr) : x ∈ vset vals ↔ x ∈ vals := by
  unfold vset
  induction vals with
  | nil => simp
  | cons v rest ih => simp only [List.foldr_cons, mem_insertAsc, ih, List.mem_cons]

theorem contains_vset (x : Addr) (vals : List Addr) : (vset vals).contains x = true ↔ x ∈ vals := by
  rw [List.contains_iff_mem, mem_vset]

theorem mem_delRecent (rs : List (Nat × Addr)) (n : Nat) (e : Nat × Addr) :
    e ∈ delRecent rs n ↔ e ∈ rs ∧ e.1 ≠ n := by
  unfold delRecent
  simp [List.mem_filter]

theorem mem_shrinkPrune (rs : List (Nat × Addr)) (number newLimit k : Nat) (e : Nat × Addr) :
    e ∈ shrinkPrune rs number newLimit k ↔
      e ∈ rs ∧ ∀ i, i < k → number ≥ newLimit + i → e.1 ≠ number - newLimit - i := by
  induction k with
  | zero => simp [shrinkPrune]
  | succ k ih =>
    unfold shrinkPrune
    simp only
    split
    · rename_i hge
      rw [mem_delRecent, ih]
      constructor
      · rintro ⟨⟨h1, h2⟩, h3⟩
        refine ⟨h1, fun i hi hg => ?_⟩
        by_cases hik : i = k
        · subst hik; exact h3
        · exact h2 i (by omega) hg
      · rintro ⟨h1, h2⟩
        exact ⟨⟨h1, fun i hi hg => h2 i (by omega) hg⟩, h2 k (by omega) hge⟩
    · rename_i hge
      rw [ih]
      constructor
      · rintro ⟨h1, h2⟩
        refine ⟨h1, fun i hi hg => ?_⟩
        by_cases hik : i = k
        · subst hik; exact absurd hg hge
        · exact h2 i (by omega) hg
      · rintro ⟨h1, h2⟩
        exact ⟨h1, fun i hi hg => h2 i (by omega) hg⟩

end Tibc.BSC
