import Tibc.Lemmas.Log
import Tibc.Lemmas.Seq
/-
  The "token" behind at-most-once acknowledgement processing: for a key whose source is this
  chain, (sequence not yet handed out) + (commitment present) never increases, and an accepted
  acknowledgement consumes it.  Needs: the chain holds no light client of itself (otherwise it
  could, as its own relay chain, re-commit a packet it has already acknowledged).
-/
namespace Tibc
open Core

variable (H : Data → Digest) (Hc : Str → Str)

/-- the chain has no light client of itself -/
def NoSelf (s : Core) : Prop := s.clients s.name = none

def potCore (s : Core) (k : PKey) : Nat :=
  (if k.seq ≥ s.ps.nextSend k.pair then 1 else 0) + (if (s.ps.commit k).isSome then 1 else 0)

theorem potCore_congr {s t : Core} (k : PKey) (h1 : t.ps.commit = s.ps.commit) (h2 : t.ps.nextSend = s.ps.nextSend) :
    potCore t k = potCore s k := by unfold potCore; rw [h1, h2]

theorem recvWrites_commitframe (s : Core) (p : Packet) :
    (recvWrites H s p).1.ps.nextSend = s.ps.nextSend ∧
    (∀ k, k ≠ p.key → (recvWrites H s p).1.ps.commit k = s.ps.commit k) ∧
    (p.relay ≠ s.name → (recvWrites H s p).1.ps.commit = s.ps.commit) := by
  unfold recvWrites; simp only [emit_name, setReceipt_name]
  by_cases hr : p.relay = s.name
  · have hb : (p.relay == s.name) = true := by simp [hr]
    simp only [hb, if_true]
    split
    · exact ⟨rfl, fun _ _ => rfl, fun h => absurd hr h⟩
    · split
      · exact ⟨rfl, fun _ _ => rfl, fun h => absurd hr h⟩
      · refine ⟨rfl, fun k hk => ?_, fun h => absurd hr h⟩
        simp [upd_apply, hk]
  · have hb : (p.relay == s.name) = false := by simpa using hr
    simp only [hb, Bool.false_eq_true, if_false]
    exact ⟨rfl, fun _ _ => rfl, fun _ => rfl⟩

theorem ackWrites_commitframe (s : Core) (p : Packet) (a : Data) :
    (ackWrites H s p a).1.ps.nextSend = s.ps.nextSend ∧ (ackWrites H s p a).1.ps.commit = upd s.ps.commit p.key none := by
  unfold ackWrites; simp only
  split
  · split <;> exact ⟨rfl, rfl⟩
  · exact ⟨rfl, rfl⟩

/-- no primitive increases the token of an own-source key -/
theorem prim_pot {s t : Core} (h : Prim H s t) (hn : NoSelf s) (k : PKey) (hk : k.src = s.name) :
    potCore t k ≤ potCore s k := by
  cases h with
  | send p =>
    rcases sendPacket_cases H s p with ⟨hok, e⟩ | ⟨_, _, e⟩ <;> rw [e]
    · obtain ⟨_, _, _, hseq⟩ := hok
      unfold potCore sendWrites
      simp only [emit_ps, setCommit_commit, setCommit_nextSend, setNextSend_nextSend, setNextSend_commit, upd_apply]
      by_cases hkey : k = p.key
      · subst hkey
        have e1 : (p.key).pair = p.pair := rfl
        have e2 : (p.key).seq = p.seq := rfl
        simp only [e1, e2, if_true, Option.isSome_some]
        rw [hseq]
        have : ¬ (s.ps.nextSend p.pair + 1 ≤ s.ps.nextSend p.pair) := by omega
        simp only [ge_iff_le, this, if_false, Nat.le_refl, if_true]
        omega
      · by_cases hpair : k.pair = p.pair
        · rw [hpair]
          simp only [if_true, hkey, if_false]
          generalize (if (s.ps.commit k).isSome = true then 1 else 0 : Nat) = c
          split <;> split <;> omega
        · simp only [hpair, if_false, hkey]
          exact Nat.le_refl _
    · exact Nat.le_refl _
  | recv p π h =>
    rcases recvPacket_cases H s p π h with ⟨hok, e⟩ | ⟨_, _, _, e⟩ <;> rw [e]
    · obtain ⟨h1, h2, h3⟩ := recvWrites_commitframe H s p
      by_cases hkey : k = p.key
      · -- a relay chain re-committing its own packet would need a client of itself
        by_cases hr : p.relay = s.name
        · exfalso
          obtain ⟨_, _, cl, _, hcl, _⟩ := hok
          have hsrc : p.src = s.name := by rw [hkey] at hk; exact hk
          have : recvProver s p = s.name := by
            unfold recvProver; split
            · exact hr
            · exact hsrc
          rw [this] at hcl
          rw [hn] at hcl; cases hcl
        · rw [potCore_congr k (h3 hr) h1]; exact Nat.le_refl _
      · unfold potCore; rw [h1, h2 k hkey]; exact Nat.le_refl _
    · exact Nat.le_refl _
  | writeAck p a =>
    rcases writeAck_cases H s p a with ⟨_, e⟩ | ⟨_, _, e⟩ <;> rw [e]
    · unfold writeAckWrites; exact Nat.le_refl _
    · exact Nat.le_refl _
  | ack p a π h =>
    rcases acknowledgePacket_cases H s p a π h with ⟨_, e⟩ | ⟨_, _, e⟩ <;> rw [e]
    · obtain ⟨h1, h2⟩ := ackWrites_commitframe H s p a
      unfold potCore; rw [h1, h2]
      by_cases hkey : k = p.key
      · simp only [upd_apply, hkey, if_true, Option.isSome_none, Bool.false_eq_true, if_false]; omega
      · simp only [upd_apply, hkey, if_false]; exact Nat.le_refl _
    · exact Nat.le_refl _
  | clean cp =>
    rcases cleanPacket_cases s cp with ⟨_, e⟩ | ⟨_, _, e⟩ <;> rw [e]
    · have hA := cleanAcks_same (s.setClean ⟨s.name, cp.dst⟩ cp.seq) s.name cp.dst cp.seq
      have hR := cleanReceipts_same (cleanAcks (s.setClean ⟨s.name, cp.dst⟩ cp.seq) s.name cp.dst cp.seq) s.name cp.dst cp.seq
      rw [potCore_congr k (by unfold cleanWrites; exact hR.commit.trans hA.commit) (by unfold cleanWrites; exact hR.nextSend.trans hA.nextSend)]
      exact Nat.le_refl _
    · exact Nat.le_refl _
  | recvClean cp π h =>
    rcases recvCleanPacket_cases s cp π h with ⟨_, e⟩ | ⟨_, _, e⟩ <;> rw [e]
    · have hf := recvCleanWrites_sendframe s cp
      have hA := cleanAcks_same s cp.src cp.dst cp.seq
      have hR := cleanReceipts_same (cleanAcks s cp.src cp.dst cp.seq) cp.src cp.dst cp.seq
      have hc : (recvCleanWrites s cp).1.ps.commit = s.ps.commit := by
        have base : ((cleanReceipts (cleanAcks s cp.src cp.dst cp.seq) cp.src cp.dst cp.seq).setClean cp.pair cp.seq).ps.commit = s.ps.commit := by
          show (cleanReceipts _ _ _ _).ps.commit = _
          rw [hR.commit, hA.commit]
        unfold recvCleanWrites; simp only
        split
        · split <;> exact base
        · exact base
      rw [potCore_congr k hc hf.2]
      exact Nat.le_refl _
    · exact Nat.le_refl _

/-- `NoSelf` and the name are invariant under primitives -/
theorem prim_noSelf {s t : Core} (h : Prim H s t) (hn : NoSelf s) : NoSelf t ∧ t.name = s.name := by
  have hm := mono_prim H h
  exact ⟨by unfold NoSelf; rw [hm.clients, hm.name]; exact hn, hm.name⟩

theorem prims_pot {s t : Core} (h : Prims H s t) (hn : NoSelf s) (k : PKey) (hk : k.src = s.name) :
    potCore t k ≤ potCore s k ∧ NoSelf t ∧ t.name = s.name := by
  induction h with
  | refl => exact ⟨Nat.le_refl _, hn, rfl⟩
  | step _ hp ih =>
    obtain ⟨h1, h2, h3⟩ := ih
    obtain ⟨h4, h5⟩ := prim_noSelf H hp h2
    exact ⟨Nat.le_trans (prim_pot H hp h2 k (by rw [h3]; exact hk)) h1, h4, h5.trans h3⟩

end Tibc

namespace Tibc
open Core

variable (H : Data → Digest) (Hc : Str → Str)

/-- number of times the source application's acknowledgement callback ran for key `k` -/
def ackCalls (s : State) (k : PKey) : Nat :=
  (s.cbLog.filter (fun e => e.kind == "ack" && e.key == k)).length

def pot (s : State) (k : PKey) : Nat := potCore s.core k + ackCalls s k

/-- per chain: the name is the chain's, no client of itself, every own-source key holds at most one
    token, and callbacks ran only for own-source keys -/
structure AckInv (q : Chain) (s : State) : Prop where
  name : s.core.name = q
  noSelf : NoSelf s.core
  own : ∀ k, k.src = q → pot s k ≤ 1
  other : ∀ k, k.src ≠ q → ackCalls s k = 0

theorem ackCalls_append (s t : State) (l : List CbEntry) (k : PKey) (h : t.cbLog = s.cbLog ++ l) :
    ackCalls t k = ackCalls s k + (l.filter (fun e => e.kind == "ack" && e.key == k)).length := by
  unfold ackCalls; rw [h, List.filter_append, List.length_append]

/-- a transition given by primitives on the core and a `LogDelta` on the callback log keeps the invariant -/
theorem ackInv_of_delta {q : Chain} {s t : State} (hi : AckInv q s)
    (hp : Prims H s.core t.core) (hl : LogDelta H s t) : AckInv q t := by
  have hm := mono_prims H hp
  have hname : t.core.name = q := hm.name.trans hi.name
  have hns : NoSelf t.core := by unfold NoSelf; rw [hm.clients, hm.name]; exact hi.noSelf
  cases hl with
  | same e =>
    have hc : ∀ k, ackCalls t k = ackCalls s k := fun k => by unfold ackCalls; rw [e]
    refine ⟨hname, hns, fun k hk => ?_, fun k hk => by rw [hc]; exact hi.other k hk⟩
    have := (prims_pot H hp hi.noSelf k (by rw [hi.name]; exact hk)).1
    have := hi.own k hk
    unfold pot at *; rw [hc]; omega
  | recv p π h e _ _ _ =>
    have hc : ∀ k, ackCalls t k = ackCalls s k := fun k => by rw [ackCalls_append s t _ k e]; simp
    refine ⟨hname, hns, fun k hk => ?_, fun k hk => by rw [hc]; exact hi.other k hk⟩
    have := (prims_pot H hp hi.noSelf k (by rw [hi.name]; exact hk)).1
    have := hi.own k hk
    unfold pot at *; rw [hc]; omega
  | ack p a π h e hok hsrc hcore =>
    obtain ⟨hf1, hf2⟩ := ackWrites_commitframe H s.core p a
    have hsrcq : p.key.src = q := by show p.src = q; rw [hsrc, hi.name]
    refine ⟨hname, hns, fun k hk => ?_, fun k hk => ?_⟩
    · have hown := hi.own k hk
      by_cases hkey : p.key = k
      · subst hkey
        have hcalls : ackCalls t p.key = ackCalls s p.key + 1 := by
          rw [ackCalls_append s t _ p.key e]; simp
        have hcs : (s.core.ps.commit p.key).isSome = true := by rw [hok.2.1]; rfl
        have hct : potCore t.core p.key + 1 = potCore s.core p.key := by
          unfold potCore; rw [hcore, hf1, hf2]
          simp [upd_apply, hcs]
        unfold pot at *; omega
      · have hcalls : ackCalls t k = ackCalls s k := by
          rw [ackCalls_append s t _ k e]; simp [hkey]
        have hct : potCore t.core k = potCore s.core k := by
          unfold potCore; rw [hcore, hf1, hf2]
          have : ¬ k = p.key := fun h => hkey h.symm
          simp [upd_apply, this]
        unfold pot at *; omega
    · have hkey : ¬ p.key = k := by intro h; rw [← h] at hk; exact hk hsrcq
      rw [ackCalls_append s t _ k e]; simp [hkey]; exact hi.other k hk

/-- a state change that leaves packet store, name and callback log alone, and keeps the chain
    without a client of itself -/
theorem ackInv_of_frame {q : Chain} {s t : State} (hi : AckInv q s) (hname : t.core.name = s.core.name)
    (hps : t.core.ps = s.core.ps) (hcb : t.cbLog = s.cbLog) (hns : NoSelf t.core) : AckInv q t := by
  have hc : ∀ k, ackCalls t k = ackCalls s k := fun k => by unfold ackCalls; rw [hcb]
  have hp : ∀ k, potCore t.core k = potCore s.core k := fun k => by unfold potCore; rw [hps]
  exact ⟨hname.trans hi.name, hns, fun k hk => by unfold pot; rw [hc, hp]; exact hi.own k hk,
    fun k hk => by rw [hc]; exact hi.other k hk⟩

/-- the operation creates, on chain `c`, a light client of `c` itself -/
def Op.selfClient : Op → Bool
  | .createClient c q _ _ _ => q == c
  | .createClientMsg c _ q _ _ _ _ _ _ => q == c
  | _ => false

end Tibc
