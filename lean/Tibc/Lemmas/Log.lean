import Tibc.Lemmas.World
/-
  How the ghost callback log evolves: exactly one "recv" entry is appended by a successful
  `MsgRecvPacket` on the destination chain, exactly one "ack" entry by a successful
  `MsgAcknowledgement`; nothing else touches it.
-/
namespace Tibc
open Core

variable (H : Data → Digest) (Hc : Str → Str)

theorem validatePacket_ok (s : Core) (p : Packet) (h : validatePacket s p = .ok) :
    packetBasic p = true ∧ s.ps.clean p.pair < p.seq := by
  unfold validatePacket at h
  split at h
  · cases h
  · rename_i hb
    split at h
    · cases h
    · split at h
      · cases h
      · rename_i hc
        exact ⟨by simpa using hb, by omega⟩

/-- change of the callback log by one state transition of a chain -/
inductive LogDelta (s t : State) : Prop
  | same : t.cbLog = s.cbLog → LogDelta s t
  | recv (p : Packet) (π : Proof) (h : Nat) :
      t.cbLog = s.cbLog ++ [⟨"recv", p.port, p.key⟩] → RecvOk H s.core p π h → p.dst = s.core.name →
      (t.core.ps.receipt p.key = true ∨ p.seq ≤ t.core.ps.clean p.pair) → LogDelta s t
  | ack (p : Packet) (a : Data) (π : Proof) (h : Nat) :
      t.cbLog = s.cbLog ++ [⟨"ack", p.port, p.key⟩] → AckOk H s.core p a π h →
      p.src = s.core.name → t.core = (ackWrites H s.core p a).1 → LogDelta s t

theorem recvWrites_receipt (s : Core) (p : Packet) : (recvWrites H s p).1.ps.receipt p.key = true := by
  unfold recvWrites
  simp only
  split
  · split
    · simp
    · split <;> simp
  · simp

theorem msgRecvPacket_log (s : State) (p : Packet) (π : Proof) (h : Nat) (t : String) :
    LogDelta H s (msgRecvPacket H Hc s p π h t).1 := by
  rcases recvPacket_cases H s.core p π h with ⟨hok, e⟩ | ⟨_, e', hcls, e⟩
  · -- checks passed: the receipt is set by the write phase and survives whatever follows
    have hrc := recvWrites_receipt H s.core p
    unfold msgRecvPacket
    rw [e]
    split
    · exact .same rfl
    · exact .same rfl
    · rename_i c heq
      have hc : c = (recvWrites H s.core p).1 := by rw [heq]
      split
      · rename_i hdst
        split
        · exact .same rfl
        · split
          · refine .recv p π h rfl hok ?_ (Or.inl ?_)
            · have hm := mono_recvWrites H s.core p
              have : c.name = s.core.name := by rw [hc]; exact hm.name
              rw [← this]; simpa using hdst
            · show c.ps.receipt p.key = true
              rw [hc]; exact hrc
          · rename_i a' ack' _
            refine .recv p π h rfl hok ?_ ?_
            · have hm := mono_recvWrites H s.core p
              have : c.name = s.core.name := by rw [hc]; exact hm.name
              rw [← this]; simpa using hdst
            · have hm := mono_prim H (Prim.writeAck c p ack')
              exact hm.receipt p.key (by rw [hc]; exact hrc)
      · exact .same rfl
  · unfold msgRecvPacket
    rw [e]
    rcases hcls with rfl | rfl | rfl | rfl <;> exact .same rfl

theorem msgAcknowledgement_log (s : State) (p : Packet) (a : Data) (π : Proof) (h : Nat) :
    LogDelta H s (msgAcknowledgement H Hc s p a π h).1 := by
  unfold msgAcknowledgement
  simp only
  split
  · exact .same rfl
  · rcases acknowledgePacket_cases H s.core p a π h with ⟨hok, e⟩ | ⟨_, e', e⟩
    · rw [e]
      split
      · exact .same rfl
      · split
        · rename_i c heq hsrc
          refine .ack p a π h rfl hok (by simpa using hsrc) ?_
          show c = _
          have := congrArg Prod.fst heq
          exact this.symm
        · exact .same rfl
    · rw [e]; exact .same rfl

theorem sendNftTransfer_cbLog (s : State) (cls id : Str) (sender receiver : Addr) (dst relay : Chain) (dc : String) :
    (sendNftTransfer H s cls id sender receiver dst relay dc).1.cbLog = s.cbLog := by
  unfold sendNftTransfer; split
  · rfl
  · split <;> rfl

theorem sendMtTransfer_cbLog (s : State) (cls id : Str) (sender receiver : Addr) (dst relay : Chain) (dc : String)
    (amt : Nat) (md : String) :
    (sendMtTransfer H s cls id sender receiver dst relay dc amt md).1.cbLog = s.cbLog := by
  unfold sendMtTransfer; split
  · rfl
  · split <;> rfl

theorem handle_log (s : State) (m : Msg) : LogDelta H s (handle H Hc s m).1 := by
  cases m with
  | recvPacket p π h t => exact msgRecvPacket_log H Hc s p π h t
  | acknowledgement p a π h => exact msgAcknowledgement_log H Hc s p a π h
  | cleanPacket cp => exact .same rfl
  | recvCleanPacket cp π h => exact .same rfl
  | nftTransfer cls id sender receiver dst relay dc =>
    simp only [handle]; split
    · exact .same rfl
    · exact .same (sendNftTransfer_cbLog H s _ _ _ _ _ _ _)
  | mtTransfer cls id sender receiver dst relay dc amt md =>
    simp only [handle]; split
    · exact .same rfl
    · exact .same (sendMtTransfer_cbLog H s _ _ _ _ _ _ _ _ _)

theorem deliver_log (s : State) (m : Msg) : LogDelta H s (deliver H Hc s m).1 := by
  unfold deliver
  split
  · exact .same rfl
  · split
    · rename_i s' heq
      have : s' = (handle H Hc s m).1 := by rw [heq]
      subst this; exact handle_log H Hc s m
    · exact .same rfl

theorem userTx_cbLog (s : State) (r : State × Res) (h : r.1.cbLog = s.cbLog) : (userTx s r).1.cbLog = s.cbLog := by
  unfold userTx; split <;> simp_all

/-- every operation's effect on the callback log of every chain -/
theorem step_log (w : World) (op : Op) (q : Chain) : LogDelta H (w q) ((step H Hc w op).1 q) := by
  by_cases hq : q = op.chain
  · subst hq
    cases op with
    | tx c m => simp only [step, Op.chain, setChain_same]; exact deliver_log H Hc (w c) m
    | ksend c p => simp only [step, Op.chain, setChain_same]; exact .same rfl
    | createClient c q' h t pd => simp only [step, Op.chain, setChain_same]; exact .same rfl
    | update c q' h t =>
      simp only [step, Op.chain]; split
      · exact .same rfl
      · simp only [setChain_same]; exact .same rfl
    | setRules c rules =>
      simp only [step, Op.chain]; split
      · exact .same rfl
      · simp only [setChain_same]; exact .same rfl
    | setTime c now => simp only [step, Op.chain, setChain_same]; exact .same rfl
    | createClientMsg c auth q' ct h t pd v cs => simp only [step, Op.chain, setChain_same]; exact .same (createClientMsg_admin _ _ _ _ _ _ _ _ _ _).cbLog
    | upgradeClientMsg c auth q' ct h t pd v cs => simp only [step, Op.chain, setChain_same]; exact .same (upgradeClientMsg_admin _ _ _ _ _ _ _ _ _ _).cbLog
    | registerRelayerMsg c auth q' rs => simp only [step, Op.chain, setChain_same]; exact .same (registerRelayerMsg_admin _ _ _ _).cbLog
    | setRulesMsg c auth rules => simp only [step, Op.chain, setChain_same]; exact .same (setRulesMsg_admin _ _ _).cbLog
    | updateClientMsg c sg q' h t ok => simp only [step, Op.chain, setChain_same]; exact .same (updateClientMsg_admin _ _ _ _ _ _ _).cbLog
    | nftIssue c a cls mr =>
      simp only [step, Op.chain, setChain_same]; refine .same ?_
      unfold nftIssueMsg; repeat' split
      all_goals first | rfl | exact userTx_cbLog _ _ rfl
    | nftMint c a cls id u rc =>
      simp only [step, Op.chain, setChain_same]; refine .same ?_
      unfold nftMintMsg; repeat' split
      all_goals first | rfl | exact userTx_cbLog _ _ rfl
    | nftSend c a cls id rc =>
      simp only [step, Op.chain, setChain_same]; refine .same ?_
      unfold nftSendMsg; repeat' split
      all_goals first | rfl | exact userTx_cbLog _ _ rfl
    | nftBurn c a cls id =>
      simp only [step, Op.chain, setChain_same]; refine .same ?_
      unfold nftBurnMsg; repeat' split
      all_goals first | rfl | exact userTx_cbLog _ _ rfl
    | mtIssue c a cls => simp only [step, Op.chain, setChain_same]; exact .same rfl
    | mtMint c a cls id f amt rc =>
      simp only [step, Op.chain, setChain_same]; refine .same ?_
      unfold mtMintMsg; repeat' split
      all_goals first | rfl | exact userTx_cbLog _ _ rfl
    | mtSend c a cls id amt rc =>
      simp only [step, Op.chain, setChain_same]; refine .same ?_
      unfold mtSendMsg; repeat' split
      all_goals first | rfl | exact userTx_cbLog _ _ rfl
    | mtBurn c a cls id amt =>
      simp only [step, Op.chain, setChain_same]; refine .same ?_
      unfold mtBurnMsg; repeat' split
      all_goals first | rfl | exact userTx_cbLog _ _ rfl
  · rw [step_other H Hc w op q hq]; exact .same rfl

end Tibc
