import Tibc.World
import Tibc.Lemmas.Mono
/-
  World-level lemmas: an operation touches one chain; what every operation preserves.
-/
namespace Tibc
open Core

variable (H : Data → Digest) (Hc : Str → Str)

/-- the part of `Mono` that also survives governance operations (which replace the client
    registry, the routing rules or the block time) -/
structure Grow (s t : Core) : Prop where
  name : t.name = s.name
  clean : ∀ pr, s.ps.clean pr ≤ t.ps.clean pr
  receipt : ∀ k, s.ps.receipt k = true → t.ps.receipt k = true ∨ k.seq ≤ t.ps.clean k.pair
  sent : ∃ l, t.sent = s.sent ++ l
  ackLog : ∃ l, t.ackLog = s.ackLog ++ l
  evlog : ∃ l, t.evlog = s.evlog ++ l

theorem Mono.grow {s t : Core} (h : Mono s t) : Grow s t :=
  ⟨h.name, h.clean, h.receipt, h.sent, h.ackLog, h.evlog⟩

theorem Grow.refl (s : Core) : Grow s s := (Mono.refl s).grow

theorem Grow.trans {s t u : Core} (h1 : Grow s t) (h2 : Grow t u) : Grow s u := by
  refine ⟨h2.name.trans h1.name, fun pr => Nat.le_trans (h1.clean pr) (h2.clean pr), ?_, ?_, ?_, ?_⟩
  · intro k hk
    rcases h1.receipt k hk with h | h
    · exact h2.receipt k h
    · exact Or.inr (Nat.le_trans h (h2.clean _))
  · obtain ⟨l1, e1⟩ := h1.sent; obtain ⟨l2, e2⟩ := h2.sent
    exact ⟨l1 ++ l2, by rw [e2, e1, List.append_assoc]⟩
  · obtain ⟨l1, e1⟩ := h1.ackLog; obtain ⟨l2, e2⟩ := h2.ackLog
    exact ⟨l1 ++ l2, by rw [e2, e1, List.append_assoc]⟩
  · obtain ⟨l1, e1⟩ := h1.evlog; obtain ⟨l2, e2⟩ := h2.evlog
    exact ⟨l1 ++ l2, by rw [e2, e1, List.append_assoc]⟩

/-! ### user messages of the token modules never touch the core state -/

theorem userTx_core (s : State) (r : State × Res) (h : r.1.core = s.core) : (userTx s r).1.core = s.core := by
  unfold userTx; split <;> simp_all

theorem nftIssueMsg_core (s : State) (a : Addr) (cls : Str) (mr : Bool) : (nftIssueMsg s a cls mr).1.core = s.core := by
  unfold nftIssueMsg; repeat' split
  all_goals first | rfl | exact userTx_core _ _ rfl
theorem nftMintMsg_core (s : State) (a : Addr) (cls id : Str) (u : String) (rc : Addr) :
    (nftMintMsg s a cls id u rc).1.core = s.core := by
  unfold nftMintMsg; repeat' split
  all_goals first | rfl | exact userTx_core _ _ rfl
theorem nftSendMsg_core (s : State) (a : Addr) (cls id : Str) (rc : Addr) : (nftSendMsg s a cls id rc).1.core = s.core := by
  unfold nftSendMsg; repeat' split
  all_goals first | rfl | exact userTx_core _ _ rfl
theorem nftBurnMsg_core (s : State) (a : Addr) (cls id : Str) : (nftBurnMsg s a cls id).1.core = s.core := by
  unfold nftBurnMsg; repeat' split
  all_goals first | rfl | exact userTx_core _ _ rfl
theorem mtIssueMsg_core (s : State) (a : Addr) (cls : Str) : (mtIssueMsg s a cls).1.core = s.core := rfl
theorem mtMintMsg_core (s : State) (a : Addr) (cls id : Str) (f : Bool) (amt : Nat) (rc : Addr) :
    (mtMintMsg s a cls id f amt rc).1.core = s.core := by
  unfold mtMintMsg; repeat' split
  all_goals first | rfl | exact userTx_core _ _ rfl
theorem mtSendMsg_core (s : State) (a : Addr) (cls id : Str) (amt : Nat) (rc : Addr) :
    (mtSendMsg s a cls id amt rc).1.core = s.core := by
  unfold mtSendMsg; repeat' split
  all_goals first | rfl | exact userTx_core _ _ rfl
theorem mtBurnMsg_core (s : State) (a : Addr) (cls id : Str) (amt : Nat) : (mtBurnMsg s a cls id amt).1.core = s.core := by
  unfold mtBurnMsg; repeat' split
  all_goals first | rfl | exact userTx_core _ _ rfl

/-! ### governance / relayer messages touch only the client registry, relayers and rules -/

/-- the packet store, name and ghost logs of the core state, the applications and the callback
    log are all unchanged -/
structure AdminOnly (s t : State) : Prop where
  name : t.core.name = s.core.name
  ps : t.core.ps = s.core.ps
  sent : t.core.sent = s.core.sent
  ackLog : t.core.ackLog = s.core.ackLog
  evlog : t.core.evlog = s.core.evlog
  authority : t.core.authority = s.core.authority
  apps : t.apps = s.apps
  cbLog : t.cbLog = s.cbLog

theorem AdminOnly.refl (s : State) : AdminOnly s s := ⟨rfl, rfl, rfl, rfl, rfl, rfl, rfl, rfl⟩

theorem AdminOnly.grow {s t : State} (h : AdminOnly s t) : Grow s.core t.core :=
  ⟨h.name, fun pr => by rw [h.ps]; exact Nat.le_refl _, fun k hk => Or.inl (by rw [h.ps]; exact hk),
   ⟨[], by simp [h.sent]⟩, ⟨[], by simp [h.ackLog]⟩, ⟨[], by simp [h.evlog]⟩⟩

theorem createClientMsg_admin (s : State) (auth : Addr) (q : Chain) (ct : String) (h t pd : Nat) (v cs : Bool) (sn : Snapshot) :
    AdminOnly s (createClientMsg s auth q ct h t pd v cs sn).1 := by
  unfold createClientMsg; repeat' split
  all_goals first | exact AdminOnly.refl s | exact ⟨rfl, rfl, rfl, rfl, rfl, rfl, rfl, rfl⟩
theorem upgradeClientMsg_admin (s : State) (auth : Addr) (q : Chain) (ct : String) (h t pd : Nat) (v cs : Bool) (sn : Snapshot) :
    AdminOnly s (upgradeClientMsg s auth q ct h t pd v cs sn).1 := by
  unfold upgradeClientMsg; repeat' split
  all_goals first | exact AdminOnly.refl s | exact ⟨rfl, rfl, rfl, rfl, rfl, rfl, rfl, rfl⟩
theorem registerRelayerMsg_admin (s : State) (auth : Addr) (q : Chain) (rs : List Addr) :
    AdminOnly s (registerRelayerMsg s auth q rs).1 := by
  unfold registerRelayerMsg; repeat' split
  all_goals first | exact AdminOnly.refl s | exact ⟨rfl, rfl, rfl, rfl, rfl, rfl, rfl, rfl⟩
theorem setRulesMsg_admin (s : State) (auth : Addr) (rules : List Str) :
    AdminOnly s (setRulesMsg s auth rules).1 := by
  unfold setRulesMsg; repeat' split
  all_goals first | exact AdminOnly.refl s | exact ⟨rfl, rfl, rfl, rfl, rfl, rfl, rfl, rfl⟩
theorem updateClientMsg_admin (s : State) (signer : Addr) (q : Chain) (h t : Nat) (ok : Bool) (sn : Snapshot) :
    AdminOnly s (updateClientMsg s signer q h t ok sn).1 := by
  unfold updateClientMsg; repeat' split
  all_goals first | exact AdminOnly.refl s | exact ⟨rfl, rfl, rfl, rfl, rfl, rfl, rfl, rfl⟩

/-- the chain an operation acts on -/
def Op.chain : Op → Chain
  | .tx c _ | .ksend c _ | .createClient c _ _ _ _ | .update c _ _ _ | .setRules c _ | .setTime c _
  | .createClientMsg c _ _ _ _ _ _ _ _ | .upgradeClientMsg c _ _ _ _ _ _ _ _ | .registerRelayerMsg c _ _ _
  | .setRulesMsg c _ _ | .updateClientMsg c _ _ _ _ _
  | .nftIssue c _ _ _ | .nftMint c _ _ _ _ _ | .nftSend c _ _ _ _ | .nftBurn c _ _ _
  | .mtIssue c _ _ | .mtMint c _ _ _ _ _ _ | .mtSend c _ _ _ _ _ | .mtBurn c _ _ _ _ => c

theorem setChain_other (w : World) (c q : Chain) (s : State) (h : q ≠ c) : setChain w c s q = w q := by
  simp [setChain, upd_apply, h]
theorem setChain_same (w : World) (c : Chain) (s : State) : setChain w c s c = s := by
  simp [setChain]

/-- an operation leaves every other chain exactly as it was -/
theorem step_other (w : World) (op : Op) (q : Chain) (h : q ≠ op.chain) : (step H Hc w op).1 q = w q := by
  cases op <;> simp only [step, Op.chain] at h ⊢
  all_goals first
    | exact setChain_other _ _ _ _ h
    | (split <;> first | rfl | exact setChain_other _ _ _ _ h)

/-- every operation only *grows* the core state of the chain it acts on -/
theorem step_grow (w : World) (op : Op) (q : Chain) : Grow (w q).core ((step H Hc w op).1 q).core := by
  by_cases hq : q = op.chain
  · subst hq
    cases op with
    | tx c m => simp only [step, Op.chain, setChain_same]; exact (mono_prims H (deliver_prims H Hc (w c) m)).grow
    | ksend c p => simp only [step, Op.chain, setChain_same]; exact (mono_prim H (Prim.send _ _)).grow
    | createClient c q' h t pd =>
      simp only [step, Op.chain, setChain_same]
      exact ⟨rfl, fun _ => Nat.le_refl _, fun _ h => Or.inl h, ⟨[], by simp⟩, ⟨[], by simp⟩, ⟨[], by simp⟩⟩
    | update c q' h t =>
      simp only [step, Op.chain]
      split
      · exact Grow.refl _
      · simp only [setChain_same]
        exact ⟨rfl, fun _ => Nat.le_refl _, fun _ h => Or.inl h, ⟨[], by simp⟩, ⟨[], by simp⟩, ⟨[], by simp⟩⟩
    | setRules c rules =>
      simp only [step, Op.chain]
      split
      · exact Grow.refl _
      · simp only [setChain_same]
        exact ⟨rfl, fun _ => Nat.le_refl _, fun _ h => Or.inl h, ⟨[], by simp⟩, ⟨[], by simp⟩, ⟨[], by simp⟩⟩
    | setTime c now =>
      simp only [step, Op.chain, setChain_same]
      exact ⟨rfl, fun _ => Nat.le_refl _, fun _ h => Or.inl h, ⟨[], by simp⟩, ⟨[], by simp⟩, ⟨[], by simp⟩⟩
    | createClientMsg c auth q' ct h t pd v cs => simp only [step, Op.chain, setChain_same]; exact (createClientMsg_admin _ _ _ _ _ _ _ _ _ _).grow
    | upgradeClientMsg c auth q' ct h t pd v cs => simp only [step, Op.chain, setChain_same]; exact (upgradeClientMsg_admin _ _ _ _ _ _ _ _ _ _).grow
    | registerRelayerMsg c auth q' rs => simp only [step, Op.chain, setChain_same]; exact (registerRelayerMsg_admin _ _ _ _).grow
    | setRulesMsg c auth rules => simp only [step, Op.chain, setChain_same]; exact (setRulesMsg_admin _ _ _).grow
    | updateClientMsg c sg q' h t ok => simp only [step, Op.chain, setChain_same]; exact (updateClientMsg_admin _ _ _ _ _ _ _).grow
    | nftIssue c a cls mr => simp only [step, Op.chain, setChain_same, nftIssueMsg_core]; exact Grow.refl _
    | nftMint c a cls id u rc => simp only [step, Op.chain, setChain_same, nftMintMsg_core]; exact Grow.refl _
    | nftSend c a cls id rc => simp only [step, Op.chain, setChain_same, nftSendMsg_core]; exact Grow.refl _
    | nftBurn c a cls id => simp only [step, Op.chain, setChain_same, nftBurnMsg_core]; exact Grow.refl _
    | mtIssue c a cls => simp only [step, Op.chain, setChain_same, mtIssueMsg_core]; exact Grow.refl _
    | mtMint c a cls id f amt rc => simp only [step, Op.chain, setChain_same, mtMintMsg_core]; exact Grow.refl _
    | mtSend c a cls id amt rc => simp only [step, Op.chain, setChain_same, mtSendMsg_core]; exact Grow.refl _
    | mtBurn c a cls id amt => simp only [step, Op.chain, setChain_same, mtBurnMsg_core]; exact Grow.refl _
  · rw [step_other H Hc w op q hq]; exact Grow.refl _

/-- over any history, on every chain -/
theorem run_grow (w : World) (ops : List Op) (q : Chain) : Grow (w q).core ((run H Hc w ops) q).core := by
  induction ops generalizing w with
  | nil => exact Grow.refl _
  | cons op ops ih =>
    simp only [run, List.foldl_cons]
    exact Grow.trans (step_grow H Hc w op q) (ih _)

end Tibc
