import Tibc.MsgServer
import Tibc.Lemmas.Keeper
/-
  The message server and the application callbacks, seen from the core state: every handler's
  effect on `State.core` is a composition of packet-keeper primitives; the transfer
  applications never touch the core state except through `SendPacket`.
-/
namespace Tibc

variable (H : Data → Digest) (Hc : Str → Str)

/-- one packet-keeper primitive applied to the core state -/
inductive Prim : Core → Core → Prop
  | send (s : Core) (p : Packet) : Prim s (s.sendPacket H p).1
  | recv (s : Core) (p : Packet) (π : Proof) (h : Nat) : Prim s (s.recvPacket H p π h).1
  | writeAck (s : Core) (p : Packet) (a : Data) : Prim s (s.writeAck H p a).1
  | ack (s : Core) (p : Packet) (a : Data) (π : Proof) (h : Nat) : Prim s (s.acknowledgePacket H p a π h).1
  | clean (s : Core) (cp : CleanPacket) : Prim s (s.cleanPacket cp).1
  | recvClean (s : Core) (cp : CleanPacket) (π : Proof) (h : Nat) : Prim s (s.recvCleanPacket cp π h).1

/-- reflexive-transitive closure of `Prim` -/
inductive Prims : Core → Core → Prop
  | refl (s : Core) : Prims s s
  | step {s t u : Core} : Prims s t → Prim H t u → Prims s u

theorem Prims.single {s t : Core} (h : Prim H s t) : Prims H s t := .step (.refl s) h

theorem Prims.trans {s t u : Core} (h1 : Prims H s t) (h2 : Prims H t u) : Prims H s u := by
  induction h2 with
  | refl => exact h1
  | step _ hp ih => exact .step ih hp

/-- Any relation on core states that is reflexive, transitive and contains every primitive
    contains every composition of primitives. -/
theorem Prims.lift {R : Core → Core → Prop} (hrefl : ∀ s, R s s)
    (htrans : ∀ s t u, R s t → R t u → R s u) (hprim : ∀ s t, Prim H s t → R s t)
    {s t : Core} (h : Prims H s t) : R s t := by
  induction h with
  | refl => exact hrefl _
  | step _ hp ih => exact htrans _ _ _ ih (hprim _ _ hp)

/-! ### every handler's effect on the core state is a composition of primitives -/

@[simp] theorem liftCore_core (s : State) (r : Core × Res) : (liftCore s r).1.core = r.1 := rfl
@[simp] theorem liftCore_res (s : State) (r : Core × Res) : (liftCore s r).2 = r.2 := rfl
@[simp] theorem liftCore_apps (s : State) (r : Core × Res) : (liftCore s r).1.apps = s.apps := rfl
@[simp] theorem liftApps_core (s : State) (r : Apps × Res) : (liftApps s r).1.core = s.core := rfl
@[simp] theorem liftApps_res (s : State) (r : Apps × Res) : (liftApps s r).2 = r.2 := rfl
@[simp] theorem logCb_core (s : State) (k : String) (p : Packet) : (logCb s k p).core = s.core := rfl
@[simp] theorem logCb_apps (s : State) (k : String) (p : Packet) : (logCb s k p).apps = s.apps := rfl

theorem sendNftTransfer_prims (s : State) (cls id : Str) (sender receiver : Addr) (dst relay : Chain)
    (dc : String) : Prims H s.core (sendNftTransfer H s cls id sender receiver dst relay dc).1.core := by
  unfold sendNftTransfer
  split
  · exact Prims.refl _
  · split
    · exact Prims.refl _
    · exact Prims.single H (Prim.send _ _)

theorem sendMtTransfer_prims (s : State) (cls id : Str) (sender receiver : Addr) (dst relay : Chain)
    (dc : String) (amt : Nat) (md : String) :
    Prims H s.core (sendMtTransfer H s cls id sender receiver dst relay dc amt md).1.core := by
  unfold sendMtTransfer
  split
  · exact Prims.refl _
  · split
    · exact Prims.refl _
    · exact Prims.single H (Prim.send _ _)

theorem msgRecvPacket_prims (s : State) (p : Packet) (π : Proof) (h : Nat) (t : String) :
    Prims H s.core (msgRecvPacket H Hc s p π h t).1.core := by
  unfold msgRecvPacket
  have h1 : Prims H s.core (s.core.recvPacket H p π h).1 := Prims.single H (Prim.recv _ _ _ _)
  split
  · rename_i c heq
    have : c = (s.core.recvPacket H p π h).1 := by rw [heq]
    subst this
    exact Prims.step h1 (Prim.writeAck _ _ _)
  · rename_i c e _ heq
    have : c = (s.core.recvPacket H p π h).1 := by rw [heq]
    subst this; exact h1
  · rename_i c heq
    have : c = (s.core.recvPacket H p π h).1 := by rw [heq]
    subst this
    split
    · split
      · exact h1
      · split
        · exact h1
        · exact Prims.step h1 (Prim.writeAck _ _ _)
    · exact h1

theorem msgAcknowledgement_prims (s : State) (p : Packet) (a : Data) (π : Proof) (h : Nat) :
    Prims H s.core (msgAcknowledgement H Hc s p a π h).1.core := by
  unfold msgAcknowledgement
  have h1 : Prims H s.core (s.core.acknowledgePacket H p a π h).1 := Prims.single H (Prim.ack _ _ _ _ _)
  simp only
  split
  · exact Prims.refl _
  · split
    · rename_i c e heq
      have : c = (s.core.acknowledgePacket H p a π h).1 := by rw [heq]
      subst this; exact h1
    · rename_i c heq
      have : c = (s.core.acknowledgePacket H p a π h).1 := by rw [heq]
      subst this
      split <;> exact h1

theorem handle_prims (s : State) (m : Msg) : Prims H s.core (handle H Hc s m).1.core := by
  cases m with
  | recvPacket p π h t => exact msgRecvPacket_prims H Hc s p π h t
  | acknowledgement p a π h => exact msgAcknowledgement_prims H Hc s p a π h
  | cleanPacket cp => exact Prims.single H (Prim.clean _ _)
  | recvCleanPacket cp π h => exact Prims.single H (Prim.recvClean _ _ _ _)
  | nftTransfer cls id sender receiver dst relay dc =>
    simp only [handle]; split
    · exact Prims.refl _
    · exact sendNftTransfer_prims H s _ _ _ _ _ _ _
  | mtTransfer cls id sender receiver dst relay dc amt md =>
    simp only [handle]; split
    · exact Prims.refl _
    · exact sendMtTransfer_prims H s _ _ _ _ _ _ _ _ _

/-- BaseApp around the handler: the core state after `deliver` is a composition of primitives
    applied to the core state before (the identity when the message fails). -/
theorem deliver_prims (s : State) (m : Msg) : Prims H s.core (deliver H Hc s m).1.core := by
  unfold deliver
  split
  · exact Prims.refl _
  · split
    · rename_i s' heq
      have : s' = (handle H Hc s m).1 := by rw [heq]
      subst this; exact handle_prims H Hc s m
    · exact Prims.refl _

/-- a failed message leaves the whole chain state exactly as it was -/
theorem deliver_err_unchanged (s : State) (m : Msg) (e : Err) (h : (deliver H Hc s m).2 = .err e) :
    (deliver H Hc s m).1 = s := by
  unfold deliver at h ⊢
  cases hv : validateBasic m with
  | err e' => simp
  | ok =>
    simp only [hv] at h ⊢
    cases hh : handle H Hc s m with
    | mk s' r =>
      cases r with
      | ok => simp [hh] at h
      | err e' => simp

/-- a successful `MsgRecvPacket` passed every pre-write check of `RecvPacket` -/
theorem deliver_recv_ok (s : State) (p : Packet) (π : Proof) (h : Nat) (t : String)
    (hok : (deliver H Hc s (.recvPacket p π h t)).2 = .ok) :
    Core.RecvOk H s.core p π h := by
  unfold deliver at hok
  cases hv : validateBasic (.recvPacket p π h t) with
  | err e => simp [hv] at hok
  | ok =>
    simp only [hv] at hok
    cases hh : handle H Hc s (.recvPacket p π h t) with
    | mk s' r =>
      cases r with
      | err e => simp [hh] at hok
      | ok =>
        simp only [handle] at hh
        unfold msgRecvPacket at hh
        rcases Core.recvPacket_cases H s.core p π h with ⟨hrok, _⟩ | ⟨_, e, hcls, he⟩
        · exact hrok
        · rw [he] at hh
          rcases hcls with rfl | rfl | rfl | rfl <;> simp at hh

/-- a successful `MsgAcknowledgement` passed every pre-write check of `AcknowledgePacket` -/
theorem deliver_ack_ok (s : State) (p : Packet) (a : Data) (π : Proof) (h : Nat)
    (hok : (deliver H Hc s (.acknowledgement p a π h)).2 = .ok) :
    Core.AckOk H s.core p a π h := by
  unfold deliver at hok
  cases hv : validateBasic (.acknowledgement p a π h) with
  | err e => simp [hv] at hok
  | ok =>
    simp only [hv] at hok
    cases hh : handle H Hc s (.acknowledgement p a π h) with
    | mk s' r =>
      cases r with
      | err e => simp [hh] at hok
      | ok =>
        simp only [handle] at hh
        unfold msgAcknowledgement at hh
        rcases Core.acknowledgePacket_cases H s.core p a π h with ⟨hrok, _⟩ | ⟨_, e, he⟩
        · exact hrok
        · rw [he] at hh
          simp only at hh
          split at hh <;> simp at hh

end Tibc
