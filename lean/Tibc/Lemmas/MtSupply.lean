import Tibc.App.Tokens
/-
  Per-chain conservation of the multi-token module: for every (class, id) the balances of all
  holders add up to the recorded supply, and nothing exceeds 2^64-1 — preserved by every keeper
  operation the users and the transfer application can reach, whatever its outcome.
-/
namespace Tibc
open MtMod

def sumOver (A : List Addr) (f : Addr → Nat) : Nat := (A.map f).sum

theorem sumOver_cons (a : Addr) (A : List Addr) (f : Addr → Nat) : sumOver (a :: A) f = f a + sumOver A f := by
  simp [sumOver]

theorem sumOver_update_notMem (A : List Addr) (f : Addr → Nat) (a0 : Addr) (v : Nat) (h : a0 ∉ A) :
    sumOver A (fun a => if a = a0 then v else f a) = sumOver A f := by
  induction A with
  | nil => rfl
  | cons x rest ih =>
    have hx : x ≠ a0 := fun e => h (by simp [e])
    have hr : a0 ∉ rest := fun e => h (by simp [e])
    rw [sumOver_cons, sumOver_cons, ih hr]
    simp [hx]

theorem sumOver_update_mem (A : List Addr) (hnd : A.Nodup) (f : Addr → Nat) (a0 : Addr) (v : Nat) (h : a0 ∈ A) :
    sumOver A (fun a => if a = a0 then v else f a) + f a0 = sumOver A f + v := by
  induction A with
  | nil => cases h
  | cons x rest ih =>
    rw [List.nodup_cons] at hnd
    rw [sumOver_cons, sumOver_cons]
    by_cases hx : x = a0
    · subst hx
      rw [sumOver_update_notMem rest f x v hnd.1]
      simp only [if_true]
      omega
    · have hr : a0 ∈ rest := by
        rcases List.mem_cons.mp h with e | e
        · exact absurd e.symm hx
        · exact e
      have := ih hnd.2 hr
      simp only [hx, if_false]
      omega

theorem le_sumOver (A : List Addr) (f : Addr → Nat) (a : Addr) (h : a ∈ A) : f a ≤ sumOver A f := by
  induction A with
  | nil => cases h
  | cons x rest ih =>
    rw [sumOver_cons]
    rcases List.mem_cons.mp h with e | e
    · subst e; omega
    · have := ih e; omega

theorem two_le_sumOver (A : List Addr) (hnd : A.Nodup) (f : Addr → Nat) (a b : Addr) (ha : a ∈ A) (hb : b ∈ A) (hne : a ≠ b) :
    f a + f b ≤ sumOver A f := by
  induction A with
  | nil => cases ha
  | cons x rest ih =>
    rw [List.nodup_cons] at hnd
    rw [sumOver_cons]
    rcases List.mem_cons.mp ha with e1 | e1
    · rcases List.mem_cons.mp hb with e2 | e2
      · exact absurd (e1.trans e2.symm) hne
      · subst e1; have := le_sumOver rest f b e2; omega
    · rcases List.mem_cons.mp hb with e2 | e2
      · subst e2; have := le_sumOver rest f a e1; omega
      · have := ih hnd.2 e1 e2; omega

/-- the invariant, with an explicit finite list of (possible) holders -/
def MtInvOn (m : MtMod) (A : List Addr) : Prop :=
  A.Nodup ∧ (∀ cls id a, a ∉ A → m.bal (cls, id, a) = 0) ∧
  (∀ cls id, sumOver A (fun a => m.bal (cls, id, a)) = m.supply (cls, id)) ∧
  (∀ cls id, m.supply (cls, id) ≤ U64MAX)

/-- **Conservation invariant**: some finite set of holders accounts for every balance, the
    balances of every (class, id) add up to its supply, and every supply fits 64 bits. -/
def MtInv (m : MtMod) : Prop := ∃ A, MtInvOn m A

theorem MtInvOn.extend {m : MtMod} {A : List Addr} (h : MtInvOn m A) (x : Addr) : ∃ B, MtInvOn m B ∧ x ∈ B ∧ ∀ a ∈ A, a ∈ B := by
  by_cases hx : x ∈ A
  · exact ⟨A, h, hx, fun _ ha => ha⟩
  · refine ⟨x :: A, ⟨List.nodup_cons.mpr ⟨hx, h.1⟩, ?_, ?_, h.2.2.2⟩, by simp, fun a ha => by simp [ha]⟩
    · intro cls id a ha
      exact h.2.1 cls id a (fun e => ha (by simp [e]))
    · intro cls id
      rw [sumOver_cons, h.2.1 cls id x hx, Nat.zero_add]
      exact h.2.2.1 cls id

theorem MtInvOn.bal_le {m : MtMod} {A : List Addr} (h : MtInvOn m A) (cls id : Str) (a : Addr) :
    m.bal (cls, id, a) ≤ m.supply (cls, id) := by
  by_cases ha : a ∈ A
  · rw [← h.2.2.1 cls id]; exact le_sumOver A (fun a => m.bal (cls, id, a)) a ha
  · rw [h.2.1 cls id a ha]; omega

theorem mtInv_empty : MtInv MtMod.empty := ⟨[], List.nodup_nil, fun _ _ _ _ => rfl, fun _ _ => rfl, fun _ _ => by simp [MtMod.empty, U64MAX]⟩

/-- a state that differs only in the balance of one holder of one (class, id) and in that supply -/
theorem mtInvOn_of_update {m : MtMod} {A : List Addr} (h : MtInvOn m A) (cls id : Str) (a0 : Addr) (ha0 : a0 ∈ A)
    (v s' : Nat) (m' : MtMod)
    (hbal : m'.bal = upd m.bal (cls, id, a0) v) (hsup : m'.supply = upd m.supply (cls, id) s')
    (hsum : s' + m.bal (cls, id, a0) = m.supply (cls, id) + v) (hb : s' ≤ U64MAX) : MtInvOn m' A := by
  refine ⟨h.1, ?_, ?_, ?_⟩
  · intro c i a ha
    rw [hbal, upd_apply]
    split
    · rename_i heq
      have : a = a0 := by have := congrArg (fun x => x.2.2) heq; exact this
      rw [this] at ha; exact absurd ha0 ha
    · exact h.2.1 c i a ha
  · intro c i
    rw [hsup, upd_apply]
    by_cases hk : (c, i) = (cls, id)
    · have hc : c = cls := congrArg Prod.fst hk
      have hi : i = id := congrArg Prod.snd hk
      subst hc; subst hi
      simp only [if_true]
      have hfun : (fun a => m'.bal (c, i, a)) = (fun a => if a = a0 then v else m.bal (c, i, a)) := by
        funext a
        rw [hbal, upd_apply]
        by_cases e : a = a0
        · simp [e]
        · have : ¬ ((c, i, a) = (c, i, a0)) := fun h => e (congrArg (fun x => x.2.2) h)
          simp [e, this]
      rw [hfun]
      have := sumOver_update_mem A h.1 (fun a => m.bal (c, i, a)) a0 v ha0
      have hs := h.2.2.1 c i
      omega
    · simp only [hk, if_false]
      have hfun : (fun a => m'.bal (c, i, a)) = (fun a => m.bal (c, i, a)) := by
        funext a
        rw [hbal, upd_apply]
        have : ¬ ((c, i, a) = (cls, id, a0)) := fun h => hk (by
          have h1 := congrArg Prod.fst h
          have h2 := congrArg (fun x => x.2.1) h
          simp only at h1 h2
          rw [h1, h2])
        simp [this]
      rw [hfun]; exact h.2.2.1 c i
  · intro c i
    rw [hsup, upd_apply]
    split
    · exact hb
    · exact h.2.2.2 c i


theorem mtInvOn_congr {m m' : MtMod} {A : List Addr} (h : MtInvOn m A) (hb : m'.bal = m.bal) (hs : m'.supply = m.supply) :
    MtInvOn m' A := by
  unfold MtInvOn at *; rw [hb, hs]; exact h

theorem subWrap_no_wrap (a b : Nat) (ha : a ≤ U64MAX) (hb : b ≤ a) : subWrap a b = a - b := by
  unfold subWrap U64MAX at *
  have h1 : b % 2^64 = b := Nat.mod_eq_of_lt (by omega)
  rw [h1]
  have : a + 2^64 - b = (a - b) + 2^64 := by omega
  rw [this, Nat.add_mod_right]
  exact Nat.mod_eq_of_lt (by omega)

theorem upd_self {α β : Type} [DecidableEq α] (f : α → β) (k : α) : upd f k (f k) = f := by
  funext x; rw [upd_apply]; split
  · rename_i h; rw [h]
  · rfl

theorem upd_upd {α β : Type} [DecidableEq α] (f : α → β) (k : α) (x y : β) : upd (upd f k x) k y = upd f k y := by
  funext z; simp only [upd_apply]; split <;> rfl

/-- increase supply and one balance by the same amount (`MintMT`, `IssueMT`) -/
theorem mint_like_inv {m : MtMod} (h : MtInv m) (cls id : Str) (amt : Nat) (rcpt : Addr) (m' : MtMod)
    (hroom : m.supply (cls, id) + amt ≤ U64MAX)
    (hbal : m'.bal = upd m.bal (cls, id, rcpt) (m.bal (cls, id, rcpt) + amt))
    (hsup : m'.supply = upd m.supply (cls, id) (m.supply (cls, id) + amt)) : MtInv m' := by
  obtain ⟨A, hA⟩ := h
  obtain ⟨B, hB, hr, _⟩ := hA.extend rcpt
  exact ⟨B, mtInvOn_of_update hB cls id rcpt hr _ _ m' hbal hsup (by omega) hroom⟩

theorem mintMT_inv {m : MtMod} (h : MtInv m) (cls id : Str) (amt : Nat) (rcpt : Addr) : MtInv (mintMT m cls id amt rcpt).1 := by
  unfold mintMT incSupply
  simp only
  by_cases hs : U64MAX - m.supply (cls, id) < amt
  · simp only [hs, if_true]; exact h
  · simp only [hs, if_false]
    obtain ⟨A, hA⟩ := h
    have hb := hA.bal_le cls id rcpt
    have hsb := hA.2.2.2 cls id
    unfold addBalance
    simp only
    have hno : ¬ (U64MAX - m.bal (cls, id, rcpt) < amt) := by omega
    simp only [hno, if_false]
    exact mint_like_inv ⟨A, hA⟩ cls id amt rcpt _ (by omega) rfl rfl

theorem issueMT_inv {m : MtMod} (h : MtInv m) (cls id : Str) (amt : Nat) (rcpt : Addr) : MtInv (issueMT m cls id amt rcpt).1 := by
  unfold issueMT incSupply
  simp only
  by_cases hs : U64MAX - m.supply (cls, id) < amt
  · simp only [hs, if_true]
    obtain ⟨A, hA⟩ := h
    exact ⟨A, mtInvOn_congr hA rfl rfl⟩
  · simp only [hs, if_false]
    obtain ⟨A, hA⟩ := h
    have hb := hA.bal_le cls id rcpt
    have hsb := hA.2.2.2 cls id
    unfold addBalance
    simp only
    have hno : ¬ (U64MAX - m.bal (cls, id, rcpt) < amt) := by omega
    simp only [hno, if_false]
    exact mint_like_inv ⟨A, hA⟩ cls id amt rcpt _ (by omega) rfl rfl

theorem burn_inv {m : MtMod} (h : MtInv m) (cls id : Str) (amt : Nat) (owner : Addr) : MtInv (burn m cls id amt owner).1 := by
  unfold burn
  by_cases hlt : m.bal (cls, id, owner) < amt
  · simp only [hlt, if_true]; exact h
  · simp only [hlt, if_false]
    obtain ⟨A, hA⟩ := h
    obtain ⟨B, hB, hr, _⟩ := hA.extend owner
    have hb := hB.bal_le cls id owner
    have hsb := hB.2.2.2 cls id
    refine ⟨B, mtInvOn_of_update hB cls id owner hr (m.bal (cls, id, owner) - amt) (m.supply (cls, id) - amt) _ ?_ ?_ (by omega) (by omega)⟩
    · simp only [decSupply, subBalance]
      rw [subWrap_no_wrap _ _ (by omega) (by omega)]
    · simp only [decSupply, subBalance]
      rw [subWrap_no_wrap _ _ hsb (by omega)]

theorem transferOwner_inv {m : MtMod} (h : MtInv m) (cls id : Str) (amt : Nat) (src dst : Addr) :
    MtInv (transferOwner m cls id amt src dst).1 := by
  unfold transferOwner
  by_cases hlt : m.bal (cls, id, src) < amt
  · simp only [hlt, if_true]; exact h
  · simp only [hlt, if_false]
    obtain ⟨A, hA⟩ := h
    obtain ⟨B0, hB0, hs0, hsub0⟩ := hA.extend src
    obtain ⟨B, hB, hd, hsub⟩ := hB0.extend dst
    have hs : src ∈ B := hsub src hs0
    have hbs := hB.bal_le cls id src
    have hsb := hB.2.2.2 cls id
    unfold addBalance subBalance
    simp only
    rw [subWrap_no_wrap _ _ (by omega) (by omega)]
    by_cases hsd : src = dst
    · subst hsd
      simp only [upd_apply, if_true]
      have hno : ¬ (U64MAX - (m.bal (cls, id, src) - amt) < amt) := by omega
      simp only [hno, if_false]
      refine ⟨B, mtInvOn_congr hB ?_ rfl⟩
      show upd (upd m.bal (cls, id, src) (m.bal (cls, id, src) - amt)) (cls, id, src) (m.bal (cls, id, src) - amt + amt) = m.bal
      rw [upd_upd]
      have : m.bal (cls, id, src) - amt + amt = m.bal (cls, id, src) := by omega
      rw [this, upd_self]
    · have hk : ¬ ((cls, id, dst) = (cls, id, src)) := fun e => hsd (congrArg (fun x => x.2.2) e).symm
      simp only [upd_apply, hk, if_false]
      have htwo := two_le_sumOver B hB.1 (fun a => m.bal (cls, id, a)) src dst hs hd hsd
      rw [hB.2.2.1 cls id] at htwo
      have hno : ¬ (U64MAX - m.bal (cls, id, dst) < amt) := by omega
      simp only [hno, if_false]
      -- two single-holder updates through a virtual state with the supply lowered by `amt`
      let m1 : MtMod := { m with bal := upd m.bal (cls, id, src) (m.bal (cls, id, src) - amt),
                                 supply := upd m.supply (cls, id) (m.supply (cls, id) - amt) }
      have h1 : MtInvOn m1 B := mtInvOn_of_update hB cls id src hs _ _ m1 rfl rfl (by omega) (by omega)
      refine ⟨B, mtInvOn_of_update h1 cls id dst hd (m.bal (cls, id, dst) + amt) (m.supply (cls, id)) _ ?_ ?_ ?_ hsb⟩
      · show upd (upd m.bal (cls, id, src) (m.bal (cls, id, src) - amt)) (cls, id, dst) (m.bal (cls, id, dst) + amt) = upd m1.bal (cls, id, dst) (m.bal (cls, id, dst) + amt)
        rfl
      · show m.supply = upd m1.supply (cls, id) (m.supply (cls, id))
        show m.supply = upd (upd m.supply (cls, id) (m.supply (cls, id) - amt)) (cls, id) (m.supply (cls, id))
        rw [upd_upd, upd_self]
      · show m.supply (cls, id) + m1.bal (cls, id, dst) = m1.supply (cls, id) + (m.bal (cls, id, dst) + amt)
        have e1 : m1.bal (cls, id, dst) = m.bal (cls, id, dst) := by simp [m1, upd_apply, hk]
        have e2 : m1.supply (cls, id) = m.supply (cls, id) - amt := by simp [m1, upd_apply]
        rw [e1, e2]; omega

theorem issueDenom_inv {m : MtMod} (h : MtInv m) (cls : Str) (owner : Addr) : MtInv (issueDenom m cls owner) := by
  obtain ⟨A, hA⟩ := h
  exact ⟨A, mtInvOn_congr hA rfl rfl⟩

end Tibc

namespace Tibc
open MtMod

/-! ### exact forms of the keeper operations (no wrap-around under the stated bounds) -/

theorem transferOwner_eq (m : MtMod) (cls id : Str) (amt : Nat) (src dst : Addr) (hne : src ≠ dst)
    (hsrc : m.bal (cls, id, src) ≤ U64MAX) (henough : amt ≤ m.bal (cls, id, src))
    (hroom : m.bal (cls, id, dst) + amt ≤ U64MAX) :
    transferOwner m cls id amt src dst =
      ({ m with bal := upd (upd m.bal (cls, id, src) (m.bal (cls, id, src) - amt)) (cls, id, dst) (m.bal (cls, id, dst) + amt) }, .ok) := by
  unfold transferOwner
  have h1 : ¬ m.bal (cls, id, src) < amt := by omega
  simp only [h1, if_false]
  unfold addBalance subBalance
  have hk : ¬ ((cls, id, dst) = (cls, id, src)) := fun h => hne (congrArg (fun x => x.2.2) h).symm
  simp only [upd_apply, hk, if_false]
  have h2 : ¬ U64MAX - m.bal (cls, id, dst) < amt := by omega
  simp only [h2, if_false]
  rw [subWrap_no_wrap _ _ hsrc henough]

theorem burn_eq (m : MtMod) (cls id : Str) (amt : Nat) (owner : Addr)
    (hb : m.bal (cls, id, owner) ≤ U64MAX) (henough : amt ≤ m.bal (cls, id, owner))
    (hs : m.supply (cls, id) ≤ U64MAX) (hsup : amt ≤ m.supply (cls, id)) :
    burn m cls id amt owner =
      ({ m with bal := upd m.bal (cls, id, owner) (m.bal (cls, id, owner) - amt),
                supply := upd m.supply (cls, id) (m.supply (cls, id) - amt) }, .ok) := by
  unfold burn
  have h1 : ¬ m.bal (cls, id, owner) < amt := by omega
  simp only [h1, if_false, decSupply, subBalance]
  rw [subWrap_no_wrap _ _ hb henough, subWrap_no_wrap _ _ hs hsup]

theorem mintMT_eq (m : MtMod) (cls id : Str) (amt : Nat) (rcpt : Addr)
    (hs : m.supply (cls, id) + amt ≤ U64MAX) (hb : m.bal (cls, id, rcpt) + amt ≤ U64MAX) :
    mintMT m cls id amt rcpt =
      ({ m with supply := upd m.supply (cls, id) (m.supply (cls, id) + amt),
                bal := upd m.bal (cls, id, rcpt) (m.bal (cls, id, rcpt) + amt) }, .ok) := by
  unfold mintMT incSupply
  have h1 : ¬ U64MAX - m.supply (cls, id) < amt := by omega
  simp only [h1, if_false]
  unfold addBalance
  have h2 : ¬ U64MAX - m.bal (cls, id, rcpt) < amt := by omega
  simp only [h2, if_false]

end Tibc
