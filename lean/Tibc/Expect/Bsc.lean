import Tibc.Generated.Facts
import Tibc.LC.Bsc
/- What the BSC client model assumes about the constants of the current source. -/
namespace Tibc.Expect.Bsc
open Tibc BSC

theorem gas_divisor : gasLimitBoundDivisor = Facts.bscGasLimitBoundDivisor := rfl
theorem min_gas : minGasLimit = Facts.gethMinGasLimit := rfl

theorem difficulty_by_turn (c : Client) (h : Hdr) (s : BSC.Addr) (hs : h.signer = some s) :
    BSC.sealOk c h =
      ((s == h.coinbase) && (vset c.validators).contains s && !recentlySigned c h.number s &&
       (if inturn c s then h.difficulty == Facts.bscDiffInTurn else h.difficulty == Facts.bscDiffNoTurn)) := by
  unfold BSC.sealOk; rw [hs]; rfl

/-- the descriptor of a header's extra-data used by the stream: 32 bytes vanity, 65 bytes seal, 20-byte addresses -/
theorem extra_layout : Facts.bscExtraVanity = 32 ∧ Facts.bscExtraSeal = 65 ∧ Facts.bscAddressLength = 20 := ⟨rfl, rfl, rfl⟩

theorem signers_bytes (h : Hdr) : signersBytes h = Facts.bscAddressLength * h.extraVals.length + h.extraRem := rfl

end Tibc.Expect.Bsc
