import Tibc.Generated.Facts
import Tibc.App.Transfer
/-
  What the packet / application model assumes about store keys and names of the current source:
  the model keeps every key family of the packet sub-store in a separate map, which is sound only
  if no key of one family can equal (or be a prefix of) a key of another.
-/
namespace Tibc.Expect.Packet
open Tibc

def withSlash (s : String) : List Char := s.toList ++ ['/']

/-- **The key spaces of the packet sub-store are disjoint**: no family's prefix (with its `/`)
    is a prefix of another family's. -/
theorem packet_key_spaces_disjoint :
    ∀ a ∈ Facts.hostPacketPrefixes, ∀ b ∈ Facts.hostPacketPrefixes, a ≠ b →
      (withSlash a).isPrefixOf (withSlash b) = false := by
  decide

theorem six_families : Facts.hostPacketPrefixes.length = 6 := rfl

theorem client_prefixes : Facts.hostKeyClientStorePrefix = "clients" ∧ Facts.hostKeyConsensusStatePrefix = "consensusStates" :=
  ⟨rfl, rfl⟩

theorem ports : nftPort = Facts.nftPort ∧ mtPort = Facts.mtPort := ⟨rfl, rfl⟩

theorem class_prefixes :
    String.ofList voucherPfx = Facts.nftClassPrefix ∧ String.ofList voucherPfx = Facts.mtClassPrefix ∧
    String.ofList nftPfx = Facts.nftClassPathPrefix ∧ String.ofList mtPfx = Facts.mtClassPathPrefix ∧
    String.singleton ClassPath.delim = Facts.nftDelimiter ∧ String.singleton ClassPath.delim = Facts.mtDelimiter := by
  decide

end Tibc.Expect.Packet
