import Tibc.Generated.Facts
import Tibc.Host.Keys
/-
  The shapes of the packet store keys in the current source (`core/24-host/keys.go`, extracted on
  every run: the returned expression of each one-line builder) against the shapes `Host/Keys.lean`
  implements. A changed format string, argument order or prefix constant makes one of these `rfl`s
  fail. (The *behaviour* of the builders and of the iterators' key parser is compared on random
  names by the `keys` stream.)
-/
namespace Tibc.Expect.Keys
open Tibc Tibc.Host

/-- `packetPath src dst = join [src, dst]` -/
theorem packetPath_shape : Facts.hostShape_packetPath = "fmt.Sprintf(\"%s/%s\", sourceChain, destinationChain)" := rfl

/-- `seqPrefixPath pfx src dst = join [pfx, packetPath src dst, "sequences"]` -/
theorem seqPrefix_shapes :
    Facts.hostShape_PacketCommitmentPrefixPath = "fmt.Sprintf(\"%s/%s/%s\", KeyPacketCommitmentPrefix, packetPath(sourceChain, destinationChain), KeySequencePrefix)" ∧
    Facts.hostShape_PacketAcknowledgementPrefixPath = "fmt.Sprintf(\"%s/%s/%s\", KeyPacketAckPrefix, packetPath(sourceChain, destinationChain), KeySequencePrefix)" ∧
    Facts.hostShape_PacketReceiptPrefixPath = "fmt.Sprintf(\"%s/%s/%s\", KeyPacketReceiptPrefix, packetPath(sourceChain, destinationChain), KeySequencePrefix)" :=
  ⟨rfl, rfl, rfl⟩

/-- `seqPath pfx src dst n = join [seqPrefixPath pfx src dst, digits n]` -/
theorem seqPath_shapes :
    Facts.hostShape_PacketCommitmentPath = "fmt.Sprintf(\"%s/%d\", PacketCommitmentPrefixPath(sourceChain, destinationChain), sequence)" ∧
    Facts.hostShape_PacketAcknowledgementPath = "fmt.Sprintf(\"%s/%d\", PacketAcknowledgementPrefixPath(sourceChain, destinationChain), sequence)" ∧
    Facts.hostShape_PacketReceiptPath = "fmt.Sprintf(\"%s/%d\", PacketReceiptPrefixPath(sourceChain, destinationChain), sequence)" :=
  ⟨rfl, rfl, rfl⟩

/-- `pairPath pfx src dst = join [pfx, packetPath src dst]` -/
theorem pairPath_shapes :
    Facts.hostShape_CleanPacketCommitmentPath = "fmt.Sprintf(\"%s/%s\", KeyCleanPacketCommitmentPrefix, packetPath(sourceChain, destinationChain))" ∧
    Facts.hostShape_MaxAckSeqPath = "fmt.Sprintf(\"%s/%s\", keyMaxAckSeqPrefix, packetPath(sourceChain, destinationChain))" ∧
    Facts.hostShape_NextSequenceSendPath = "fmt.Sprintf(\"%s/%s\", KeyNextSeqSendPrefix, packetPath(sourceChain, destChain))" :=
  ⟨rfl, rfl, rfl⟩

/-- a key is the byte string of its path -/
theorem key_shapes :
    Facts.hostShape_PacketCommitmentKey = "[]byte(PacketCommitmentPath(sourceChain, destinationChain, sequence))" ∧
    Facts.hostShape_PacketAcknowledgementKey = "[]byte(PacketAcknowledgementPath(sourceChain, destinationChain, sequence))" ∧
    Facts.hostShape_PacketReceiptKey = "[]byte(PacketReceiptPath(sourceChain, destinationChain, sequence))" ∧
    Facts.hostShape_CleanPacketCommitmentKey = "[]byte(CleanPacketCommitmentPath(sourceChain, destinationChain))" ∧
    Facts.hostShape_MaxAckSeqKey = "[]byte(MaxAckSeqPath(sourceChain, destinationChain))" ∧
    Facts.hostShape_NextSequenceSendKey = "[]byte(NextSequenceSendPath(sourceChain, destChain))" :=
  ⟨rfl, rfl, rfl, rfl, rfl, rfl⟩

/-- the prefix constants the model uses are the source's -/
theorem prefixes :
    String.ofList commitPfx = Facts.hostKeyPacketCommitmentPrefix ∧ String.ofList ackPfx = Facts.hostKeyPacketAckPrefix ∧
    String.ofList receiptPfx = Facts.hostKeyPacketReceiptPrefix ∧ String.ofList cleanPfx = Facts.hostKeyCleanPacketCommitmentPrefix ∧
    String.ofList maxAckPfx = Facts.hostKeyMaxAckSeqPrefix ∧ String.ofList nextSendPfx = Facts.hostKeyNextSeqSendPrefix ∧
    String.ofList sequencesSeg = Facts.hostKeySequencePrefix := by
  decide

/-- no prefix constant contains the separator -/
theorem prefixes_noslash :
    '/' ∉ commitPfx ∧ '/' ∉ ackPfx ∧ '/' ∉ receiptPfx ∧ '/' ∉ cleanPfx ∧ '/' ∉ maxAckPfx ∧ '/' ∉ nextSendPfx := by
  decide

end Tibc.Expect.Keys
