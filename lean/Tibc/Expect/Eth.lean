import Tibc.Generated.Facts
import Tibc.LC.Eth
/-
  What the ETH client model assumes about the constants of the current source
  (`Generated/Facts.lean` is rewritten from /repo on every run): each statement is closed by
  `rfl`, i.e. the model's definition *is* the formula over the extracted constants.
-/
namespace Tibc.Expect.Eth
open Tibc ETH

theorem bomb_delay : bombDelayFromParent + 1 = Facts.ethBombDelay := rfl

theorem gas_limit_rule (p h : Hdr) :
    gasLimitOk p h = (decide (absDiff p.gasLimit h.gasLimit < p.gasLimit / Facts.gethGasLimitBoundDivisor) &&
                      decide (h.gasLimit ≥ Facts.gethMinGasLimit)) := rfl

theorem base_fee_rule (p : Hdr) :
    calcBaseFee p =
      (let target := p.gasLimit / Facts.ethElasticityMultiplier
       if p.gasUsed == target then p.baseFee
       else if p.gasUsed > target then
         p.baseFee + max (p.baseFee * (p.gasUsed - target) / target / Facts.ethBaseFeeChangeDenominator) 1
       else p.baseFee - p.baseFee * (target - p.gasUsed) / target / Facts.ethBaseFeeChangeDenominator) := rfl

theorem future_and_structure (c : Client) (h : Hdr) (now : Nat) (p : Hdr) (hp : parentOf c h = some p) :
    accepts c h now =
      ((decide (h.extraLen ≤ Facts.gethMaximumExtraDataSize) && decide (h.gasLimit ≤ 2^63 - 1) && decide (h.gasUsed ≤ h.gasLimit) &&
        h.wellFormed && (h.number == 0 || h.difficulty != 0)) &&
       (c.idx (h.hash, h.number)).isNone &&
       (decide (h.time ≤ now + Facts.ethAllowedFutureSecs) && decide (h.time > p.time) &&
        gasLimitOk p h && (h.baseFee == calcBaseFee p) && (h.difficulty == calcDifficulty h.time p) && h.sealOk)) := by
  unfold accepts validateBasic
  rw [hp]
  rfl

theorem minimum_difficulty (t : Nat) (p : Hdr) : calcDifficulty t p ≥ Facts.gethMinimumDifficulty := by
  unfold calcDifficulty Facts.gethMinimumDifficulty
  simp only
  generalize (if (if p.number ≥ bombDelayFromParent then p.number - bombDelayFromParent else 0) / 100000 > 1 then
    2 ^ ((if p.number ≥ bombDelayFromParent then p.number - bombDelayFromParent else 0) / 100000 - 2) else 0 : Nat) = bomb
  split <;> omega

theorem difficulty_divisor : Facts.gethDifficultyBoundDivisor = 2048 := rfl

end Tibc.Expect.Eth
