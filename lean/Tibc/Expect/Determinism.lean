import Tibc.Generated.Facts
/-
  C20: the state machine takes time from the block header only and uses no random source and
  nothing of the process environment. The extractor lists every reference to the host clock
  (`time.Now/Since/Until`), to `math/rand` / `crypto/rand`, to `os.Getenv & co.` and to temporary /
  per-user directories (`os.TempDir`, `ioutil.TempDir`, …) in the non-test
  files of `modules/tibc` (CLI, simulation and test helpers excluded). On the current tree all of
  them sit in the ethash port taken over from go-ethereum (progress logging while the
  verification cache is generated, temporary file names, and the miner, which the light client
  never runs), plus the fresh temporary directory `verifyCascadingFields` creates for the ethash cache
  of one seal check and removes afterwards. A new reference anywhere — e.g. `time.Now()` in a header check — changes the list and
  this proof no longer checks.
-/
namespace Tibc.Expect.Determinism
open Tibc

def expected : List String :=
  ["modules/tibc/light-clients/09-eth/types/algorithm.go:generateCache:time.Now",
   "modules/tibc/light-clients/09-eth/types/algorithm.go:generateCache:time.Since",
   "modules/tibc/light-clients/09-eth/types/algorithm.go:generateDataset:time.Now",
   "modules/tibc/light-clients/09-eth/types/algorithm.go:generateDataset:time.Since",
   "modules/tibc/light-clients/09-eth/types/ethash.go:memoryMapAndGenerate:math/rand.Int",
   "modules/tibc/light-clients/09-eth/types/header.go:verifyCascadingFields:io/ioutil.TempDir",
   "modules/tibc/light-clients/09-eth/types/sealer.go:Seal:crypto/rand.Int",
   "modules/tibc/light-clients/09-eth/types/sealer.go:Seal:crypto/rand.Reader",
   "modules/tibc/light-clients/09-eth/types/sealer.go:Seal:math/rand.New",
   "modules/tibc/light-clients/09-eth/types/sealer.go:Seal:math/rand.NewSource",
   "modules/tibc/light-clients/09-eth/types/sealer.go:loop:time.Now",
   "modules/tibc/light-clients/09-eth/types/sealer.go:loop:time.Since",
   "modules/tibc/light-clients/09-eth/types/sealer.go:submitWork:time.Now",
   "modules/tibc/light-clients/09-eth/types/sealer.go:submitWork:time.Since"]

/-- no source of node-dependent values outside the ethash port's logging / file naming / miner -/
theorem nondeterminism_sources_are_the_known_ones : Facts.nondetSites = expected := by decide

end Tibc.Expect.Determinism
