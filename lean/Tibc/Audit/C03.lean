import Tibc.Props.C03
import Tibc.Expect.Packet
import Tibc.Expect.Keys
#print axioms Tibc.C03.ack_accepted_authentic
#print axioms Tibc.C03.ack_writes_only_after_verification
#print axioms Tibc.C03.ack_deletes_commitment
#print axioms Tibc.C03.ack_written_nonempty_never_overwritten
#print axioms Tibc.C03.recorded_ack_is_app_ack
#print axioms Tibc.C03.ack_accepted_was_written
#print axioms Tibc.C03.step_ackInv
#print axioms Tibc.C03.ack_processed_at_most_once
#print axioms Tibc.C03.ack_key_injective
#print axioms Tibc.C03.ack_key_family_disjoint
