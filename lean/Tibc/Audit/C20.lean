import Tibc.Props.C20
import Tibc.Expect.Bsc
import Tibc.Expect.Eth
import Tibc.Expect.Determinism
#print axioms Tibc.C20.any_perm
#print axioms Tibc.C20.insertAsc_pairwise
#print axioms Tibc.C20.vset_pairwise
#print axioms Tibc.C20.vset_ext
#print axioms Tibc.C20.bsc_accepts_order_independent
#print axioms Tibc.C20.routing_order_independent
#print axioms Tibc.C20.eth_accepts_monotone_in_time
