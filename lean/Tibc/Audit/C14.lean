import Tibc.Props.C14
#print axioms Tibc.C14.tm_status_iff
#print axioms Tibc.C14.eth_status_iff
#print axioms Tibc.C14.eth_status_subsecond
#print axioms Tibc.C14.client_active_iff
#print axioms Tibc.C14.packets_require_active
#print axioms Tibc.C14.update_requires_active
