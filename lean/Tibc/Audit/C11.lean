import Tibc.Props.C11
import Tibc.Expect.Packet
#print axioms Tibc.C11.relay_forward_iff
#print axioms Tibc.C11.relay_reject_error_ack
#print axioms Tibc.C11.relay_ack_passthrough
#print axioms Tibc.C11.relay_no_callbacks
