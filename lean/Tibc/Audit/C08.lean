import Tibc.Props.C08
#print axioms Tibc.C08.tm_verify_iff
#print axioms Tibc.C08.tm_sound
#print axioms Tibc.C08.tm_complete
#print axioms Tibc.C08.tm_exactly_when
#print axioms Tibc.C08.tm_wrong_proof_rejected
#print axioms Tibc.C08.eth_verify_iff
#print axioms Tibc.C08.eth_sound
#print axioms Tibc.C08.eth_complete
#print axioms Tibc.C08.eth_exactly_when
#print axioms Tibc.C08.bsc_exactly_when
#print axioms Tibc.C08.bsc_honest_accepted
