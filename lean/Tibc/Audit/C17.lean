import Tibc.Props.C17
import Tibc.Expect.Bsc
#print axioms Tibc.C17.validateBasic_iff
#print axioms Tibc.C17.extraOk_iff
#print axioms Tibc.C17.cascadingOk_iff
#print axioms Tibc.C17.recentlySigned_iff
#print axioms Tibc.C17.bsc_accept_iff
#print axioms Tibc.C17.bsc_accept_effect
#print axioms Tibc.C17.update_recents_mem
#print axioms Tibc.C17.accepted_sealer_recorded
#print axioms Tibc.C17.rotation_exact
#print axioms Tibc.C17.recent_kept
#print axioms Tibc.C17.no_reseal_within_window
