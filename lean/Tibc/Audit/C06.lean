import Tibc.Props.C06
#print axioms Tibc.C06.back_away_base
#print axioms Tibc.C06.back_away_path
#print axioms Tibc.C06.parse_full
#print axioms Tibc.C06.native_class_consistent
#print axioms Tibc.C06.nft_refund_exact
