import Tibc.Props.C06
import Tibc.Expect.Packet
#print axioms Tibc.C06.back_away_base
#print axioms Tibc.C06.back_away_path
#print axioms Tibc.C06.parse_full
#print axioms Tibc.C06.native_class_consistent
#print axioms Tibc.C06.nft_refund_exact
#print axioms Tibc.C06.recv_away_mints_voucher
#print axioms Tibc.C06.nft_round_trip_restores
#print axioms Tibc.C06.refund_although_delivered
