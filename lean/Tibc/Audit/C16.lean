import Tibc.Props.C16
import Tibc.Expect.Packet
import Tibc.Expect.Keys
#print axioms Tibc.C16.packet_reimport_partial
#print axioms Tibc.C16.packet_reimport_exact_iff
#print axioms Tibc.C16.core_reimport
#print axioms Tibc.C16.clean_point_lost
#print axioms Tibc.C16.traces_lost
#print axioms Tibc.C16.be8_roundtrip
#print axioms Tibc.C16.be8_length
#print axioms Tibc.C16.stripPrefix_append
#print axioms Tibc.C16.cutSlash_append
#print axioms Tibc.C16.parse_consKey
#print axioms Tibc.C16.processedKey_not_cons
#print axioms Tibc.C16.export_reads_seq_keys
#print axioms Tibc.C16.export_reads_pair_keys
