import Tibc.Props.C18
import Tibc.Expect.Eth
#print axioms Tibc.C18.eth_accepts_iff
#print axioms Tibc.C18.eth_known_header_refused
#print axioms Tibc.C18.eth_unknown_parent_refused
#print axioms Tibc.C18.eth_accepted_valid
#print axioms Tibc.C18.rewrite_latest
#print axioms Tibc.C18.eth_accept_effect
#print axioms Tibc.C18.baseFee_at_target
#print axioms Tibc.C18.baseFee_above_target
#print axioms Tibc.C18.baseFee_below_target
#print axioms Tibc.C18.difficulty_at_least_minimum
#print axioms Tibc.C18.created_inv
#print axioms Tibc.C18.check_eq_apply
#print axioms Tibc.C18.one_chain_step
#print axioms Tibc.C18.one_chain
#print axioms Tibc.C18.same_root_breaks_one_chain
#print axioms Tibc.C18.pruning_keeps_one_chain
#print axioms Tibc.C18.created_rootHeights
