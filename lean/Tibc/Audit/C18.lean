import Tibc.Props.C18
#print axioms Tibc.C18.placeholder
