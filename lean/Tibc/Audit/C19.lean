import Tibc.Props.C19
import Tibc.Expect.Packet
#print axioms Tibc.C19.failed_msg_unchanged
#print axioms Tibc.C19.relay_rejection_records_exactly_receipt_and_ack
#print axioms Tibc.C19.nftVoucherClass_tokens
#print axioms Tibc.C19.nftRecvAway_err_owner
#print axioms Tibc.C19.nftRecvBack_err_owner
#print axioms Tibc.C19.nft_error_ack_no_ownership_effect
