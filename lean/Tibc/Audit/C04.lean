import Tibc.Props.C04
import Tibc.Expect.Packet
#print axioms Tibc.C04.direction_after_away_base
#print axioms Tibc.C04.native_send_requires_wf_base
#print axioms Tibc.C04.send_locks_or_burns
#print axioms Tibc.C04.users_cannot_mint_vouchers
#print axioms Tibc.C04.recv_back_releases_only_escrowed
#print axioms Tibc.C04.one_holder_fails_under_relay_edit
