import Tibc.Props.C10
import Tibc.Expect.Packet
import Tibc.Expect.Keys
#print axioms Tibc.C10.clean_accept_iff_source
#print axioms Tibc.C10.recvclean_accepted_only_with_proof
#print axioms Tibc.C10.recvclean_accepted_with_proof
#print axioms Tibc.C10.clean_effect
#print axioms Tibc.C10.cleanpoint_monotone
#print axioms Tibc.C10.refused_for_good
#print axioms Tibc.C10.clean_key_injective
#print axioms Tibc.C10.clean_key_family_disjoint
