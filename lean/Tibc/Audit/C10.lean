import Tibc.Props.C10
import Tibc.Expect.Packet
#print axioms Tibc.C10.clean_accept_iff_source
#print axioms Tibc.C10.recvclean_accepted_only_with_proof
#print axioms Tibc.C10.recvclean_accepted_with_proof
#print axioms Tibc.C10.clean_effect
#print axioms Tibc.C10.cleanpoint_monotone
#print axioms Tibc.C10.refused_for_good
