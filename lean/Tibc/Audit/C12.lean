import Tibc.Props.C12
#print axioms Tibc.C12.rules_accepted_iff
#print axioms Tibc.C12.rules_rejected_none
#print axioms Tibc.C12.authenticate_iff
#print axioms Tibc.C12.no_rules_nothing
