import Tibc.Props.C13
import Tibc.Expect.Packet
#print axioms Tibc.C13.port_not_bound
#print axioms Tibc.C13.ack_port_not_bound
#print axioms Tibc.C13.relay_not_bound
#print axioms Tibc.C13.ack_relay_not_bound
