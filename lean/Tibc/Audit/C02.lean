import Tibc.Props.C02
import Tibc.Expect.Packet
import Tibc.Expect.Keys
#print axioms Tibc.C02.deliveries_append
#print axioms Tibc.C02.inv_step
#print axioms Tibc.C02.deliver_at_most_once
#print axioms Tibc.C02.recv_requires_fresh
#print axioms Tibc.C02.recv_accepts_live_packet
#print axioms Tibc.C02.receipt_key_injective
#print axioms Tibc.C02.receipt_key_family_disjoint
