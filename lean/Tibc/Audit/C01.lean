import Tibc.Props.C01
import Tibc.Expect.Packet
import Tibc.Expect.Keys
#print axioms Tibc.C01.recv_writes_only_after_verification
#print axioms Tibc.C01.recv_accepted_committed
#print axioms Tibc.C01.recv_rejected_unchanged
#print axioms Tibc.C01.step_originInv
#print axioms Tibc.C01.run_originInv
#print axioms Tibc.C01.recv_accepted_was_sent
#print axioms Tibc.C01.commitment_key_injective
#print axioms Tibc.C01.commitment_key_family_disjoint
#print axioms Tibc.C01.recv_needs_proof_of_own_key
