import Tibc.Props.C07
#print axioms Tibc.C07.verifyCommitLight_iff
#print axioms Tibc.C07.tm_accept_iff
#print axioms Tibc.C07.tm_accept_effect
#print axioms Tibc.C07.tm_latest_monotone
