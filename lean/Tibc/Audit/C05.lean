import Tibc.Props.C05
#print axioms Tibc.C05.subWrap_exact
#print axioms Tibc.C05.transferOwner_exact
#print axioms Tibc.C05.transferOwner_err_unchanged
#print axioms Tibc.C05.mintMT_exact
