import Tibc.Props.C05
import Tibc.Expect.Packet
#print axioms Tibc.C05.subWrap_exact
#print axioms Tibc.C05.transferOwner_exact
#print axioms Tibc.C05.transferOwner_err_unchanged
#print axioms Tibc.C05.mintMT_exact
#print axioms Tibc.C05.mt_refund_exact
#print axioms Tibc.C05.mt_supply_conserved
#print axioms Tibc.C05.mt_balance_le_supply
#print axioms Tibc.C05.conservation_fails_under_relay_edit
#print axioms Tibc.C05.escrow_unbacked_under_port_edit
