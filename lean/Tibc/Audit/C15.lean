import Tibc.Props.C15
#print axioms Tibc.C15.create_requires_authority
#print axioms Tibc.C15.create_never_overwrites
#print axioms Tibc.C15.upgrade_requires_authority_and_type
#print axioms Tibc.C15.register_requires_authority
#print axioms Tibc.C15.set_rules_requires_authority
#print axioms Tibc.C15.update_requires_registered_relayer
#print axioms Tibc.C15.refused_unchanged
#print axioms Tibc.C15.type_preserved
