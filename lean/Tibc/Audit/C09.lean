import Tibc.Props.C09
import Tibc.Expect.Packet
import Tibc.Expect.Keys
#print axioms Tibc.C09.send_commit_exact
#print axioms Tibc.C09.seqInv_prim
#print axioms Tibc.C09.seqInv_prims
#print axioms Tibc.C09.send_seq_invariant
#print axioms Tibc.C09.transfer_fail_unchanged
#print axioms Tibc.C09.relay_recommit_keeps_sequences
