import Tibc.Genesis.Model
import Tibc.Lemmas.HostKeys
import Tibc.Lemmas.Keeper
/-
  C16 — Genesis export and re-import preserve all protocol state.
  PROPERTY THEOREMS ONLY.  (PARTIAL: the property is false of the code for clean points, highest
  acknowledged sequences and voucher class traces — no genesis field exists for them; proved here:
  what survives, exactly what is lost, and the store-key codec for every height.)
-/
namespace Tibc.C16
open Tibc Tibc.Genesis Tibc.Core

/-- **What survives (packet state).** Pending commitments, acknowledgements, receipts (replay
    protection) and next send sequences of every route survive; clean points and highest
    acknowledged sequences come back as "absent". -/
theorem packet_reimport_partial (ps : PStore) :
    let ps' := importPacket (exportPacket ps)
    ps'.commit = ps.commit ∧ ps'.ack = ps.ack ∧ ps'.receipt = ps.receipt ∧ ps'.nextSend = ps.nextSend ∧
    (∀ r, ps'.clean r = 0) ∧ (∀ r, ps'.maxAck r = 0) :=
  ⟨rfl, rfl, rfl, rfl, fun _ => rfl, fun _ => rfl⟩

/-- **Exactly what is lost.** Export and re-import give back the very same packet state if and
    only if no route has a clean point or an acknowledged packet. -/
theorem packet_reimport_exact_iff (ps : PStore) :
    importPacket (exportPacket ps) = ps ↔ (∀ r, ps.clean r = 0) ∧ (∀ r, ps.maxAck r = 0) := by
  constructor
  · intro h
    have h1 : (importPacket (exportPacket ps)).clean = ps.clean := by rw [h]
    have h2 : (importPacket (exportPacket ps)).maxAck = ps.maxAck := by rw [h]
    exact ⟨fun r => by rw [← h1]; rfl, fun r => by rw [← h2]; rfl⟩
  · rintro ⟨h1, h2⟩
    cases ps with
    | mk ns cm rc ak cl mx =>
      simp only [importPacket, exportPacket, PStore.mk.injEq, true_and]
      exact ⟨funext (fun r => (h1 r).symm), funext (fun r => (h2 r).symm)⟩

/-- **Clients, relayer registry, routing rules and chain name survive**: every client's trusted
    states at every height (with their metadata), of any client type. -/
theorem core_reimport (s : Core) (auth : Addr) (now : Nat) :
    let s' := importCore (exportCore s) auth now
    s'.clients = s.clients ∧ s'.relayers = s.relayers ∧ s'.rules = s.rules ∧ s'.name = s.name :=
  ⟨rfl, rfl, rfl, rfl⟩

/-- **Replay protection below a clean point does not survive (known finding F-C16d).** A packet at
    or below the clean point of its route is refused by the original chain for good; the re-imported
    chain passes it to proof verification again (its receipt was deleted by the clean). -/
theorem clean_point_lost (s : Core) (p : Packet) (auth : Addr) (now : Nat)
    (hb : packetBasic p = true) (hroute : (p.relay != s.name && p.dst != s.name && p.src != s.name) = false)
    (hc : p.seq ≤ s.ps.clean p.pair) :
    validatePacket s p = .err .invalidPacket ∧ validatePacket (importCore (exportCore s) auth now) p = .ok := by
  constructor
  · unfold validatePacket
    simp [hb, hroute, hc]
  · unfold validatePacket
    have hn : (importCore (exportCore s) auth now).name = s.name := rfl
    have h0 : (importCore (exportCore s) auth now).ps.clean p.pair = 0 := rfl
    have hs : ¬ p.seq ≤ 0 := by
      unfold packetBasic at hb
      simp only [Bool.and_eq_true, bne_iff_ne, ne_eq] at hb
      omega
    simp [hb, hn, hroute, h0, hs]

/-- **Voucher class traces do not survive (known finding F-C16e).** -/
theorem traces_lost (a : Apps) : (importApps a).nftTraces = (fun _ => none) ∧ (importApps a).mtTraces = (fun _ => none) ∧
    (importApps a).nft = a.nft ∧ (importApps a).mt = a.mt := ⟨rfl, rfl, rfl, rfl⟩

/-! ### the store-key codec (every height, every chain name) -/

theorem be8_roundtrip (n : Nat) (h : n < 18446744073709551616) : ofBe8 (be8 n) = n := by
  simp only [be8, ofBe8]
  omega

theorem be8_length (n : Nat) : (be8 n).length = 8 := rfl

theorem stripPrefix_append (p l : Bytes) : stripPrefix p (p ++ l) = some l := by
  unfold stripPrefix
  have : p.isPrefixOf (p ++ l) = true := List.isPrefixOf_iff_prefix.mpr (List.prefix_append p l)
  simp [this]

theorem cutSlash_append (chain tail : Bytes) (h : ∀ b ∈ chain, b ≠ slash) :
    cutSlash (chain ++ slash :: tail) = some (chain, tail) := by
  induction chain with
  | nil => simp [cutSlash]
  | cons b rest ih =>
    have hb : b ≠ slash := h b (by simp)
    simp only [List.cons_append, cutSlash, hb, if_false]
    rw [ih (fun x hx => h x (by simp [hx]))]
    rfl

/-- **Every consensus-state key is read back as the chain name and height it was written for** —
    for all 64-bit revision numbers and heights (including those whose bytes contain '/') and every
    chain name (which cannot contain '/'). -/
theorem parse_consKey (chain : Bytes) (rev h : Nat) (hc : ∀ b ∈ chain, b ≠ slash)
    (hr : rev < 18446744073709551616) (hh : h < 18446744073709551616) :
    parseConsKey (consKey chain rev h) = some (chain, rev, h) := by
  unfold parseConsKey consKey
  have e1 : pClients ++ chain ++ [slash] ++ pCons ++ be8 rev ++ be8 h =
      pClients ++ (chain ++ slash :: (pCons ++ (be8 rev ++ be8 h))) := by simp [List.append_assoc]
  rw [e1, stripPrefix_append]
  simp only
  rw [cutSlash_append _ _ hc]
  simp only
  rw [stripPrefix_append]
  have hl : (be8 rev ++ be8 h).length = 16 := by simp [be8_length]
  simp only [hl, if_true]
  have ht : (be8 rev ++ be8 h).take 8 = be8 rev := by
    rw [List.take_append_of_le_length (by simp [be8_length])]; exact List.take_of_length_le (by simp [be8_length])
  have hd : (be8 rev ++ be8 h).drop 8 = be8 h := by
    have : (be8 rev).length = 8 := rfl
    rw [← this, List.drop_left]
  rw [ht, hd, be8_roundtrip rev hr, be8_roundtrip h hh]

/-- a processed-time key is never mistaken for a consensus-state key -/
theorem processedKey_not_cons (chain : Bytes) (rev h : Nat) (hc : ∀ b ∈ chain, b ≠ slash) :
    parseConsKey (processedKey chain rev h) = none := by
  unfold parseConsKey processedKey consKey
  have e1 : pClients ++ chain ++ [slash] ++ pCons ++ be8 rev ++ be8 h ++ sProcessed =
      pClients ++ (chain ++ slash :: (pCons ++ (be8 rev ++ be8 h ++ sProcessed))) := by simp [List.append_assoc]
  rw [e1, stripPrefix_append]
  simp only
  rw [cutSlash_append _ _ hc]
  simp only
  rw [stripPrefix_append]
  have hl : (be8 rev ++ be8 h ++ sProcessed).length = 30 := by simp [be8_length, sProcessed, strBytes]
  simp only
  rw [if_neg (by rw [hl]; decide)]

/-- the parser before the repair lost height 47 (0x2F = '/'): evaluated witness of F-C16a -/
example : parseConsKeyBySplit (consKey (strBytes "chainA") 0 47) = none := by decide
example : parseConsKeyBySplit (consKey (strBytes "chainA") 0 46) = some (strBytes "chainA", 0, 46) := by decide
example : parseConsKey (consKey (strBytes "chainA") 0 47) = some (strBytes "chainA", 0, 47) := by decide

/-- **Export reads every sequence-indexed key back as what was written.** The genesis exporters
    walk the commitment / receipt / acknowledgement families with `iterateHashes`, which recovers
    `(source, destination, sequence)` from the key: for chain names without `/` and 64-bit
    sequences the recovered triple is exactly the one the key was built from. -/
theorem export_reads_seq_keys (src dst : Str) (n : Nat) (hs : '/' ∉ src) (hd : '/' ∉ dst) (hn : n < 2 ^ 64) :
    Host.parseSeqPath (Host.packetCommitmentPath src dst n) = some (src, dst, n) ∧
    Host.parseSeqPath (Host.packetReceiptPath src dst n) = some (src, dst, n) ∧
    Host.parseSeqPath (Host.packetAcknowledgementPath src dst n) = some (src, dst, n) :=
  ⟨Host.parseSeqPath_seqPath _ _ _ _ (by decide) hs hd hn, Host.parseSeqPath_seqPath _ _ _ _ (by decide) hs hd hn,
   Host.parseSeqPath_seqPath _ _ _ _ (by decide) hs hd hn⟩

/-- … and the per-pair counters (`IteratePacketSequence` / `ParseChannelPath`). -/
theorem export_reads_pair_keys (src dst : Str) (hs : '/' ∉ src) (hd : '/' ∉ dst) :
    Host.parseChannelPath (Host.nextSequenceSendPath src dst) = some (src, dst) :=
  Host.parseChannelPath_pairPath _ _ _ (by decide) hs hd

end Tibc.C16
