import Tibc.Lemmas.World
import Tibc.Lemmas.HostKeys
/-
  C10 — Cleanup never discards live state and the clean point only moves forward.
  PROPERTY THEOREMS ONLY.
-/
namespace Tibc.C10
open Tibc Core

variable (H : Data → Digest) (Hc : Str → Str)

/-- On the source a clean request for `N` is accepted **iff** `N ≠ 0`, `N` is above the previous
    clean point, not above the highest acknowledged sequence, no packet commitment is left in
    `[cleanPoint, N]` (i.e. every packet up to `N` has been acknowledged), and the next hop's
    client exists. -/
theorem clean_accept_iff_source (s : Core) (cp : CleanPacket) :
    (cleanPacket s cp).2 = .ok ↔ CleanOk s cp := by
  rcases cleanPacket_cases s cp with ⟨hok, e⟩ | ⟨hno, e', e⟩
  · rw [e]; exact ⟨fun _ => hok, fun _ => rfl⟩
  · rw [e]; exact ⟨fun h => (by cases h), fun h => absurd h hno⟩

/-- Elsewhere a clean request changes anything only if the same range conditions hold locally
    *and* the proving chain's recorded state holds the source's clean point `= N`. -/
theorem recvclean_accepted_only_with_proof (s : Core) (cp : CleanPacket) (π : Proof) (h : Nat)
    (hch : (recvCleanPacket s cp π h).2 = .ok ∨ (recvCleanPacket s cp π h).1 ≠ s) :
    RecvCleanOk s cp π h := by
  rcases recvCleanPacket_cases s cp π h with ⟨hok, _⟩ | ⟨_, e, he⟩
  · exact hok
  · rcases hch with h1 | h1
    · rw [he] at h1; cases h1
    · rw [he] at h1; exact absurd rfl h1

/-- ... and under those conditions it is accepted (on a relay chain: provided the destination's
    client exists). -/
theorem recvclean_accepted_with_proof (s : Core) (cp : CleanPacket) (π : Proof) (h : Nat)
    (hok : RecvCleanOk s cp π h) (hrelay : cp.relay = s.name → (s.clients cp.dst).isSome = true) :
    (recvCleanPacket s cp π h).2 = .ok := by
  rcases recvCleanPacket_cases s cp π h with ⟨_, e⟩ | ⟨hno, _⟩
  · rw [e]
    have hA := cleanAcks_same s cp.src cp.dst cp.seq
    have hR := cleanReceipts_same (cleanAcks s cp.src cp.dst cp.seq) cp.src cp.dst cp.seq
    unfold recvCleanWrites
    simp only
    split
    · rename_i hr
      have hn : cp.relay = s.name := by
        simpa [hR.name, hA.name] using hr
      have := hrelay hn
      split
      · rename_i hnone
        simp [hR.clients, hA.clients] at hnone
        rw [hnone] at this; cases this
      · rfl
    · rfl
  · exact absurd hok hno

/-- Exact effect of an accepted receive-clean: receipts and acknowledgements with
    `cleanPoint < seq ≤ N` of that pair are removed and nothing else; commitments, sequences and
    the highest acknowledged sequence are untouched; the clean point becomes `N`. -/
theorem clean_effect (s : Core) (cp : CleanPacket) :
    let t := (recvCleanWrites s cp).1
    (∀ k, t.ps.receipt k =
        if k.src = cp.src ∧ k.dst = cp.dst ∧ s.ps.clean cp.pair < k.seq ∧ k.seq ≤ cp.seq ∧ s.ps.clean cp.pair < cp.seq
        then false else s.ps.receipt k) ∧
    (∀ k, t.ps.ack k =
        if k.src = cp.src ∧ k.dst = cp.dst ∧ s.ps.clean cp.pair < k.seq ∧ k.seq ≤ cp.seq ∧ s.ps.clean cp.pair < cp.seq
        then none else s.ps.ack k) ∧
    t.ps.commit = s.ps.commit ∧ t.ps.nextSend = s.ps.nextSend ∧ t.ps.maxAck = s.ps.maxAck ∧
    t.ps.clean = upd s.ps.clean cp.pair cp.seq := by
  intro t
  have hA := cleanAcks_same s cp.src cp.dst cp.seq
  have hR := cleanReceipts_same (cleanAcks s cp.src cp.dst cp.seq) cp.src cp.dst cp.seq
  have ht : t.ps = ((cleanReceipts (cleanAcks s cp.src cp.dst cp.seq) cp.src cp.dst cp.seq).setClean cp.pair cp.seq).ps := by
    show (recvCleanWrites s cp).1.ps = _
    unfold recvCleanWrites; simp only
    split
    · split <;> rfl
    · rfl
  have hcl : s.ps.clean ⟨cp.src, cp.dst⟩ = s.ps.clean cp.pair := rfl
  refine ⟨?_, ?_, ?_, ?_, ?_, ?_⟩
  · intro k
    rw [ht, setClean_receipt]
    unfold cleanReceipts
    rw [cleanReceiptsFrom_receipt, hA.receipt, hA.clean]
    apply ite_iff_congr
    rw [hcl]; constructor
    · rintro ⟨a, b, c, d⟩; exact ⟨a, b, by omega, by omega, by omega⟩
    · rintro ⟨a, b, c, d, e⟩; exact ⟨a, b, by omega, by omega⟩
  · intro k
    rw [ht, setClean_ack, hR.ack]
    unfold cleanAcks
    rw [cleanAcksFrom_ack]
    apply ite_iff_congr
    rw [hcl]; constructor
    · rintro ⟨a, b, c, d⟩; exact ⟨a, b, by omega, by omega, by omega⟩
    · rintro ⟨a, b, c, d, e⟩; exact ⟨a, b, by omega, by omega⟩
  · rw [ht, setClean_commit, hR.commit, hA.commit]
  · rw [ht, setClean_nextSend, hR.nextSend, hA.nextSend]
  · rw [ht, setClean_maxAck, hR.maxAck, hA.maxAck]
  · rw [ht, setClean_clean, hR.clean, hA.clean]

/-- The clean point never decreases: for every history of operations on any number of chains,
    on every chain and for every (source, destination). -/
theorem cleanpoint_monotone (w : World) (ops : List Op) (c : Chain) (pr : Pair) :
    (w c).core.ps.clean pr ≤ ((run H Hc w ops) c).core.ps.clean pr :=
  (run_grow H Hc w ops c).clean pr

/-- Refused for good: once a chain's clean point for a pair has reached `N`, every packet and
    every acknowledgement with sequence `≤ N` on that pair is rejected by that chain — in the
    state itself and after any continuation of the history. -/
theorem refused_for_good (w : World) (ops : List Op) (c : Chain) (p : Packet) (π : Proof) (h : Nat)
    (ack : Data) (t : String) (hseq : p.seq ≤ (w c).core.ps.clean p.pair) :
    let w' := run H Hc w ops
    (step H Hc w' (.tx c (.recvPacket p π h t))).2 ≠ .ok ∧
    (step H Hc w' (.tx c (.acknowledgement p ack π h))).2 ≠ .ok := by
  intro w'
  have hle : p.seq ≤ (w' c).core.ps.clean p.pair := Nat.le_trans hseq (cleanpoint_monotone H Hc w ops c p.pair)
  have hv : validatePacket (w' c).core p ≠ .ok := by
    unfold validatePacket
    split
    · intro h; cases h
    · split
      · intro h; cases h
      · simp [hle]
  constructor
  · intro hok
    simp only [step] at hok
    have := deliver_recv_ok H Hc (w' c) p π h t hok
    exact hv this.1
  · intro hok
    simp only [step] at hok
    have := deliver_ack_ok H Hc (w' c) p ack π h hok
    exact hv this.1

/-- **Store keys of clean points**: one per `(source, destination)`, never the key of the
    highest-acknowledged counter, the next-send counter or any sequence-indexed entry. -/
theorem clean_key_injective {src src' dst dst' : Str}
    (hs : '/' ∉ src) (hd : '/' ∉ dst) (hs' : '/' ∉ src') (hd' : '/' ∉ dst')
    (h : Host.cleanPacketCommitmentPath src dst = Host.cleanPacketCommitmentPath src' dst') :
    src = src' ∧ dst = dst' :=
  (Host.pairPath_injective (by decide) hs hd (by decide) hs' hd' h).2

theorem clean_key_family_disjoint {src src' dst dst' : Str} {n : Nat}
    (hs : '/' ∉ src) (hd : '/' ∉ dst) (hs' : '/' ∉ src') (hd' : '/' ∉ dst') :
    Host.cleanPacketCommitmentPath src dst ≠ Host.maxAckSeqPath src' dst' ∧
    Host.cleanPacketCommitmentPath src dst ≠ Host.nextSequenceSendPath src' dst' ∧
    Host.cleanPacketCommitmentPath src dst ≠ Host.packetCommitmentPath src' dst' n := by
  refine ⟨?_, ?_, ?_⟩
  · intro h; have := (Host.pairPath_injective (by decide) hs hd (by decide) hs' hd' h).1; revert this; decide
  · intro h; have := (Host.pairPath_injective (by decide) hs hd (by decide) hs' hd' h).1; revert this; decide
  · exact fun h => Host.seqPath_ne_pairPath (by decide) hs' hd' (by decide) hs hd h.symm

end Tibc.C10
