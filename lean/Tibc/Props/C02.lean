import Tibc.Lemmas.Log
import Tibc.Lemmas.HostKeys
/-
  C02 — Exactly-once delivery per (source, destination, sequence).
  PROPERTY THEOREMS ONLY.
-/
namespace Tibc.C02
open Tibc Core

variable (H : Data → Digest) (Hc : Str → Str)

/-- number of times the destination application's receive callback ran for key `k` on a chain -/
def deliveries (s : State) (k : PKey) : Nat :=
  (s.cbLog.filter (fun e => e.kind == "recv" && e.key == k)).length

/-- the invariant: a delivered key is protected by its receipt or by the clean point, and was
    delivered exactly once -/
def Inv (s : State) : Prop :=
  ∀ k, deliveries s k ≤ 1 ∧
    (deliveries s k = 1 → s.core.ps.receipt k = true ∨ k.seq ≤ s.core.ps.clean k.pair)

theorem deliveries_append (s : State) (l : List CbEntry) (k : PKey) (t : State) (h : t.cbLog = s.cbLog ++ l) :
    deliveries t k = deliveries s k + (l.filter (fun e => e.kind == "recv" && e.key == k)).length := by
  unfold deliveries; rw [h, List.filter_append, List.length_append]

/-- one transition preserves the invariant -/
theorem inv_step (s t : State) (hg : Grow s.core t.core) (hl : LogDelta H s t) (hi : Inv s) : Inv t := by
  intro k
  obtain ⟨h1, h2⟩ := hi k
  have keep : deliveries s k = 1 → t.core.ps.receipt k = true ∨ k.seq ≤ t.core.ps.clean k.pair := by
    intro h
    rcases h2 h with hr | hc
    · exact hg.receipt k hr
    · exact Or.inr (Nat.le_trans hc (hg.clean _))
  cases hl with
  | same e =>
    have : deliveries t k = deliveries s k := by unfold deliveries; rw [e]
    rw [this]; exact ⟨h1, keep⟩
  | ack p a π h e _ _ _ =>
    have : deliveries t k = deliveries s k := by
      rw [deliveries_append s _ k t e]; simp
    rw [this]; exact ⟨h1, keep⟩
  | recv p π h e hok hdst hrc =>
    rw [deliveries_append s _ k t e]
    by_cases hk : p.key = k
    · subst hk
      -- the packet had no receipt and was above the clean point, so it was never delivered before
      obtain ⟨hv, hnr, _⟩ := hok
      have hcl := (validatePacket_ok s.core p hv).2
      have h0 : deliveries s p.key = 0 := by
        rcases Nat.lt_or_ge (deliveries s p.key) 1 with hlt | hge
        · omega
        · have := h2 (by omega)
          rcases this with hr | hc
          · rw [hnr] at hr; cases hr
          · have e1 : (p.key).pair = p.pair := rfl
            have e2 : (p.key).seq = p.seq := rfl
            rw [e1, e2] at hc; omega
      simp [h0]
      exact hrc
    · have : ([({ kind := "recv", port := p.port, key := p.key } : CbEntry)].filter (fun e => e.kind == "recv" && e.key == k)).length = 0 := by
        simp [hk]
      rw [this, Nat.add_zero]; exact ⟨h1, keep⟩

/-- **At most once.** For every history of operations on any number of chains (sends, receives,
    acknowledgements, cleans, receive-cleans, replays, in any order and of any length), on every
    chain the application's receive callback has run at most once per
    `(source, destination, sequence)` — also after the receipt has been cleaned up. -/
theorem deliver_at_most_once (ops : List Op) (c : Chain) (k : PKey) :
    deliveries ((run H Hc World.init ops) c) k ≤ 1 := by
  suffices h : ∀ (w : World), (∀ q, Inv (w q)) → ∀ q, Inv ((run H Hc w ops) q) by
    have := h World.init (fun q k => by simp [Inv, deliveries, World.init, State.init]) c k
    exact this.1
  induction ops with
  | nil => intro w hw; exact hw
  | cons op ops ih =>
    intro w hw
    simp only [run, List.foldl_cons]
    apply ih
    intro q
    exact inv_step H (w q) _ (step_grow H Hc w op q) (step_log H Hc w op q) (hw q)

/-- An accepted receive (on the next hop) required: no receipt yet and a sequence above the clean
    point — the two facts replay protection rests on. -/
theorem recv_requires_fresh (s : State) (p : Packet) (π : Proof) (h : Nat) (t : String)
    (hok : (deliver H Hc s (.recvPacket p π h t)).2 = .ok) :
    s.core.ps.receipt p.key = false ∧ s.core.ps.clean p.pair < p.seq := by
  have := deliver_recv_ok H Hc s p π h t hok
  exact ⟨this.2.1, (validatePacket_ok s.core p this.1).2⟩

/-- **Liveness half.** A genuinely committed, well-formed packet that has been neither received
    nor cleaned is accepted by the packet layer of its next hop when relayed with the genuine,
    current proof (through a client that is Active): all pre-write checks pass (`RecvOk`), hence `RecvPacket` performs its write
    phase. -/
theorem recv_accepts_live_packet (s : Core) (p : Packet) (h : Nat) (cl : Client) (sn : Snapshot)
    (hbasic : packetBasic p = true)
    (hinvolved : p.relay = s.name ∨ p.dst = s.name ∨ p.src = s.name)
    (hclean : s.ps.clean p.pair < p.seq) (hnr : s.ps.receipt p.key = false)
    (hcl : s.clients (recvProver s p) = some cl) (hact : cl.active s.now = true)
    (hh : h ≤ cl.latest) (hsn : cl.cons h = some sn)
    (hcommitted : sn.commit p.key = some (H p.data)) :
    recvPacket H s p (.honest (recvProver s p) h (.commit p.key)) h = recvWrites H s p := by
  have hv : validatePacket s p = .ok := by
    unfold validatePacket
    simp only [hbasic, Bool.not_true, Bool.false_eq_true, if_false]
    have h2 : ¬ ((p.relay != s.name && p.dst != s.name && p.src != s.name) = true) := by
      rcases hinvolved with h | h | h <;> simp [h]
    simp only [h2, if_false]
    have h3 : ¬ p.seq ≤ s.ps.clean p.pair := by omega
    simp [h3]
  rcases recvPacket_cases H s p (.honest (recvProver s p) h (.commit p.key)) h with ⟨_, e⟩ | ⟨hno, _⟩
  · exact e
  · exact absurd ⟨hv, hnr, cl, sn, hcl, hact, hh, hsn, rfl, hcommitted⟩ hno

/-- **Store keys of receipts**: one receipt slot per `(source, destination, sequence)` — the
    receipt of one packet can never be mistaken for (or overwritten by) that of another, nor for a
    commitment or an acknowledgement (chain names contain no `/`). -/
theorem receipt_key_injective {src src' dst dst' : Str} {n n' : Nat}
    (hs : '/' ∉ src) (hd : '/' ∉ dst) (hs' : '/' ∉ src') (hd' : '/' ∉ dst')
    (h : Host.packetReceiptPath src dst n = Host.packetReceiptPath src' dst' n') :
    src = src' ∧ dst = dst' ∧ n = n' :=
  (Host.seqPath_injective (by decide) hs hd (by decide) hs' hd' h).2

theorem receipt_key_family_disjoint {src src' dst dst' : Str} {n n' : Nat}
    (hs : '/' ∉ src) (hd : '/' ∉ dst) (hs' : '/' ∉ src') (hd' : '/' ∉ dst') :
    Host.packetReceiptPath src dst n ≠ Host.packetCommitmentPath src' dst' n' ∧
    Host.packetReceiptPath src dst n ≠ Host.packetAcknowledgementPath src' dst' n' ∧
    Host.packetReceiptPath src dst n ≠ Host.cleanPacketCommitmentPath src' dst' := by
  refine ⟨?_, ?_, ?_⟩
  · intro h; have := (Host.seqPath_injective (by decide) hs hd (by decide) hs' hd' h).1; revert this; decide
  · intro h; have := (Host.seqPath_injective (by decide) hs hd (by decide) hs' hd' h).1; revert this; decide
  · exact Host.seqPath_ne_pairPath (by decide) hs hd (by decide) hs' hd'

end Tibc.C02
