import Tibc.Lemmas.TmCommit
/-
  C07 — Tendermint client accepts a header exactly when the light-client rule allows it.
  PROPERTY THEOREMS ONLY.
-/
namespace Tibc.C07
open Tibc Tibc.TM

variable (Hv : List Val → Digest)

/-- "more than `needed` of the header's own validator set signed", as cometbft decides it:
    commit and set have the same length and the shortest prefix of commit-flagged entries whose
    power exceeds the threshold is all validly signed -/
def OwnSetSigned (vals : List Val) (commit : List CSig) : Prop :=
  vals.length = commit.length ∧
  ∃ k, 1 ≤ k ∧ k ≤ (counted vals commit).length ∧ (∀ x ∈ (counted vals commit).take k, x.2 = true) ∧
    sumPow ((counted vals commit).take k) > totalPower vals * 2 / 3

theorem verifyCommitLight_iff (vals : List Val) (commit : List CSig) :
    verifyCommitLight vals commit = true ↔ OwnSetSigned vals commit := by
  unfold verifyCommitLight OwnSetSigned
  rw [Bool.and_eq_true, scanByIndex_eq, scanC_iff _ _ 0 (Nat.zero_le _)]
  simp

/-- **Accept iff the rule holds.** A Tendermint client update is accepted if and only if:
    the client is Active (its newest consensus state exists and is inside the trusting period);
    a consensus state is stored at the header's trusted height; the supplied trusted validators
    hash to the next-validators hash that state committed to; header and trusted height are in
    the same revision and the header is strictly newer; that trusted state is itself inside the
    trusting period; the header time is after the trusted state's and before now + clock drift;
    the shipped validator set hashes to the header's validators hash; for an adjacent header the
    validators are the committed next validators, for a non-adjacent one more than the trust level
    of the trusted set signed; more than two thirds of the header's own set signed; and the
    structural validations pass. -/
theorem tm_accept_iff (cl : Client) (hdr : Header) (now : Nat) :
    (∃ cl', updateClient Hv cl hdr now = .ok cl') ↔
      status cl now = .active ∧
      ∃ tc, cl.cons hdr.trustedHeight = some tc ∧
        Hv hdr.trustedVals = tc.nextVals ∧
        hdr.height.rev = hdr.trustedHeight.rev ∧
        hdr.basicOk = true ∧
        hdr.height.le hdr.trustedHeight = false ∧
        tc.time + cl.period > now ∧
        hdr.height.h > hdr.trustedHeight.h ∧ hdr.time > tc.time ∧ hdr.time < now + cl.drift ∧
        hdr.valsHash = Hv hdr.vals ∧
        (if hdr.height.h = hdr.trustedHeight.h + 1 then hdr.valsHash = tc.nextVals
         else verifyCommitLightTrusting hdr.trustedVals hdr.commit cl.trustNum cl.trustDen = true) ∧
        OwnSetSigned hdr.vals hdr.commit := by
  unfold updateClient
  by_cases hs : status cl now = .active
  · simp only [hs, bne_self_eq_false, Bool.false_eq_true, if_false, true_and]
    unfold checkHeaderAndUpdate
    cases htc : cl.cons hdr.trustedHeight with
    | none => simp
    | some tc =>
      simp only [Option.some.injEq, exists_eq_left']
      have key : checkValidity Hv cl tc hdr now = true ↔
          (Hv hdr.trustedVals = tc.nextVals ∧ hdr.height.rev = hdr.trustedHeight.rev ∧ hdr.basicOk = true ∧
            hdr.height.le hdr.trustedHeight = false ∧ tc.time + cl.period > now ∧
            hdr.height.h > hdr.trustedHeight.h ∧ hdr.time > tc.time ∧ hdr.time < now + cl.drift ∧
            hdr.valsHash = Hv hdr.vals ∧
            (if hdr.height.h = hdr.trustedHeight.h + 1 then hdr.valsHash = tc.nextVals
             else verifyCommitLightTrusting hdr.trustedVals hdr.commit cl.trustNum cl.trustDen = true) ∧
            OwnSetSigned hdr.vals hdr.commit) := by
        unfold checkValidity lightVerify verifyNewHeaderAndVals isExpired
        rw [← verifyCommitLight_iff]
        by_cases hadj : hdr.height.h = hdr.trustedHeight.h + 1
        · have hb : (hdr.height.h == hdr.trustedHeight.h + 1) = true := by simpa using hadj
          simp only [hb, if_true, if_pos hadj]
          constructor
          · intro h
            simp only [Bool.and_eq_true, beq_iff_eq, Bool.not_eq_true', decide_eq_true_eq, Bool.not_not,
              decide_eq_false_iff_not] at h
            obtain ⟨⟨⟨⟨h1, h2⟩, h3⟩, h4⟩, ⟨⟨h5, ⟨⟨⟨⟨h6, h7⟩, h8⟩, h9⟩, h10⟩⟩, h11⟩, h12⟩ := h
            exact ⟨h1, h2, h3, h4, h5, h7, h8, h9, h10, h11, h12⟩
          · rintro ⟨h1, h2, h3, h4, h5, h6, h7, h8, h9, h10, h11⟩
            simp only [Bool.and_eq_true, beq_iff_eq, Bool.not_eq_true', decide_eq_true_eq, Bool.not_not,
              decide_eq_false_iff_not]
            exact ⟨⟨⟨⟨h1, h2⟩, h3⟩, h4⟩, ⟨⟨h5, ⟨⟨⟨⟨h3, h6⟩, h7⟩, h8⟩, h9⟩⟩, h10⟩, h11⟩
        · have hb : (hdr.height.h == hdr.trustedHeight.h + 1) = false := by simpa using hadj
          simp only [hb, Bool.false_eq_true, if_false, if_neg hadj]
          constructor
          · intro h
            simp only [Bool.and_eq_true, beq_iff_eq, Bool.not_eq_true', decide_eq_true_eq, Bool.not_not,
              decide_eq_false_iff_not] at h
            obtain ⟨⟨⟨⟨h1, h2⟩, h3⟩, h4⟩, ⟨⟨h5, ⟨⟨⟨⟨h6, h7⟩, h8⟩, h9⟩, h10⟩⟩, h11⟩, h12⟩ := h
            exact ⟨h1, h2, h3, h4, h5, h7, h8, h9, h10, h11, h12⟩
          · rintro ⟨h1, h2, h3, h4, h5, h6, h7, h8, h9, h10, h11⟩
            simp only [Bool.and_eq_true, beq_iff_eq, Bool.not_eq_true', decide_eq_true_eq, Bool.not_not,
              decide_eq_false_iff_not]
            exact ⟨⟨⟨⟨h1, h2⟩, h3⟩, h4⟩, ⟨⟨h5, ⟨⟨⟨⟨h3, h6⟩, h7⟩, h8⟩, h9⟩⟩, h10⟩, h11⟩
      rw [← key]
      cases hcv : checkValidity Hv cl tc hdr now with
      | false => simp [hcv]
      | true => simp [hcv]
  · constructor
    · rintro ⟨cl', h⟩
      have : (status cl now != Status.active) = true := by simpa using hs
      simp [this] at h
    · rintro ⟨h, _⟩; exact absurd h hs

/-- On acceptance the consensus state stored for the header's height is the header's time, app
    hash and next-validators hash, and the latest height is the maximum of the old one and the
    header's. On rejection the result carries no state at all (`Except.error`): nothing changes. -/
theorem tm_accept_effect (cl cl' : Client) (hdr : Header) (now : Nat)
    (h : updateClient Hv cl hdr now = .ok cl') :
    cl'.cons hdr.height = some ⟨hdr.time, hdr.appHash, hdr.nextValsHash⟩ ∧
    cl'.processed hdr.height = some now ∧
    (cl'.latest = cl.latest ∨ (cl'.latest = hdr.height ∧ cl.latest.lt hdr.height = true)) := by
  unfold updateClient at h
  split at h
  · cases h
  · cases hc : checkHeaderAndUpdate Hv cl hdr now with
    | none => rw [hc] at h; cases h
    | some c2 =>
      rw [hc] at h
      simp only [Except.ok.injEq] at h
      subst h
      unfold checkHeaderAndUpdate at hc
      cases htc : cl.cons hdr.trustedHeight with
      | none => rw [htc] at hc; cases hc
      | some tc =>
        rw [htc] at hc
        simp only at hc
        split at hc
        · cases hc
        · simp only [Option.some.injEq] at hc
          subst hc
          refine ⟨by simp, by simp, ?_⟩
          -- pruning does not touch `latest`
          have hl : ∀ (c1 : Client), c1.latest = cl.latest →
              ((if c1.latest.lt hdr.height then hdr.height else c1.latest) = cl.latest ∨
               ((if c1.latest.lt hdr.height then hdr.height else c1.latest) = hdr.height ∧ cl.latest.lt hdr.height = true)) := by
            intro c1 e
            rw [e]
            by_cases hlt : cl.latest.lt hdr.height = true
            · simp [hlt]
            · simp [hlt]
          apply hl
          split
          · rfl
          · split
            · rfl
            · split <;> rfl

/-- The latest height never decreases, over any sequence of update attempts (accepted or not). -/
theorem tm_latest_monotone (cl : Client) (upds : List (Header × Nat)) :
    let final := upds.foldl (fun c (x : Header × Nat) => match updateClient Hv c x.1 x.2 with | .ok c' => c' | .error _ => c) cl
    final.latest = cl.latest ∨ cl.latest.lt final.latest = true := by
  induction upds generalizing cl with
  | nil => exact Or.inl rfl
  | cons x rest ih =>
    simp only [List.foldl_cons]
    cases hu : updateClient Hv cl x.1 x.2 with
    | error e => simp only; exact ih cl
    | ok c' =>
      simp only
      have he := (tm_accept_effect Hv cl c' x.1 x.2 hu).2.2
      rcases ih c' with h1 | h1
      · rcases he with h2 | ⟨h2, h3⟩
        · left; rw [h1, h2]
        · right; rw [h1, h2]; exact h3
      · rcases he with h2 | ⟨h2, h3⟩
        · right; rw [← h2]; exact h1
        · right
          rw [h2] at h1
          -- transitivity of the height order
          unfold Height.lt at h1 h3 ⊢
          simp only [Bool.or_eq_true, decide_eq_true_eq, Bool.and_eq_true, beq_iff_eq] at h1 h3 ⊢
          omega

/-- Non-vacuity: a two-validator chain, an adjacent header signed by both. -/
def exHv (vs : List Val) : Digest := String.intercalate "," (vs.map (fun v => v.addr))
def exVals : List Val := [⟨"a", 3⟩, ⟨"b", 1⟩]
def exClient : Client :=
  { trustNum := 1, trustDen := 3, period := 1000, drift := 10, latest := ⟨1, 5⟩,
    cons := fun h => if h = ⟨1, 5⟩ then some ⟨100, "r", exHv exVals⟩ else none,
    heights := [⟨1, 5⟩], processed := fun _ => none }
def exHeader : Header :=
  { height := ⟨1, 6⟩, time := 150, appHash := "x", valsHash := exHv exVals, nextValsHash := exHv exVals,
    vals := exVals, commit := [⟨.commit, "a", true⟩, ⟨.absent, "b", false⟩],
    trustedHeight := ⟨1, 5⟩, trustedVals := exVals, basicOk := true }
example : (match updateClient exHv exClient exHeader 200 with | .ok _ => true | .error _ => false) = true := by
  decide

end Tibc.C07
