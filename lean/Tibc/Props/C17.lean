import Tibc.Lemmas.Bsc
/-
  C17 — BSC client follows only a correctly sealed, hash-linked header chain.
  PROPERTY THEOREMS ONLY.
-/
namespace Tibc.C17
open Tibc Tibc.BSC

/-- size of the current validator set -/
def N (c : Client) : Nat := (vset c.validators).length

def Structural (h : Hdr) : Prop :=
  h.vanityOk = true ∧ h.sealOk = true ∧ h.mixZero = true ∧ h.uncleOk = true ∧ (h.number = 0 ∨ h.difficulty ≠ 0)

/-- validators are listed only on epoch blocks (and then as whole addresses) -/
def EpochExtra (c : Client) (h : Hdr) : Prop :=
  (h.number % c.epoch = 0 → h.extraRem = 0) ∧ (h.number % c.epoch ≠ 0 → h.extraVals = [] ∧ h.extraRem = 0)

/-- direct child of the client's latest header -/
def DirectChild (c : Client) (h : Hdr) : Prop := c.latest.number + 1 = h.number ∧ c.latest.hash = h.parent

def GasOk (c : Client) (h : Hdr) : Prop :=
  h.gasLimit ≤ 2^63 - 1 ∧ h.gasUsed ≤ h.gasLimit ∧
  absDiff c.latest.gasLimit h.gasLimit < c.latest.gasLimit / 256 ∧ 5000 ≤ h.gasLimit

/-- `s` is recorded as the sealer of one of the `floor(N/2)` blocks preceding `number` -/
def SealedRecently (c : Client) (number : Nat) (s : BSC.Addr) : Prop :=
  ∃ seen, (seen, s) ∈ c.recents ∧ seen + N c / 2 ≥ number

/-- it is `s`'s turn for the block after the latest header: `s` is the
    `(number mod N)`-th member of the set in ascending address order -/
def InTurn (c : Client) (s : BSC.Addr) : Prop := (vset c.validators)[(c.latest.number + 1) % N c]? = some s

theorem validateBasic_iff (h : Hdr) : validateBasic h = true ↔ Structural h := by
  unfold validateBasic Structural
  simp only [Bool.and_eq_true, Bool.or_eq_true, beq_iff_eq, bne_iff_ne, ne_eq]
  constructor
  · rintro ⟨⟨⟨⟨a, b⟩, c⟩, d⟩, e⟩; exact ⟨a, b, c, d, e⟩
  · rintro ⟨a, b, c, d, e⟩; exact ⟨⟨⟨⟨a, b⟩, c⟩, d⟩, e⟩

theorem extraOk_iff (c : Client) (h : Hdr) : extraOk c h = true ↔ EpochExtra c h := by
  unfold extraOk EpochExtra signersBytes
  by_cases he : h.number % c.epoch = 0
  · simp [he]
  · have : (h.number % c.epoch == 0) = false := by simpa using he
    simp only [this, Bool.false_eq_true, if_false, beq_iff_eq, he, false_implies, true_and, ne_eq, not_false_eq_true,
      true_implies]
    constructor
    · intro hz
      have h1 : h.extraVals.length = 0 := by omega
      exact ⟨List.length_eq_zero_iff.mp h1, by omega⟩
    · rintro ⟨h1, h2⟩
      simp [h1, h2]

theorem cascadingOk_iff (c : Client) (h : Hdr) : cascadingOk c h = true ↔ DirectChild c h ∧ GasOk c h := by
  unfold cascadingOk DirectChild GasOk maxGasLimit gasLimitBoundDivisor minGasLimit
  simp only [Bool.and_eq_true, beq_iff_eq, decide_eq_true_eq, ge_iff_le]
  constructor
  · rintro ⟨⟨⟨⟨⟨a, b⟩, c'⟩, d⟩, e⟩, f⟩; exact ⟨⟨a, b⟩, c', d, e, f⟩
  · rintro ⟨⟨a, b⟩, c', d, e, f⟩; exact ⟨⟨⟨⟨⟨a, b⟩, c'⟩, d⟩, e⟩, f⟩

theorem recentlySigned_iff (c : Client) (number : Nat) (s : BSC.Addr) :
    recentlySigned c number s = true ↔ SealedRecently c number s := by
  unfold recentlySigned SealedRecently limit N
  simp only [List.any_eq_true, Bool.and_eq_true, Bool.or_eq_true, beq_iff_eq, decide_eq_true_eq, ge_iff_le]
  constructor
  · rintro ⟨⟨seen, a⟩, hm, h1, h2⟩
    simp only at h1 h2
    subst h1
    exact ⟨seen, hm, by omega⟩
  · rintro ⟨seen, hm, h3⟩
    refine ⟨(seen, s), hm, rfl, ?_⟩
    simp only
    omega

/-- **Accept iff the rule holds.** The BSC client accepts a header exactly when it is the direct
    child of its latest header, is sealed (signature recovers to the coinbase) by a member of the
    current validator set who is not recorded as sealer of any of the preceding floor(N/2) blocks,
    carries the difficulty matching that validator's turn, keeps the gas limits within bounds, lists
    validators only on epoch blocks, and passes the stateless structural checks. -/
theorem bsc_accept_iff (c : Client) (h : Hdr) :
    (∃ c', checkHeaderAndUpdate c h = some c') ↔
      Structural h ∧ EpochExtra c h ∧ DirectChild c h ∧ GasOk c h ∧
      ∃ s, h.signer = some s ∧ s = h.coinbase ∧ s ∈ c.validators ∧ ¬ SealedRecently c h.number s ∧
        (InTurn c s → h.difficulty = 2) ∧ (¬ InTurn c s → h.difficulty = 1) := by
  unfold checkHeaderAndUpdate
  have hseal : sealOk c h = true ↔ ∃ s, h.signer = some s ∧ s = h.coinbase ∧ s ∈ c.validators ∧
      ¬ SealedRecently c h.number s ∧ (InTurn c s → h.difficulty = 2) ∧ (¬ InTurn c s → h.difficulty = 1) := by
    unfold BSC.sealOk
    cases hs : h.signer with
    | none => simp
    | some s =>
      simp only [Option.some.injEq, exists_eq_left', Bool.and_eq_true, beq_iff_eq, contains_vset, Bool.not_eq_true']
      have hr : recentlySigned c h.number s = false ↔ ¬ SealedRecently c h.number s := by
        rw [← recentlySigned_iff]; simp
      have hit : inturn c s = true ↔ InTurn c s := by
        unfold inturn InTurn N; simp
      rw [hr]
      by_cases ht : InTurn c s
      · have : inturn c s = true := hit.mpr ht
        simp only [this, if_true, beq_iff_eq, ht, true_implies, not_true_eq_false, false_implies, and_true]
        constructor
        · rintro ⟨⟨⟨a, b⟩, d⟩, e⟩; exact ⟨a, b, d, e⟩
        · rintro ⟨a, b, d, e⟩; exact ⟨⟨⟨a, b⟩, d⟩, e⟩
      · have : inturn c s = false := by
          cases hh : inturn c s with
          | false => rfl
          | true => exact absurd (hit.mp hh) ht
        simp only [this, Bool.false_eq_true, if_false, beq_iff_eq, ht, false_implies, not_false_eq_true, true_implies, true_and]
        constructor
        · rintro ⟨⟨⟨a, b⟩, d⟩, e⟩; exact ⟨a, b, d, e⟩
        · rintro ⟨a, b, d, e⟩; exact ⟨⟨⟨a, b⟩, d⟩, e⟩
  have hacc : accepts c h = true ↔ Structural h ∧ EpochExtra c h ∧ (DirectChild c h ∧ GasOk c h) ∧ sealOk c h = true := by
    unfold accepts
    rw [Bool.and_eq_true, Bool.and_eq_true, Bool.and_eq_true, validateBasic_iff, extraOk_iff, cascadingOk_iff]
    constructor
    · rintro ⟨⟨⟨a, b⟩, d⟩, e⟩; exact ⟨a, b, d, e⟩
    · rintro ⟨a, b, d, e⟩; exact ⟨⟨⟨a, b⟩, d⟩, e⟩
  constructor
  · rintro ⟨c', hc⟩
    split at hc
    · rename_i ha
      obtain ⟨a, b, ⟨d, e⟩, f⟩ := hacc.mp ha
      exact ⟨a, b, d, e, hseal.mp f⟩
    · cases hc
  · rintro ⟨a, b, d, e, f⟩
    have ha : accepts c h = true := hacc.mpr ⟨a, b, ⟨d, e⟩, hseal.mpr f⟩
    obtain ⟨s, hs, _⟩ := f
    simp only [ha, if_true, hs]
    exact ⟨_, rfl⟩

/-- **Effect of acceptance.** The latest header is the accepted header, the consensus state for
    its height is that header's (time, number, root), consensus states of other heights and the
    epoch length are untouched, the sealer is recorded, the set announced at an epoch block becomes
    the pending set, and the validator set changes only on the block whose number is
    `floor(len/2)` past an epoch block — to the pending set. -/
theorem bsc_accept_effect (c c' : Client) (h : Hdr) (hok : checkHeaderAndUpdate c h = some c') :
    c'.latest = h ∧ c'.cons h.number = some ⟨h.time, h.number, h.root⟩ ∧
    (∀ n, n ≠ h.number → c'.cons n = c.cons n) ∧ c'.epoch = c.epoch ∧
    c'.pending = (if h.number % c.epoch = 0 then h.extraVals else c.pending) ∧
    c'.validators = (if h.number % c.epoch = c.validators.length / 2 then c'.pending else c.validators) := by
  unfold checkHeaderAndUpdate at hok
  split at hok
  · cases hs : h.signer with
    | none => rw [hs] at hok; cases hok
    | some s =>
      rw [hs] at hok
      simp only [Option.some.injEq] at hok
      subst hok
      unfold update
      refine ⟨rfl, by simp [upd], ?_, rfl, ?_, ?_⟩
      · intro n hn; simp [upd, hn]
      · simp only [beq_iff_eq]
      · simp only [beq_iff_eq]
  · cases hok

theorem update_recents_mem (c : Client) (h : Hdr) (s : BSC.Addr) : (h.number, s) ∈ (update c h s).recents := by
  unfold update
  simp only
  generalize (if h.number % c.epoch == 0 then h.extraVals else c.pending) = P
  generalize (h.number % c.epoch == c.validators.length / 2) = sw
  have h0 : (h.number, s) ∈ delRecent c.recents h.number ++ [(h.number, s)] := by simp
  -- neither prune removes the entry at `h.number` itself (all limits are ≥ 1)
  have hsp : ∀ k, (h.number, s) ∈ shrinkPrune (delRecent c.recents h.number ++ [(h.number, s)]) h.number
      ((vset P).length / 2 + 1) k := by
    intro k
    rw [mem_shrinkPrune]
    refine ⟨h0, fun i _ hg => ?_⟩
    simp only; omega
  cases sw with
  | true =>
    simp only [if_true]
    split
    · rw [mem_delRecent]; exact ⟨hsp _, by simp only; omega⟩
    · exact hsp _
  | false =>
    simp only [Bool.false_eq_true, if_false]
    split
    · rw [mem_delRecent]; exact ⟨h0, by simp only; omega⟩
    · exact h0

/-- the sealer of an accepted header is recorded under the header's number -/
theorem accepted_sealer_recorded (c c' : Client) (h : Hdr) (s : BSC.Addr) (hs : h.signer = some s)
    (hok : checkHeaderAndUpdate c h = some c') : (h.number, s) ∈ c'.recents := by
  unfold checkHeaderAndUpdate at hok
  split at hok
  · rw [hs] at hok
    simp only [Option.some.injEq] at hok
    subst hok
    exact update_recents_mem c h s
  · cases hok

/-- all of `hs` are accepted one after the other -/
def followAll (c : Client) : List Hdr → Option Client
  | [] => some c
  | h :: rest => (checkHeaderAndUpdate c h).bind (fun c1 => followAll c1 rest)

/-- **Rotation takes effect exactly floor(N/2) blocks after the epoch block.** Starting at an
    epoch block `a` that announces `a.extraVals` while the stored set has `len` members
    (`len/2 < epoch`): through the first `len/2` accepted headers (the epoch block and the
    `len/2 - 1` after it) the validator set is unchanged and the announced set is pending; the
    `(len/2 + 1)`-th accepted header — number `epoch block + len/2` — installs exactly the announced
    set, so the blocks after it are checked against it. -/
theorem rotation_exact (c : Client) (a : Hdr) (rest : List Hdr) (c' : Client)
    (he : (c.latest.number + 1) % c.epoch = 0)
    (hN : c.validators.length / 2 < c.epoch)
    (hrun : followAll c (a :: rest) = some c') :
    (rest.length + 1 ≤ c.validators.length / 2 → c'.validators = c.validators ∧ c'.pending = a.extraVals) ∧
    (rest.length = c.validators.length / 2 → c'.validators = a.extraVals) := by
  -- generalised invariant: after j headers (numbers e .. e+j-1)
  have gen : ∀ (rest : List Hdr) (c1 : Client) (j : Nat) (c' : Client),
      c1.epoch = c.epoch → c1.latest.number + 1 = c.latest.number + 1 + j → 1 ≤ j →
      j ≤ c.validators.length / 2 → c1.validators = c.validators → c1.pending = a.extraVals →
      followAll c1 rest = some c' →
      (j + rest.length ≤ c.validators.length / 2 → c'.validators = c.validators ∧ c'.pending = a.extraVals) ∧
      (j + rest.length = c.validators.length / 2 + 1 → c'.validators = a.extraVals) := by
    intro rest
    induction rest with
    | nil =>
      intro c1 j c' _ _ _ hj hv hp hrun
      simp only [followAll, Option.some.injEq] at hrun
      subst hrun
      exact ⟨fun _ => ⟨hv, hp⟩, fun h => by simp at h; omega⟩
    | cons b rest ih =>
      intro c1 j c' hep hnum h1j hj hv hp hrun
      simp only [followAll] at hrun
      cases hb : checkHeaderAndUpdate c1 b with
      | none => rw [hb] at hrun; cases hrun
      | some c2 =>
        rw [hb] at hrun
        simp only [Option.bind_some] at hrun
        obtain ⟨hl, _, _, hep2, hpend, hvals⟩ := bsc_accept_effect c1 c2 b hb
        have hchild : c1.latest.number + 1 = b.number :=
          ((bsc_accept_iff c1 b).mp ⟨c2, hb⟩).2.2.1.1
        have hbn : b.number = c.latest.number + 1 + j := by omega
        have hmod : b.number % c.epoch = j := by
          rw [hbn, Nat.add_mod, he, Nat.zero_add, Nat.mod_mod, Nat.mod_eq_of_lt (by omega)]
        rw [hep] at hpend hvals
        rw [hmod] at hpend hvals
        have hjne : ¬ j = 0 := by omega
        simp only [hjne, if_false] at hpend
        rw [hv] at hvals
        by_cases hsw : j = c.validators.length / 2
        · -- the switching block
          simp only [hsw, if_true] at hvals
          rw [hpend, hp] at hvals
          -- no further header may follow within the claims' range
          constructor
          · intro hle; simp at hle; omega
          · intro heq
            have hr : rest = [] := by
              cases rest with
              | nil => rfl
              | cons x xs => simp at heq; omega
            subst hr
            simp only [followAll, Option.some.injEq] at hrun
            subst hrun
            exact hvals
        · simp only [hsw, if_false] at hvals
          have := ih c2 (j + 1) c' (by rw [hep2, hep]) (by rw [hl]; omega) (by omega) (by omega) hvals
            (by rw [hpend, hp]) hrun
          constructor
          · intro hle; exact this.1 (by simp at hle ⊢; omega)
          · intro heq; exact this.2 (by simp at heq ⊢; omega)
  -- first header: the epoch block itself
  simp only [followAll] at hrun
  cases ha : checkHeaderAndUpdate c a with
  | none => rw [ha] at hrun; cases hrun
  | some c1 =>
    rw [ha] at hrun
    simp only [Option.bind_some] at hrun
    obtain ⟨hl, _, _, hep, hpend, hvals⟩ := bsc_accept_effect c c1 a ha
    have hchild : c.latest.number + 1 = a.number := ((bsc_accept_iff c a).mp ⟨c1, ha⟩).2.2.1.1
    rw [← hchild, he] at hpend hvals
    simp only [if_true] at hpend
    by_cases hz : c.validators.length / 2 = 0
    · -- a set of at most one validator: the epoch block itself installs the announced set
      have hv1 : c1.validators = a.extraVals := by
        rw [hvals, hz]; simp only [if_true]; exact hpend
      constructor
      · intro hle; omega
      · intro heq
        have hr : rest = [] := by
          cases rest with
          | nil => rfl
          | cons x xs => simp at heq; omega
        subst hr
        simp only [followAll, Option.some.injEq] at hrun
        subst hrun
        exact hv1
    · have hne : ¬ (0 = c.validators.length / 2) := fun h => hz h.symm
      simp only [hne, if_false] at hvals
      have := gen rest c1 1 c' hep (by rw [hl]; omega) (by omega) (by omega) hvals hpend hrun
      constructor
      · intro hle; exact this.1 (by omega)
      · intro heq; exact this.2 (by omega)

/-- an entry of the recent-sealer table inside the window survives an accepted header that leaves
    the validator set unchanged -/
theorem recent_kept (c c' : Client) (h : Hdr) (b : Nat) (a : BSC.Addr) (hm : (b, a) ∈ c.recents)
    (hok : checkHeaderAndUpdate c h = some c') (hv : c'.validators = c.validators)
    (hb : b < h.number) (hw : b + N c / 2 + 1 > h.number) : (b, a) ∈ c'.recents := by
  obtain ⟨_, _, _, _, hpend, hvals⟩ := bsc_accept_effect c c' h hok
  unfold checkHeaderAndUpdate at hok
  split at hok
  · cases hs : h.signer with
    | none => rw [hs] at hok; cases hok
    | some s =>
      rw [hs] at hok
      simp only [Option.some.injEq] at hok
      subst hok
      have h0 : (b, a) ∈ delRecent c.recents h.number ++ [(h.number, s)] := by
        rw [List.mem_append, mem_delRecent]; exact Or.inl ⟨hm, by simp only; omega⟩
      have hlen : (vset c.validators).length ≤ c.validators.length := by
        unfold vset
        have : ∀ (l : List BSC.Addr) (x : BSC.Addr), (insertAsc x l).length ≤ l.length + 1 := by
          intro l x
          induction l with
          | nil => simp [insertAsc]
          | cons y ys ih =>
            unfold insertAsc
            split
            · simp
            · split
              · simp
              · simp only [List.length_cons]; omega
        induction c.validators with
        | nil => simp
        | cons v rest ih => simp only [List.foldr_cons, List.length_cons]; exact Nat.le_trans (this _ _) (by omega)
      unfold update at hv hpend hvals ⊢
      simp only at hv hpend hvals ⊢
      unfold N at hw
      generalize hP : (if h.number % c.epoch == 0 then h.extraVals else c.pending) = P at hv hpend hvals ⊢
      by_cases hsw : (h.number % c.epoch == c.validators.length / 2) = true
      · simp only [hsw, if_true] at hv ⊢
        -- the installed set equals the old one
        subst hv
        have hsp : (b, a) ∈ shrinkPrune (delRecent c.recents h.number ++ [(h.number, s)]) h.number
            ((vset c.validators).length / 2 + 1) (c.validators.length / 2 + 1 - ((vset c.validators).length / 2 + 1)) := by
          rw [mem_shrinkPrune]
          refine ⟨h0, fun i _ hg => ?_⟩
          simp only
          omega
        split
        · rw [mem_delRecent]; refine ⟨hsp, ?_⟩
          simp only; omega
        · exact hsp
      · have hsw' : (h.number % c.epoch == c.validators.length / 2) = false := by simpa using hsw
        simp only [hsw', Bool.false_eq_true, if_false] at hv ⊢
        split
        · rw [mem_delRecent]; exact ⟨h0, by simp only; omega⟩
        · exact h0
  · cases hok

/-- a run of accepted headers, all of which leave the validator set equal to `V` -/
def followStable (V : List BSC.Addr) (c : Client) : List Hdr → Option Client
  | [] => some c
  | h :: rest =>
    match checkHeaderAndUpdate c h with
    | some c1 => if c1.validators = V then followStable V c1 rest else none
    | none => none

/-- **Nobody seals twice within floor(N/2)+1 consecutive blocks**, over header histories of any
    length during which the validator set is `V` (N = |V|): if `hi` (sealed by `s`) was accepted,
    then any number of further headers, then `hj` with `hj.number ≤ hi.number + N/2` is accepted,
    the sealer of `hj` is not `s`. -/
theorem no_reseal_within_window (V : List BSC.Addr) (c0 c1 c2 c3 : Client) (hi hj : Hdr) (mid : List Hdr)
    (s s' : BSC.Addr)
    (h1 : checkHeaderAndUpdate c0 hi = some c1) (hs : hi.signer = some s) (hV : c1.validators = V)
    (hmid : followStable V c1 mid = some c2)
    (h3 : checkHeaderAndUpdate c2 hj = some c3) (hs' : hj.signer = some s')
    (hwin : hj.number ≤ hi.number + (vset V).length / 2) :
    s' ≠ s := by
  have hrec1 : (hi.number, s) ∈ c1.recents := accepted_sealer_recorded c0 c1 hi s hs h1
  have hl1 : c1.latest.number = hi.number := by rw [(bsc_accept_effect c0 c1 hi h1).1]
  have hchild : c2.latest.number + 1 = hj.number := ((bsc_accept_iff c2 hj).mp ⟨c3, h3⟩).2.2.1.1
  -- the entry survives the stable run
  have key : ∀ (mid : List Hdr) (c1 : Client), c1.validators = V → (hi.number, s) ∈ c1.recents →
      hi.number ≤ c1.latest.number → followStable V c1 mid = some c2 →
      (hi.number, s) ∈ c2.recents ∧ c2.validators = V := by
    intro mid
    induction mid with
    | nil =>
      intro c1 hV hr _ hrun
      simp only [followStable, Option.some.injEq] at hrun
      subst hrun; exact ⟨hr, hV⟩
    | cons h rest ih =>
      intro c1 hV hr hle hrun
      simp only [followStable] at hrun
      cases hc : checkHeaderAndUpdate c1 h with
      | none => rw [hc] at hrun; cases hrun
      | some cm =>
        rw [hc] at hrun
        simp only at hrun
        split at hrun
        · rename_i hVm
          have hch : c1.latest.number + 1 = h.number := ((bsc_accept_iff c1 h).mp ⟨cm, hc⟩).2.2.1.1
          have hlm : cm.latest.number = h.number := by rw [(bsc_accept_effect c1 cm h hc).1]
          -- monotone: the run only moves the latest number up
          have hmono : ∀ (l : List Hdr) (x : Client), followStable V x l = some c2 → x.latest.number ≤ c2.latest.number := by
            intro l
            induction l with
            | nil => intro x hx; simp only [followStable, Option.some.injEq] at hx; subst hx; exact Nat.le_refl _
            | cons y ys ihy =>
              intro x hx
              simp only [followStable] at hx
              cases hxy : checkHeaderAndUpdate x y with
              | none => rw [hxy] at hx; cases hx
              | some x1 =>
                rw [hxy] at hx
                simp only at hx
                split at hx
                · have e1 : x.latest.number + 1 = y.number := ((bsc_accept_iff x y).mp ⟨x1, hxy⟩).2.2.1.1
                  have e2 : x1.latest.number = y.number := by rw [(bsc_accept_effect x x1 y hxy).1]
                  have := ihy x1 hx
                  omega
                · cases hx
          have hcm := hmono rest cm hrun
          have hkept : (hi.number, s) ∈ cm.recents :=
            recent_kept c1 cm h hi.number s hr hc (by rw [hVm, hV]) (by omega) (by unfold N; rw [hV]; omega)
          exact ih cm hVm hkept (by omega) hrun
        · cases hrun
  obtain ⟨hrec2, hV2⟩ := key mid c1 hV hrec1 (by omega) hmid
  intro heq
  subst heq
  obtain ⟨_, _, _, _, s'', hs'', _, _, hnot, _⟩ := (bsc_accept_iff c2 hj).mp ⟨c3, h3⟩
  rw [hs'] at hs''
  simp only [Option.some.injEq] at hs''
  subst hs''
  apply hnot
  refine ⟨hi.number, hrec2, ?_⟩
  unfold N; rw [hV2]; omega

/-- Non-vacuity: a three-validator client accepts the in-turn child of its latest header. -/
def exLatest : Hdr :=
  { number := 8, parent := "p", hash := "h8", coinbase := 5, signer := some 5, difficulty := 2, gasLimit := 30000000,
    gasUsed := 0, time := 100, root := "r8", extraVals := [3, 5, 9], extraRem := 0, vanityOk := true, sealOk := true,
    mixZero := true, uncleOk := true }
def exClient : Client :=
  { epoch := 8, latest := exLatest, validators := [3, 5, 9], recents := [(7, 3), (8, 9)], pending := [3, 5, 9], cons := fun _ => none }
def exHdr : Hdr :=
  { number := 9, parent := "h8", hash := "h9", coinbase := 3, signer := some 3, difficulty := 2, gasLimit := 30000001,
    gasUsed := 21000, time := 103, root := "r9", extraVals := [], extraRem := 0, vanityOk := true, sealOk := true,
    mixZero := true, uncleOk := true }
example : (checkHeaderAndUpdate exClient exHdr).isSome = true := by decide
/-- …and refuses the same header sealed by the validator that sealed the previous block -/
example : (checkHeaderAndUpdate exClient { exHdr with coinbase := 9, signer := some 9, difficulty := 1 }).isSome = false := by decide

end Tibc.C17
