import Tibc.Lemmas.Log
/-
  C13 — A relayer cannot redirect a packet to another port or around its relay chain.
  PROPERTY THEOREMS ONLY.

  The property is FALSE of the code (and of the faithful model): the commitment is `H data`
  under the key `(source, destination, sequence)` and binds neither the port nor the relay
  chain. What is proved here is therefore the *negation*, as positive theorems about the model
  with evaluated witnesses; the same histories are replayed on the real chains by the `c13`
  stream and are recorded as known findings (DESIGN §6, F-C13). Everything else about a packet
  IS bound (C01): only these two fields can be edited.
-/
namespace Tibc.C13
open Tibc Core

variable (H : Data → Digest) (Hc : Str → Str)

/-- **Port not bound.** If a receive of `p` passes every packet-layer check, then so does a
    receive of the same packet with any other port: the checks never look at the port. -/
theorem port_not_bound (s : Core) (p : Packet) (π : Proof) (h : Nat) (q : String)
    (hok : RecvOk H s p π h) : RecvOk H s { p with port := q } π h := by
  obtain ⟨hv, hr, cl, sn, hcl, ha, hle, hsn, hπ, hc⟩ := hok
  refine ⟨?_, hr, cl, sn, hcl, ha, hle, hsn, hπ, hc⟩
  unfold validatePacket at hv ⊢
  exact hv

/-- Same for acknowledgements: the port of the packet presented with an acknowledgement is free. -/
theorem ack_port_not_bound (s : Core) (p : Packet) (a : Data) (π : Proof) (h : Nat) (q : String)
    (hok : AckOk H s p a π h) : AckOk H s { p with port := q } a π h := by
  obtain ⟨hv, hcm, cl, sn, hcl, ha, hle, hsn, hπ, hc⟩ := hok
  refine ⟨?_, hcm, cl, sn, hcl, ha, hle, hsn, hπ, hc⟩
  unfold validatePacket at hv ⊢
  exact hv

/-- **Relay chain not bound.** On the destination, a packet that names a relay chain is accepted
    with the relay chain *removed* whenever the destination has a client of the source whose
    recorded state holds the source's commitment — which it always does for a packet the source
    really sent. The relay chain (and its whitelist) is bypassed. -/
theorem relay_not_bound (s : Core) (p : Packet) (h : Nat) (cl : Client) (sn : Snapshot)
    (hv : validatePacket s p = .ok) (hdst : p.dst = s.name) (hr : s.ps.receipt p.key = false)
    (hcl : s.clients p.src = some cl) (hact : cl.active s.now = true) (hle : h ≤ cl.latest) (hsn : cl.cons h = some sn)
    (hc : sn.commit p.key = some (H p.data)) :
    RecvOk H s { p with relay := "" } (.honest p.src h (.commit p.key)) h := by
  have hprover : recvProver s { p with relay := "" } = p.src := by
    unfold recvProver; simp
  refine ⟨?_, hr, cl, sn, by rw [hprover]; exact hcl, hact, hle, hsn, by rw [hprover]; rfl, hc⟩
  have hpb := (validatePacket_ok s p hv)
  unfold validatePacket
  have hb : packetBasic { p with relay := "" } = true := hpb.1
  have hcl' : ¬ (({ p with relay := "" } : Packet).seq ≤ s.ps.clean ({ p with relay := "" } : Packet).pair) := by
    have := hpb.2; simp only [Packet.pair] at this ⊢; omega
  have hinv : ((({ p with relay := "" } : Packet).relay != s.name && ({ p with relay := "" } : Packet).dst != s.name &&
      ({ p with relay := "" } : Packet).src != s.name) = true) = False := by simp [hdst]
  simp only [hb, Bool.not_true, Bool.false_eq_true, if_false, hinv, hcl']

/-- **Relay chain not bound on the way back either.** On the source chain, an acknowledgement
    for a packet it sent is accepted from *any* chain `r` it has an active client of, provided
    `r`'s recorded state holds that acknowledgement under the packet's key: presenting the packet
    with `relay := r` makes `r` the proving chain, and the stored commitment only covers the data.
    (`r` records an error acknowledgement under that key as soon as it is shown the packet with
    `relay := r` and has no routing rule for it — `relay_reject_error_ack`, C11; the consequence
    for tokens is `C04.one_holder_fails_under_relay_edit`.) -/
theorem ack_relay_not_bound (s : Core) (p : Packet) (a : Data) (h : Nat) (r : Chain) (cl : Client) (sn : Snapshot)
    (hv : validatePacket s p = .ok) (hsrc : p.src = s.name) (hr : r ≠ "")
    (hcm : s.ps.commit p.key = some (H p.data))
    (hcl : s.clients r = some cl) (hact : cl.active s.now = true) (hle : h ≤ cl.latest) (hsn : cl.cons h = some sn)
    (hc : sn.ack p.key = some (H a)) :
    AckOk H s { p with relay := r } a (.honest r h (.ack p.key)) h := by
  have hprover : ackProver s { p with relay := r } = r := by
    unfold ackProver; simp [hsrc, hr]
  refine ⟨?_, hcm, cl, sn, by rw [hprover]; exact hcl, hact, hle, hsn, by rw [hprover]; rfl, hc⟩
  have hpb := (validatePacket_ok s p hv)
  unfold validatePacket
  have hb : packetBasic { p with relay := r } = true := hpb.1
  have hcl' : ¬ (({ p with relay := r } : Packet).seq ≤ s.ps.clean ({ p with relay := r } : Packet).pair) := by
    have := hpb.2; simp only [Packet.pair] at this ⊢; omega
  have hinv : ((({ p with relay := r } : Packet).relay != s.name && ({ p with relay := r } : Packet).dst != s.name &&
      ({ p with relay := r } : Packet).src != s.name) = true) = False := by simp [hsrc]
  simp only [hb, Bool.not_true, Bool.false_eq_true, if_false, hinv, hcl']

/-! Evaluated witnesses (the histories replayed on the real chains). -/
def exH : Data → Digest := fun d => match d with | .raw s => s | _ => ""
def pkt : Packet := { seq := 1, src := "A", dst := "C", relay := "R", port := "tibcmock", data := .raw "aa" }
def setup : List Op :=
  [.createClient "A" "R" 5 100 1000, .createClient "R" "A" 5 100 1000, .createClient "R" "C" 5 100 1000,
   .createClient "C" "R" 5 100 1000, .createClient "C" "A" 5 100 1000,
   -- R's whitelist does not allow A -> C
   .setRules "R" ["X,Y,Z".toList],
   .ksend "A" pkt, .update "C" "A" 9 110]
def w0 : World := run exH id World.init setup

/-- the packet named relay chain R; delivered to C directly with the relay field removed and the
    source's own proof, it is accepted — R's whitelist never gets a say -/
example : (step exH id w0 (.tx "C" (.recvPacket { pkt with relay := "" } (.honest "A" 9 (.commit pkt.key)) 9 ""))).2 = .ok := by
  decide

/-- the same packet redirected to a port without a module is accepted by the packet layer and then
    aborts in routing; redirected to another routed port it is delivered to the wrong application -/
example : (step exH id w0 (.tx "C" (.recvPacket { pkt with relay := "", port := "NFT" } (.honest "A" 9 (.commit pkt.key)) 9 ""))).2
    = .err .unknownRequest := by decide

end Tibc.C13
