import Tibc.Props.C06
import Tibc.World
import Tibc.Lemmas.RelayEditWitness
/-
  C04 — NFT transfers never duplicate an NFT or release escrow to the wrong claimant.
  PROPERTY THEOREMS ONLY.

  Status: PARTIAL. Proved here, for all strings / states: the class-path algebra the direction
  decision rests on, the send-side guard that makes native classes well-formed, and the per-step
  custody facts (a send locks or burns exactly the sender's token; a receive releases only a token
  that is in escrow, and mints vouchers only in classes owned by the transfer module; users
  cannot mint in such classes). NOT yet proved: the global statement `HolderUniqueStatement`
  below (exactly one holder across all chains for every history) — it is checked on the real
  chains by the provenance-ledger oracle of the `nft` stream instead (DESIGN §5 C04).
-/
namespace Tibc.C04
open Tibc ClassPath C06

variable (H : Data → Digest) (Hc : Str → Str)

/-- After one hop away from a base class, the direction test says "back" exactly for the chain
    the token came from. -/
theorem direction_after_away_base (pfx s d b y : Str) (hp : delim ∉ pfx) (hs : delim ∉ s) (hd : delim ∉ d)
    (hb : WfBase b) :
    determineAway pfx (getAway pfx s d b) y = some (s != y) := by
  have hnd : hasDelim b = false := by
    unfold hasDelim
    cases h : b.contains delim with
    | false => rfl
    | true => exact absurd ((contains_iff_mem b delim).mp h) hb
  unfold getAway
  simp only [hnd, Bool.and_false, Bool.false_eq_true, if_false]
  have e : splitOnChar delim (concat pfx s d b) = [pfx, s, d, b] := by
    unfold concat
    have : pfx ++ delim :: s ++ delim :: d ++ delim :: b = pfx ++ delim :: (s ++ delim :: (d ++ delim :: b)) := by
      simp [List.append_assoc]
    rw [this, split_append _ _ _ hp, split_append _ _ _ hs, split_append _ _ _ hd, split_nosep _ _ hb]
  have hpre : hasPrefix pfx (concat pfx s d b) = true := by
    unfold hasPrefix concat
    simp [List.append_assoc]
  have hdel : hasDelim (concat pfx s d b) = true := by
    unfold hasDelim concat
    rw [contains_iff_mem]; simp
  unfold determineAway
  simp only [hpre, hdel, Bool.not_true, Bool.and_false, Bool.or_self, Bool.false_eq_true, if_false, e]
  simp [thirdFromEnd]

/-- The send-side guard (repair of F-C04): a successful `MsgNftTransfer` of a class that is not a
    voucher class implies the class is free of the path delimiter — `WfBase` is *established* by
    the code, not assumed. -/
theorem native_send_requires_wf_base (s : State) (cls id : Str) (dst : Chain) (full : Str) (away : Bool)
    (hnv : hasPrefix voucherPfx cls = false) (hok : nftSendPre s cls id dst = .ok (full, away)) :
    WfBase cls ∧ full = cls := by
  unfold nftSendPre at hok
  split at hok
  · cases hok
  · split at hok
    · cases hok
    · split at hok
      · cases hok
      · simp only [hnv, Bool.false_eq_true, if_false] at hok
        cases hd : hasDelim cls with
        | true => simp [hd] at hok
        | false =>
          simp only [hd, Bool.false_eq_true, if_false] at hok
          split at hok
          · cases hok
          · cases hok
            refine ⟨?_, rfl⟩
            intro hm
            have := (contains_iff_mem cls delim).mpr hm
            unfold hasDelim at hd
            rw [this] at hd; cases hd

/-- A successful send moves exactly the sender's own token: towards the origin it is burnt,
    away from it it is locked with the transfer module; in both cases the sender owned it. -/
theorem send_locks_or_burns (a : Apps) (cls id : Str) (sender : Addr) (away : Bool)
    (hok : (nftSendToken a cls id sender away).2 = .ok) :
    a.nft.owner (cls, id) = some sender ∧
    (nftSendToken a cls id sender away).1.nft.owner =
      upd a.nft.owner (cls, id) (if away then some nftModAddr else none) := by
  unfold nftSendToken at hok ⊢
  cases away with
  | true =>
    simp only [if_true] at hok ⊢
    unfold NftMod.transferOwner at hok ⊢
    cases ho : a.nft.owner (cls, id) with
    | none => simp [liftNft, ho] at hok
    | some o =>
      simp only [ho] at hok ⊢
      by_cases hs : o = sender
      · subst hs
        cases hd : a.nft.denom cls with
        | none => simp [liftNft, hd] at hok
        | some dn => simp [liftNft, hd]
      · simp [liftNft, hs] at hok
  | false =>
    simp only [Bool.false_eq_true, if_false] at hok ⊢
    unfold NftMod.burn at hok ⊢
    by_cases ho : a.nft.owner (cls, id) = some sender
    · cases hd : a.nft.denom cls with
      | none => simp [liftNft, ho, hd] at hok
      | some dn => simp [liftNft, ho, hd]
    · simp [liftNft, ho] at hok

/-- Users cannot create vouchers: minting in a class that is mint-restricted and owned by the
    transfer module is refused for every other sender (voucher classes are created exactly so). -/
theorem users_cannot_mint_vouchers (s : State) (sender : Addr) (cls id : Str) (uri : String) (rc : Addr)
    (hden : s.apps.nft.denom cls = some ⟨nftModAddr, true⟩) (hs : sender ≠ nftModAddr) :
    (nftMintMsg s sender cls id uri rc).1 = s ∧ (nftMintMsg s sender cls id uri rc).2 ≠ .ok := by
  unfold nftMintMsg
  split
  · exact ⟨rfl, by simp⟩
  · split
    · exact ⟨rfl, by simp⟩
    · split
      · exact ⟨rfl, by simp⟩
      · simp only [hden]
        have : (nftModAddr != sender) = true := by simp; exact fun h => hs h.symm
        simp [this]

/-- An accepted *returning* packet releases only a token that is in the transfer module's
    escrow, under the class obtained by stripping the last hop from the packet's class path. -/
theorem recv_back_releases_only_escrowed (a : Apps) (d : NftData)
    (hok : (nftRecvBack Hc a d).2 = .ok) :
    ∃ newPath, getBack d.cls = some newPath ∧
      a.nft.owner (ibcClass Hc newPath, d.id) = some nftModAddr ∧
      (nftRecvBack Hc a d).1.nft.owner = upd a.nft.owner (ibcClass Hc newPath, d.id) (some d.receiver) := by
  unfold nftRecvBack at hok ⊢
  cases hp : hasPrefix nftPfx d.cls with
  | false => simp [hp] at hok
  | true =>
    simp only [hp, Bool.not_true, Bool.false_eq_true, if_false] at hok ⊢
    cases hgb : getBack d.cls with
    | none => simp [hgb] at hok
    | some np =>
      simp only [hgb] at hok ⊢
      refine ⟨np, rfl, ?_⟩
      unfold NftMod.transferOwner at hok ⊢
      cases ho : a.nft.owner (ibcClass Hc np, d.id) with
      | none => simp [liftNft, ho] at hok
      | some o =>
        simp only [ho] at hok ⊢
        by_cases hs : o = nftModAddr
        · subst hs
          cases hd : a.nft.denom (ibcClass Hc np) with
          | none => simp [liftNft, hd] at hok
          | some dn => simp [liftNft, hd, bne_self_eq_false]
        · simp [liftNft, hs] at hok

/-- **The global one-holder statement is FALSE of the code** (known finding F-C04-relayedit; the
    root cause is C13: the packet commitment does not bind the relay chain). In the history
    `RelayEdit.nftHistory` every step is accepted; the NFT `dog/rex`, minted once on A and sent
    directly to C, ends up held by `alice` on A (refunded on the strength of a third chain's
    refusal) *and*, as a voucher, by `carol` on C. Evaluated by the kernel; replayed on the real
    chains by the `nft` stream (scenario `relay-edit-after-delivery`). -/
theorem one_holder_fails_under_relay_edit :
    RelayEdit.results RelayEdit.nftHistory = List.replicate 13 Res.ok ∧
    (RelayEdit.nftWorld "A").apps.nft.owner ("dog".toList, "rex".toList) = some "alice" ∧
    (RelayEdit.nftWorld "C").apps.nft.owner (ibcClass id "nft/A/C/dog".toList, "rex".toList) = some "carol" := by
  decide

end Tibc.C04
