import Tibc.Commitment.Verify
/-
  C08 — State-proof verification is sound and complete for every client type.
  PROPERTY THEOREMS ONLY.

  The counterparty state whose root the client recorded at the proof height is an abstract
  key-value map.  A proof is described by what it genuinely proves (`TmProof`, `EthProof`);
  `TmValid` / `EthValid` say that the description is truthful w.r.t. that state — this is the
  binding property of ICS-23 / IAVL and of the Merkle-Patricia trie + RLP (a hypothesis here, and
  exercised against the real libraries by the `proofs` stream).  The honest prover's proof
  (`tmHonest`, `ethHonest`) is the completeness side of the same libraries.
-/
namespace Tibc.C08
open Tibc Tibc.Verify

/-! ## Tendermint (ICS-23) -/

/-- the description `π` is truthful for the recorded state `store` (full path ↦ value) -/
def TmValid (store : String → Option String) : TmProof → Prop
  | .genuine k v => store k = v
  | _ => True

/-- height bound, consensus state recorded, confirmation delay (time) elapsed -/
def TmConditions (c : TmCtx) (h : Nat) : Prop :=
  h ≤ c.latest ∧ (∃ r, c.consRoot = some r) ∧ ∃ pt, c.processed = some pt ∧ pt + c.delay ≤ c.now

theorem tm_verify_iff (c : TmCtx) (h : Nat) (π : TmProof) (path value : String) :
    tmVerify c h π path value = true ↔
      h ≤ c.latest ∧ (∃ r, c.consRoot = some r) ∧
      (∃ pt, c.processed = some pt ∧ pt + c.delay < U64 ∧ pt + c.delay ≤ c.now) ∧
      value ≠ "" ∧ π = .genuine path (some value) := by
  unfold tmVerify
  cases hp : c.processed with
  | none => simp
  | some pt =>
    cases hr : c.consRoot with
    | none => simp
    | some r =>
      simp only [Bool.and_eq_true, decide_eq_true_eq, bne_iff_ne, ne_eq, Option.isSome_some, beq_iff_eq,
        Option.some.injEq, exists_eq_left', Bool.and_true]
      constructor
      · rintro ⟨⟨⟨⟨⟨h1, _⟩, _⟩, h4, h5⟩, h6⟩, h7⟩
        exact ⟨h1, ⟨r, rfl⟩, ⟨h4, h5⟩, h6, h7⟩
      · rintro ⟨h1, _, ⟨h4, h5⟩, h6, h7⟩
        subst h7
        exact ⟨⟨⟨⟨⟨h1, by intro hh; cases hh⟩, by intro hh; cases hh⟩, h4, h5⟩, h6⟩, rfl⟩

/-- **Soundness (Tendermint).** Whatever bytes are submitted, if verification succeeds then the
    claimed value is stored under exactly the queried protocol path in the recorded state, the
    height is not above the client's latest, and the time delay has elapsed. -/
theorem tm_sound (store : String → Option String) (c : TmCtx) (h : Nat) (π : TmProof) (path value : String)
    (hv : TmValid store π) (hok : tmVerify c h π path value = true) :
    store path = some value ∧ TmConditions c h := by
  obtain ⟨h1, h2, ⟨pt, h3, _, h5⟩, _, h7⟩ := (tm_verify_iff c h π path value).mp hok
  subst h7
  exact ⟨hv, h1, h2, pt, h3, h5⟩

/-- **Completeness (Tendermint).** If the (non-empty) value is stored under the protocol path in the
    recorded state and the height / delay conditions hold, the honest proof verifies.
    (`pt + delay < 2^64`: an overflowing delay is refused — repair F-C08c.) -/
theorem tm_complete (store : String → Option String) (c : TmCtx) (h : Nat) (path value : String)
    (hs : store path = some value) (hne : value ≠ "") (hc : TmConditions c h)
    (hno : ∀ pt, c.processed = some pt → pt + c.delay < U64) :
    TmValid store (.genuine path (some value)) ∧ tmVerify c h (.genuine path (some value)) path value = true := by
  obtain ⟨h1, h2, pt, h3, h4⟩ := hc
  exact ⟨hs, (tm_verify_iff c h _ path value).mpr ⟨h1, h2, ⟨pt, h3, hno pt h3, h4⟩, hne, rfl⟩⟩

/-- **Exactly when (Tendermint).** Some truthful proof verifies iff the value is stored and the
    conditions hold. -/
theorem tm_exactly_when (store : String → Option String) (c : TmCtx) (h : Nat) (path value : String)
    (hne : value ≠ "") (hno : ∀ pt, c.processed = some pt → pt + c.delay < U64) :
    (∃ π, TmValid store π ∧ tmVerify c h π path value = true) ↔ (store path = some value ∧ TmConditions c h) := by
  constructor
  · rintro ⟨π, hv, hok⟩; exact tm_sound store c h π path value hv hok
  · rintro ⟨hs, hc⟩; exact ⟨_, tm_complete store c h path value hs hne hc hno⟩

/-- a proof for another key, another value, another root, absent, or undecodable never verifies -/
theorem tm_wrong_proof_rejected (c : TmCtx) (h : Nat) (π : TmProof) (path value : String)
    (hw : π ≠ .genuine path (some value)) : tmVerify c h π path value = false := by
  cases hh : tmVerify c h π path value with
  | false => rfl
  | true => exact absurd ((tm_verify_iff c h π path value).mp hh).2.2.2.2 hw

/-! ## ETH / BSC (Merkle-Patricia account + storage proof) -/

/-- the description `π` is truthful: if the account proof chains to the recorded root for the
    client's contract with the shipped account fields, and the storage proof chains to that
    account's storage root at keccak(slot of the queried key), then the proven word is what the
    recorded state holds at that slot (`none`: nothing stored) -/
def EthValid (stored : Option String) (π : EthProof) : Prop :=
  π.addrOk = true → π.acctProofOk = true → π.acctFieldsOk = true → π.keyIsSlot = true → π.storProofOk = true →
    π.word = stored

def EthConditions (c : EthCtx) (h : Nat) : Prop :=
  h ≤ c.latest ∧ c.consExists = true ∧ c.latest - h ≥ c.delayBlock

/-- what `eth_getProof` returns for the queried slot -/
def ethHonest (stored : Option String) : EthProof :=
  { decodes := true, addrOk := true, acctProofOk := true, acctFieldsOk := true, nStorage := 1,
    keyIsSlot := true, storProofOk := true, word := stored }

theorem eth_verify_iff (c : EthCtx) (h : Nat) (π : EthProof) (claimed : String) :
    ethVerify c h π claimed = true ↔
      EthConditions c h ∧ π.decodes = true ∧ π.addrOk = true ∧ π.acctProofOk = true ∧ π.acctFieldsOk = true ∧
      π.nStorage = 1 ∧ π.keyIsSlot = true ∧ π.storProofOk = true ∧ π.word = some (padHex 64 claimed) := by
  unfold ethVerify EthConditions wordMatches
  cases hw : π.word with
  | none => simp
  | some w =>
    simp only [Bool.and_eq_true, decide_eq_true_eq, beq_iff_eq, Option.some.injEq, ge_iff_le]
    constructor
    · rintro ⟨⟨⟨⟨⟨⟨⟨⟨⟨⟨a, b⟩, c'⟩, d⟩, e⟩, f⟩, g⟩, i⟩, j⟩, k⟩, l⟩
      exact ⟨⟨a, c', d⟩, b, e, f, g, i, j, k, l⟩
    · rintro ⟨⟨a, c', d⟩, b, e, f, g, i, j, k, l⟩
      exact ⟨⟨⟨⟨⟨⟨⟨⟨⟨⟨a, b⟩, c'⟩, d⟩, e⟩, f⟩, g⟩, i⟩, j⟩, k⟩, l⟩

/-- **Soundness (ETH).** -/
theorem eth_sound (stored : Option String) (c : EthCtx) (h : Nat) (π : EthProof) (claimed : String)
    (hv : EthValid stored π) (hok : ethVerify c h π claimed = true) :
    stored = some (padHex 64 claimed) ∧ EthConditions c h := by
  obtain ⟨hc, _, a, b, d, _, e, f, g⟩ := (eth_verify_iff c h π claimed).mp hok
  exact ⟨(hv a b d e f).symm.trans g, hc⟩

/-- **Completeness (ETH).** -/
theorem eth_complete (stored : Option String) (c : EthCtx) (h : Nat) (claimed : String)
    (hs : stored = some (padHex 64 claimed)) (hc : EthConditions c h) :
    EthValid stored (ethHonest stored) ∧ ethVerify c h (ethHonest stored) claimed = true :=
  ⟨fun _ _ _ _ _ => rfl, (eth_verify_iff c h _ claimed).mpr ⟨hc, rfl, rfl, rfl, rfl, rfl, rfl, rfl, hs⟩⟩

theorem eth_exactly_when (stored : Option String) (c : EthCtx) (h : Nat) (claimed : String) :
    (∃ π, EthValid stored π ∧ ethVerify c h π claimed = true) ↔ (stored = some (padHex 64 claimed) ∧ EthConditions c h) :=
  ⟨fun ⟨π, hv, hok⟩ => eth_sound stored c h π claimed hv hok,
   fun ⟨hs, hc⟩ => ⟨_, eth_complete stored c h claimed hs hc⟩⟩

/-- **BSC** verifies exactly like ETH (the slot is compared with `sp.Key`, the trie path is its hash). -/
theorem bsc_exactly_when (stored : Option String) (c : EthCtx) (h : Nat) (claimed : String) :
    (∃ π, EthValid stored π ∧ bscVerify c h π claimed = true) ↔ (stored = some (padHex 64 claimed) ∧ EthConditions c h) :=
  eth_exactly_when stored c h claimed

theorem bsc_honest_accepted (stored : Option String) (c : EthCtx) (h : Nat) (claimed : String)
    (hs : stored = some (padHex 64 claimed)) (hc : EthConditions c h) :
    bscVerify c h (ethHonest stored) claimed = true :=
  (eth_complete stored c h claimed hs hc).2

/-- the 8-byte clean sequence is matched against the stored 32-byte word -/
example : wordMatches (some "0000000000000000000000000000000000000000000000000000000000000007") "0000000000000007" = true := by
  decide

/-- Non-vacuity: concrete contexts on which honest proofs verify. -/
example : tmVerify ⟨10, some "r", some 100, 5, 105⟩ 9 (.genuine "tibc/commitments/a/b/1" (some "ab")) "tibc/commitments/a/b/1" "ab" = true := by
  decide
example : ethVerify ⟨200, true, 12⟩ 188 (ethHonest (some (padHex 64 "ab"))) "ab" = true := by decide
example : ethVerify ⟨200, true, 12⟩ 189 (ethHonest (some (padHex 64 "ab"))) "ab" = false := by decide

end Tibc.C08
