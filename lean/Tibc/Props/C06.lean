import Tibc.Lemmas.ClassPath
import Tibc.Lemmas.NftSteps
import Tibc.App.Transfer
import Tibc.Lemmas.RelayEditWitness
/-
  C06 — Failed transfers are refunded exactly; a round trip restores the original.
  PROPERTY THEOREMS ONLY.  (Path algebra for all strings; refund exactness per step.)
-/
namespace Tibc.C06
open Tibc ClassPath

/-- a base class as the (repaired) send path admits it: free of the path delimiter -/
def WfBase (b : Str) : Prop := delim ∉ b

/-- a voucher class path: `pfx/c₁/…/cₙ/base`, n ≥ 2, no component contains the delimiter -/
def WfPath (pfx : Str) (q : Str) : Prop :=
  ∃ parts : List Str, q = joinWith delim parts ∧ 4 ≤ parts.length ∧ parts.head? = some pfx ∧
    ∀ x ∈ parts, delim ∉ x

/-- **One hop out and back restores a base class**, for every base class, source and destination
    chain name that are free of `/` (class-path prefix `nft` or `mt`). -/
theorem back_away_base (pfx s d b : Str) (hp : delim ∉ pfx) (hs : delim ∉ s) (hd : delim ∉ d) (hb : WfBase b) :
    getBack (getAway pfx s d b) = some b := by
  have hnd : hasDelim b = false := by
    unfold hasDelim
    cases h : b.contains delim with
    | false => rfl
    | true => exact absurd ((contains_iff_mem b delim).mp h) hb
  unfold getAway
  simp only [hnd, Bool.and_false, Bool.false_eq_true, if_false]
  unfold getBack concat
  have e : splitOnChar delim (pfx ++ delim :: s ++ delim :: d ++ delim :: b) = [pfx, s, d, b] := by
    have : pfx ++ delim :: s ++ delim :: d ++ delim :: b = pfx ++ delim :: (s ++ delim :: (d ++ delim :: b)) := by
      simp [List.append_assoc]
    rw [this, split_append _ _ _ hp, split_append _ _ _ hs, split_append _ _ _ hd, split_nosep _ _ hb]
  simp only [e]
  simp

/-- **One further hop out and back restores a voucher class path**, for every well-formed path
    of any length. -/
theorem back_away_path (pfx s d q : Str) (hd : delim ∉ d) (hq : WfPath pfx q)
    (hpre : hasPrefix pfx q = true) :
    getBack (getAway pfx s d q) = some q := by
  obtain ⟨parts, rfl, hlen, _, hfree⟩ := hq
  have hne : parts ≠ [] := by intro h; rw [h] at hlen; simp at hlen
  have hsplit := split_join delim parts hne hfree
  have hdel : hasDelim (joinWith delim parts) = true := by
    unfold hasDelim
    rw [contains_iff_mem]
    -- at least two parts, so a delimiter occurs
    match parts, hlen with
    | a :: b :: rest, _ => simp [joinWith]
  unfold getAway
  simp only [hpre, hdel, Bool.and_self, if_true, hsplit]
  -- the new path is dropLast ++ [d] ++ [last]
  obtain ⟨l, hl, hparts⟩ : ∃ l, parts.getLast? = some l ∧ parts = parts.dropLast ++ [l] :=
    ⟨parts.getLast hne, List.getLast?_eq_some_getLast hne, (List.dropLast_concat_getLast hne).symm⟩
  have hlfree : delim ∉ l := hfree l (by rw [hparts]; simp)
  have hdropfree : ∀ x ∈ parts.dropLast, delim ∉ x := fun x hx => hfree x (List.dropLast_subset parts hx)
  have hnew : ∀ x ∈ parts.dropLast ++ [d] ++ [l], delim ∉ x := by
    intro x hx
    simp only [List.mem_append, List.mem_singleton] at hx
    rcases hx with (hx | hx) | hx
    · exact hdropfree x hx
    · rw [hx]; exact hd
    · rw [hx]; exact hlfree
  simp only [hl, Option.toList]
  unfold getBack
  simp only [split_join delim _ (by simp) hnew]
  have hlen2 : (parts.dropLast ++ [d] ++ [l]).length = parts.length + 1 := by
    simp [List.length_dropLast]
    omega
  have h4 : ¬ (parts.dropLast ++ [d] ++ [l]).length = 4 := by omega
  have h2 : ¬ (parts.dropLast ++ [d] ++ [l]).length < 2 := by omega
  simp only [h4, h2, if_false]
  have hlast : (parts.dropLast ++ [d] ++ [l]).getLast? = some l := by simp
  have htake : (parts.dropLast ++ [d] ++ [l]).take ((parts.dropLast ++ [d] ++ [l]).length - 2) = parts.dropLast := by
    rw [hlen2]
    have : parts.length + 1 - 2 = parts.dropLast.length := by simp [List.length_dropLast]
    rw [this, List.append_assoc, List.take_left' rfl]
  rw [hlast, htake]
  simp only [Option.toList]
  rw [← hparts]

/-- The refund recomputes the sender's local class from the packet's full class path:
    parsing a class path into (path, base class) loses nothing. -/
theorem parse_full (q : Str) (h : ∀ b, q ≠ delim :: b ∨ delim ∈ b) : fullPath (parseTrace q) = q := by
  unfold parseTrace fullPath
  have hj := join_split delim q
  cases hs : splitOnChar delim q with
  | nil => exact absurd hs (splitOnChar_ne_nil _ _)
  | cons a rest =>
    cases rest with
    | nil =>
      simp only
      rw [hs] at hj; simp only [joinWith] at hj
      simp
    | cons b rest' =>
      simp only
      -- q = join(dropLast) ++ '/' ++ last
      obtain ⟨l, hl, hparts⟩ : ∃ l, (a :: b :: rest').getLast? = some l ∧
          a :: b :: rest' = (a :: b :: rest').dropLast ++ [l] :=
        ⟨_, List.getLast?_eq_some_getLast (by simp), (List.dropLast_concat_getLast (by simp)).symm⟩
      have hjoin : ∀ (xs : List Str) (y : Str), xs ≠ [] → joinWith delim (xs ++ [y]) = joinWith delim xs ++ delim :: y := by
        intro xs y hx
        induction xs with
        | nil => exact absurd rfl hx
        | cons x xs ih =>
          cases xs with
          | nil => simp [joinWith]
          | cons x' xs' =>
            simp only [List.cons_append, joinWith]
            rw [show x' :: (xs' ++ [y]) = (x' :: xs') ++ [y] from rfl, ih (by simp)]
            simp [List.append_assoc]
      have hdl : (a :: b :: rest').dropLast ≠ [] := by simp [List.dropLast]
      rw [hs, hparts, hjoin _ _ hdl] at hj
      rw [hl]
      simp only [Option.getD]
      by_cases he : joinWith delim (a :: b :: rest').dropLast = []
      · -- the only way: a single empty leading field, i.e. q = '/' :: l with no further '/'
        exfalso
        rw [he] at hj
        simp only [List.nil_append] at hj
        rcases h l with h1 | h1
        · exact h1 hj.symm
        · -- l is a field of the split, hence free of the delimiter
          have : delim ∉ l := by
            have hmem : l ∈ splitOnChar delim q := by rw [hs, hparts]; simp
            exact split_field_nosep delim q l hmem
          exact this h1
      · simp only [he, if_false]
        exact hj


/-! ### exact refund (NFT), at the application level -/

section refund
variable (Hc : Str → Str)

/-- the local class a packet's full class path stands for on the sending chain is the class the
    token was taken from: holds for native classes (no `/`, repaired send path) and for voucher
    classes whose trace entry is consistent (`tibc-<hash>` ↦ path with that hash) -/
def ClassConsistent (cls full : Str) : Prop := ibcClass Hc full = cls

theorem native_class_consistent (cls : Str) (h : WfBase cls) : ClassConsistent Hc cls cls := by
  unfold ClassConsistent ibcClass parseTrace
  simp only [split_nosep delim cls h]
  simp

/-- **Refund is exact (NFT).** If `SendNftTransfer` took the token (locked it in the module's
    escrow when moving away from its origin, burned it when moving back) and the transfer is later
    refunded (error acknowledgement), the NFT module of the sending chain is exactly what it was
    before the send: same owner of every token, same URIs, same classes. -/
theorem nft_refund_exact (a a1 : Apps) (cls id full : Str) (sender receiver : Addr) (away : Bool) (dc : String)
    (hcons : ClassConsistent Hc cls full) (hsv : addrValid sender = true)
    (hdenom : (a.nft.denom cls).isSome = true)
    (htok : nftSendToken a cls id sender away = (a1, .ok)) :
    let d : NftData := { cls := full, id := id, uri := a.nft.uri (cls, id), sender := sender, receiver := receiver,
                         away := away, destContract := dc }
    (nftRefund Hc a1 d).2 = .ok ∧ (nftRefund Hc a1 d).1.nft = a.nft := by
  intro d
  have hvc : ibcClass Hc d.cls = cls := hcons
  have hds : d.sender = sender := rfl
  have hdi : d.id = id := rfl
  have hdu : d.uri = a.nft.uri (cls, id) := rfl
  obtain ⟨dn, hdn⟩ := Option.isSome_iff_exists.mp hdenom
  unfold nftSendToken at htok
  unfold nftRefund
  simp only [hds, hdi, hdu, hsv, Bool.not_true, Bool.false_eq_true, if_false, hvc]
  cases away with
  | true =>
    simp only [if_true] at htok
    -- locked: owner was `sender`, now the module account
    unfold liftNft NftMod.transferOwner at htok
    cases ho : a.nft.owner (cls, id) with
    | none => simp [ho] at htok
    | some o =>
      by_cases hos : o = sender
      · subst hos
        simp only [ho, bne_self_eq_false, Bool.false_eq_true, if_false, hdn, Prod.mk.injEq, and_true] at htok
        subst htok
        have hd : d.away = true := rfl
        simp only [hd, if_true, liftNft, NftMod.transferOwner, upd_apply, if_true, bne_self_eq_false, Bool.false_eq_true,
          if_false, hdn]
        refine ⟨trivial, ?_⟩
        show ({ a.nft with owner := upd (upd a.nft.owner (cls, id) (some nftModAddr)) (cls, id) (some o) } : NftMod) = a.nft
        have : upd (upd a.nft.owner (cls, id) (some nftModAddr)) (cls, id) (some o) = a.nft.owner := by
          funext k; simp only [upd_apply]; split
          · rename_i hk; rw [hk, ho]
          · rfl
        rw [this]
      · have : (o != sender) = true := by simpa using hos
        simp [ho, this] at htok
  | false =>
    simp only [Bool.false_eq_true, if_false] at htok
    -- burned: re-minted to the module account with the same URI, then handed back
    unfold liftNft NftMod.burn at htok
    by_cases hos : a.nft.owner (cls, id) = some sender
    · have hb : (a.nft.owner (cls, id) != some sender) = false := by simp [hos]
      simp only [hb, Bool.false_eq_true, if_false, hdn, Prod.mk.injEq, and_true] at htok
      subst htok
      have hd : d.away = false := rfl
      simp only [hd, Bool.false_eq_true, if_false, liftNft, NftMod.mint, hdn, upd_apply, if_true, Option.isSome_none,
        NftMod.transferOwner, bne_self_eq_false]
      refine ⟨trivial, ?_⟩
      show ({ a.nft with owner := upd (upd (upd a.nft.owner (cls, id) none) (cls, id) (some nftModAddr)) (cls, id) (some sender),
                         uri := upd a.nft.uri (cls, id) (a.nft.uri (cls, id)) } : NftMod) = a.nft
      have h1 : upd (upd (upd a.nft.owner (cls, id) none) (cls, id) (some nftModAddr)) (cls, id) (some sender) = a.nft.owner := by
        funext k; simp only [upd_apply]; split
        · rename_i hk; rw [hk, hos]
        · rfl
      have h2 : upd a.nft.uri (cls, id) (a.nft.uri (cls, id)) = a.nft.uri := by
        funext k; simp only [upd_apply]; split
        · rename_i hk; rw [hk]
        · rfl
      rw [h1, h2]
    · have hb : (a.nft.owner (cls, id) != some sender) = true := by simpa using hos
      simp [hb] at htok

end refund


/-! ### a round trip restores the original (NFT), at the application level -/

section roundtrip
variable (Hc : Str → Str)

/-- an accepted packet moving *away* from the origin leaves, on the receiving chain, exactly one new
    token: the voucher `(ibcClass path, id)`, owned by the receiver; it did not exist before -/
theorem recv_away_mints_voucher (a : Apps) (p : Packet) (d : NftData) (hok : (nftRecvAway Hc a p d).2 = .ok) :
    a.nft.owner (ibcClass Hc (getAway nftPfx p.src.toList p.dst.toList d.cls), d.id) = none ∧
    (nftRecvAway Hc a p d).1.nft.owner =
      upd a.nft.owner (ibcClass Hc (getAway nftPfx p.src.toList p.dst.toList d.cls), d.id) (some d.receiver) := by
  have hvo : ∀ path, (nftVoucherClass Hc a path).1.nft = a.nft := by
    intro path; unfold nftVoucherClass; simp only; split <;> rfl
  have hvc : ∀ path, (nftVoucherClass Hc a path).2 = ibcClass Hc path := fun _ => rfl
  unfold nftRecvAway at hok ⊢
  simp only at hok ⊢
  generalize hs1 : (nftVoucherClass Hc a (getAway nftPfx p.src.toList p.dst.toList d.cls)).1 = s1 at hok ⊢
  have hn1 : s1.nft = a.nft := by rw [← hs1]; exact hvo _
  rw [hvc] at hok ⊢
  generalize ibcClass Hc (getAway nftPfx p.src.toList p.dst.toList d.cls) = vc at hok ⊢
  -- the class step leaves the ownership map alone
  have hcls : ∀ (r : Apps × Res),
      (match s1.nft.denom vc with
        | some _ => (s1, Res.ok)
        | none => liftNft s1 (s1.nft.issueDenom vc nftModAddr true)) = r →
      r.1.nft.owner = a.nft.owner := by
    intro r hr
    rw [← hr]
    split
    · rw [hn1]
    · simp only [liftNft, NftMod.issueDenom]
      split <;> rw [hn1]
  split at hok
  · simp at hok
  · rename_i s2 heq2
    have ho2 : s2.nft.owner = a.nft.owner := by
      have := hcls _ heq2; simpa using this
    split at hok
    · simp at hok
    · rename_i s3 heq3
      -- mint to the module account: the token did not exist
      simp only [liftNft, NftMod.mint] at heq3
      cases hden : s2.nft.denom vc with
      | none => simp [hden] at heq3
      | some dn =>
        simp only [hden] at heq3
        by_cases hex : (s2.nft.owner (vc, d.id)).isSome = true
        · simp [hex] at heq3
        · simp only [hex, Bool.false_eq_true, if_false, Prod.mk.injEq, and_true] at heq3
          have hnone : a.nft.owner (vc, d.id) = none := by
            rw [← ho2]; cases h : s2.nft.owner (vc, d.id) with
            | none => rfl
            | some _ => simp [h] at hex
          refine ⟨hnone, ?_⟩
          subst heq3
          simp only [liftNft, NftMod.transferOwner, upd_apply, if_true, bne_self_eq_false, Bool.false_eq_true, if_false, hden] at hok ⊢
          rw [ho2]
          funext k; simp only [upd_apply]; split <;> rfl

/-- **A round trip restores the original (NFT).** A native token `(cls, id)` of chain `a` is sent to
    chain `b` and the voucher is sent straight back. On the origin chain the ownership map ends up
    exactly as it started, with the token owned by the final receiver (escrow released); on chain
    `b` the ownership map ends up exactly as it started (the voucher was minted and burned). -/
theorem nft_round_trip_restores (A B : Apps) (a b : Str) (cls id : Str) (u v u2 : Addr)
    (p1 : Packet) (d1 d2 : NftData)
    (ha : delim ∉ a) (hb : delim ∉ b) (hcls : WfBase cls)
    (hp1 : p1.src.toList = a ∧ p1.dst.toList = b)
    (hd1 : d1.cls = cls ∧ d1.id = id ∧ d1.receiver = v)
    (hd2 : d2.cls = getAway nftPfx a b cls ∧ d2.id = id ∧ d2.receiver = u2)
    -- the four steps were accepted
    (h1 : (nftSendToken A cls id u true).2 = .ok)
    (h2 : (nftRecvAway Hc B p1 d1).2 = .ok)
    (h3 : (nftSendToken (nftRecvAway Hc B p1 d1).1 (ibcClass Hc (getAway nftPfx a b cls)) id v false).2 = .ok)
    (h4 : (nftRecvBack Hc (nftSendToken A cls id u true).1 d2).2 = .ok) :
    (nftRecvBack Hc (nftSendToken A cls id u true).1 d2).1.nft.owner = upd A.nft.owner (cls, id) (some u2) ∧
    (nftSendToken (nftRecvAway Hc B p1 d1).1 (ibcClass Hc (getAway nftPfx a b cls)) id v false).1.nft.owner = B.nft.owner := by
  constructor
  · -- origin chain: lock, then release to the receiver
    obtain ⟨_, hl⟩ := nftSendToken_owner A cls id u true h1
    obtain ⟨np, hnp, _, hr⟩ := nftRecvBack_owner Hc _ d2 h4
    have hpf : delim ∉ nftPfx := by decide
    have hback : getBack d2.cls = some cls := by rw [hd2.1]; exact back_away_base nftPfx a b cls hpf ha hb hcls
    rw [hback] at hnp
    cases hnp
    rw [hr, hl, native_class_consistent Hc cls hcls, hd2.2.1, hd2.2.2]
    simp only [if_true]
    funext k; simp only [upd_apply]; split <;> rfl
  · -- chain b: the voucher is minted, handed to `v`, burned again
    obtain ⟨hnone, hm⟩ := recv_away_mints_voucher Hc B p1 d1 h2
    simp only [hp1.1, hp1.2, hd1.1, hd1.2.1, hd1.2.2] at hnone hm
    obtain ⟨_, hbn⟩ := nftSendToken_owner _ _ id v false h3
    rw [hbn, hm]
    simp only [Bool.false_eq_true, if_false]
    funext k; simp only [upd_apply]; split
    · rename_i hk; rw [hk, hnone]
    · rfl

end roundtrip

/-- **"…and no token of it exists on the receiving side" is FALSE of the code** when the error
    acknowledgement comes from a chain the packet never named (known finding F-C06-relayedit; root
    cause C13). In both histories the last step processes an error acknowledgement and refunds the
    sender exactly (`nft_refund_exact`, `mt_refund_exact`), while the token delivered before is
    still on the destination chain. -/
theorem refund_although_delivered :
    (RelayEdit.results RelayEdit.nftHistory).getLast? = some Res.ok ∧
    (RelayEdit.nftWorld "A").apps.nft.owner ("dog".toList, "rex".toList) = some "alice" ∧
    (RelayEdit.nftWorld "C").apps.nft.owner (ibcClass id "nft/A/C/dog".toList, "rex".toList) = some "carol" ∧
    (RelayEdit.results RelayEdit.mtHistory).getLast? = some Res.ok ∧
    (RelayEdit.mtWorld "A").apps.mt.bal ("gold".toList, "bar".toList, "alice") = 9 ∧
    (RelayEdit.mtWorld "C").apps.mt.bal (ibcClass id "mt/A/C/gold".toList, "bar".toList, "carol") = 4 := by
  decide

end Tibc.C06
