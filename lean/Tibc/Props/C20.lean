import Tibc.Lemmas.Bsc
import Tibc.Routing.Rules
import Tibc.LC.Eth
/-
  C20 — State transitions are deterministic.
  PROPERTY THEOREMS ONLY.

  The model's transitions are total functions, so "same state and operation ⇒ same result" holds
  by construction.  What is proved here is the content behind the mechanisms the property names:
  at every point where the Go code ranges over a map or an unsorted collection, the modelled
  outcome does not depend on the order (or multiplicity) in which the collection is presented.
  Runtime sources of nondeterminism (Go map iteration order, clock, temporary files, memory
  addresses) are outside any Lean model; they are searched for by the record / replay stream.
-/
namespace Tibc.C20
open Tibc

/-- `any` does not depend on the order of the list -/
theorem any_perm {α : Type} (f : α → Bool) {l₁ l₂ : List α} (h : l₁.Perm l₂) : l₁.any f = l₂.any f := by
  induction h with
  | nil => rfl
  | cons x _ ih => simp [List.any_cons, ih]
  | swap x y l => simp only [List.any_cons]; cases f x <;> cases f y <;> rfl
  | trans _ _ ih1 ih2 => rw [ih1, ih2]

section bsc
open BSC

theorem insertAsc_pairwise (a : BSC.Addr) (l : List BSC.Addr) (h : l.Pairwise (· < ·)) :
    (insertAsc a l).Pairwise (· < ·) := by
  induction l with
  | nil => simp [insertAsc]
  | cons b rest ih =>
    unfold insertAsc
    rw [List.pairwise_cons] at h
    split
    · rename_i hab
      rw [List.pairwise_cons]
      refine ⟨fun x hx => ?_, List.pairwise_cons.mpr h⟩
      rcases List.mem_cons.mp hx with rfl | hx
      · exact hab
      · exact Nat.lt_trans hab (h.1 x hx)
    · split
      · exact List.pairwise_cons.mpr h
      · rename_i h1 h2
        rw [List.pairwise_cons]
        refine ⟨fun x hx => ?_, ih h.2⟩
        rcases (mem_insertAsc a x rest).mp hx with hxa | hx
        · show b < x
          rw [hxa]
          exact Nat.lt_of_le_of_ne (Nat.le_of_not_lt h1) (fun e => h2 e.symm)
        · exact h.1 x hx

theorem vset_pairwise (l : List BSC.Addr) : (vset l).Pairwise (· < ·) := by
  unfold vset
  induction l with
  | nil => simp
  | cons v rest ih => simp only [List.foldr_cons]; exact insertAsc_pairwise v _ ih

/-- **The validator set in turn order depends only on which addresses are validators** — not on
    the order or multiplicity in which the client state, the epoch header or a Go map lists them
    (`snapshot.validators()` sorts the map's keys). -/
theorem vset_ext (l₁ l₂ : List BSC.Addr) (h : ∀ a, a ∈ l₁ ↔ a ∈ l₂) : vset l₁ = vset l₂ := by
  have p1 := vset_pairwise l₁
  have p2 := vset_pairwise l₂
  have nd : ∀ l : List BSC.Addr, l.Pairwise (· < ·) → l.Nodup := fun l hl =>
    hl.imp (fun hab => Nat.ne_of_lt hab)
  have hp : (vset l₁).Perm (vset l₂) :=
    (List.perm_ext_iff_of_nodup (nd _ p1) (nd _ p2)).mpr (fun a => by rw [mem_vset, mem_vset, h a])
  exact List.Perm.eq_of_pairwise (fun a b _ _ hab hba => absurd hab (Nat.lt_asymm hba)) p1 p2 hp

/-- **Header acceptance does not depend on map iteration order**: two client states that agree
    on everything but present the validators in another order / multiplicity and the recent-signer
    table in another order accept exactly the same headers. -/
theorem bsc_accepts_order_independent (c c' : Client) (h : Hdr)
    (he : c'.epoch = c.epoch) (hl : c'.latest = c.latest)
    (hv : ∀ a, a ∈ c.validators ↔ a ∈ c'.validators) (hr : c.recents.Perm c'.recents) :
    accepts c h = accepts c' h := by
  have hvs : vset c.validators = vset c'.validators := vset_ext _ _ hv
  have hlim : limit c = limit c' := by unfold limit; rw [hvs]
  have hrec : ∀ s, recentlySigned c h.number s = recentlySigned c' h.number s := by
    intro s; unfold recentlySigned; rw [hlim]; exact any_perm _ hr
  have hin : ∀ s, inturn c s = inturn c' s := by
    intro s; unfold inturn; simp only [hvs, hl]
  unfold accepts
  have h1 : extraOk c h = extraOk c' h := by unfold extraOk; rw [he]
  have h2 : cascadingOk c h = cascadingOk c' h := by unfold cascadingOk; rw [hl]
  have h3 : BSC.sealOk c h = BSC.sealOk c' h := by
    unfold BSC.sealOk
    cases h.signer with
    | none => rfl
    | some s => simp only [hvs, hrec s, hin s]
  rw [h1, h2, h3]

end bsc

/-- **Routing decisions do not depend on the order in which the rules are stored or iterated.** -/
theorem routing_order_independent (r₁ r₂ : List (List Char)) (s d p : List Char) (h : r₁.Perm r₂) :
    Routing.authenticate (some r₁) s d p = Routing.authenticate (some r₂) s d p := by
  unfold Routing.authenticate
  exact any_perm _ h

/-- The ETH client's validity check reads chain time only through the block time it is given:
    (this is what "time taken from the block header only" means for the model: `now` is the sole
    time input of `accepts`, and headers valid at `now` stay valid at any later block time) -/
theorem eth_accepts_monotone_in_time (c : ETH.Client) (h : ETH.Hdr) (now now' : Nat) (hle : now ≤ now')
    (ha : ETH.accepts c h now = true) : ETH.accepts c h now' = true := by
  unfold ETH.accepts at *
  cases hp : ETH.parentOf c h with
  | none => simp [hp] at ha
  | some p =>
    simp only [hp, Bool.and_eq_true, decide_eq_true_eq] at ha ⊢
    obtain ⟨⟨a, b⟩, ⟨⟨⟨⟨⟨d, e⟩, f⟩, g⟩, i⟩, j⟩⟩ := ha
    exact ⟨⟨a, b⟩, ⟨⟨⟨⟨⟨by omega, e⟩, f⟩, g⟩, i⟩, j⟩⟩

/-- Non-vacuity: a permuted, duplicated validator list gives the same turn order. -/
example : BSC.vset [9, 3, 5, 3] = BSC.vset [3, 5, 9] := by decide

end Tibc.C20
