import Tibc.LC.Eth
/-
  C18 — ETH client accepts only valid children of known headers, keeps one chain.
  PROPERTY THEOREMS ONLY.
-/
namespace Tibc.C18
open Tibc Tibc.ETH

def Structural (h : Hdr) : Prop :=
  h.extraLen ≤ 32 ∧ h.gasLimit ≤ 2^63 - 1 ∧ h.gasUsed ≤ h.gasLimit ∧ h.wellFormed = true ∧
  (h.number = 0 ∨ h.difficulty ≠ 0)

/-- **Accept iff the rule holds.** The header-validity check of the ETH client passes exactly
    when: the header is not one the client already has; its parent (the header stored under the
    parent hash one height below) is stored; its timestamp is later than the parent's and not more
    than 15 seconds ahead of chain time; its gas limit stays within parent/1024 of the parent's and
    is at least 5000; its base fee is the EIP-1559 value computed from the parent; its difficulty is
    the prescribed value; its proof-of-work seal is valid; and the stateless checks pass. -/
theorem eth_accepts_iff (c : Client) (h : Hdr) (now : Nat) :
    accepts c h now = true ↔
      Structural h ∧ c.idx (h.hash, h.number) = none ∧
      ∃ p, h.number ≠ 0 ∧ c.idx (h.parent, h.number - 1) = some p ∧
        h.time ≤ now + 15 ∧ p.time < h.time ∧
        absDiff p.gasLimit h.gasLimit < p.gasLimit / 1024 ∧ 5000 ≤ h.gasLimit ∧
        h.baseFee = calcBaseFee p ∧ h.difficulty = calcDifficulty h.time p ∧ h.sealOk = true := by
  unfold accepts
  have hvb : validateBasic h = true ↔ Structural h := by
    unfold validateBasic Structural
    simp only [Bool.and_eq_true, Bool.or_eq_true, decide_eq_true_eq, beq_iff_eq, bne_iff_ne, ne_eq]
    constructor
    · rintro ⟨⟨⟨⟨a, b⟩, c'⟩, d⟩, e⟩; exact ⟨a, b, c', d, e⟩
    · rintro ⟨a, b, c', d, e⟩; exact ⟨⟨⟨⟨a, b⟩, c'⟩, d⟩, e⟩
  rw [Bool.and_eq_true, Bool.and_eq_true, hvb, Option.isNone_iff_eq_none]
  unfold parentOf
  by_cases h0 : h.number = 0
  · simp [h0]
  · have hb : (h.number == 0) = false := by simpa using h0
    simp only [hb, Bool.false_eq_true, if_false]
    cases hp : c.idx (h.parent, h.number - 1) with
    | none => simp
    | some p =>
      simp only [gasLimitOk, Bool.and_eq_true, decide_eq_true_eq, beq_iff_eq, Option.some.injEq, exists_eq_left', ne_eq,
        h0, not_false_eq_true, true_and, ge_iff_le, gt_iff_lt]
      constructor
      · rintro ⟨⟨a, b⟩, ⟨⟨⟨⟨⟨d, e⟩, f, g⟩, i⟩, j⟩, k⟩⟩; exact ⟨a, b, d, e, f, g, i, j, k⟩
      · rintro ⟨a, b, d, e, f, g, i, j, k⟩; exact ⟨⟨a, b⟩, ⟨⟨⟨⟨⟨d, e⟩, f, g⟩, i⟩, j⟩, k⟩⟩

/-- a refused update returns no state: nothing changes (`Option.none`); in particular a header the
    client already has, or one whose parent it has not stored, is refused -/
theorem eth_known_header_refused (c : Client) (h hd : Hdr) (now : Nat) (hk : c.idx (h.hash, h.number) = some hd) :
    checkHeaderAndUpdate c h now = none := by
  have : accepts c h now = false := by
    cases ha : accepts c h now with
    | false => rfl
    | true => rw [((eth_accepts_iff c h now).mp ha).2.1] at hk; cases hk
  unfold checkHeaderAndUpdate
  simp [this]

theorem eth_unknown_parent_refused (c : Client) (h : Hdr) (now : Nat) (hk : c.idx (h.parent, h.number - 1) = none) :
    checkHeaderAndUpdate c h now = none := by
  have : accepts c h now = false := by
    cases ha : accepts c h now with
    | false => rfl
    | true =>
      obtain ⟨_, _, p, _, hp, _⟩ := (eth_accepts_iff c h now).mp ha
      rw [hk] at hp; cases hp
  unfold checkHeaderAndUpdate
  simp [this]

/-- only headers passing the validity check are ever accepted -/
theorem eth_accepted_valid (c c' : Client) (h : Hdr) (now : Nat) (hok : checkHeaderAndUpdate c h now = some c') :
    accepts c h now = true := by
  unfold checkHeaderAndUpdate at hok
  split at hok
  · cases hok
  · split at hok
    · cases hok
    · rename_i ha; simpa using ha

/-- consensus states written by the main-chain rewrite are those of stored headers at that height -/
theorem rewrite_latest (c c' : Client) (l : List Hdr) (n : Nat) (h : rewrite c l n = some c') : c'.latest = c.latest ∧ c'.idx = c.idx := by
  induction l generalizing c n with
  | nil => simp only [rewrite, Option.some.injEq] at h; subst h; exact ⟨rfl, rfl⟩
  | cons x rest ih =>
    simp only [rewrite] at h
    cases hx : c.idx (x.hash, n) with
    | none => rw [hx] at h; cases h
    | some hd =>
      rw [hx] at h
      simp only at h
      have := ih _ _ h
      exact ⟨this.1, this.2⟩

/-- **Effect of acceptance.** The accepted header becomes the latest header, the consensus state
    exposed for its height is its own (time, number, root), and it is stored in the header index. -/
theorem eth_accept_effect (c c' : Client) (h : Hdr) (now : Nat) (hok : checkHeaderAndUpdate c h now = some c') :
    c'.latest = h ∧ c'.cons h.number = some (consOf h) := by
  unfold checkHeaderAndUpdate at hok
  split at hok
  · cases hok
  · split at hok
    · cases hok
    · cases hp : prune c now with
      | none => rw [hp] at hok; cases hok
      | some c1 =>
        rw [hp] at hok
        simp only at hok
        split at hok
        · cases hok
        · simp only [Option.some.injEq] at hok
          subst hok
          exact ⟨rfl, by simp [upd]⟩

/-! ### the EIP-1559 / difficulty calculators -/

theorem baseFee_at_target (p : Hdr) (h : p.gasUsed = p.gasLimit / 2) : calcBaseFee p = p.baseFee := by
  unfold calcBaseFee; simp [h]

theorem baseFee_above_target (p : Hdr) (h : p.gasUsed > p.gasLimit / 2) : calcBaseFee p > p.baseFee := by
  unfold calcBaseFee
  have h1 : ¬ (p.gasUsed = p.gasLimit / 2) := by omega
  simp only [beq_iff_eq, h1, if_false, h, if_true]
  have : max (p.baseFee * (p.gasUsed - p.gasLimit / 2) / (p.gasLimit / 2) / 8) 1 ≥ 1 := Nat.le_max_right _ _
  omega

theorem baseFee_below_target (p : Hdr) (h : p.gasUsed < p.gasLimit / 2) : calcBaseFee p ≤ p.baseFee := by
  unfold calcBaseFee
  have h1 : ¬ (p.gasUsed = p.gasLimit / 2) := by omega
  have h2 : ¬ (p.gasUsed > p.gasLimit / 2) := by omega
  simp only [beq_iff_eq, h1, if_false, h2]
  exact Nat.sub_le _ _

theorem difficulty_at_least_minimum (t : Nat) (p : Hdr) : calcDifficulty t p ≥ 131072 := by
  unfold calcDifficulty
  simp only
  generalize (if (if p.number ≥ bombDelayFromParent then p.number - bombDelayFromParent else 0) / 100000 > 1 then
    2 ^ ((if p.number ≥ bombDelayFromParent then p.number - bombDelayFromParent else 0) / 100000 - 2) else 0 : Nat) = bomb
  split <;> omega

/-! ### one chain: the root-index weakness (known finding F-C18b), evaluated on the model -/

def mk (n : Nat) (hash parent root : String) (time : Nat) : Hdr :=
  { number := n, hash := hash, parent := parent, time := time, root := root, gasLimit := 30000000, gasUsed := 15000000,
    baseFee := 100, difficulty := 131072, uncles := false, extraLen := 0, wellFormed := true, sealOk := true }

def G : Hdr := mk 100 "G" "x" "rG" 1000
def c0 : Client :=
  { latest := G, period := 100000, heights := [100],
    idx := fun k => if k == ("G", 100) then some G else none,
    rootMain := fun k => if k == ("rG", 100) then some ("G", 100) else none,
    cons := fun n => if n == 100 then some (consOf G) else none }

/-- apply updates whose validity is not at stake here (the rewrite logic is) -/
def force (c : Client) (h : Hdr) : Option Client :=
  let c2 := index c h
  let c3 := if c.latest.hash == h.parent then some c2 else restrict c2 c.latest h
  c3.map (fun c3 => { c3 with latest := h, cons := upd c3.cons h.number (some (consOf h)), heights := insertHeight h.number c3.heights })

def scenario : Option Client := do
  let c ← force c0 (mk 101 "A1" "G" "rA1" 1001)
  let c ← force c (mk 102 "A2" "A1" "R" 1002)
  let c ← force c (mk 103 "A3" "A2" "rA3" 1003)
  let c ← force c (mk 101 "B1" "G" "rB1" 1011)
  let c ← force c (mk 102 "B2" "B1" "R" 1012)      -- the same state root as A2
  let c ← force c (mk 104 "A4" "A3" "rA4" 1004)
  force c (mk 102 "N2" "B1" "rN2" 1022)

/-- after the scripted history the latest header is N2 (ancestors B1, G) but the consensus state
    exposed for height 101 is A1's: the one-chain clause fails when two stored headers of one
    height share a state root. Replayed on the real client by the eth stream (F-C18b). -/
theorem same_root_breaks_one_chain :
    (scenario.map (fun c => (c.latest.hash, (c.cons 101).map (·.root)))) = some ("N2", some "rA1") := by
  decide

/-- with distinct roots the same history ends on one chain -/
def scenarioDistinct : Option Client := do
  let c ← force c0 (mk 101 "A1" "G" "rA1" 1001)
  let c ← force c (mk 102 "A2" "A1" "rA2" 1002)
  let c ← force c (mk 103 "A3" "A2" "rA3" 1003)
  let c ← force c (mk 101 "B1" "G" "rB1" 1011)
  let c ← force c (mk 102 "B2" "B1" "rB2" 1012)
  let c ← force c (mk 104 "A4" "A3" "rA4" 1004)
  force c (mk 102 "N2" "B1" "rN2" 1022)

example : (scenarioDistinct.map (fun c => (c.latest.hash, (c.cons 101).map (·.root), (c.cons 102).map (·.root)))) =
    some ("N2", some "rB1", some "rN2") := by decide

/-- Non-vacuity of the acceptance rule: a valid child of `G` is accepted. -/
def child : Hdr := { mk 101 "A1" "G" "rA1" 1010 with difficulty := calcDifficulty 1010 G, baseFee := calcBaseFee G }
example : (checkHeaderAndUpdate c0 child 1005).isSome = true := by decide

end Tibc.C18
