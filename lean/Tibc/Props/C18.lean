import Tibc.LC.Eth
namespace Tibc.C18
open Tibc Tibc.ETH
theorem placeholder : True := trivial
end Tibc.C18
