import Tibc.Lemmas.EthChain
import Tibc.Lemmas.EthPrune
/-
  C18 — ETH client accepts only valid children of known headers, keeps one chain.
  PROPERTY THEOREMS ONLY.
-/
namespace Tibc.C18
open Tibc Tibc.ETH

def Structural (h : Hdr) : Prop :=
  h.extraLen ≤ 32 ∧ h.gasLimit ≤ 2^63 - 1 ∧ h.gasUsed ≤ h.gasLimit ∧ h.wellFormed = true ∧
  (h.number = 0 ∨ h.difficulty ≠ 0)

/-- **Accept iff the rule holds.** The header-validity check of the ETH client passes exactly
    when: the header is not one the client already has; its parent (the header stored under the
    parent hash one height below) is stored; its timestamp is later than the parent's and not more
    than 15 seconds ahead of chain time; its gas limit stays within parent/1024 of the parent's and
    is at least 5000; its base fee is the EIP-1559 value computed from the parent; its difficulty is
    the prescribed value; its proof-of-work seal is valid; and the stateless checks pass. -/
theorem eth_accepts_iff (c : Client) (h : Hdr) (now : Nat) :
    accepts c h now = true ↔
      Structural h ∧ c.idx (h.hash, h.number) = none ∧
      ∃ p, h.number ≠ 0 ∧ c.idx (h.parent, h.number - 1) = some p ∧
        h.time ≤ now + 15 ∧ p.time < h.time ∧
        absDiff p.gasLimit h.gasLimit < p.gasLimit / 1024 ∧ 5000 ≤ h.gasLimit ∧
        h.baseFee = calcBaseFee p ∧ h.difficulty = calcDifficulty h.time p ∧ h.sealOk = true := by
  unfold accepts
  have hvb : validateBasic h = true ↔ Structural h := by
    unfold validateBasic Structural
    simp only [Bool.and_eq_true, Bool.or_eq_true, decide_eq_true_eq, beq_iff_eq, bne_iff_ne, ne_eq]
    constructor
    · rintro ⟨⟨⟨⟨a, b⟩, c'⟩, d⟩, e⟩; exact ⟨a, b, c', d, e⟩
    · rintro ⟨a, b, c', d, e⟩; exact ⟨⟨⟨⟨a, b⟩, c'⟩, d⟩, e⟩
  rw [Bool.and_eq_true, Bool.and_eq_true, hvb, Option.isNone_iff_eq_none]
  unfold parentOf
  by_cases h0 : h.number = 0
  · simp [h0]
  · have hb : (h.number == 0) = false := by simpa using h0
    simp only [hb, Bool.false_eq_true, if_false]
    cases hp : c.idx (h.parent, h.number - 1) with
    | none => simp
    | some p =>
      simp only [gasLimitOk, Bool.and_eq_true, decide_eq_true_eq, beq_iff_eq, Option.some.injEq, exists_eq_left', ne_eq,
        h0, not_false_eq_true, true_and, ge_iff_le, gt_iff_lt]
      constructor
      · rintro ⟨⟨a, b⟩, ⟨⟨⟨⟨⟨d, e⟩, f, g⟩, i⟩, j⟩, k⟩⟩; exact ⟨a, b, d, e, f, g, i, j, k⟩
      · rintro ⟨a, b, d, e, f, g, i, j, k⟩; exact ⟨⟨a, b⟩, ⟨⟨⟨⟨⟨d, e⟩, f, g⟩, i⟩, j⟩, k⟩⟩

/-- a refused update returns no state: nothing changes (`Option.none`); in particular a header the
    client already has, or one whose parent it has not stored, is refused -/
theorem eth_known_header_refused (c : Client) (h hd : Hdr) (now : Nat) (hk : c.idx (h.hash, h.number) = some hd) :
    checkHeaderAndUpdate c h now = none := by
  have : accepts c h now = false := by
    cases ha : accepts c h now with
    | false => rfl
    | true => rw [((eth_accepts_iff c h now).mp ha).2.1] at hk; cases hk
  unfold checkHeaderAndUpdate
  simp [this]

theorem eth_unknown_parent_refused (c : Client) (h : Hdr) (now : Nat) (hk : c.idx (h.parent, h.number - 1) = none) :
    checkHeaderAndUpdate c h now = none := by
  have : accepts c h now = false := by
    cases ha : accepts c h now with
    | false => rfl
    | true =>
      obtain ⟨_, _, p, _, hp, _⟩ := (eth_accepts_iff c h now).mp ha
      rw [hk] at hp; cases hp
  unfold checkHeaderAndUpdate
  simp [this]

/-- only headers passing the validity check are ever accepted -/
theorem eth_accepted_valid (c c' : Client) (h : Hdr) (now : Nat) (hok : checkHeaderAndUpdate c h now = some c') :
    accepts c h now = true := by
  unfold checkHeaderAndUpdate at hok
  split at hok
  · cases hok
  · split at hok
    · cases hok
    · rename_i ha; simpa using ha

/-- consensus states written by the main-chain rewrite are those of stored headers at that height -/
theorem rewrite_latest (c c' : Client) (l : List Hdr) (n : Nat) (h : rewrite c l n = some c') : c'.latest = c.latest ∧ c'.idx = c.idx := by
  induction l generalizing c n with
  | nil => simp only [rewrite, Option.some.injEq] at h; subst h; exact ⟨rfl, rfl⟩
  | cons x rest ih =>
    simp only [rewrite] at h
    cases hx : c.idx (x.hash, n) with
    | none => rw [hx] at h; cases h
    | some hd =>
      rw [hx] at h
      simp only at h
      have := ih _ _ h
      exact ⟨this.1, this.2⟩

/-- **Effect of acceptance.** The accepted header becomes the latest header, the consensus state
    exposed for its height is its own (time, number, root), and it is stored in the header index. -/
theorem eth_accept_effect (c c' : Client) (h : Hdr) (now : Nat) (hok : checkHeaderAndUpdate c h now = some c') :
    c'.latest = h ∧ c'.cons h.number = some (consOf h) := by
  unfold checkHeaderAndUpdate at hok
  split at hok
  · cases hok
  · split at hok
    · cases hok
    · cases hp : prune c now with
      | none => rw [hp] at hok; cases hok
      | some c1 =>
        rw [hp] at hok
        simp only at hok
        split at hok
        · cases hok
        · simp only [Option.some.injEq] at hok
          subst hok
          exact ⟨rfl, by simp [upd]⟩

/-! ### the EIP-1559 / difficulty calculators -/

theorem baseFee_at_target (p : Hdr) (h : p.gasUsed = p.gasLimit / 2) : calcBaseFee p = p.baseFee := by
  unfold calcBaseFee; simp [h]

theorem baseFee_above_target (p : Hdr) (h : p.gasUsed > p.gasLimit / 2) : calcBaseFee p > p.baseFee := by
  unfold calcBaseFee
  have h1 : ¬ (p.gasUsed = p.gasLimit / 2) := by omega
  simp only [beq_iff_eq, h1, if_false, h, if_true]
  have : max (p.baseFee * (p.gasUsed - p.gasLimit / 2) / (p.gasLimit / 2) / 8) 1 ≥ 1 := Nat.le_max_right _ _
  omega

theorem baseFee_below_target (p : Hdr) (h : p.gasUsed < p.gasLimit / 2) : calcBaseFee p ≤ p.baseFee := by
  unfold calcBaseFee
  have h1 : ¬ (p.gasUsed = p.gasLimit / 2) := by omega
  have h2 : ¬ (p.gasUsed > p.gasLimit / 2) := by omega
  simp only [beq_iff_eq, h1, if_false, h2]
  exact Nat.sub_le _ _

theorem difficulty_at_least_minimum (t : Nat) (p : Hdr) : calcDifficulty t p ≥ 131072 := by
  unfold calcDifficulty
  simp only
  generalize (if (if p.number ≥ bombDelayFromParent then p.number - bombDelayFromParent else 0) / 100000 > 1 then
    2 ^ ((if p.number ≥ bombDelayFromParent then p.number - bombDelayFromParent else 0) / 100000 - 2) else 0 : Nat) = bomb
  split <;> omega

/-! ### one chain -/

/-- the client as `CreateClient` / `Initialize` leave it: the trusted header indexed, its consensus state exposed -/
def created (g : Hdr) (period : Nat) : Client :=
  { latest := g, period := period, heights := [g.number],
    idx := fun k => if k = (g.hash, g.number) then some g else none,
    rootMain := fun k => if k = (g.root, g.number) then some (g.hash, g.number) else none,
    cons := fun n => if n = g.number then some (consOf g) else none }

theorem created_inv (g : Hdr) (period : Nat) : Inv (created g period) g := by
  have hidx : ∀ k n x, (created g period).idx (k, n) = some x → x = g ∧ k = g.hash ∧ n = g.number := by
    intro k n x hx
    simp only [created] at hx
    split at hx
    · rename_i heq
      simp only [Prod.mk.injEq] at heq
      exact ⟨by simpa using hx.symm, heq.1, heq.2⟩
    · cases hx
  refine ⟨?_, ?_, ?_, ?_, ?_, ?_⟩
  · intro k n x hx
    obtain ⟨rfl, h2, h3⟩ := hidx k n x hx
    exact ⟨h2.symm, h3.symm⟩
  · simp [Stored, created]
  · intro k n x hx
    obtain ⟨rfl, _, _⟩ := hidx k n x hx
    simp [created]
  · intro k n x k' n' y hx hy _
    obtain ⟨rfl, _, _⟩ := hidx k n x hx
    obtain ⟨rfl, _, _⟩ := hidx k' n' y hy
    rfl
  · intro k n x hx
    obtain ⟨rfl, _, _⟩ := hidx k n x hx
    exact Anc.refl _
  · intro a ha
    cases ha with
    | refl => simp [created]
    | step hp _ =>
      exfalso
      simp only [parentOf, created] at hp
      by_cases h0 : g.number = 0
      · simp [h0] at hp
      · have hb : (g.number == 0) = false := by simpa using h0
        have hne : ¬ ((g.parent, g.number - 1) = (g.hash, g.number)) := by
          intro heq
          simp only [Prod.mk.injEq] at heq
          omega
        simp [hb, hne] at hp

/-- after validity check and (idle) pruning, `CheckHeaderAndUpdateState` is `applyHeader` -/
theorem check_eq_apply (c : Client) (h : Hdr) (now : Nat) (hc : (c.cons c.latest.number).isSome = true)
    (ha : accepts c h now = true) (hp : prune c now = some c) :
    checkHeaderAndUpdate c h now = applyHeader c h := by
  unfold checkHeaderAndUpdate applyHeader
  have : (c.cons c.latest.number).isNone = false := by
    cases hcc : c.cons c.latest.number with
    | none => rw [hcc] at hc; cases hc
    | some _ => rfl
  simp only [this, Bool.false_eq_true, if_false, ha, Bool.not_true, hp]
  cases (if (c.latest.hash == h.parent) = true then some (index c h) else restrict (index c h) c.latest h) <;> rfl

/-- **One accepted header keeps one chain** (a step in which no consensus state is pruned; the
    header's hash, and its state root among the stored headers of its height, are new — hash
    collision freedom, and see F-C18b for equal roots): the update succeeds, and afterwards the
    consensus states exposed for all heights up to the new latest header are its ancestors'. -/
theorem one_chain_step (c : Client) (b h : Hdr) (now : Nat) (hi : Inv c b)
    (ha : accepts c h now = true) (hf : Fresh c h) (hp : prune c now = some c) :
    ∃ c', checkHeaderAndUpdate c h now = some c' ∧ Inv c' b ∧ c'.latest = h := by
  have hc : (c.cons c.latest.number).isSome = true := by rw [hi.main c.latest (Anc.refl _)]; rfl
  rw [check_eq_apply c h now hc ha hp]
  obtain ⟨_, _, p, h0, hpp, _⟩ := (eth_accepts_iff c h now).mp ha
  have hpar : parentOf c h = some p := by
    unfold parentOf
    have : (h.number == 0) = false := by simpa using h0
    simp [this, hpp]
  exact applyHeader_inv hi hf hpar

/-- submit a list of (header, block time) pairs; refused headers leave the client unchanged -/
def submitAll (c : Client) : List (Hdr × Nat) → Client
  | [] => c
  | (h, now) :: rest => submitAll ((checkHeaderAndUpdate c h now).getD c) rest

/-- along the history no consensus state gets pruned, and every accepted header is fresh -/
def Admissible : Client → List (Hdr × Nat) → Prop
  | _, [] => True
  | c, (h, now) :: rest =>
    prune c now = some c ∧ (accepts c h now = true → Fresh c h) ∧ Admissible ((checkHeaderAndUpdate c h now).getD c) rest

/-- **At all times one chain.** From the client's creation, over every history of submitted
    headers — valid or not, extending the latest header or any stored header, in any order, forks
    of any depth — the consensus states exposed for heights up to the latest header are exactly
    those of that header's ancestors (hence one parent-linked chain ending at it). -/
theorem one_chain (g : Hdr) (period : Nat) (steps : List (Hdr × Nat))
    (hadm : Admissible (created g period) steps) :
    let c := submitAll (created g period) steps
    ∀ a, Anc c c.latest a → c.cons a.number = some (consOf a) := by
  have gen : ∀ (steps : List (Hdr × Nat)) (c : Client), Inv c g → Admissible c steps → Inv (submitAll c steps) g := by
    intro steps
    induction steps with
    | nil => intro c hi _; exact hi
    | cons s rest ih =>
      intro c hi hadm
      obtain ⟨h, now⟩ := s
      simp only [Admissible] at hadm
      simp only [submitAll]
      apply ih _ _ hadm.2.2
      cases hacc : accepts c h now with
      | true =>
        obtain ⟨c', hc', hi', _⟩ := one_chain_step c g h now hi hacc (hadm.2.1 hacc) hadm.1
        rw [hc']; exact hi'
      | false =>
        have : checkHeaderAndUpdate c h now = none := by
          unfold checkHeaderAndUpdate
          simp [hacc]
        rw [this]; exact hi
  exact (gen steps _ (created_inv g period) hadm).main

/-! ### one chain: the root-index weakness (known finding F-C18b), evaluated on the model -/

def mk (n : Nat) (hash parent root : String) (time : Nat) : Hdr :=
  { number := n, hash := hash, parent := parent, time := time, root := root, gasLimit := 30000000, gasUsed := 15000000,
    baseFee := 100, difficulty := 131072, uncles := false, extraLen := 0, wellFormed := true, sealOk := true }

def G : Hdr := mk 100 "G" "x" "rG" 1000
def c0 : Client :=
  { latest := G, period := 100000, heights := [100],
    idx := fun k => if k == ("G", 100) then some G else none,
    rootMain := fun k => if k == ("rG", 100) then some ("G", 100) else none,
    cons := fun n => if n == 100 then some (consOf G) else none }

/-- apply updates whose validity is not at stake here (the rewrite logic is) -/
def force (c : Client) (h : Hdr) : Option Client := applyHeader c h

def scenario : Option Client := do
  let c ← force c0 (mk 101 "A1" "G" "rA1" 1001)
  let c ← force c (mk 102 "A2" "A1" "R" 1002)
  let c ← force c (mk 103 "A3" "A2" "rA3" 1003)
  let c ← force c (mk 101 "B1" "G" "rB1" 1011)
  let c ← force c (mk 102 "B2" "B1" "R" 1012)      -- the same state root as A2
  let c ← force c (mk 104 "A4" "A3" "rA4" 1004)
  force c (mk 102 "N2" "B1" "rN2" 1022)

/-- after the scripted history the latest header is N2 (ancestors B1, G) but the consensus state
    exposed for height 101 is A1's: the one-chain clause fails when two stored headers of one
    height share a state root. Replayed on the real client by the eth stream (F-C18b). -/
theorem same_root_breaks_one_chain :
    (scenario.map (fun c => (c.latest.hash, (c.cons 101).map (·.root)))) = some ("N2", some "rA1") := by
  decide

/-- with distinct roots the same history ends on one chain -/
def scenarioDistinct : Option Client := do
  let c ← force c0 (mk 101 "A1" "G" "rA1" 1001)
  let c ← force c (mk 102 "A2" "A1" "rA2" 1002)
  let c ← force c (mk 103 "A3" "A2" "rA3" 1003)
  let c ← force c (mk 101 "B1" "G" "rB1" 1011)
  let c ← force c (mk 102 "B2" "B1" "rB2" 1012)
  let c ← force c (mk 104 "A4" "A3" "rA4" 1004)
  force c (mk 102 "N2" "B1" "rN2" 1022)

example : (scenarioDistinct.map (fun c => (c.latest.hash, (c.cons 101).map (·.root), (c.cons 102).map (·.root)))) =
    some ("N2", some "rB1", some "rN2") := by decide

/-- Non-vacuity of the acceptance rule: a valid child of `G` is accepted. -/
def child : Hdr := { mk 101 "A1" "G" "rA1" 1010 with difficulty := calcDifficulty 1010 G, baseFee := calcBaseFee G }
example : (checkHeaderAndUpdate c0 child 1005).isSome = true := by decide

/-! ### pruning -/

/-- **Pruning never exposes a foreign consensus state.** When an update of an Active client prunes
    the earliest visible consensus state (older than the trusting period), the entries deleted
    are those of the latest header's ancestor at that height, the latest header stays stored, and
    every consensus state still exposed for an ancestor's height is that ancestor's. (Single
    step: `one_chain` composes steps without pruning; this theorem covers the pruning part of a
    step. The two are not yet composed over whole histories — after a prune the trusted header the
    invariant of `one_chain` is anchored at may be gone.) -/
theorem pruning_keeps_one_chain {c c' : Client} {b : Hdr} {now : Nat} (hi : Inv c b) (hrh : RootHeights c)
    (hact : active c now = true) (hp : prune c now = some c') :
    c'.latest = c.latest ∧ Stored c' c'.latest ∧
    ∀ a, Anc c' c'.latest a → c'.cons a.number = some (consOf a) := by
  obtain ⟨_, _, _, hm, hl, hlat, _⟩ := prune_keeps_main hi.keys hi.roots hrh hi.main hi.latest hact hp
  exact ⟨hlat, hl, hm⟩

/-- the hypotheses are met by a freshly created client … -/
theorem created_rootHeights (g : Hdr) (period : Nat) : RootHeights (created g period) := by
  intro r n key hk
  simp only [created] at hk
  split at hk
  · rename_i heq
    injection hk with hk
    injection heq with _ h2
    rw [← hk, h2]
  · cases hk

/-- … and pruning really happens in the model: with a trusting period of 10 s, submitting A2 at
    time 1020 deletes the consensus state of the creation height (expired at 1011) -/
def prunedOnce : Option Client := do
  let c ← force c0 (mk 101 "A1" "G" "rA1" 1001)
  prune { c with period := 10 } 1020

example : (prunedOnce.map (fun (c : Client) => ((c.cons 100).isSome, (c.cons 101).isSome))) = some (false, true) := by
  decide

end Tibc.C18
