import Tibc.Lemmas.Msg
import Tibc.World
/-
  C01 — Inbound packets are authentic: accepted only if the counterparty committed them.
  PROPERTY THEOREMS ONLY (helper lemmas live in `Tibc/Lemmas`).
-/
namespace Tibc.C01
open Tibc Core

variable (H : Data → Digest) (Hc : Str → Str)

/-- The state of a chain changed by `RecvPacket` (receipt recorded, packet handed on or forwarded)
    only if all pre-write checks passed; in particular the chain the packet must be proven from
    has, in the state its client recorded at the proof height, the commitment `H data` under
    exactly this packet's `(source, destination, sequence)`, and the proof bytes are that chain's
    genuine proof for exactly that key at exactly that height. -/
theorem recv_writes_only_after_verification (s : Core) (p : Packet) (π : Proof) (h : Nat)
    (hch : (recvPacket H s p π h).1 ≠ s ∨ (recvPacket H s p π h).2 = .ok) :
    RecvOk H s p π h := by
  rcases recvPacket_cases H s p π h with ⟨hok, _⟩ | ⟨_, e, _, he⟩
  · exact hok
  · rcases hch with h1 | h1
    · rw [he] at h1; exact absurd rfl h1
    · rw [he] at h1; cases h1

/-- Message level: a successful `MsgRecvPacket` implies the same. -/
theorem recv_accepted_committed (s : State) (p : Packet) (π : Proof) (h : Nat) (t : String)
    (hok : (deliver H Hc s (.recvPacket p π h t)).2 = .ok) :
    RecvOk H s.core p π h :=
  deliver_recv_ok H Hc s p π h t hok

/-- A rejected receive changes nothing on the chain (and no other chain is touched at all). -/
theorem recv_rejected_unchanged (w : World) (c : Chain) (p : Packet) (π : Proof) (h : Nat) (t : String)
    (e : Err) (herr : (step H Hc w (.tx c (.recvPacket p π h t))).2 = .err e) :
    (step H Hc w (.tx c (.recvPacket p π h t))).1 = w := by
  simp only [step] at herr ⊢
  have := deliver_err_unchanged H Hc (w c) (.recvPacket p π h t) e herr
  rw [this]
  funext q
  simp [setChain, upd_apply]
  intro hq; rw [hq]

/-- Non-vacuity: a concrete world in which a receive is accepted. -/
def exH : Data → Digest := fun d => match d with | .raw s => s | _ => ""
def exPacket : Packet := { seq := 1, src := "A", dst := "B", relay := "", port := "tibcmock", data := .raw "aa" }
def exOps : List Op :=
  [.createClient "A" "B" 5 100 1000, .createClient "B" "A" 5 100 1000,
   .ksend "A" exPacket, .update "B" "A" 9 110]
def exWorld : World := run exH id World.init exOps

example : (step exH id exWorld (.tx "B" (.recvPacket exPacket (.honest "A" 9 (.commit exPacket.key)) 9 ""))).2 = .ok := by
  decide

end Tibc.C01
