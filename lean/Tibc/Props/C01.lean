import Tibc.Lemmas.Origin
import Tibc.Lemmas.HostKeys
/-
  C01 — Inbound packets are authentic: accepted only if the counterparty committed them.
  PROPERTY THEOREMS ONLY (helper lemmas live in `Tibc/Lemmas`).
-/
namespace Tibc.C01
open Tibc Core

variable (H : Data → Digest) (Hc : Str → Str)

/-- The state of a chain changed by `RecvPacket` (receipt recorded, packet handed on or forwarded)
    only if all pre-write checks passed; in particular the chain the packet must be proven from
    has, in the state its client recorded at the proof height, the commitment `H data` under
    exactly this packet's `(source, destination, sequence)`, and the proof bytes are that chain's
    genuine proof for exactly that key at exactly that height. -/
theorem recv_writes_only_after_verification (s : Core) (p : Packet) (π : Proof) (h : Nat)
    (hch : (recvPacket H s p π h).1 ≠ s ∨ (recvPacket H s p π h).2 = .ok) :
    RecvOk H s p π h := by
  rcases recvPacket_cases H s p π h with ⟨hok, _⟩ | ⟨_, e, _, he⟩
  · exact hok
  · rcases hch with h1 | h1
    · rw [he] at h1; exact absurd rfl h1
    · rw [he] at h1; cases h1

/-- Message level: a successful `MsgRecvPacket` implies the same. -/
theorem recv_accepted_committed (s : State) (p : Packet) (π : Proof) (h : Nat) (t : String)
    (hok : (deliver H Hc s (.recvPacket p π h t)).2 = .ok) :
    RecvOk H s.core p π h :=
  deliver_recv_ok H Hc s p π h t hok

/-- A rejected receive changes nothing on the chain (and no other chain is touched at all). -/
theorem recv_rejected_unchanged (w : World) (c : Chain) (p : Packet) (π : Proof) (h : Nat) (t : String)
    (e : Err) (herr : (step H Hc w (.tx c (.recvPacket p π h t))).2 = .err e) :
    (step H Hc w (.tx c (.recvPacket p π h t))).1 = w := by
  simp only [step] at herr ⊢
  have := deliver_err_unchanged H Hc (w c) (.recvPacket p π h t) e herr
  rw [this]
  funext q
  simp [setChain, upd_apply]
  intro hq; rw [hq]

/-! ### end to end: an accepted packet was really sent by its source chain -/

/-- one operation keeps the origin invariant -/
theorem step_originInv (w : World) (op : Op) (hi : OriginInv H w) : OriginInv H (step H Hc w op).1 := by
  have hsent : ∀ x, ∃ l, ((step H Hc w op).1 x).core.sent = (w x).core.sent ++ l :=
    fun x => (step_grow H Hc w op x).sent
  have hco := step_commitOrigin H Hc w op
  refine ⟨fun x => (step_grow H Hc w op x).name.trans (hi.name x), ?_, ?_⟩
  · intro x k d hk
    by_cases hx : x = op.chain
    · subst hx
      rcases hco k d hk with h1 | ⟨hsrc, data, hd, hm⟩ | ⟨q, cl, hh, sn, hc, hs, hkk⟩
      · exact wasSent_mono H hsent (hi.store _ k d h1)
      · refine ⟨data, hd, ?_⟩
        have : k.src = op.chain := by rw [hsrc]; exact hi.name _
        rw [this]; exact hm
      · exact wasSent_mono H hsent (hi.snaps _ q cl hh sn hc hs k d hkk)
    · rw [step_other H Hc w op x hx] at hk
      exact wasSent_mono H hsent (hi.store x k d hk)
  · intro x q cl hh sn hc hs k d hk
    by_cases hx : x = op.chain
    · subst hx
      rcases step_snaps H Hc w op q cl hh sn hc hs with ⟨cl0, hc0, hs0⟩ | ⟨q', hq'⟩
      · exact wasSent_mono H hsent (hi.snaps _ q cl0 hh sn hc0 hs0 k d hk)
      · rw [hq'] at hk
        exact wasSent_mono H hsent (hi.store q' k d hk)
    · rw [step_other H Hc w op x hx] at hc
      exact wasSent_mono H hsent (hi.snaps x q cl hh sn hc hs k d hk)

theorem run_originInv (ops : List Op) : OriginInv H (run H Hc World.init ops) := by
  suffices h : ∀ w, OriginInv H w → OriginInv H (run H Hc w ops) by
    apply h
    refine ⟨fun _ => rfl, fun x k d hk => ?_, fun x q cl hh sn hc _ => ?_⟩
    · simp [World.init, State.init, Core.init, PStore.empty] at hk
    · simp [World.init, State.init, Core.init] at hc
  induction ops with
  | nil => intro w hw; exact hw
  | cons op ops ih => intro w hw; simp only [run, List.foldl_cons]; exact ih _ (step_originInv H Hc w op hw)

/-- **End to end.** In every history of operations on any number of chains (light clients record,
    at every update, the real state of the chain they track — the ideal boundary justified by
    C07 / C08 / C17 / C18), whenever a chain accepts an inbound packet — directly from the source or
    through a relay chain — the application of the packet's source chain really sent a packet under
    exactly that `(source, destination, sequence)` whose data has the same commitment hash
    (`H data' = H data`: the same data unless the hash collides). -/
theorem recv_accepted_was_sent (ops : List Op) (c : Chain) (p : Packet) (π : Proof) (h : Nat) (t : String)
    (hok : (deliver H Hc ((run H Hc World.init ops) c) (.recvPacket p π h t)).2 = .ok) :
    ∃ data', H data' = H p.data ∧ (p.key, data') ∈ ((run H Hc World.init ops) p.src).core.sent := by
  have hi := run_originInv H Hc ops
  obtain ⟨_, _, cl, sn, hcl, _, _, hcons, _, hsn⟩ := recv_accepted_committed H Hc _ p π h t hok
  obtain ⟨data', hd, hm⟩ := hi.snaps c _ cl h sn hcl hcons p.key _ hsn
  exact ⟨data', hd.symm, hm⟩

/-- Non-vacuity: a concrete world in which a receive is accepted. -/
def exH : Data → Digest := fun d => match d with | .raw s => s | _ => ""
def exPacket : Packet := { seq := 1, src := "A", dst := "B", relay := "", port := "tibcmock", data := .raw "aa" }
def exOps : List Op :=
  [.createClient "A" "B" 5 100 1000, .createClient "B" "A" 5 100 1000,
   .ksend "A" exPacket, .update "B" "A" 9 110]
def exWorld : World := run exH id World.init exOps

example : (step exH id exWorld (.tx "B" (.recvPacket exPacket (.honest "A" 9 (.commit exPacket.key)) 9 ""))).2 = .ok := by
  decide

/-- **Store keys of commitments.** The model keeps commitments in a map indexed by
    `(source, destination, sequence)`; in the code they live in one byte-keyed store. For chain
    names without `/` (all that `ValidateBasic` admits) the key builder is injective, so two
    packets share a commitment slot only if they agree on all three — and a commitment key is
    never the key of a receipt, an acknowledgement, a clean point, a highest-acknowledged or a
    next-send counter. (Builders: `Host/Keys`, tied to `24-host/keys.go` by `Expect/Keys` and the
    `keys` stream.) -/
theorem commitment_key_injective {src src' dst dst' : Str} {n n' : Nat}
    (hs : '/' ∉ src) (hd : '/' ∉ dst) (hs' : '/' ∉ src') (hd' : '/' ∉ dst')
    (h : Host.packetCommitmentPath src dst n = Host.packetCommitmentPath src' dst' n') :
    src = src' ∧ dst = dst' ∧ n = n' :=
  (Host.seqPath_injective (by decide) hs hd (by decide) hs' hd' h).2

theorem commitment_key_family_disjoint {src src' dst dst' : Str} {n n' : Nat}
    (hs : '/' ∉ src) (hd : '/' ∉ dst) (hs' : '/' ∉ src') (hd' : '/' ∉ dst') :
    Host.packetCommitmentPath src dst n ≠ Host.packetReceiptPath src' dst' n' ∧
    Host.packetCommitmentPath src dst n ≠ Host.packetAcknowledgementPath src' dst' n' ∧
    Host.packetCommitmentPath src dst n ≠ Host.cleanPacketCommitmentPath src' dst' ∧
    Host.packetCommitmentPath src dst n ≠ Host.maxAckSeqPath src' dst' ∧
    Host.packetCommitmentPath src dst n ≠ Host.nextSequenceSendPath src' dst' := by
  refine ⟨?_, ?_, ?_, ?_, ?_⟩
  · intro h; have := (Host.seqPath_injective (by decide) hs hd (by decide) hs' hd' h).1; revert this; decide
  · intro h; have := (Host.seqPath_injective (by decide) hs hd (by decide) hs' hd' h).1; revert this; decide
  · exact Host.seqPath_ne_pairPath (by decide) hs hd (by decide) hs' hd'
  · exact Host.seqPath_ne_pairPath (by decide) hs hd (by decide) hs' hd'
  · exact Host.seqPath_ne_pairPath (by decide) hs hd (by decide) hs' hd'

/-- **Another spelling is another packet.** A receive is accepted only on a proof for the key
    spelled exactly as the packet's own `(source, destination, sequence)`; a packet that differs in
    any of the three — e.g. the same chain name percent-encoded — presented with the proof of the
    original key is refused and changes nothing. (The code agrees since repair b1763c2: before,
    `MerklePath.GetKey` URL-unescaped the key path and `%74estchain0` resolved to `testchain0`'s
    key — found by the `packet` stream, F-C02-pct.) -/
theorem recv_needs_proof_of_own_key (s : State) (p q : Packet) (h : Nat) (t : String) (prover : Chain)
    (hne : q.key ≠ p.key) :
    (deliver H Hc s (.recvPacket q (.honest prover h (.commit p.key)) h t)).2 ≠ .ok ∧
    (deliver H Hc s (.recvPacket q (.honest prover h (.commit p.key)) h t)).1 = s := by
  have hno : (deliver H Hc s (.recvPacket q (.honest prover h (.commit p.key)) h t)).2 ≠ .ok := by
    intro hok
    obtain ⟨_, _, _, _, _, _, _, _, hπ, _⟩ := deliver_recv_ok H Hc s q _ h t hok
    injection hπ with _ _ hk
    injection hk with hk
    exact hne hk.symm
  refine ⟨hno, ?_⟩
  cases hr : (deliver H Hc s (.recvPacket q (.honest prover h (.commit p.key)) h t)).2 with
  | ok => exact absurd hr hno
  | err e => exact deliver_err_unchanged H Hc s _ e hr

end Tibc.C01
