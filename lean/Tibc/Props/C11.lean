import Tibc.Lemmas.Log
/-
  C11 — Relay chains forward faithfully, enforce the whitelist, run no app logic.
  PROPERTY THEOREMS ONLY.
-/
namespace Tibc.C11
open Tibc Core

variable (H : Data → Digest) (Hc : Str → Str)

/-- On the relay chain an authentic packet (all `RecvPacket` checks passed) is re-committed iff
    the routing rules allow `(source, destination, port)` and the destination is known; then the
    commitment is the same digest under the same key and a `send_packet` event announces it. -/
theorem relay_forward_iff (s : Core) (p : Packet) (hrelay : p.relay = s.name) :
    ((recvWrites H s p).2 = .ok ↔
      (authenticate s p.src p.dst p.port = true ∧ (s.clients p.dst).isSome = true)) ∧
    ((recvWrites H s p).2 = .ok →
      (recvWrites H s p).1.ps.commit = upd s.ps.commit p.key (some (H p.data)) ∧
      (recvWrites H s p).1.evlog = s.evlog ++ [pktEvent "recv_packet" p, pktEvent "send_packet" p]) := by
  unfold recvWrites
  simp only [emit_name, setReceipt_name, hrelay, beq_self_eq_true, if_true]
  have hauth : authenticate ((s.setReceipt p.key).emit (pktEvent "recv_packet" p)) p.src p.dst p.port =
      authenticate s p.src p.dst p.port := rfl
  rw [hauth]
  cases ha : authenticate s p.src p.dst p.port with
  | false => simp
  | true =>
    simp only [Bool.not_true, Bool.false_eq_true, if_false, emit_clients, setReceipt_clients, true_and]
    cases hc : s.clients p.dst with
    | none => simp
    | some cl => simp

/-- Otherwise the relay records the receipt and answers with an error acknowledgement; no
    commitment is written, so (by C01) the destination can never accept the packet. -/
theorem relay_reject_error_ack (s : State) (p : Packet) (π : Proof) (h : Nat) (t : String)
    (hok : RecvOk H s.core p π h) (hrelay : p.relay = s.core.name)
    (hno : ¬ (authenticate s.core p.src p.dst p.port = true ∧ (s.core.clients p.dst).isSome = true)) :
    let s1 := (s.core.setReceipt p.key).emit (pktEvent "recv_packet" p)
    (msgRecvPacket H Hc s p π h t).1.core = (s1.writeAck H p (.ackErr "756e617574686f72697a6564")).1 ∧
    (msgRecvPacket H Hc s p π h t).1.core.ps.commit = s.core.ps.commit ∧
    (msgRecvPacket H Hc s p π h t).1.apps = s.apps ∧ (msgRecvPacket H Hc s p π h t).1.cbLog = s.cbLog := by
  intro s1
  have hrw : s.core.recvPacket H p π h = (s1, .err .unauthorized) := by
    rcases recvPacket_cases H s.core p π h with ⟨_, e⟩ | ⟨hn, _⟩
    · rw [e]
      unfold recvWrites
      simp only [emit_name, setReceipt_name, hrelay, beq_self_eq_true, if_true]
      have hauth : authenticate ((s.core.setReceipt p.key).emit (pktEvent "recv_packet" p)) p.src p.dst p.port =
          authenticate s.core p.src p.dst p.port := rfl
      rw [hauth]
      cases ha : authenticate s.core p.src p.dst p.port with
      | false => simp [s1]
      | true =>
        simp only [Bool.not_true, Bool.false_eq_true, if_false, emit_clients, setReceipt_clients]
        cases hc : s.core.clients p.dst with
        | none => simp [s1]
        | some cl => exact absurd ⟨ha, by simp [hc]⟩ hno
    · exact absurd hok hn
  unfold msgRecvPacket
  rw [hrw]
  refine ⟨rfl, ?_, rfl, rfl⟩
  simp only
  rcases writeAck_cases H s1 p (.ackErr "756e617574686f72697a6564") with ⟨_, e⟩ | ⟨_, _, e⟩ <;> rw [e]
  · rfl
  · rfl

/-- Acknowledgements pass back through the relay chain unchanged: the digest the relay stores for
    the source to verify is the digest it verified in the destination's recorded state. -/
theorem relay_ack_passthrough (s : Core) (p : Packet) (a : Data) (π : Proof) (h : Nat)
    (hok : AckOk H s p a π h) (hrelay : p.relay = s.name) (hsrc : (s.clients p.src).isSome = true) :
    (acknowledgePacket H s p a π h).2 = .ok ∧
    (acknowledgePacket H s p a π h).1.ps.ack p.key = some (H a) ∧
    ∃ cl sn, s.clients (ackProver s p) = some cl ∧ cl.cons h = some sn ∧ sn.ack p.key = some (H a) := by
  obtain ⟨_, _, cl, sn, hcl, _, _, hsn, _, hack⟩ := hok
  refine ⟨?_, ?_, cl, sn, hcl, hsn, hack⟩
  all_goals
    rcases acknowledgePacket_cases H s p a π h with ⟨_, e⟩ | ⟨hn, _⟩
    · rw [e]
      unfold ackWrites
      simp only [emit_name, setMaxAck_name, delCommit_name, hrelay, beq_self_eq_true, if_true,
        emit_clients, setMaxAck_clients, delCommit_clients]
      cases hc : s.clients p.src with
      | none => rw [hc] at hsrc; cases hsrc
      | some c => simp
    · exact absurd ⟨‹_›, ‹_›, cl, sn, hcl, ‹_›, ‹_›, hsn, ‹_›, hack⟩ hn

/-- The relay chain never runs application logic for traffic passing through: a receive whose
    destination is another chain, and an acknowledgement whose source is another chain, leave
    the application state and the callback log untouched. -/
theorem relay_no_callbacks (s : State) (p : Packet) (π : Proof) (h : Nat) (t : String) (a : Data) :
    (p.dst ≠ s.core.name →
      (msgRecvPacket H Hc s p π h t).1.apps = s.apps ∧ (msgRecvPacket H Hc s p π h t).1.cbLog = s.cbLog) ∧
    (p.src ≠ s.core.name →
      (msgAcknowledgement H Hc s p a π h).1.apps = s.apps ∧ (msgAcknowledgement H Hc s p a π h).1.cbLog = s.cbLog) := by
  constructor
  · intro hd
    unfold msgRecvPacket
    split
    · exact ⟨rfl, rfl⟩
    · exact ⟨rfl, rfl⟩
    · rename_i c heq
      have hname : c.name = s.core.name := by
        have hm := mono_prim H (Prim.recv s.core p π h)
        rw [heq] at hm; exact hm.name
      have : (p.dst == c.name) = false := by rw [hname]; simpa using hd
      simp [this]
  · intro hsrc
    unfold msgAcknowledgement
    have : (p.src == s.core.name) = false := by simpa using hsrc
    simp only [this, Bool.false_and, Bool.false_eq_true, if_false]
    split <;> exact ⟨rfl, rfl⟩

end Tibc.C11
