import Tibc.Routing.Rules
/-
  C12 — Routing rules mean exactly field-wise match with '*' wildcards.
  PROPERTY THEOREMS ONLY.
-/
namespace Tibc.C12
open Tibc Tibc.Routing

/-- A rule set is accepted iff every rule consists of exactly three comma-separated fields, each
    of which is a single `*` or 1–64 characters of the identifier alphabet. -/
theorem rules_accepted_iff (rules : List Str) :
    setRules rules = some rules ↔
      ∀ r ∈ rules, ∃ a b c, splitOnChar ',' r = [a, b, c] ∧
        (∀ f ∈ [a, b, c], f = ['*'] ∨ (1 ≤ f.length ∧ f.length ≤ 64 ∧ ∀ ch ∈ f, isIdChar ch = true)) := by
  unfold setRules
  constructor
  · intro h
    by_cases hall : rules.all ruleOk = true
    · intro r hr
      have hrok := List.all_eq_true.mp hall r hr
      unfold ruleOk at hrok
      split at hrok
      · rename_i a b c heq
        refine ⟨a, b, c, heq, ?_⟩
        simp only [Bool.and_eq_true] at hrok
        obtain ⟨⟨ha, hb⟩, hc⟩ := hrok
        intro f hf
        have hfok : fieldOk f = true := by
          simp only [List.mem_cons, List.mem_nil_iff, or_false] at hf
          rcases hf with rfl | rfl | rfl <;> assumption
        unfold fieldOk at hfok
        simp only [Bool.or_eq_true, Bool.and_eq_true, decide_eq_true_eq, beq_iff_eq, List.all_eq_true] at hfok
        rcases hfok with h1 | ⟨⟨h1, h2⟩, h3⟩
        · exact Or.inl h1
        · exact Or.inr ⟨h1, h2, h3⟩
      · cases hrok
    · simp [hall] at h
  · intro h
    have hall : rules.all ruleOk = true := by
      rw [List.all_eq_true]
      intro r hr
      obtain ⟨a, b, c, heq, hf⟩ := h r hr
      unfold ruleOk
      rw [heq]
      have fo : ∀ f ∈ [a, b, c], fieldOk f = true := by
        intro f hfm
        unfold fieldOk
        simp only [Bool.or_eq_true, Bool.and_eq_true, decide_eq_true_eq, beq_iff_eq, List.all_eq_true]
        rcases hf f hfm with h1 | ⟨h1, h2, h3⟩
        · exact Or.inl h1
        · exact Or.inr ⟨⟨h1, h2⟩, h3⟩
      simp [fo a (by simp), fo b (by simp), fo c (by simp)]
    simp [hall]

/-- A rejected rule set stores nothing (the previous rules stay in force). -/
theorem rules_rejected_none (rules : List Str) (h : ¬ rules.all ruleOk = true) : setRules rules = none := by
  unfold setRules; simp [h]

/-- A triple is authorised iff rules are stored and some stored rule has exactly three fields
    each of which is `*` or identical to the corresponding value. -/
theorem authenticate_iff (stored : Option (List Str)) (s d p : Str) :
    authenticate stored s d p = true ↔
      ∃ rules, stored = some rules ∧ ∃ r ∈ rules, ∃ a b c, splitOnChar ',' r = [a, b, c] ∧
        (a = ['*'] ∨ a = s) ∧ (b = ['*'] ∨ b = d) ∧ (c = ['*'] ∨ c = p) := by
  unfold authenticate
  cases stored with
  | none => simp
  | some rules =>
    simp only [List.any_eq_true, Option.some.injEq, exists_eq_left']
    constructor
    · rintro ⟨r, hr, hm⟩
      refine ⟨r, hr, ?_⟩
      unfold ruleMatch at hm
      split at hm
      · rename_i a b c heq
        refine ⟨a, b, c, heq, ?_⟩
        simp only [fieldMatch, Bool.and_eq_true, Bool.or_eq_true, beq_iff_eq] at hm
        exact ⟨hm.1.1, hm.1.2, hm.2⟩
      · cases hm
    · rintro ⟨r, hr, a, b, c, heq, ha, hb, hc⟩
      refine ⟨r, hr, ?_⟩
      unfold ruleMatch
      rw [heq]
      simp only [fieldMatch, Bool.and_eq_true, Bool.or_eq_true, beq_iff_eq]
      exact ⟨⟨ha, hb⟩, hc⟩

/-- With no rules stored (key absent, or an empty list) nothing is authorised. -/
theorem no_rules_nothing (s d p : Str) :
    authenticate none s d p = false ∧ authenticate (some []) s d p = false := by
  simp [authenticate]

/-- A non-wildcard field matches only the identical string: in particular a field made of
    regular-expression operators is not an expression. (Witnesses of the repaired defect.) -/
example : authenticate (some ["a+,b,c".toList]) "aa".toList "b".toList "c".toList = false := by decide
example : authenticate (some ["a+,b,c".toList]) "a+".toList "b".toList "c".toList = true := by decide
example : authenticate (some ["[ab],x,y".toList]) "a".toList "x".toList "y".toList = false := by decide
example : authenticate (some ["*,b,c".toList]) "x,y".toList "b".toList "c".toList = true := by decide

end Tibc.C12
