import Tibc.Lemmas.Seq
/-
  C09 — Sends get gap-free sequences and one binding commitment, all-or-nothing.
  PROPERTY THEOREMS ONLY.
-/
namespace Tibc.C09
open Tibc Core

variable (H : Data → Digest) (Hc : Str → Str)

/-- the sequences of the packets accepted by `SendPacket` for one (source, destination) pair,
    in the order they were sent -/
def sentSeqs (s : Core) (pr : Pair) : List Nat :=
  (s.sent.filter (fun x => x.1.pair == pr)).map (fun x => x.1.seq)

/-- the invariant: the sequences handed out so far are exactly `1, 2, …, nextSend-1`, in order -/
def SeqInv (s : Core) : Prop :=
  ∀ pr, 1 ≤ s.ps.nextSend pr ∧ sentSeqs s pr = List.range' 1 (s.ps.nextSend pr - 1)

/-- Exact effect of a successful send: the next sequence number of that pair is consumed, exactly
    one commitment `H data` appears under `(src, dst, seq)`, one `send_packet` event announces the
    packet; receipts, acknowledgements, clean points, other commitments, other counters, clients
    and rules are untouched. A failing send changes nothing. -/
theorem send_commit_exact (s : Core) (p : Packet) :
    (SendOk s p ∧ (sendPacket H s p).2 = .ok ∧
      let t := (sendPacket H s p).1
      p.seq = s.ps.nextSend p.pair ∧
      t.ps.nextSend = upd s.ps.nextSend p.pair (p.seq + 1) ∧
      t.ps.commit = upd s.ps.commit p.key (some (H p.data)) ∧
      t.ps.receipt = s.ps.receipt ∧ t.ps.ack = s.ps.ack ∧ t.ps.clean = s.ps.clean ∧
      t.ps.maxAck = s.ps.maxAck ∧ t.clients = s.clients ∧ t.rules = s.rules ∧
      t.evlog = s.evlog ++ [pktEvent "send_packet" p]) ∨
    (¬ SendOk s p ∧ (∃ e, (sendPacket H s p).2 = .err e) ∧ (sendPacket H s p).1 = s) := by
  rcases sendPacket_cases H s p with ⟨hok, e⟩ | ⟨hno, e', e⟩
  · left
    rw [e]
    refine ⟨hok, rfl, hok.2.2.2, ?_, rfl, rfl, rfl, rfl, rfl, rfl, rfl, rfl⟩
    show upd s.ps.nextSend p.pair (s.ps.nextSend p.pair + 1) = _
    rw [hok.2.2.2]
  · right; rw [e]; exact ⟨hno, ⟨e', rfl⟩, rfl⟩

/-- every primitive preserves the sequence invariant -/
theorem seqInv_prim {s t : Core} (h : Prim H s t) (hi : SeqInv s) : SeqInv t := by
  rcases prim_sendframe H h with ⟨e1, e2⟩ | ⟨p, hok, rfl⟩
  · intro pr
    have := hi pr
    unfold sentSeqs at this ⊢
    rw [e1, e2]; exact this
  · intro pr
    obtain ⟨h1, h2⟩ := hi pr
    have hs : (sendWrites H s p).sent = s.sent ++ [(p.key, p.data)] := rfl
    have hn : (sendWrites H s p).ps.nextSend = upd s.ps.nextSend p.pair (s.ps.nextSend p.pair + 1) := rfl
    unfold sentSeqs at h2 ⊢
    rw [hs, hn, List.filter_append, List.map_append, h2]
    by_cases hp : pr = p.pair
    · subst hp
      have hkp : ((p.key).pair == p.pair) = true := by simp [Packet.key, Packet.pair, PKey.pair]
      simp only [upd_same, List.filter_cons, hkp, if_true, List.filter_nil, List.map_cons, List.map_nil]
      refine ⟨by omega, ?_⟩
      have hseq : (p.key).seq = s.ps.nextSend p.pair := hok.2.2.2
      rw [hseq]
      have : s.ps.nextSend p.pair + 1 - 1 = (s.ps.nextSend p.pair - 1) + 1 := by omega
      rw [this, List.range'_concat]
      congr 2
      omega
    · have hkp : ((p.key).pair == pr) = false := by
        have : (p.key).pair = p.pair := rfl
        rw [this]; simp; exact fun h => hp h.symm
      simp only [upd_apply, hp, if_false, List.filter_cons, hkp, Bool.false_eq_true, List.filter_nil,
        List.map_nil, List.append_nil]
      exact ⟨h1, trivial⟩

theorem seqInv_prims {s t : Core} (h : Prims H s t) (hi : SeqInv s) : SeqInv t := by
  induction h with
  | refl => exact hi
  | step _ hp ih => exact seqInv_prim H hp ih

/-- **Gap-free, no reuse.** For every history of operations (successful and failing sends from
    applications and users, interleaved with inbound traffic, cleans, governance), on every chain
    and for every (source, destination): the sequences handed out so far are exactly
    `1, 2, …, nextSend − 1`, in order. -/
theorem send_seq_invariant (ops : List Op) (c : Chain) : SeqInv ((run H Hc World.init ops) c).core := by
  suffices h : ∀ (w : World), (∀ q, SeqInv (w q).core) → ∀ q, SeqInv ((run H Hc w ops) q).core by
    apply h World.init
    intro q pr
    simp [World.init, State.init, Core.init, PStore.empty, sentSeqs]
  induction ops with
  | nil => intro w hw; exact hw
  | cons op ops ih =>
    intro w hw
    simp only [run, List.foldl_cons]
    apply ih
    intro q
    by_cases hq : q = op.chain
    · subst hq
      cases op with
      | tx c m => simp only [step, Op.chain, setChain_same]; exact seqInv_prims H (deliver_prims H Hc (w c) m) (hw c)
      | ksend c p => simp only [step, Op.chain, setChain_same]; exact seqInv_prim H (Prim.send _ _) (hw c)
      | createClient c q' h t pd => simp only [step, Op.chain, setChain_same]; exact hw c
      | update c q' h t =>
        simp only [step, Op.chain]; split
        · exact hw c
        · simp only [setChain_same]; exact hw c
      | setRules c rules =>
        simp only [step, Op.chain]; split
        · exact hw c
        · simp only [setChain_same]; exact hw c
      | setTime c now => simp only [step, Op.chain, setChain_same]; exact hw c
      | createClientMsg c auth q' ct h t pd v cs =>
        simp only [step, Op.chain, setChain_same]
        have := createClientMsg_admin (w c) auth q' ct h t pd v cs (w q').core.ps.snapshot
        intro pr; have hh := hw c pr; unfold sentSeqs at hh ⊢; rw [this.ps, this.sent]; exact hh
      | upgradeClientMsg c auth q' ct h t pd v cs =>
        simp only [step, Op.chain, setChain_same]
        have := upgradeClientMsg_admin (w c) auth q' ct h t pd v cs (w q').core.ps.snapshot
        intro pr; have hh := hw c pr; unfold sentSeqs at hh ⊢; rw [this.ps, this.sent]; exact hh
      | registerRelayerMsg c auth q' rs =>
        simp only [step, Op.chain, setChain_same]
        have := registerRelayerMsg_admin (w c) auth q' rs
        intro pr; have hh := hw c pr; unfold sentSeqs at hh ⊢; rw [this.ps, this.sent]; exact hh
      | setRulesMsg c auth rules =>
        simp only [step, Op.chain, setChain_same]
        have := setRulesMsg_admin (w c) auth rules
        intro pr; have hh := hw c pr; unfold sentSeqs at hh ⊢; rw [this.ps, this.sent]; exact hh
      | updateClientMsg c sg q' h t ok =>
        simp only [step, Op.chain, setChain_same]
        have := updateClientMsg_admin (w c) sg q' h t ok (w q').core.ps.snapshot
        intro pr; have hh := hw c pr; unfold sentSeqs at hh ⊢; rw [this.ps, this.sent]; exact hh
      | nftIssue c a cls mr => simp only [step, Op.chain, setChain_same, nftIssueMsg_core]; exact hw c
      | nftMint c a cls id u rc => simp only [step, Op.chain, setChain_same, nftMintMsg_core]; exact hw c
      | nftSend c a cls id rc => simp only [step, Op.chain, setChain_same, nftSendMsg_core]; exact hw c
      | nftBurn c a cls id => simp only [step, Op.chain, setChain_same, nftBurnMsg_core]; exact hw c
      | mtIssue c a cls => simp only [step, Op.chain, setChain_same, mtIssueMsg_core]; exact hw c
      | mtMint c a cls id f amt rc => simp only [step, Op.chain, setChain_same, mtMintMsg_core]; exact hw c
      | mtSend c a cls id amt rc => simp only [step, Op.chain, setChain_same, mtSendMsg_core]; exact hw c
      | mtBurn c a cls id amt => simp only [step, Op.chain, setChain_same, mtBurnMsg_core]; exact hw c
    · rw [step_other H Hc w op q hq]; exact hw q

/-- A failing NFT / MT transfer message (unknown class or token, not the owner, destination =
    this chain, unknown destination or relay client, missing trace, …) leaves the whole chain
    state unchanged: no token locked or burnt, no sequence consumed. -/
theorem transfer_fail_unchanged (s : State) (m : Msg) (e : Err) (h : (deliver H Hc s m).2 = .err e) :
    (deliver H Hc s m).1 = s :=
  deliver_err_unchanged H Hc s m e h

/-- Re-committing a packet on a relay chain does not touch any send sequence. -/
theorem relay_recommit_keeps_sequences (s : Core) (p : Packet) :
    (recvWrites H s p).1.ps.nextSend = s.ps.nextSend :=
  (recvWrites_sendframe H s p).2

end Tibc.C09
