import Tibc.Lemmas.World
/-
  C15 — Privileged operations need the right authority and never clobber clients.
  PROPERTY THEOREMS ONLY.
-/
namespace Tibc.C15
open Tibc

/-- Creating a client takes effect only when requested by the governance authority. -/
theorem create_requires_authority (s : State) (auth : Addr) (q : Chain) (ct : String) (h t pd : Nat) (v cs : Bool)
    (sn : Snapshot) (hch : (createClientMsg s auth q ct h t pd v cs sn).1 ≠ s ∨ (createClientMsg s auth q ct h t pd v cs sn).2 = .ok) :
    auth = s.core.authority ∧ s.core.clients q = none := by
  unfold createClientMsg at hch
  split at hch
  · simp at hch
  · split at hch
    · simp at hch
    · split at hch
      · simp at hch
      · split at hch
        · simp at hch
        · rename_i ha
          split at hch
          · simp at hch
          · rename_i hnone
            exact ⟨(by simpa using ha : s.core.authority = auth).symm, hnone⟩

/-- Creating a client never overwrites an existing one. -/
theorem create_never_overwrites (s : State) (auth : Addr) (q : Chain) (ct : String) (h t pd : Nat) (v cs : Bool)
    (sn : Snapshot) (cl : Client) (hex : s.core.clients q = some cl) :
    (createClientMsg s auth q ct h t pd v cs sn).1 = s ∧ (createClientMsg s auth q ct h t pd v cs sn).2 ≠ .ok := by
  unfold createClientMsg
  simp only [hex]
  repeat' split
  all_goals exact ⟨rfl, by simp⟩

/-- Upgrading takes effect only for the authority, only for an existing client, and only with a
    client state of the same type. -/
theorem upgrade_requires_authority_and_type (s : State) (auth : Addr) (q : Chain) (ct : String) (h t pd : Nat)
    (v cs : Bool) (sn : Snapshot)
    (hch : (upgradeClientMsg s auth q ct h t pd v cs sn).1 ≠ s ∨ (upgradeClientMsg s auth q ct h t pd v cs sn).2 = .ok) :
    auth = s.core.authority ∧ ∃ cl, s.core.clients q = some cl ∧ cl.ctype = ct := by
  unfold upgradeClientMsg at hch
  split at hch
  · simp at hch
  · split at hch
    · simp at hch
    · split at hch
      · simp at hch
      · split at hch
        · simp at hch
        · rename_i ha
          split at hch
          · simp at hch
          · rename_i cl hcl
            split at hch
            · simp at hch
            · rename_i hty
              exact ⟨(by simpa using ha : s.core.authority = auth).symm, cl, hcl, by simpa using hty⟩

/-- Registering relayers and changing routing rules take effect only for the authority. -/
theorem register_requires_authority (s : State) (auth : Addr) (q : Chain) (rs : List Addr)
    (hch : (registerRelayerMsg s auth q rs).1 ≠ s ∨ (registerRelayerMsg s auth q rs).2 = .ok) :
    auth = s.core.authority := by
  unfold registerRelayerMsg at hch
  repeat' split at hch
  all_goals first
    | (simp at hch; done)
    | (rename_i ha; exact (by simpa using ha : s.core.authority = auth).symm)

theorem set_rules_requires_authority (s : State) (auth : Addr) (rules : List Str)
    (hch : (setRulesMsg s auth rules).1 ≠ s ∨ (setRulesMsg s auth rules).2 = .ok) :
    auth = s.core.authority := by
  unfold setRulesMsg at hch
  repeat' split at hch
  all_goals first
    | (simp at hch; done)
    | (rename_i ha; exact (by simpa using ha : s.core.authority = auth).symm)

/-- Header updates take effect only when sent by a relayer registered for that chain (and only
    for an existing, Active client). -/
theorem update_requires_registered_relayer (s : State) (signer : Addr) (q : Chain) (h t : Nat) (ok : Bool)
    (sn : Snapshot)
    (hch : (updateClientMsg s signer q h t ok sn).1 ≠ s ∨ (updateClientMsg s signer q h t ok sn).2 = .ok) :
    signer ∈ s.core.relayers q ∧ ∃ cl, s.core.clients q = some cl ∧ cl.active s.core.now = true := by
  unfold updateClientMsg at hch
  split at hch
  · simp at hch
  · rename_i hs
    split at hch
    · simp at hch
    · rename_i cl hcl
      split at hch
      · simp at hch
      · rename_i hact
        refine ⟨?_, cl, hcl, by simpa using hact⟩
        simpa [List.contains_iff_mem] using hs

/-- A refused request changes nothing (every one of the five handlers). -/
theorem refused_unchanged (s : State) (auth : Addr) (q : Chain) (ct : String) (h t pd : Nat) (v cs : Bool)
    (sn : Snapshot) (rs : List Addr) (rules : List Str) (ok : Bool) (e : Err) :
    ((createClientMsg s auth q ct h t pd v cs sn).2 = .err e → (createClientMsg s auth q ct h t pd v cs sn).1 = s) ∧
    ((upgradeClientMsg s auth q ct h t pd v cs sn).2 = .err e → (upgradeClientMsg s auth q ct h t pd v cs sn).1 = s) ∧
    ((registerRelayerMsg s auth q rs).2 = .err e → (registerRelayerMsg s auth q rs).1 = s) ∧
    ((setRulesMsg s auth rules).2 = .err e → (setRulesMsg s auth rules).1 = s) ∧
    ((updateClientMsg s auth q h t ok sn).2 = .err e → (updateClientMsg s auth q h t ok sn).1 = s) := by
  refine ⟨?_, ?_, ?_, ?_, ?_⟩
  · unfold createClientMsg; repeat' split
    all_goals first | (intro _; rfl) | (intro h; cases h)
  · unfold upgradeClientMsg; repeat' split
    all_goals first | (intro _; rfl) | (intro h; cases h)
  · unfold registerRelayerMsg; repeat' split
    all_goals first | (intro _; rfl) | (intro h; cases h)
  · unfold setRulesMsg; repeat' split
    all_goals first | (intro _; rfl) | (intro h; cases h)
  · unfold updateClientMsg; repeat' split
    all_goals first | (intro _; rfl) | (intro h; cases h)

/-- the type of the client registered under a chain name, if any -/
def ctypeOf (s : State) (q : Chain) : Option String := (s.core.clients q).map (·.ctype)

/-- every operation a user, relayer or the governance authority can submit (the raw keeper-level
    `createClient` used by test set-ups is not one of them) -/
def Op.userReachable : Op → Prop
  | .createClient _ _ _ _ _ => False
  | _ => True

/-- **Upgrading never changes a client's type**: over every history of user-reachable operations,
    once a client of some type exists under a chain name, the type registered under that name
    never changes. -/
theorem type_preserved (H : Data → Digest) (Hc : Str → Str) (w : World) (ops : List Op)
    (hreach : ∀ op ∈ ops, Op.userReachable op) (c q : Chain) (ct : String)
    (h0 : ctypeOf (w c) q = some ct) : ctypeOf ((run H Hc w ops) c) q = some ct := by
  induction ops generalizing w with
  | nil => exact h0
  | cons op ops ih =>
    simp only [run, List.foldl_cons]
    apply ih _ (fun o ho => hreach o (by simp [ho]))
    have hr := hreach op (by simp)
    by_cases hq : c = Op.chain op
    · subst hq
      unfold ctypeOf at h0 ⊢
      cases hcl : (w (Op.chain op)).core.clients q with
      | none => rw [hcl] at h0; cases h0
      | some cl0 =>
        rw [hcl] at h0
        simp only [Option.map_some, Option.some.injEq] at h0
        cases op with
        | createClient c' q' h t pd => exact absurd hr (by simp [Op.userReachable])
        | tx c' m =>
          simp only [step, Op.chain, setChain_same]
          have := (mono_prims H (deliver_prims H Hc (w c') m)).clients
          simp only [Op.chain] at hcl
          rw [this, hcl]; simp [h0]
        | ksend c' p =>
          simp only [step, Op.chain, setChain_same]
          have := (mono_prim H (Prim.send (w c').core p)).clients
          simp only [Op.chain] at hcl
          show Option.map (fun x => x.ctype) ((Core.sendPacket H (w c').core p).1.clients q) = some ct
          rw [this, hcl]; simp [h0]
        | update c' q' h t =>
          simp only [step, Op.chain] at hcl ⊢
          split
          · rw [hcl]; simp [h0]
          · rename_i cl hcl'
            simp only [setChain_same, upd_apply]
            split
            · rename_i e; subst e; rw [hcl] at hcl'; cases hcl'; simp [h0]
            · rw [hcl]; simp [h0]
        | setRules c' rules =>
          simp only [step, Op.chain] at hcl ⊢
          split
          · rw [hcl]; simp [h0]
          · simp only [setChain_same]; rw [hcl]; simp [h0]
        | setTime c' now => simp only [step, Op.chain, setChain_same] at hcl ⊢; rw [hcl]; simp [h0]
        | createClientMsg c' auth q' ct' h t pd v cs =>
          simp only [step, Op.chain, setChain_same] at hcl ⊢
          by_cases hqq : q' = q
          · subst hqq
            rw [(create_never_overwrites (w c') auth q' ct' h t pd v cs _ cl0 hcl).1, hcl]; simp [h0]
          · unfold createClientMsg; repeat' split
            all_goals first
              | (rw [hcl]; simp [h0]; done)
              | (simp only [setClient, upd_apply, Ne.symm hqq, if_false]; rw [hcl]; simp [h0])
        | upgradeClientMsg c' auth q' ct' h t pd v cs =>
          simp only [step, Op.chain, setChain_same] at hcl ⊢
          unfold upgradeClientMsg
          split
          · rw [hcl]; simp [h0]
          · split
            · rw [hcl]; simp [h0]
            · split
              · rw [hcl]; simp [h0]
              · split
                · rw [hcl]; simp [h0]
                · cases hq' : (w c').core.clients q' with
                  | none => simp only; rw [hcl]; simp [h0]
                  | some cl =>
                    simp only
                    by_cases hty : (cl.ctype != ct') = true
                    · simp only [hty, if_true]; rw [hcl]; simp [h0]
                    · simp only [hty, setClient]
                      by_cases e : q = q'
                      · subst e; rw [hcl] at hq'; cases hq'; simp [h0]
                      · simp [upd_apply, e, hcl, h0]
        | registerRelayerMsg c' auth q' rs =>
          simp only [step, Op.chain, setChain_same] at hcl ⊢
          unfold registerRelayerMsg; repeat' split
          all_goals (first | (rw [hcl]; simp [h0]; done) | (show Option.map _ ((w c').core.clients q) = _; rw [hcl]; simp [h0]))
        | setRulesMsg c' auth rules =>
          simp only [step, Op.chain, setChain_same] at hcl ⊢
          unfold setRulesMsg; repeat' split
          all_goals (first | (rw [hcl]; simp [h0]; done) | (show Option.map _ ((w c').core.clients q) = _; rw [hcl]; simp [h0]))
        | updateClientMsg c' sg q' h t ok =>
          simp only [step, Op.chain, setChain_same] at hcl ⊢
          unfold updateClientMsg
          split
          · rw [hcl]; simp [h0]
          · split
            · rw [hcl]; simp [h0]
            · rename_i cl hcl'
              split
              · rw [hcl]; simp [h0]
              · split
                · rw [hcl]; simp [h0]
                · simp only [setClient, upd_apply]
                  split
                  · rename_i e; subst e; rw [hcl] at hcl'; cases hcl'; simp [h0]
                  · rw [hcl]; simp [h0]
        | nftIssue c' a cls mr => simp only [step, Op.chain, setChain_same, nftIssueMsg_core] at hcl ⊢; rw [hcl]; simp [h0]
        | nftMint c' a cls id u rc => simp only [step, Op.chain, setChain_same, nftMintMsg_core] at hcl ⊢; rw [hcl]; simp [h0]
        | nftSend c' a cls id rc => simp only [step, Op.chain, setChain_same, nftSendMsg_core] at hcl ⊢; rw [hcl]; simp [h0]
        | nftBurn c' a cls id => simp only [step, Op.chain, setChain_same, nftBurnMsg_core] at hcl ⊢; rw [hcl]; simp [h0]
        | mtIssue c' a cls => simp only [step, Op.chain, setChain_same, mtIssueMsg_core] at hcl ⊢; rw [hcl]; simp [h0]
        | mtMint c' a cls id f amt rc => simp only [step, Op.chain, setChain_same, mtMintMsg_core] at hcl ⊢; rw [hcl]; simp [h0]
        | mtSend c' a cls id amt rc => simp only [step, Op.chain, setChain_same, mtSendMsg_core] at hcl ⊢; rw [hcl]; simp [h0]
        | mtBurn c' a cls id amt => simp only [step, Op.chain, setChain_same, mtBurnMsg_core] at hcl ⊢; rw [hcl]; simp [h0]
    · rw [step_other H Hc w op c hq]; exact h0

end Tibc.C15
