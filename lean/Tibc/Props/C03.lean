import Tibc.Lemmas.Log
/-
  C03 — Acknowledgements are authentic, written once and processed at most once.
  PROPERTY THEOREMS ONLY.
-/
namespace Tibc.C03
open Tibc Core

variable (H : Data → Digest) (Hc : Str → Str)

/-- The application's acknowledgement logic runs and the commitment is dropped only if this chain
    still holds the commitment `H data` of exactly that packet and the chain the acknowledgement
    must be proven from has recorded exactly `H ack` under that packet's key (genuine proof, for
    that key, at that height). -/
theorem ack_accepted_authentic (s : State) (p : Packet) (a : Data) (π : Proof) (h : Nat)
    (hok : (deliver H Hc s (.acknowledgement p a π h)).2 = .ok) :
    AckOk H s.core p a π h :=
  deliver_ack_ok H Hc s p a π h hok

/-- Keeper level: any state change by `AcknowledgePacket` presupposes the same. -/
theorem ack_writes_only_after_verification (s : Core) (p : Packet) (a : Data) (π : Proof) (h : Nat)
    (hch : (acknowledgePacket H s p a π h).1 ≠ s ∨ (acknowledgePacket H s p a π h).2 = .ok) :
    AckOk H s p a π h := by
  rcases acknowledgePacket_cases H s p a π h with ⟨hok, _⟩ | ⟨_, e, he⟩
  · exact hok
  · rcases hch with h1 | h1
    · rw [he] at h1; exact absurd rfl h1
    · rw [he] at h1; cases h1

/-- After an accepted acknowledgement the commitment is gone. -/
theorem ack_deletes_commitment (s : Core) (p : Packet) (a : Data) :
    (ackWrites H s p a).1.ps.commit p.key = none := by
  unfold ackWrites; simp only
  split
  · split <;> simp
  · simp

/-- `WriteAcknowledgement` records an acknowledgement only if it is non-empty and none is recorded
    yet; then exactly `H ack` is stored. Otherwise nothing changes. -/
theorem ack_written_nonempty_never_overwritten (s : Core) (p : Packet) (a : Data) :
    (WriteAckOk s p a ∧ a.isEmpty = false ∧ s.ps.ack p.key = none ∧
        (writeAck H s p a).1.ps.ack = upd s.ps.ack p.key (some (H a)) ∧
        (writeAck H s p a).1.ackLog = s.ackLog ++ [(p.key, a)]) ∨
    (¬ WriteAckOk s p a ∧ (writeAck H s p a).1 = s ∧ ∃ e, (writeAck H s p a).2 = .err e) := by
  rcases writeAck_cases H s p a with ⟨hok, e⟩ | ⟨hno, e', e⟩
  · left; rw [e]; exact ⟨hok, hok.1, hok.2.1, rfl, rfl⟩
  · right; rw [e]; exact ⟨hno, rfl, e', rfl⟩

/-- The acknowledgement recorded for a delivered packet is the one the receiving application
    returned: on the destination chain, after the packet-layer checks, `MsgRecvPacket` hands the
    packet to the routed application and passes exactly the bytes `OnRecvPacket` returned to
    `WriteAcknowledgement` (which stores `H` of them, see above). -/
theorem recorded_ack_is_app_ack (s : State) (p : Packet) (π : Proof) (h : Nat) (t : String)
    (c : Core) (a : Apps) (ack : Data)
    (hr : s.core.recvPacket H p π h = (c, .ok)) (hd : p.dst = c.name) (hrt : routed p.port = true)
    (ha : appOnRecv Hc s.apps p t = (a, .ok ack)) :
    (msgRecvPacket H Hc s p π h t).1.core = (c.writeAck H p ack).1 ∧
    (msgRecvPacket H Hc s p π h t).2 = (c.writeAck H p ack).2 := by
  unfold msgRecvPacket
  rw [hr]
  simp [hd, hrt, ha]

end Tibc.C03
