import Tibc.Lemmas.OriginAck
import Tibc.Lemmas.HostKeys
/-
  C03 — Acknowledgements are authentic, written once and processed at most once.
  PROPERTY THEOREMS ONLY.
-/
namespace Tibc.C03
open Tibc Core

variable (H : Data → Digest) (Hc : Str → Str)

/-- The application's acknowledgement logic runs and the commitment is dropped only if this chain
    still holds the commitment `H data` of exactly that packet and the chain the acknowledgement
    must be proven from has recorded exactly `H ack` under that packet's key (genuine proof, for
    that key, at that height). -/
theorem ack_accepted_authentic (s : State) (p : Packet) (a : Data) (π : Proof) (h : Nat)
    (hok : (deliver H Hc s (.acknowledgement p a π h)).2 = .ok) :
    AckOk H s.core p a π h :=
  deliver_ack_ok H Hc s p a π h hok

/-- Keeper level: any state change by `AcknowledgePacket` presupposes the same. -/
theorem ack_writes_only_after_verification (s : Core) (p : Packet) (a : Data) (π : Proof) (h : Nat)
    (hch : (acknowledgePacket H s p a π h).1 ≠ s ∨ (acknowledgePacket H s p a π h).2 = .ok) :
    AckOk H s p a π h := by
  rcases acknowledgePacket_cases H s p a π h with ⟨hok, _⟩ | ⟨_, e, he⟩
  · exact hok
  · rcases hch with h1 | h1
    · rw [he] at h1; exact absurd rfl h1
    · rw [he] at h1; cases h1

/-- After an accepted acknowledgement the commitment is gone. -/
theorem ack_deletes_commitment (s : Core) (p : Packet) (a : Data) :
    (ackWrites H s p a).1.ps.commit p.key = none := by
  unfold ackWrites; simp only
  split
  · split <;> simp
  · simp

/-- `WriteAcknowledgement` records an acknowledgement only if it is non-empty and none is recorded
    yet; then exactly `H ack` is stored. Otherwise nothing changes. -/
theorem ack_written_nonempty_never_overwritten (s : Core) (p : Packet) (a : Data) :
    (WriteAckOk s p a ∧ a.isEmpty = false ∧ s.ps.ack p.key = none ∧
        (writeAck H s p a).1.ps.ack = upd s.ps.ack p.key (some (H a)) ∧
        (writeAck H s p a).1.ackLog = s.ackLog ++ [(p.key, a)]) ∨
    (¬ WriteAckOk s p a ∧ (writeAck H s p a).1 = s ∧ ∃ e, (writeAck H s p a).2 = .err e) := by
  rcases writeAck_cases H s p a with ⟨hok, e⟩ | ⟨hno, e', e⟩
  · left; rw [e]; exact ⟨hok, hok.1, hok.2.1, rfl, rfl⟩
  · right; rw [e]; exact ⟨hno, rfl, e', rfl⟩

/-- The acknowledgement recorded for a delivered packet is the one the receiving application
    returned: on the destination chain, after the packet-layer checks, `MsgRecvPacket` hands the
    packet to the routed application and passes exactly the bytes `OnRecvPacket` returned to
    `WriteAcknowledgement` (which stores `H` of them, see above). -/
theorem recorded_ack_is_app_ack (s : State) (p : Packet) (π : Proof) (h : Nat) (t : String)
    (c : Core) (a : Apps) (ack : Data)
    (hr : s.core.recvPacket H p π h = (c, .ok)) (hd : p.dst = c.name) (hrt : routed p.port = true)
    (ha : appOnRecv Hc s.apps p t = (a, .ok ack)) :
    (msgRecvPacket H Hc s p π h t).1.core = (c.writeAck H p ack).1 ∧
    (msgRecvPacket H Hc s p π h t).2 = (c.writeAck H p ack).2 := by
  unfold msgRecvPacket
  rw [hr]
  simp [hd, hrt, ha]

/-! ### end to end: an accepted acknowledgement was really written by a chain's application layer -/

/-- **End to end.** In every history of operations on any number of chains, whenever a chain
    accepts an acknowledgement for a packet — directly from the destination or through a relay
    chain — some chain's `WriteAcknowledgement` (the destination's application answering the packet,
    or a relay chain refusing it) recorded an acknowledgement under exactly that
    `(source, destination, sequence)` with the same hash (`H a' = H ack`). -/
theorem ack_accepted_was_written (ops : List Op) (c : Chain) (p : Packet) (a : Data) (π : Proof) (h : Nat)
    (hok : (deliver H Hc ((run H Hc World.init ops) c) (.acknowledgement p a π h)).2 = .ok) :
    ∃ a' x, H a' = H a ∧ (p.key, a') ∈ ((run H Hc World.init ops) x).core.ackLog := by
  have hi := run_ackOriginInv H Hc ops
  obtain ⟨_, _, cl, sn, hcl, _, _, hcons, _, hsn⟩ := deliver_ack_ok H Hc _ p a π h hok
  obtain ⟨a', x, hd, hm⟩ := hi.snaps c _ cl h sn hcl hcons p.key _ hsn
  exact ⟨a', x, hd.symm, hm⟩

/-! ### processed at most once, over all histories -/

/-- one operation keeps the per-chain invariant -/
theorem step_ackInv (w : World) (op : Op) (hsc : op.selfClient = false) (hi : ∀ q, AckInv q (w q)) (q : Chain) :
    AckInv q ((step H Hc w op).1 q) := by
  by_cases hq : q = op.chain
  · subst hq
    have hlog := step_log H Hc w op op.chain
    have hI := hi op.chain
    cases op with
    | tx c m =>
      refine ackInv_of_delta H hI ?_ hlog
      simp only [step, Op.chain, setChain_same]; exact deliver_prims H Hc (w c) m
    | ksend c p =>
      refine ackInv_of_delta H hI ?_ hlog
      simp only [step, Op.chain, setChain_same]; exact Prims.single H (Prim.send _ _)
    | createClient c q' h t pd =>
      simp only [Op.chain] at hI ⊢
      simp only [step, setChain_same]
      refine ackInv_of_frame hI rfl rfl rfl ?_
      have hne : q' ≠ c := by simpa [Op.selfClient] using hsc
      have hn := hI.noSelf
      have hnm : (w c).core.name = c := hI.name
      unfold NoSelf at hn ⊢
      simp only [hnm, upd_apply] at hn ⊢
      simp [hne.symm, hn]
    | update c q' h t =>
      simp only [Op.chain] at hI ⊢
      simp only [step]
      split
      · exact hI
      · rename_i cl hcl
        simp only [setChain_same]
        refine ackInv_of_frame hI rfl rfl rfl ?_
        have hn := hI.noSelf
        have hnm : (w c).core.name = c := hI.name
        unfold NoSelf at hn ⊢
        simp only [hnm, upd_apply] at hn ⊢
        have hne : ¬ c = q' := by intro h; rw [← h, hn] at hcl; cases hcl
        simp [hne, hn]
    | setRules c rules =>
      simp only [Op.chain] at hI ⊢
      simp only [step]
      split
      · exact hI
      · simp only [setChain_same]
        exact ackInv_of_frame hI rfl rfl rfl hI.noSelf
    | setTime c now =>
      simp only [Op.chain] at hI ⊢
      simp only [step, setChain_same]
      exact ackInv_of_frame hI rfl rfl rfl hI.noSelf
    | createClientMsg c auth q' ct h t pd v cs =>
      simp only [Op.chain] at hI ⊢
      simp only [step, setChain_same]
      have ha := createClientMsg_admin (w c) auth q' ct h t pd v cs (w q').core.ps.snapshot
      refine ackInv_of_frame hI ha.name ha.ps ha.cbLog ?_
      have hne : q' ≠ c := by simpa [Op.selfClient] using hsc
      have hn := hI.noSelf
      have hnm : (w c).core.name = c := hI.name
      unfold NoSelf at hn ⊢
      rw [ha.name, hnm]; rw [hnm] at hn
      unfold createClientMsg; repeat' split
      all_goals first | exact hn | (simp only [setClient, upd_apply]; simp [hne.symm, hn])
    | upgradeClientMsg c auth q' ct h t pd v cs =>
      simp only [Op.chain] at hI ⊢
      simp only [step, setChain_same]
      have ha := upgradeClientMsg_admin (w c) auth q' ct h t pd v cs (w q').core.ps.snapshot
      refine ackInv_of_frame hI ha.name ha.ps ha.cbLog ?_
      have hn := hI.noSelf
      have hnm : (w c).core.name = c := hI.name
      unfold NoSelf at hn ⊢
      rw [ha.name, hnm]; rw [hnm] at hn
      by_cases hqc : q' = c
      · -- no client of `c` exists, so there is nothing to upgrade
        subst hqc
        unfold upgradeClientMsg; simp only [hn]; repeat' split
        all_goals exact hn
      · unfold upgradeClientMsg; repeat' split
        all_goals first | exact hn | (simp only [setClient, upd_apply]; simp [Ne.symm hqc, hn])
    | registerRelayerMsg c auth q' rs =>
      simp only [Op.chain] at hI ⊢
      simp only [step, setChain_same]
      have ha := registerRelayerMsg_admin (w c) auth q' rs
      refine ackInv_of_frame hI ha.name ha.ps ha.cbLog ?_
      have hn := hI.noSelf
      unfold NoSelf at hn ⊢
      rw [ha.name]
      unfold registerRelayerMsg; repeat' split
      all_goals exact hn
    | setRulesMsg c auth rules =>
      simp only [Op.chain] at hI ⊢
      simp only [step, setChain_same]
      have ha := setRulesMsg_admin (w c) auth rules
      refine ackInv_of_frame hI ha.name ha.ps ha.cbLog ?_
      have hn := hI.noSelf
      unfold NoSelf at hn ⊢
      rw [ha.name]
      unfold setRulesMsg; repeat' split
      all_goals exact hn
    | updateClientMsg c sg q' h t ok =>
      simp only [Op.chain] at hI ⊢
      simp only [step, setChain_same]
      have ha := updateClientMsg_admin (w c) sg q' h t ok (w q').core.ps.snapshot
      refine ackInv_of_frame hI ha.name ha.ps ha.cbLog ?_
      have hn := hI.noSelf
      have hnm : (w c).core.name = c := hI.name
      unfold NoSelf at hn ⊢
      rw [ha.name, hnm]; rw [hnm] at hn
      by_cases hqc : q' = c
      · subst hqc
        unfold updateClientMsg; simp only [hn]; repeat' split
        all_goals exact hn
      · unfold updateClientMsg; repeat' split
        all_goals first | exact hn | (simp only [setClient, upd_apply]; simp [Ne.symm hqc, hn])
    | nftIssue c a cls mr =>
      refine ackInv_of_delta H hI ?_ hlog
      simp only [step, Op.chain, setChain_same, nftIssueMsg_core]; exact Prims.refl _
    | nftMint c a cls id u rc =>
      refine ackInv_of_delta H hI ?_ hlog
      simp only [step, Op.chain, setChain_same, nftMintMsg_core]; exact Prims.refl _
    | nftSend c a cls id rc =>
      refine ackInv_of_delta H hI ?_ hlog
      simp only [step, Op.chain, setChain_same, nftSendMsg_core]; exact Prims.refl _
    | nftBurn c a cls id =>
      refine ackInv_of_delta H hI ?_ hlog
      simp only [step, Op.chain, setChain_same, nftBurnMsg_core]; exact Prims.refl _
    | mtIssue c a cls =>
      refine ackInv_of_delta H hI ?_ hlog
      simp only [step, Op.chain, setChain_same, mtIssueMsg_core]; exact Prims.refl _
    | mtMint c a cls id f amt rc =>
      refine ackInv_of_delta H hI ?_ hlog
      simp only [step, Op.chain, setChain_same, mtMintMsg_core]; exact Prims.refl _
    | mtSend c a cls id amt rc =>
      refine ackInv_of_delta H hI ?_ hlog
      simp only [step, Op.chain, setChain_same, mtSendMsg_core]; exact Prims.refl _
    | mtBurn c a cls id amt =>
      refine ackInv_of_delta H hI ?_ hlog
      simp only [step, Op.chain, setChain_same, mtBurnMsg_core]; exact Prims.refl _
  · rw [step_other H Hc w op q hq]; exact hi q

/-- **Processed at most once.** For every history of operations on any number of chains in which
    no chain is given a light client of itself, on every chain the source application's
    acknowledgement callback (refund or completion) has run at most once per
    `(source, destination, sequence)` — whatever is replayed, in whatever order — and only for
    packets this chain sent. -/
theorem ack_processed_at_most_once (ops : List Op) (hns : ∀ op ∈ ops, op.selfClient = false) (c : Chain) (k : PKey) :
    ackCalls ((run H Hc World.init ops) c) k ≤ 1 ∧ (k.src ≠ c → ackCalls ((run H Hc World.init ops) c) k = 0) := by
  suffices h : ∀ (w : World), (∀ q, AckInv q (w q)) → (∀ op ∈ ops, op.selfClient = false) → ∀ q, AckInv q ((run H Hc w ops) q) by
    have hinit : ∀ q, AckInv q (World.init q) := by
      intro q
      refine ⟨rfl, rfl, fun k _ => ?_, fun k _ => rfl⟩
      unfold pot potCore ackCalls
      simp only [World.init, State.init, Core.init, PStore.empty, List.filter_nil, List.length_nil, Option.isSome_none,
        Bool.false_eq_true, if_false]
      by_cases h1 : k.seq ≥ 1 <;> simp [h1]
    have hfin := h World.init hinit hns c
    refine ⟨?_, hfin.other k⟩
    by_cases hk : k.src = c
    · have := hfin.own k hk; unfold pot at this; omega
    · rw [hfin.other k hk]; omega
  induction ops with
  | nil => intro w hw _; exact hw
  | cons op ops ih =>
    intro w hw hall
    simp only [run, List.foldl_cons]
    exact ih (fun op' hop' => hns op' (List.mem_cons_of_mem _ hop')) _
      (fun q => step_ackInv H Hc w op (hall op (by simp)) hw q)
      (fun op' hop' => hall op' (List.mem_cons_of_mem _ hop'))

/-- **Store keys of acknowledgements**: one slot per `(source, destination, sequence)`, disjoint
    from commitments and receipts (chain names contain no `/`). -/
theorem ack_key_injective {src src' dst dst' : Str} {n n' : Nat}
    (hs : '/' ∉ src) (hd : '/' ∉ dst) (hs' : '/' ∉ src') (hd' : '/' ∉ dst')
    (h : Host.packetAcknowledgementPath src dst n = Host.packetAcknowledgementPath src' dst' n') :
    src = src' ∧ dst = dst' ∧ n = n' :=
  (Host.seqPath_injective (by decide) hs hd (by decide) hs' hd' h).2

theorem ack_key_family_disjoint {src src' dst dst' : Str} {n n' : Nat}
    (hs : '/' ∉ src) (hd : '/' ∉ dst) (hs' : '/' ∉ src') (hd' : '/' ∉ dst') :
    Host.packetAcknowledgementPath src dst n ≠ Host.packetCommitmentPath src' dst' n' ∧
    Host.packetAcknowledgementPath src dst n ≠ Host.packetReceiptPath src' dst' n' := by
  refine ⟨?_, ?_⟩
  · intro h; have := (Host.seqPath_injective (by decide) hs hd (by decide) hs' hd' h).1; revert this; decide
  · intro h; have := (Host.seqPath_injective (by decide) hs hd (by decide) hs' hd' h).1; revert this; decide

end Tibc.C03
