import Tibc.Lemmas.MtSupplyWorld
import Tibc.Lemmas.RelayEditWitness
/-
  C05 — Multi-token transfers conserve supply across chains.
  PROPERTY THEOREMS ONLY.

  Status: PARTIAL. Proved: the 64-bit arithmetic of every token-module operation the transfer
  application uses (no wrap-around under the stated, locally checkable bounds; exact deltas of
  balances and supply), and that an error acknowledgement leaves balances and supplies unchanged.
  Proved over all histories of the N-chain world: on every chain, for every (class, id), the
  balances of all holders (users, the transfer module's escrow account) add up to the recorded
  supply and nothing exceeds 2^64-1 (`mt_supply_conserved`) — no operation, successful or failed,
  creates or destroys units except mint and burn, by exactly their amount.
  NOT proved: the cross-chain part (escrow on the origin = circulation downstream + in flight) —
  checked on the real chains by the provenance-ledger oracle of the `mt` stream.
-/
namespace Tibc.C05
open Tibc MtMod

variable (H : Data → Digest) (Hc : Str → Str)

/-- unchecked subtraction does not wrap when dominated by a preceding `≥` check -/
theorem subWrap_exact (a b : Nat) (ha : a ≤ U64MAX) (hb : b ≤ a) : subWrap a b = a - b := by
  unfold subWrap U64MAX at *
  have h1 : b % 2^64 = b := Nat.mod_eq_of_lt (by omega)
  rw [h1]
  have : a + 2^64 - b = (a - b) + 2^64 := by omega
  rw [this, Nat.add_mod_right]
  exact Nat.mod_eq_of_lt (by omega)

/-- `TransferOwner`: exact effect, no wrap-around, when the receiver's balance has room; the
    total of the two balances is conserved. -/
theorem transferOwner_exact (m : MtMod) (cls id : Str) (amt : Nat) (src dst : Addr) (hne : src ≠ dst)
    (hsrc : m.bal (cls, id, src) ≤ U64MAX) (henough : amt ≤ m.bal (cls, id, src))
    (hroom : m.bal (cls, id, dst) + amt ≤ U64MAX) :
    (transferOwner m cls id amt src dst).2 = .ok ∧
    (transferOwner m cls id amt src dst).1.bal (cls, id, src) = m.bal (cls, id, src) - amt ∧
    (transferOwner m cls id amt src dst).1.bal (cls, id, dst) = m.bal (cls, id, dst) + amt ∧
    (transferOwner m cls id amt src dst).1.supply = m.supply := by
  unfold transferOwner
  have h1 : ¬ m.bal (cls, id, src) < amt := by omega
  simp only [h1, if_false]
  unfold addBalance subBalance
  have hk : (cls, id, dst) ≠ (cls, id, src) := by
    intro h; apply hne; have := congrArg (fun x => x.2.2) h; exact this.symm
  simp only [upd_apply, hk, if_false]
  have h2 : ¬ U64MAX - m.bal (cls, id, dst) < amt := by omega
  simp only [h2, if_false]
  refine ⟨trivial, ?_, ?_, trivial⟩
  · have hk2 : (cls, id, src) ≠ (cls, id, dst) := fun h => hk h.symm
    simp only [upd_apply, hk2, if_false, if_true]
    exact subWrap_exact _ _ hsrc henough
  · simp [upd_apply]

/-- `TransferOwner` refused ⇒ nothing changed, provided the receiver's balance has room (which
    the supply bound guarantees: balances of distinct holders sum to at most the supply). -/
theorem transferOwner_err_unchanged (m : MtMod) (cls id : Str) (amt : Nat) (src dst : Addr) (e : Err)
    (hroom : amt ≤ m.bal (cls, id, src) → src ≠ dst → m.bal (cls, id, dst) + amt ≤ U64MAX)
    (hsrc : m.bal (cls, id, src) ≤ U64MAX)
    (herr : (transferOwner m cls id amt src dst).2 = .err e) :
    (transferOwner m cls id amt src dst).1 = m := by
  unfold transferOwner at herr ⊢
  by_cases h1 : m.bal (cls, id, src) < amt
  · simp [h1]
  · exfalso
    simp only [h1, if_false] at herr
    unfold addBalance subBalance at herr
    by_cases hsd : src = dst
    · subst hsd
      simp only [upd_same] at herr
      have := subWrap_exact (m.bal (cls, id, src)) amt hsrc (by omega)
      rw [this] at herr
      have h2 : ¬ U64MAX - (m.bal (cls, id, src) - amt) < amt := by unfold U64MAX at *; omega
      simp [h2] at herr
    · have hk : (cls, id, dst) ≠ (cls, id, src) := by
        intro h; apply hsd; have := congrArg (fun x => x.2.2) h; exact this.symm
      simp only [upd_apply, hk, if_false] at herr
      have := hroom (by omega) hsd
      have h2 : ¬ U64MAX - m.bal (cls, id, dst) < amt := by omega
      simp [h2] at herr

/-- `MintMT` / `IssueMT` increase supply and the recipient's balance by exactly `amt`, without
    wrap-around, or fail on the supply bound without touching balances or supply. -/
theorem mintMT_exact (m : MtMod) (cls id : Str) (amt : Nat) (rc : Addr)
    (hbal : m.bal (cls, id, rc) ≤ m.supply (cls, id)) (hsup : m.supply (cls, id) ≤ U64MAX) :
    ((mintMT m cls id amt rc).2 = .ok ∧ m.supply (cls, id) + amt ≤ U64MAX ∧
      (mintMT m cls id amt rc).1.supply = upd m.supply (cls, id) (m.supply (cls, id) + amt) ∧
      (mintMT m cls id amt rc).1.bal = upd m.bal (cls, id, rc) (m.bal (cls, id, rc) + amt)) ∨
    ((∃ e, (mintMT m cls id amt rc).2 = .err e) ∧ (mintMT m cls id amt rc).1 = m) := by
  unfold mintMT incSupply
  by_cases h1 : U64MAX - m.supply (cls, id) < amt
  · right; simp [h1]
  · left
    simp only [h1, if_false]
    unfold addBalance
    have h2 : ¬ U64MAX - m.bal (cls, id, rc) < amt := by omega
    simp only [h2, if_false]
    exact ⟨trivial, by unfold U64MAX at *; omega, trivial, trivial⟩

/-! ### exact refund (MT) -/

/-- **Refund is exact (MT).** If `SendMtTransfer` took `amt` units (escrowed them when moving away
    from the origin, burned them when moving back) on a chain whose multi-token module satisfies
    the conservation invariant, and the transfer is refunded, then every balance and every supply of
    the sending chain is exactly what it was before the send. -/
theorem mt_refund_exact (a a1 : Apps) (cls id full : Str) (sender receiver : Addr) (away : Bool) (dc md : String) (amt : Nat)
    (hinv : MtInv a.mt) (hcons : ibcClass Hc full = cls) (hsv : addrValid sender = true) (hne : sender ≠ mtModAddr)
    (htok : mtSendToken a cls id amt sender away = (a1, .ok)) :
    let d : MtData := { cls := full, id := id, data := md, sender := sender, receiver := receiver, away := away,
                        destContract := dc, amount := amt }
    (mtRefund Hc a1 d).2 = .ok ∧ (mtRefund Hc a1 d).1.mt.bal = a.mt.bal ∧ (mtRefund Hc a1 d).1.mt.supply = a.mt.supply := by
  intro d
  have hvc : ibcClass Hc d.cls = cls := hcons
  have hds : d.sender = sender := rfl
  have hdi : d.id = id := rfl
  have hda : d.amount = amt := rfl
  obtain ⟨A, hA⟩ := hinv
  obtain ⟨B0, hB0, hs0, hsub0⟩ := hA.extend sender
  obtain ⟨B, hB, hm, hsub⟩ := hB0.extend mtModAddr
  have hs : sender ∈ B := hsub sender hs0
  have hbs := hB.bal_le cls id sender
  have hbm := hB.bal_le cls id mtModAddr
  have hsup := hB.2.2.2 cls id
  have htwo := two_le_sumOver B hB.1 (fun x => a.mt.bal (cls, id, x)) sender mtModAddr hs hm hne
  rw [hB.2.2.1 cls id] at htwo
  have hk1 : ¬ ((cls, id, mtModAddr) = (cls, id, sender)) := fun h => hne (congrArg (fun x => x.2.2) h).symm
  have hk2 : ¬ ((cls, id, sender) = (cls, id, mtModAddr)) := fun h => hne (congrArg (fun x => x.2.2) h)
  unfold mtSendToken at htok
  unfold mtRefund
  simp only [hds, hdi, hda, hsv, Bool.not_true, Bool.false_eq_true, if_false, hvc]
  cases away with
  | true =>
    simp only [if_true] at htok
    by_cases hen : amt ≤ a.mt.bal (cls, id, sender)
    · rw [transferOwner_eq a.mt cls id amt sender mtModAddr hne (by omega) hen (by omega)] at htok
      simp only [liftMt, Prod.mk.injEq, and_true] at htok
      subst htok
      have hd : d.away = true := rfl
      simp only [hd, if_true, liftMt]
      rw [transferOwner_eq _ cls id amt mtModAddr sender (Ne.symm hne) (by simp [upd_apply]; omega)
            (by simp [upd_apply]) (by simp [upd_apply, hk2]; omega)]
      refine ⟨rfl, ?_, rfl⟩
      funext k
      simp only [upd_apply]
      by_cases e1 : k = (cls, id, sender)
      · subst e1; simp [hk2]; omega
      · by_cases e2 : k = (cls, id, mtModAddr)
        · subst e2; simp [hk1]
        · simp [e1, e2]
    · -- the send would have been refused
      unfold transferOwner at htok
      have : a.mt.bal (cls, id, sender) < amt := by omega
      simp [this, liftMt] at htok
  | false =>
    simp only [Bool.false_eq_true, if_false] at htok
    by_cases hen : amt ≤ a.mt.bal (cls, id, sender)
    · rw [burn_eq a.mt cls id amt sender (by omega) hen hsup (by omega)] at htok
      simp only [liftMt, Prod.mk.injEq, and_true] at htok
      subst htok
      have hd : d.away = false := rfl
      simp only [hd, Bool.false_eq_true, if_false, liftMt]
      rw [mintMT_eq _ cls id amt mtModAddr (by simp [upd_apply]; omega) (by simp [upd_apply, hk1]; omega)]
      simp only
      rw [transferOwner_eq _ cls id amt mtModAddr sender (Ne.symm hne) (by simp [upd_apply, hk1]; omega)
            (by simp [upd_apply, hk1]) (by simp [upd_apply, hk1, hk2]; omega)]
      refine ⟨rfl, ?_, ?_⟩
      · funext k
        simp only [upd_apply]
        by_cases e1 : k = (cls, id, sender)
        · subst e1; simp [hk1, hk2]; omega
        · by_cases e2 : k = (cls, id, mtModAddr)
          · subst e2; simp [hk1]
          · simp [e1, e2]
      · funext k
        simp only [upd_apply]
        by_cases e1 : k = (cls, id)
        · subst e1; simp; omega
        · simp [e1]
    · unfold burn at htok
      have : a.mt.bal (cls, id, sender) < amt := by omega
      simp [this, liftMt] at htok

/-! ### per-chain conservation over all histories -/

/-- **Conservation on every chain, over every history.** After any sequence of operations on any
    number of chains (user mints / sends / burns, transfers out, receives, refunds, error
    acknowledgements, failed and rolled-back messages), on every chain there is a finite set of
    holders outside which every balance is zero, the balances of every (class, id) over that set add
    up to exactly its recorded supply, and every supply (hence every balance) fits 64 bits: no
    wrap-around ever happened and units are created and destroyed only by mint and burn. -/
theorem mt_supply_conserved (ops : List Op) (c : Chain) : MtInv ((run H Hc World.init ops) c).apps.mt := by
  suffices h : ∀ (w : World), (∀ q, MtInv (w q).apps.mt) → ∀ q, MtInv ((run H Hc w ops) q).apps.mt by
    exact h World.init (fun q => mtInv_empty) c
  induction ops with
  | nil => intro w hw; exact hw
  | cons op ops ih =>
    intro w hw
    simp only [run, List.foldl_cons]
    exact ih _ (fun q => step_mtInv H Hc w op hw q)

/-- consequence: no holder ever has more than the supply, and the supply never exceeds 2^64-1 -/
theorem mt_balance_le_supply (ops : List Op) (c : Chain) (cls id : Str) (a : Addr) :
    ((run H Hc World.init ops) c).apps.mt.bal (cls, id, a) ≤ ((run H Hc World.init ops) c).apps.mt.supply (cls, id) ∧
    ((run H Hc World.init ops) c).apps.mt.supply (cls, id) ≤ U64MAX := by
  obtain ⟨A, hA⟩ := mt_supply_conserved H Hc ops c
  exact ⟨hA.bal_le cls id a, hA.2.2.2 cls id⟩

/-- **The cross-chain part of the statement is FALSE of the code** (known finding
    F-C05-relayedit; root cause C13). In the history `RelayEdit.mtHistory` every step is accepted;
    9 units are minted on A and 4 of them sent directly to C. At the end `alice` holds 9 units on
    A again, `carol` holds 4 voucher units on C, and A's escrow is empty: 13 user-held units for 9
    minted, and vouchers in circulation that nothing backs. (Per chain, supply = sum of balances
    still holds — `mt_supply_conserved`.) -/
theorem conservation_fails_under_relay_edit :
    RelayEdit.results RelayEdit.mtHistory = List.replicate 13 Res.ok ∧
    (RelayEdit.mtWorld "A").apps.mt.supply ("gold".toList, "bar".toList) = 9 ∧
    (RelayEdit.mtWorld "A").apps.mt.bal ("gold".toList, "bar".toList, "alice") = 9 ∧
    (RelayEdit.mtWorld "A").apps.mt.bal ("gold".toList, "bar".toList, mtModAddr) = 0 ∧
    (RelayEdit.mtWorld "C").apps.mt.bal (ibcClass id "mt/A/C/gold".toList, "bar".toList, "carol") = 4 := by
  decide

/-- **Units locked for good by a port edit** (known finding F-C05-portedit; root cause C13: the
    commitment does not bind the port, and both transfer applications' packet data share one
    protobuf layout). In `RelayEdit.portHistory` every step is accepted: 4 of 9 units are sent
    from A to C, the packet is delivered to C with `port := "NFT"`, the NFT application mints an
    NFT voucher `nft/A/C/gold : bar` for `carol` and answers with a success acknowledgement. A's
    escrow keeps the 4 units although no multi-token voucher exists on C and nothing is in flight
    (the commitment is gone). -/
theorem escrow_unbacked_under_port_edit :
    RelayEdit.results RelayEdit.portHistory = List.replicate 11 Res.ok ∧
    (RelayEdit.portWorld "A").apps.mt.bal ("gold".toList, "bar".toList, mtModAddr) = 4 ∧
    (RelayEdit.portWorld "C").apps.mt.supply (ibcClass id "mt/A/C/gold".toList, "bar".toList) = 0 ∧
    (RelayEdit.portWorld "C").apps.nft.owner (ibcClass id "nft/A/C/gold".toList, "bar".toList) = some "carol" ∧
    (RelayEdit.portWorld "A").core.ps.commit RelayEdit.mpkt.key = none := by
  decide

end Tibc.C05
