import Tibc.App.Transfer
/-
  C05 — Multi-token transfers conserve supply across chains.
  PROPERTY THEOREMS ONLY.

  Status: PARTIAL. Proved: the 64-bit arithmetic of every token-module operation the transfer
  application uses (no wrap-around under the stated, locally checkable bounds; exact deltas of
  balances and supply), and that an error acknowledgement leaves balances and supplies unchanged.
  NOT yet proved: the cross-chain sum invariant (escrow = downstream circulation + in flight;
  user-held + in-flight = natively minted) over all histories — checked on the real chains by the
  provenance-ledger oracle of the `mt` stream (DESIGN §5 C05).
-/
namespace Tibc.C05
open Tibc MtMod

variable (Hc : Str → Str)

/-- unchecked subtraction does not wrap when dominated by a preceding `≥` check -/
theorem subWrap_exact (a b : Nat) (ha : a ≤ U64MAX) (hb : b ≤ a) : subWrap a b = a - b := by
  unfold subWrap U64MAX at *
  have h1 : b % 2^64 = b := Nat.mod_eq_of_lt (by omega)
  rw [h1]
  have : a + 2^64 - b = (a - b) + 2^64 := by omega
  rw [this, Nat.add_mod_right]
  exact Nat.mod_eq_of_lt (by omega)

/-- `TransferOwner`: exact effect, no wrap-around, when the receiver's balance has room; the
    total of the two balances is conserved. -/
theorem transferOwner_exact (m : MtMod) (cls id : Str) (amt : Nat) (src dst : Addr) (hne : src ≠ dst)
    (hsrc : m.bal (cls, id, src) ≤ U64MAX) (henough : amt ≤ m.bal (cls, id, src))
    (hroom : m.bal (cls, id, dst) + amt ≤ U64MAX) :
    (transferOwner m cls id amt src dst).2 = .ok ∧
    (transferOwner m cls id amt src dst).1.bal (cls, id, src) = m.bal (cls, id, src) - amt ∧
    (transferOwner m cls id amt src dst).1.bal (cls, id, dst) = m.bal (cls, id, dst) + amt ∧
    (transferOwner m cls id amt src dst).1.supply = m.supply := by
  unfold transferOwner
  have h1 : ¬ m.bal (cls, id, src) < amt := by omega
  simp only [h1, if_false]
  unfold addBalance subBalance
  have hk : (cls, id, dst) ≠ (cls, id, src) := by
    intro h; apply hne; have := congrArg (fun x => x.2.2) h; exact this.symm
  simp only [upd_apply, hk, if_false]
  have h2 : ¬ U64MAX - m.bal (cls, id, dst) < amt := by omega
  simp only [h2, if_false]
  refine ⟨trivial, ?_, ?_, trivial⟩
  · have hk2 : (cls, id, src) ≠ (cls, id, dst) := fun h => hk h.symm
    simp only [upd_apply, hk2, if_false, if_true]
    exact subWrap_exact _ _ hsrc henough
  · simp [upd_apply]

/-- `TransferOwner` refused ⇒ nothing changed, provided the receiver's balance has room (which
    the supply bound guarantees: balances of distinct holders sum to at most the supply). -/
theorem transferOwner_err_unchanged (m : MtMod) (cls id : Str) (amt : Nat) (src dst : Addr) (e : Err)
    (hroom : amt ≤ m.bal (cls, id, src) → src ≠ dst → m.bal (cls, id, dst) + amt ≤ U64MAX)
    (hsrc : m.bal (cls, id, src) ≤ U64MAX)
    (herr : (transferOwner m cls id amt src dst).2 = .err e) :
    (transferOwner m cls id amt src dst).1 = m := by
  unfold transferOwner at herr ⊢
  by_cases h1 : m.bal (cls, id, src) < amt
  · simp [h1]
  · exfalso
    simp only [h1, if_false] at herr
    unfold addBalance subBalance at herr
    by_cases hsd : src = dst
    · subst hsd
      simp only [upd_same] at herr
      have := subWrap_exact (m.bal (cls, id, src)) amt hsrc (by omega)
      rw [this] at herr
      have h2 : ¬ U64MAX - (m.bal (cls, id, src) - amt) < amt := by unfold U64MAX at *; omega
      simp [h2] at herr
    · have hk : (cls, id, dst) ≠ (cls, id, src) := by
        intro h; apply hsd; have := congrArg (fun x => x.2.2) h; exact this.symm
      simp only [upd_apply, hk, if_false] at herr
      have := hroom (by omega) hsd
      have h2 : ¬ U64MAX - m.bal (cls, id, dst) < amt := by omega
      simp [h2] at herr

/-- `MintMT` / `IssueMT` increase supply and the recipient's balance by exactly `amt`, without
    wrap-around, or fail on the supply bound without touching balances or supply. -/
theorem mintMT_exact (m : MtMod) (cls id : Str) (amt : Nat) (rc : Addr)
    (hbal : m.bal (cls, id, rc) ≤ m.supply (cls, id)) (hsup : m.supply (cls, id) ≤ U64MAX) :
    ((mintMT m cls id amt rc).2 = .ok ∧ m.supply (cls, id) + amt ≤ U64MAX ∧
      (mintMT m cls id amt rc).1.supply = upd m.supply (cls, id) (m.supply (cls, id) + amt) ∧
      (mintMT m cls id amt rc).1.bal = upd m.bal (cls, id, rc) (m.bal (cls, id, rc) + amt)) ∨
    ((∃ e, (mintMT m cls id amt rc).2 = .err e) ∧ (mintMT m cls id amt rc).1 = m) := by
  unfold mintMT incSupply
  by_cases h1 : U64MAX - m.supply (cls, id) < amt
  · right; simp [h1]
  · left
    simp only [h1, if_false]
    unfold addBalance
    have h2 : ¬ U64MAX - m.bal (cls, id, rc) < amt := by omega
    simp only [h2, if_false]
    exact ⟨trivial, by unfold U64MAX at *; omega, trivial, trivial⟩

end Tibc.C05
