import Tibc.Lemmas.Msg
import Tibc.World
/-
  C19 — Failed messages leave no trace; error acknowledgements leave no token effects.
  PROPERTY THEOREMS ONLY.
-/
namespace Tibc.C19
open Tibc Core

variable (H : Data → Digest) (Hc : Str → Str)

/-- A TIBC message that returns an error leaves the chain's whole modelled state (packet store,
    clients, token modules, class traces, ghost logs) exactly as it was — and no other chain is
    touched. (`deliver` models BaseApp's branch-and-discard; the content is that the handlers
    hand every error up to it.) -/
theorem failed_msg_unchanged (w : World) (c : Chain) (m : Msg) (e : Err)
    (herr : (step H Hc w (.tx c m)).2 = .err e) : (step H Hc w (.tx c m)).1 = w := by
  simp only [step] at herr ⊢
  rw [deliver_err_unchanged H Hc (w c) m e herr]
  funext q
  simp [setChain, upd_apply]
  intro hq; rw [hq]

/-- The one path on which the message server swallows an error: a relay chain that will not
    forward a packet (routing rules, unknown destination). The transaction succeeds and records
    exactly the receipt and the error acknowledgement; no commitment, no callback. -/
theorem relay_rejection_records_exactly_receipt_and_ack (s : State) (p : Packet) (π : Proof) (h : Nat) (t : String)
    (hrecv : s.core.recvPacket H p π h = ((s.core.setReceipt p.key).emit (pktEvent "recv_packet" p), .err .unauthorized)) :
    (msgRecvPacket H Hc s p π h t).1.apps = s.apps ∧ (msgRecvPacket H Hc s p π h t).1.cbLog = s.cbLog ∧
    (msgRecvPacket H Hc s p π h t).1.core =
      (((s.core.setReceipt p.key).emit (pktEvent "recv_packet" p)).writeAck H p (.ackErr "756e617574686f72697a6564")).1 := by
  unfold msgRecvPacket
  rw [hrecv]
  exact ⟨rfl, rfl, rfl⟩

theorem nftVoucherClass_tokens (a : Apps) (path : Str) :
    (nftVoucherClass Hc a path).1.nft = a.nft ∧ (nftVoucherClass Hc a path).1.mt = a.mt := by
  unfold nftVoucherClass; simp only; split <;> exact ⟨rfl, rfl⟩

theorem nftRecvAway_err_owner (a : Apps) (p : Packet) (d : NftData) (e : Err)
    (herr : (nftRecvAway Hc a p d).2 = .err e) :
    (nftRecvAway Hc a p d).1.nft.owner = a.nft.owner ∧ (nftRecvAway Hc a p d).1.mt = a.mt := by
  have hv := nftVoucherClass_tokens Hc a (ClassPath.getAway nftPfx p.src.toList p.dst.toList d.cls)
  unfold nftRecvAway at herr ⊢
  simp only at herr ⊢
  generalize (nftVoucherClass Hc a (ClassPath.getAway nftPfx p.src.toList p.dst.toList d.cls)).1 = a1 at hv herr ⊢
  generalize (nftVoucherClass Hc a (ClassPath.getAway nftPfx p.src.toList p.dst.toList d.cls)).2 = vc at herr ⊢
  cases hden : a1.nft.denom vc with
  | some dn =>
    simp only [hden] at herr ⊢
    cases hown : a1.nft.owner (vc, d.id) with
    | some o =>
      have hden' := hden; have hown' := hown
      rw [hv.1] at hden' hown'
      simp [liftNft, NftMod.mint, hden', hown', hv.1, hv.2]
    | none =>
      exfalso
      simp [liftNft, NftMod.mint, hden, hown, NftMod.transferOwner, bne_self_eq_false] at herr
  | none =>
    simp only [hden] at herr ⊢
    cases hown : a1.nft.owner (vc, d.id) with
    | some o =>
      have hden' := hden; have hown' := hown
      rw [hv.1] at hden' hown'
      simp [liftNft, NftMod.issueDenom, NftMod.mint, hden', hown', hv.1, hv.2]
    | none =>
      exfalso
      simp [liftNft, NftMod.issueDenom, NftMod.mint, hden, hown, NftMod.transferOwner, bne_self_eq_false] at herr

theorem nftRecvBack_err_owner (a : Apps) (d : NftData) (e : Err)
    (herr : (nftRecvBack Hc a d).2 = .err e) :
    (nftRecvBack Hc a d).1.nft.owner = a.nft.owner ∧ (nftRecvBack Hc a d).1.mt = a.mt := by
  unfold nftRecvBack at herr ⊢
  split
  · exact ⟨rfl, rfl⟩
  · split
    · exact ⟨rfl, rfl⟩
    · rename_i np hgb
      simp only [hgb] at herr
      unfold NftMod.transferOwner at herr ⊢
      cases ho : a.nft.owner (ibcClass Hc np, d.id) with
      | none => simp [liftNft]
      | some o =>
        simp only [ho] at herr ⊢
        by_cases hne : o = nftModAddr
        · subst hne
          cases hd : a.nft.denom (ibcClass Hc np) with
          | none => simp [liftNft]
          | some dn => simp_all [liftNft, bne_self_eq_false]
        · simp [liftNft, hne]

/-- NFT: if `OnRecvPacket` answers with an error acknowledgement, token ownership on the
    receiving chain is unchanged, and so is the multi-token module (what may remain is an empty
    voucher class and its class-trace entry — named explicitly: `nft.denom` and `nftTraces` are
    not claimed). -/
theorem nft_error_ack_no_ownership_effect (a : Apps) (p : Packet) (d : NftData) (e : Err)
    (herr : (nftOnRecv Hc a p d).2 = .err e) :
    (nftOnRecv Hc a p d).1.nft.owner = a.nft.owner ∧ (nftOnRecv Hc a p d).1.mt = a.mt := by
  unfold nftOnRecv at herr ⊢
  split
  · exact ⟨rfl, rfl⟩
  · split
    · exact ⟨rfl, rfl⟩
    · split
      · exact ⟨rfl, rfl⟩
      · rename_i h1 h2 h3
        simp only [h1, h2, h3, if_false] at herr
        split
        · rename_i haway
          simp only [haway, if_true] at herr
          exact nftRecvAway_err_owner Hc a p d e herr
        · rename_i haway
          simp only [haway, if_false] at herr
          exact nftRecvBack_err_owner Hc a d e herr

end Tibc.C19
