import Tibc.LC.Status
import Tibc.Lemmas.Msg
/-
  C14 — Expired light clients are frozen out, for every client type.
  PROPERTY THEOREMS ONLY.
-/
namespace Tibc.C14
open Tibc Core

variable (H : Data → Digest) (Hc : Str → Str)

/-- Tendermint (nanoseconds): Expired iff the newest trusted state is at least one trusting
    period old; Active strictly inside the period; Unknown iff that state is missing. -/
theorem tm_status_iff (t : Option Nat) (period now : Nat) :
    (LCStatus.tm t period now = .expired ↔ ∃ t0, t = some t0 ∧ t0 + period ≤ now) ∧
    (LCStatus.tm t period now = .active ↔ ∃ t0, t = some t0 ∧ now < t0 + period) ∧
    (LCStatus.tm t period now = .unknown ↔ t = none) := by
  unfold LCStatus.tm
  cases t with
  | none => simp
  | some t0 =>
    by_cases h : t0 + period ≤ now
    · simp [h]
    · simp [h]; omega

/-- BSC and ETH (seconds; the block time's sub-second part is irrelevant): Expired iff the newest
    trusted state's timestamp plus the trusting period lies strictly before the block time in whole
    seconds. -/
theorem eth_status_iff (ts : Option Nat) (period nowNs : Nat) :
    (LCStatus.eth ts period nowNs = .expired ↔ ∃ t0, ts = some t0 ∧ t0 + period < nowNs / 1000000000) ∧
    (LCStatus.eth ts period nowNs = .active ↔ ∃ t0, ts = some t0 ∧ nowNs / 1000000000 ≤ t0 + period) ∧
    (LCStatus.eth ts period nowNs = .unknown ↔ ts = none) := by
  unfold LCStatus.eth
  cases ts with
  | none => simp
  | some t0 =>
    by_cases h : t0 + period < nowNs / 1000000000
    · simp [h]
    · simp [h]; omega

/-- the sub-second part of the block time never matters for BSC / ETH -/
theorem eth_status_subsecond (ts : Option Nat) (period sec ns1 ns2 : Nat) (h1 : ns1 < 1000000000) (h2 : ns2 < 1000000000) :
    LCStatus.eth ts period (sec * 1000000000 + ns1) = LCStatus.eth ts period (sec * 1000000000 + ns2) := by
  unfold LCStatus.eth
  have e1 : (sec * 1000000000 + ns1) / 1000000000 = sec := by omega
  have e2 : (sec * 1000000000 + ns2) / 1000000000 = sec := by omega
  rw [e1, e2]

/-- The model's `Client.active` is the Tendermint rule. -/
theorem client_active_iff (cl : Client) (now : Nat) :
    cl.active now = true ↔ (cl.cons cl.latest).isSome = true ∧ now < cl.consTime cl.latest + cl.period := by
  unfold Client.active
  simp [Bool.and_eq_true]

/-- **Packets, acknowledgements and clean requests require an Active client**: whenever one of
    the three keeper functions changes the state or succeeds, the proving client was Active at the
    current block time. -/
theorem packets_require_active (s : Core) (p : Packet) (a : Data) (cp : CleanPacket) (π : Proof) (h : Nat) :
    ((recvPacket H s p π h).2 = .ok ∨ (recvPacket H s p π h).1 ≠ s →
        ∃ cl, s.clients (recvProver s p) = some cl ∧ cl.active s.now = true) ∧
    ((acknowledgePacket H s p a π h).2 = .ok ∨ (acknowledgePacket H s p a π h).1 ≠ s →
        ∃ cl, s.clients (ackProver s p) = some cl ∧ cl.active s.now = true) ∧
    ((recvCleanPacket s cp π h).2 = .ok ∨ (recvCleanPacket s cp π h).1 ≠ s →
        ∃ cl, s.clients (cleanProver s cp) = some cl ∧ cl.active s.now = true) := by
  refine ⟨?_, ?_, ?_⟩
  · intro hch
    rcases recvPacket_cases H s p π h with ⟨⟨_, _, cl, _, hcl, ha, _⟩, _⟩ | ⟨_, e, _, he⟩
    · exact ⟨cl, hcl, ha⟩
    · rw [he] at hch; rcases hch with h1 | h1
      · cases h1
      · exact absurd rfl h1
  · intro hch
    rcases acknowledgePacket_cases H s p a π h with ⟨⟨_, _, cl, _, hcl, ha, _⟩, _⟩ | ⟨_, e, he⟩
    · exact ⟨cl, hcl, ha⟩
    · rw [he] at hch; rcases hch with h1 | h1
      · cases h1
      · exact absurd rfl h1
  · intro hch
    rcases recvCleanPacket_cases s cp π h with ⟨⟨_, cl, _, hcl, ha, _⟩, _⟩ | ⟨_, e, he⟩
    · exact ⟨cl, hcl, ha⟩
    · rw [he] at hch; rcases hch with h1 | h1
      · cases h1
      · exact absurd rfl h1

/-- A client that is not Active refuses header updates (Tendermint; BSC and ETH go through the
    same `Keeper.UpdateClient` gate, modelled in `updateClientMsg`). -/
theorem update_requires_active (Hv : List TM.Val → Digest) (cl : TM.Client) (hdr : TM.Header) (now : Nat)
    (hna : TM.status cl now ≠ .active) : TM.updateClient Hv cl hdr now = .error .notActive := by
  unfold TM.updateClient
  have : (TM.status cl now != TM.Status.active) = true := by simpa using hna
  simp [this]

end Tibc.C14
