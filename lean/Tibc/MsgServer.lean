import Tibc.App.Transfer
/-
  `core/keeper/msg_server.go` (packet messages), the application modules' TIBC callbacks
  (`moudle.go`), and `deliver` = BaseApp: stateless `ValidateBasic`, handler, rollback on error.
-/
namespace Tibc

/-- messages of one chain (transactions) and direct keeper calls the test harness makes -/
inductive Msg
  | recvPacket (p : Packet) (π : Proof) (h : Nat) (errText : String)
      -- `errText`: text of the error acknowledgement the implementation produced, if any
      -- (message texts are outside the model; it is an input, like heights)
  | acknowledgement (p : Packet) (ack : Data) (π : Proof) (h : Nat)
  | cleanPacket (cp : CleanPacket)
  | recvCleanPacket (cp : CleanPacket) (π : Proof) (h : Nat)
  | nftTransfer (cls id : Str) (sender receiver : Addr) (dst relay : Chain) (destContract : String)
  | mtTransfer (cls id : Str) (sender receiver : Addr) (dst relay : Chain) (destContract : String) (amount : Nat) (mtData : String)
deriving Repr

section
variable (H : Data → Digest) (Hc : Str → Str)

/-- `NonFungibleTokenPacketData.Unmarshal` on payload bytes. The two transfer applications'
    packet data share one protobuf layout (fields 1–7: class, id, uri / data, sender, receiver,
    away_from_origin, dest_contract; the multi-token amount is field 8 and unknown fields are
    skipped), so multi-token packet bytes decode as NFT packet data and vice versa. -/
def decodeNft : Data → Option NftData
  | .nft d => some d
  | .mt d => some { cls := d.cls, id := d.id, uri := d.data, sender := d.sender, receiver := d.receiver,
                    away := d.away, destContract := d.destContract }
  | _ => none

/-- `MultiTokenPacketData.Unmarshal` on payload bytes (an NFT packet carries no field 8:
    amount 0) -/
def decodeMt : Data → Option MtData
  | .mt d => some d
  | .nft d => some { cls := d.cls, id := d.id, data := d.uri, sender := d.sender, receiver := d.receiver,
                     away := d.away, destContract := d.destContract, amount := 0 }
  | _ => none

/-- result of an application's `OnRecvPacket`: `.error` aborts the transaction, `.ok ack`
    is the acknowledgement to write -/
def appOnRecv (s : Apps) (p : Packet) (errText : String) : Apps × Except Err Data :=
  if p.port == mockPort then (s, .ok (.raw "6d6f636b2061636b6e6f776c656467656d656e74"))  -- hex("mock acknowledgement")
  else if p.port == nftPort then
    match decodeNft p.data with
    | some d =>
      match nftOnRecv Hc s p d with
      | (s, .ok) => (s, .ok (.ackOk "01"))
      | (s, .err _) => (s, .ok (.ackErr errText))
    | none => (s, .error .unknownRequest)
  else if p.port == mtPort then
    match decodeMt p.data with
    | some d =>
      match mtOnRecv Hc s p d with
      | (s, .ok) => (s, .ok (.ackOk "01"))
      | (s, .err _) => (s, .ok (.ackErr errText))
    | none => (s, .error .unknownRequest)
  else (s, .error .invalidRoute)

/-- is a port routed (`Router.GetRoute`) -/
def routed (port : String) : Bool := port == mockPort || port == nftPort || port == mtPort

/-- an application's `OnAcknowledgementPacket` -/
def appOnAck (s : Apps) (p : Packet) (ack : Data) : Apps × Res :=
  if p.port == mockPort then (s, .ok)
  else if p.port == nftPort then
    match ack with
    | .ackOk _ => (match decodeNft p.data with | some _ => (s, .ok) | none => (s, .err .unknownRequest))
    | .ackErr _ => (match decodeNft p.data with | some d => nftRefund Hc s d | none => (s, .err .unknownRequest))
    | _ => (s, .err .unknownRequest)
  else if p.port == mtPort then
    match ack with
    | .ackOk _ => (match decodeMt p.data with | some _ => (s, .ok) | none => (s, .err .unknownRequest))
    | .ackErr _ => (match decodeMt p.data with | some d => mtRefund Hc s d | none => (s, .err .unknownRequest))
    | _ => (s, .err .unknownRequest)
  else (s, .err .invalidRoute)

def logCb (s : State) (kind : String) (p : Packet) : State :=
  { s with cbLog := s.cbLog ++ [⟨kind, p.port, p.key⟩] }

/-- `msgServer.RecvPacket` -/
def msgRecvPacket (s : State) (p : Packet) (π : Proof) (h : Nat) (errText : String) : State × Res :=
  match s.core.recvPacket H p π h with
  | (c, .err .unauthorized) =>
    let r := c.writeAck H p (.ackErr "756e617574686f72697a6564")  -- hex("unauthorized")
    ({ s with core := r.1 }, r.2)
  | (c, .err e) => ({ s with core := c }, .err e)
  | (c, .ok) =>
    if p.dst == c.name then
      if !routed p.port then ({ s with core := c }, .err .invalidRoute)
      else
        let log := s.cbLog ++ [⟨"recv", p.port, p.key⟩]
        match appOnRecv Hc s.apps p errText with
        | (a, .error e) => ({ core := c, apps := a, cbLog := log }, .err e)
        | (a, .ok ack) =>
          let r := c.writeAck H p ack
          ({ core := r.1, apps := a, cbLog := log }, r.2)
    else ({ s with core := c }, .ok)

/-- `msgServer.Acknowledgement`: the application callback (and the route lookup) only on the
    packet's source chain; a relay chain just passes the acknowledgement on -/
def msgAcknowledgement (s : State) (p : Packet) (ack : Data) (π : Proof) (h : Nat) : State × Res :=
  let isSource := p.src == s.core.name
  if isSource && !routed p.port then (s, .err .invalidRoute)
  else
    match s.core.acknowledgePacket H p ack π h with
    | (c, .err e) => ({ s with core := c }, .err e)
    | (c, .ok) =>
      if isSource then
        let r := appOnAck Hc s.apps p ack
        ({ core := c, apps := r.1, cbLog := s.cbLog ++ [⟨"ack", p.port, p.key⟩] }, r.2)
      else ({ s with core := c }, .ok)

/-- stateless `ValidateBasic` of each message -/
def validateBasic : Msg → Res
  | .recvPacket p π h _ =>
    if π == .empty then .err .invalidProof
    else if h == 0 then .err .invalidHeight
    else if !Core.packetBasic p then .err .invalidPacket
    else .ok
  | .acknowledgement p ack π h =>
    if π == .empty then .err .invalidProof
    else if h == 0 then .err .invalidHeight
    else if ack.isEmpty then .err .invalidAck
    else if !Core.packetBasic p then .err .invalidPacket
    else .ok
  | .cleanPacket cp => if cp.seq == 0 then .err .invalidPacket else .ok
  | .recvCleanPacket cp _ _ => if cp.seq == 0 then .err .invalidPacket else .ok
  | _ => .ok

/-- the message handlers -/
def handle (s : State) : Msg → State × Res
  | .recvPacket p π h t => msgRecvPacket H Hc s p π h t
  | .acknowledgement p ack π h => msgAcknowledgement H Hc s p ack π h
  | .cleanPacket cp => liftCore s (s.core.cleanPacket cp)
  | .recvCleanPacket cp π h => liftCore s (s.core.recvCleanPacket cp π h)
  | .nftTransfer cls id sender receiver dst relay dc =>
      if !addrValid sender then (s, .err .invalidAddress)
      else sendNftTransfer H s cls id sender receiver dst relay dc
  | .mtTransfer cls id sender receiver dst relay dc amt md =>
      if !addrValid sender then (s, .err .invalidAddress)
      else sendMtTransfer H s cls id sender receiver dst relay dc amt md

/-- BaseApp: `ValidateBasic`, then the handler on a branch of the state that is discarded
    when the handler returns an error (trusted: DESIGN §3). -/
def deliver (s : State) (m : Msg) : State × Res :=
  match validateBasic m with
  | .err e => (s, .err e)
  | .ok =>
    match handle H Hc s m with
    | (s', .ok) => (s', .ok)
    | (_, .err e) => (s, .err e)

end
end Tibc
