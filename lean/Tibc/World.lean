import Tibc.MsgServer
/-
  N chains, the operations relayers / users / governance can perform on them, `step`, `run`.
-/
namespace Tibc

abbrev World := Chain → State

def Core.init (name : Chain) : Core :=
  { name := name, ps := PStore.empty, clients := fun _ => none, rules := none,
    relayers := fun _ => [], authority := "gov", now := 0, evlog := [], sent := [], ackLog := [] }

def State.init (name : Chain) : State :=
  { core := Core.init name,
    apps := { nft := NftMod.empty, nftTraces := fun _ => none, mt := MtMod.empty, mtTraces := fun _ => none },
    cbLog := [] }

def World.init : World := fun c => State.init c

def Client.init (ctype : String) (h t period : Nat) (sn : Snapshot) : Client :=
  { latest := h, cons := fun h' => if h' = h then some sn else none,
    consTime := fun h' => if h' = h then t else 0, period := period, ctype := ctype }

/-- operations on the world -/
inductive Op
  /-- a transaction on chain `c` -/
  | tx (c : Chain) (m : Msg)
  /-- a module calling `SendPacket` directly (no transaction around it) -/
  | ksend (c : Chain) (p : Packet)
  /-- governance creates, on `c`, a client of the modelled chain `q` at `q`'s height `h` -/
  | createClient (c q : Chain) (h t period : Nat)
  /-- a relayer updates `c`'s client of `q` with `q`'s header at height `h` (time `t`):
      at the ideal boundary the client learns `q`'s current provable state -/
  | update (c q : Chain) (h t : Nat)
  /-- governance sets routing rules (`none`: the rule list was rejected) -/
  | setRules (c : Chain) (rules : List Str)
  /-- a new block with time `now` starts on `c` -/
  | setTime (c : Chain) (now : Nat)
  /-- `MsgCreateClient` signed by `auth`; `csValid` = the client state passes its stateless
      `Validate()` (its fields are outside the model) -/
  | createClientMsg (c : Chain) (auth : Addr) (q : Chain) (ctype : String) (h t period : Nat) (csValid : Bool) (consSame : Bool)
  /-- `MsgUpgradeClient` -/
  | upgradeClientMsg (c : Chain) (auth : Addr) (q : Chain) (ctype : String) (h t period : Nat) (csValid : Bool) (consSame : Bool)
  /-- `MsgRegisterRelayer` -/
  | registerRelayerMsg (c : Chain) (auth : Addr) (q : Chain) (relayers : List Addr)
  /-- `MsgSetRoutingRules` -/
  | setRulesMsg (c : Chain) (auth : Addr) (rules : List Str)
  /-- `MsgUpdateClient` signed by `signer`; `headerOk` = the light client accepts the header
      (decided by C07 / C17 / C18) -/
  | updateClientMsg (c : Chain) (signer : Addr) (q : Chain) (h t : Nat) (headerOk : Bool)
  /-- NFT-module user messages -/
  | nftIssue (c : Chain) (sender : Addr) (cls : Str) (mintRestricted : Bool)
  | nftMint (c : Chain) (sender : Addr) (cls id : Str) (uri : String) (recipient : Addr)
  | nftSend (c : Chain) (sender : Addr) (cls id : Str) (recipient : Addr)
  | nftBurn (c : Chain) (sender : Addr) (cls id : Str)
  /-- MT-module user messages (`cls`/`id` of a fresh denom / token are chosen by the module;
      the harness passes the generated ids in) -/
  | mtIssue (c : Chain) (sender : Addr) (cls : Str)
  | mtMint (c : Chain) (sender : Addr) (cls id : Str) (fresh : Bool) (amount : Nat) (recipient : Addr)
  | mtSend (c : Chain) (sender : Addr) (cls id : Str) (amount : Nat) (recipient : Addr)
  | mtBurn (c : Chain) (sender : Addr) (cls id : Str) (amount : Nat)
deriving Repr

/-! ### NFT / MT module user messages (validation from `types/validation.go`, `msgs.go`) -/

def isLower (c : Char) : Bool := 'a' ≤ c && c ≤ 'z'
/-- `^[a-z][a-zA-Z0-9/]{2,100}$` -/
def nftIdOk (s : Str) : Bool :=
  match s with
  | [] => false
  | c :: rest => isLower c && decide (2 ≤ rest.length) && decide (rest.length ≤ 100) &&
                 rest.all (fun x => x.isAlphanum || x == '/')
def nftDenomIdOk (s : Str) : Bool := nftIdOk s || hasPrefix "tibc-".toList s
def nftKeyword (s : Str) : Bool :=
  hasPrefix "peg".toList s || hasPrefix "ibc".toList s || hasPrefix "htlt".toList s || hasPrefix "tibc".toList s

def userTx (s : State) (r : State × Res) : State × Res :=
  match r with
  | (s', .ok) => (s', .ok)
  | (_, .err e) => (s, .err e)

def nftIssueMsg (s : State) (sender : Addr) (cls : Str) (mr : Bool) : State × Res :=
  if !nftDenomIdOk cls then (s, .err (.app "nft/16"))
  else if nftKeyword cls then (s, .err (.app "nft/16"))
  else userTx s (liftApps s (liftNft s.apps (s.apps.nft.issueDenom cls sender mr)))

def nftMintMsg (s : State) (sender : Addr) (cls id : Str) (uri : String) (rcpt : Addr) : State × Res :=
  if hasPrefix "ibc/".toList cls then (s, .err (.app "sdk/18"))
  else if !nftDenomIdOk cls then (s, .err (.app "nft/16"))
  else if !nftIdOk id then (s, .err (.app "nft/16"))
  else match s.apps.nft.denom cls with
    | none => (s, .err (.app "nft/16"))
    | some d =>
      if d.mintRestricted && d.creator != sender then (s, .err .unauthorized)
      else userTx s (liftApps s (liftNft s.apps (s.apps.nft.mint cls id uri rcpt)))

def nftSendMsg (s : State) (sender : Addr) (cls id : Str) (rcpt : Addr) : State × Res :=
  if !nftDenomIdOk cls then (s, .err (.app "nft/16"))
  else if !nftIdOk id then (s, .err (.app "nft/16"))
  else userTx s (liftApps s (liftNft s.apps (s.apps.nft.transferOwner cls id sender rcpt)))

def nftBurnMsg (s : State) (sender : Addr) (cls id : Str) : State × Res :=
  if !nftDenomIdOk cls then (s, .err (.app "nft/16"))
  else if !nftIdOk id then (s, .err (.app "nft/16"))
  else userTx s (liftApps s (liftNft s.apps (s.apps.nft.burn cls id sender)))

def mtIssueMsg (s : State) (sender : Addr) (cls : Str) : State × Res :=
  ({ s with apps := { s.apps with mt := s.apps.mt.issueDenom cls sender } }, .ok)

def mtMintMsg (s : State) (sender : Addr) (cls id : Str) (fresh : Bool) (amt : Nat) (rcpt : Addr) : State × Res :=
  if amt == 0 then (s, .err (.app "sdk/18"))
  else match s.apps.mt.denom cls with
    | none => (s, .err (.app "sdk/38"))                      -- ErrNotFound
    | some o =>
      if o != sender then (s, .err .unauthorized)
      else if fresh then userTx s (liftApps s (liftMt s.apps (s.apps.mt.issueMT cls id amt rcpt)))
      else if !s.apps.mt.exists_ (cls, id) then (s, .err (.app "sdk/38"))
      else userTx s (liftApps s (liftMt s.apps (s.apps.mt.mintMT cls id amt rcpt)))

def mtSendMsg (s : State) (sender : Addr) (cls id : Str) (amt : Nat) (rcpt : Addr) : State × Res :=
  if amt == 0 then (s, .err (.app "sdk/18"))
  else userTx s (liftApps s (liftMt s.apps (s.apps.mt.transferOwner cls id amt sender rcpt)))

def mtBurnMsg (s : State) (sender : Addr) (cls id : Str) (amt : Nat) : State × Res :=
  if amt == 0 then (s, .err (.app "sdk/18"))
  else userTx s (liftApps s (liftMt s.apps (s.apps.mt.burn cls id amt sender)))

/-! ### governance / relayer messages of the client and routing sub-modules -/

/-- `host.ClientIdentifierValidator`: 9–64 identifier characters -/
def chainNameOk (n : Chain) : Bool :=
  decide (9 ≤ n.length) && decide (n.length ≤ 64) && n.toList.all Routing.isIdChar

def setClient (s : State) (q : Chain) (cl : Client) : State :=
  { s with core := { s.core with clients := upd s.core.clients q (some cl) } }

/-- `msgServer.CreateClient` (after `ValidateBasic`) -/
def createClientMsg (s : State) (auth : Addr) (q : Chain) (ctype : String) (h t period : Nat) (csValid : Bool)
    (consSame : Bool) (sn : Snapshot) : State × Res :=
  if !addrValid auth then (s, .err .invalidAddress)
  else if !chainNameOk q then (s, .err (.app "host"))
  else if !csValid then (s, .err (.app "clientstate"))
  else if s.core.authority != auth then (s, .err .unauthorized)
  else match s.core.clients q with
    | some _ => (s, .err .clientExists)
    | none =>
      -- the Tendermint client's `Initialize` refuses a consensus state of another type
      if ctype == "007-tendermint" && !consSame then (s, .err (.app "tibc-client/8"))
      -- the BSC / ETH clients' `Initialize` store a consensus state of another type as given; it
      -- cannot be read back (Status Unknown)
      else (setClient s q { Client.init ctype h t period sn with cons := fun h' => if h' = h ∧ consSame then some sn else none }, .ok)

/-- `msgServer.UpgradeClient` -/
def upgradeClientMsg (s : State) (auth : Addr) (q : Chain) (ctype : String) (h t period : Nat) (csValid : Bool)
    (consSame : Bool) (sn : Snapshot) : State × Res :=
  if !addrValid auth then (s, .err .invalidAddress)
  else if !chainNameOk q then (s, .err (.app "host"))
  else if !csValid then (s, .err (.app "clientstate"))
  else if s.core.authority != auth then (s, .err .unauthorized)
  else match s.core.clients q with
    | none => (s, .err .clientNotFound)
    | some cl =>
      if cl.ctype != ctype then (s, .err .invalidClientType)
      -- a consensus state of another client type is stored as given but cannot be read back
      else (setClient s q { cl with latest := h, cons := upd cl.cons h (if consSame then some sn else none),
                                    consTime := upd cl.consTime h t, period := period }, .ok)

/-- `msgServer.RegisterRelayer` -/
def registerRelayerMsg (s : State) (auth : Addr) (q : Chain) (relayers : List Addr) : State × Res :=
  if !addrValid auth then (s, .err .invalidAddress)
  else if !chainNameOk q then (s, .err (.app "host"))
  else if relayers.isEmpty then (s, .err (.app "gov"))
  else if !relayers.all addrValid then (s, .err .invalidAddress)
  else if s.core.authority != auth then (s, .err .unauthorized)
  else ({ s with core := { s.core with relayers := upd s.core.relayers q relayers } }, .ok)

/-- `msgServer.SetRoutingRules` -/
def setRulesMsg (s : State) (auth : Addr) (rules : List Str) : State × Res :=
  if !addrValid auth then (s, .err .invalidAddress)
  else if !rules.all Routing.ruleOk then (s, .err .invalidRule)
  else if s.core.authority != auth then (s, .err .unauthorized)
  else ({ s with core := { s.core with rules := some rules } }, .ok)

/-- `msgServer.UpdateClient` -/
def updateClientMsg (s : State) (signer : Addr) (q : Chain) (h t : Nat) (headerOk : Bool) (sn : Snapshot) : State × Res :=
  if !(s.core.relayers q).contains signer then (s, .err .unauthorized)
  else match s.core.clients q with
    | none => (s, .err .clientNotFound)
    | some cl =>
      if !cl.active s.core.now then (s, .err .clientNotActive)
      else if !headerOk then (s, .err (.app "header"))
      else (setClient s q { cl with latest := if h > cl.latest then h else cl.latest,
                                    cons := upd cl.cons h (some sn), consTime := upd cl.consTime h t }, .ok)

section
variable (H : Data → Digest) (Hc : Str → Str)

def setChain (w : World) (c : Chain) (s : State) : World := upd w c s

/-- one step of the world; the `Res` is the outcome reported for the operation -/
def step (w : World) : Op → World × Res
  | .tx c m =>
    let (s, r) := deliver H Hc (w c) m
    (setChain w c s, r)
  | .ksend c p =>
    let (s, r) := liftCore (w c) ((w c).core.sendPacket H p)
    (setChain w c s, r)
  | .createClient c q h t period =>
    let s := w c
    let cl := Client.init "007-tendermint" h t period (w q).core.ps.snapshot
    (setChain w c { s with core := { s.core with clients := upd s.core.clients q (some cl) } }, .ok)
  | .update c q h t =>
    let s := w c
    match s.core.clients q with
    | none => (w, .err .clientNotFound)
    | some cl =>
      let sn := (w q).core.ps.snapshot
      let cl' : Client := { cl with
        latest := if h > cl.latest then h else cl.latest,
        cons := upd cl.cons h (some sn),
        consTime := upd cl.consTime h t }
      (setChain w c { s with core := { s.core with clients := upd s.core.clients q (some cl') } }, .ok)
  | .setRules c rules =>
    let s := w c
    match Routing.setRules rules with
    | none => (w, .err .invalidRule)
    | some rs => (setChain w c { s with core := { s.core with rules := some rs } }, .ok)
  | .setTime c now =>
    let s := w c
    (setChain w c { s with core := { s.core with now := now } }, .ok)
  | .createClientMsg c auth q ctype h t period v cs =>
    let r := createClientMsg (w c) auth q ctype h t period v cs (w q).core.ps.snapshot; (setChain w c r.1, r.2)
  | .upgradeClientMsg c auth q ctype h t period v cs =>
    let r := upgradeClientMsg (w c) auth q ctype h t period v cs (w q).core.ps.snapshot; (setChain w c r.1, r.2)
  | .registerRelayerMsg c auth q rs => let r := registerRelayerMsg (w c) auth q rs; (setChain w c r.1, r.2)
  | .setRulesMsg c auth rules => let r := setRulesMsg (w c) auth rules; (setChain w c r.1, r.2)
  | .updateClientMsg c signer q h t ok =>
    let r := updateClientMsg (w c) signer q h t ok (w q).core.ps.snapshot; (setChain w c r.1, r.2)
  | .nftIssue c a cls mr => let (s, r) := nftIssueMsg (w c) a cls mr; (setChain w c s, r)
  | .nftMint c a cls id uri rc => let (s, r) := nftMintMsg (w c) a cls id uri rc; (setChain w c s, r)
  | .nftSend c a cls id rc => let (s, r) := nftSendMsg (w c) a cls id rc; (setChain w c s, r)
  | .nftBurn c a cls id => let (s, r) := nftBurnMsg (w c) a cls id; (setChain w c s, r)
  | .mtIssue c a cls => let (s, r) := mtIssueMsg (w c) a cls; (setChain w c s, r)
  | .mtMint c a cls id fr amt rc => let (s, r) := mtMintMsg (w c) a cls id fr amt rc; (setChain w c s, r)
  | .mtSend c a cls id amt rc => let (s, r) := mtSendMsg (w c) a cls id amt rc; (setChain w c s, r)
  | .mtBurn c a cls id amt => let (s, r) := mtBurnMsg (w c) a cls id amt; (setChain w c s, r)

def run (w : World) (ops : List Op) : World := ops.foldl (fun w op => (step H Hc w op).1) w

end
end Tibc
