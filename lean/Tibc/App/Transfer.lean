import Tibc.Packet.Keeper
import Tibc.App.ClassPath
import Tibc.App.Tokens
/-
  The two transfer applications (`apps/nft_transfer`, `apps/mt_transfer`): `Send*Transfer`,
  `OnRecvPacket`, `OnAcknowledgementPacket`, `refundPacketToken`, class-trace table.
-/
namespace Tibc

/-- ghost entry: an application callback that ran -/
structure CbEntry where
  kind : String     -- "recv" | "ack"
  port : String
  key  : PKey
deriving DecidableEq, Repr

/-- full state of one chain -/
structure State where
  core      : Core
  nft       : NftMod
  nftTraces : Str → Option Str      -- trace hash ↦ full class path
  mt        : MtMod
  mtTraces  : Str → Option Str
  cbLog     : List CbEntry          -- ghost

def nftPort : String := "NFT"
def mtPort  : String := "MT"
def mockPort : String := "tibcmock"
def nftPfx : Str := "nft".toList
def mtPfx  : Str := "mt".toList
def voucherPfx : Str := "tibc-".toList
def nftModAddr : Addr := "mod:NFT"
def mtModAddr  : Addr := "mod:MT"

/-- `sdk.AccAddressFromBech32` succeeds (the harness maps undecodable strings to `bad:…`,
    blank ones to `""`) -/
def addrValid (a : Addr) : Bool := a != "" && !(a.startsWith "bad:") && a.trimAscii.toString != ""

/-- blank after `strings.TrimSpace` -/
def addrBlank (a : Addr) : Bool := a.trimAscii.toString == ""

section
variable (H : Data → Digest) (Hc : Str → Str)

/-- `ClassTrace.IBCClass` of a full class path -/
def ibcClass (full : Str) : Str :=
  let t := ClassPath.parseTrace full
  if t.1 = [] then t.2 else voucherPfx ++ Hc (ClassPath.fullPath t)

/-! ### NFT -/

/-- `getIBCClassFromClassPath`: records the trace if new, returns the voucher class -/
def nftVoucherClass (s : State) (path : Str) : State × Str :=
  let t := ClassPath.parseTrace path
  let h := Hc (ClassPath.fullPath t)
  let s := if (s.nftTraces h).isSome then s else { s with nftTraces := upd s.nftTraces h (some (ClassPath.fullPath t)) }
  (s, ibcClass Hc path)

def liftNft (s : State) (r : NftMod × Res) : State × Res := ({ s with nft := r.1 }, r.2)
def liftCore (s : State) (r : Core × Res) : State × Res := ({ s with core := r.1 }, r.2)

/-- `Keeper.SendNftTransfer` -/
def sendNftTransfer (s : State) (cls id : Str) (sender receiver : Addr)
    (dst relay : Chain) (destContract : String) : State × Res :=
  match s.nft.denom cls with
  | none => (s, .err (.app "NFT/2"))
  | some _ =>
    match s.nft.owner (cls, id) with
    | none => (s, .err (.app "NFT/3"))
    | some _ =>
      if s.core.name == dst then (s, .err (.app "NFT/4"))
      else
        let full? : Except Err Str :=
          if hasPrefix voucherPfx cls then
            match s.nftTraces (cls.drop voucherPfx.length) with
            | none => .error (.app "NFT/5")
            | some p => .ok p
          else .ok cls
        match full? with
        | .error e => (s, .err e)
        | .ok full =>
          match ClassPath.determineAway nftPfx full dst.toList with
          | none => (s, .err .panic)
          | some away =>
            let seq := s.core.ps.nextSend ⟨s.core.name, dst⟩
            let (s1, r) :=
              if away then liftNft s (s.nft.transferOwner cls id sender nftModAddr)
              else liftNft s (s.nft.burn cls id sender)
            match r with
            | .err e => (s1, .err e)
            | .ok =>
              let d : NftData := { cls := full, id := id, uri := s.nft.uri (cls, id), sender := sender,
                                   receiver := receiver, away := away, destContract := destContract }
              let p : Packet := { seq := seq, src := s.core.name, dst := dst, relay := relay,
                                  port := nftPort, data := .nft d }
              liftCore s1 (s1.core.sendPacket H p)

/-- `Keeper.OnRecvPacket` (NFT); the error is what becomes the error acknowledgement -/
def nftOnRecv (s : State) (p : Packet) (d : NftData) : State × Res :=
  if addrBlank d.sender then (s, .err .invalidAddress)
  else if addrBlank d.receiver then (s, .err .invalidAddress)
  else if !addrValid d.receiver then (s, .err .invalidAddress)
  else if d.away then
    let newPath := ClassPath.getAway nftPfx p.src.toList p.dst.toList d.cls
    let (s, vc) := nftVoucherClass Hc s newPath
    let (s, r) :=
      match s.nft.denom vc with
      | some _ => (s, Res.ok)
      | none => liftNft s (s.nft.issueDenom vc nftModAddr true)
    match r with
    | .err e => (s, .err e)
    | .ok =>
      match liftNft s (s.nft.mint vc d.id d.uri nftModAddr) with
      | (s, .err e) => (s, .err e)
      | (s, .ok) => liftNft s (s.nft.transferOwner vc d.id nftModAddr d.receiver)
  else
    if !hasPrefix nftPfx d.cls then (s, .err (.app "NFT/2"))
    else
      match ClassPath.getBack d.cls with
      | none => (s, .err .panic)
      | some newPath =>
        let vc := ibcClass Hc newPath
        liftNft s (s.nft.transferOwner vc d.id nftModAddr d.receiver)

/-- `refundPacketToken` (NFT) -/
def nftRefund (s : State) (d : NftData) : State × Res :=
  if !addrValid d.sender then (s, .err .invalidAddress)
  else
    let vc := ibcClass Hc d.cls
    if d.away then liftNft s (s.nft.transferOwner vc d.id nftModAddr d.sender)
    else
      match liftNft s (s.nft.mint vc d.id d.uri nftModAddr) with
      | (s, .err e) => (s, .err e)
      | (s, .ok) => liftNft s (s.nft.transferOwner vc d.id nftModAddr d.sender)

/-! ### MT -/

def mtVoucherClass (s : State) (path : Str) : State × Str :=
  let t := ClassPath.parseTrace path
  let h := Hc (ClassPath.fullPath t)
  let s := if (s.mtTraces h).isSome then s else { s with mtTraces := upd s.mtTraces h (some (ClassPath.fullPath t)) }
  (s, ibcClass Hc path)

def liftMt (s : State) (r : MtMod × Res) : State × Res := ({ s with mt := r.1 }, r.2)

/-- `Keeper.SendMtTransfer` -/
def sendMtTransfer (s : State) (cls id : Str) (sender receiver : Addr)
    (dst relay : Chain) (destContract : String) (amount : Nat) (mtData : String) : State × Res :=
  match s.mt.denom cls with
  | none => (s, .err (.app "MT/2"))
  | some _ =>
    if !s.mt.exists_ (cls, id) then (s, .err (.app "MT/3"))
    else if s.core.name == dst then (s, .err (.app "MT/4"))
    else
      let full? : Except Err Str :=
        if hasPrefix voucherPfx cls then
          match s.mtTraces (cls.drop voucherPfx.length) with
          | none => .error (.app "MT/5")
          | some p => .ok p
        else .ok cls
      match full? with
      | .error e => (s, .err e)
      | .ok full =>
        match ClassPath.determineAway mtPfx full dst.toList with
        | none => (s, .err .panic)
        | some away =>
          let seq := s.core.ps.nextSend ⟨s.core.name, dst⟩
          let (s1, r) :=
            if away then liftMt s (s.mt.transferOwner cls id amount sender mtModAddr)
            else liftMt s (s.mt.burn cls id amount sender)
          match r with
          | .err e => (s1, .err e)
          | .ok =>
            let d : MtData := { cls := full, id := id, data := mtData, sender := sender,
                                receiver := receiver, away := away, destContract := destContract,
                                amount := amount }
            let p : Packet := { seq := seq, src := s.core.name, dst := dst, relay := relay,
                                port := mtPort, data := .mt d }
            liftCore s1 (s1.core.sendPacket H p)

/-- `Keeper.OnRecvPacket` (MT) -/
def mtOnRecv (s : State) (p : Packet) (d : MtData) : State × Res :=
  if addrBlank d.sender then (s, .err .invalidAddress)
  else if addrBlank d.receiver then (s, .err .invalidAddress)
  else if d.amount == 0 then (s, .err (.app "MT/6"))
  else if !addrValid d.receiver then (s, .err .invalidAddress)
  else if d.away then
    let newPath := ClassPath.getAway mtPfx p.src.toList p.dst.toList d.cls
    let (s, vc) := mtVoucherClass Hc s newPath
    let s := match s.mt.denom vc with
      | some _ => s
      | none => { s with mt := s.mt.issueDenom vc mtModAddr }
    let (s, r) :=
      if !s.mt.exists_ (vc, d.id) then liftMt s (s.mt.issueMT vc d.id d.amount mtModAddr)
      else liftMt s (s.mt.mintMT vc d.id d.amount mtModAddr)
    match r with
    | .err e => (s, .err e)
    | .ok => liftMt s (s.mt.transferOwner vc d.id d.amount mtModAddr d.receiver)
  else
    if !hasPrefix mtPfx d.cls then (s, .err (.app "MT/2"))
    else
      match ClassPath.getBack d.cls with
      | none => (s, .err .panic)
      | some newPath =>
        let vc := ibcClass Hc newPath
        liftMt s (s.mt.transferOwner vc d.id d.amount mtModAddr d.receiver)

/-- `refundPacketToken` (MT) -/
def mtRefund (s : State) (d : MtData) : State × Res :=
  if !addrValid d.sender then (s, .err .invalidAddress)
  else
    let vc := ibcClass Hc d.cls
    if d.away then liftMt s (s.mt.transferOwner vc d.id d.amount mtModAddr d.sender)
    else
      match liftMt s (s.mt.mintMT vc d.id d.amount mtModAddr) with
      | (s, .err e) => (s, .err e)
      | (s, .ok) => liftMt s (s.mt.transferOwner vc d.id d.amount mtModAddr d.sender)

end
end Tibc
