import Tibc.Packet.Keeper
import Tibc.App.ClassPath
import Tibc.App.Tokens
/-
  The two transfer applications (`apps/nft_transfer`, `apps/mt_transfer`): `Send*Transfer`,
  `OnRecvPacket`, `OnAcknowledgementPacket`, `refundPacketToken`, class-trace table.
-/
namespace Tibc

/-- ghost entry: an application callback that ran -/
structure CbEntry where
  kind : String     -- "recv" | "ack"
  port : String
  key  : PKey
deriving DecidableEq, Repr

/-- application state of one chain: token modules and the transfer modules' class traces -/
structure Apps where
  nft       : NftMod
  nftTraces : Str → Option Str      -- trace hash ↦ full class path
  mt        : MtMod
  mtTraces  : Str → Option Str

/-- full state of one chain -/
structure State where
  core      : Core
  apps      : Apps
  cbLog     : List CbEntry          -- ghost

def nftPort : String := "NFT"
def mtPort  : String := "MT"
def mockPort : String := "tibcmock"
def nftPfx : Str := "nft".toList
def mtPfx  : Str := "mt".toList
def voucherPfx : Str := "tibc-".toList
def nftModAddr : Addr := "mod:NFT"
def mtModAddr  : Addr := "mod:MT"

/-- `sdk.AccAddressFromBech32` succeeds (the harness maps undecodable strings to `bad:…`,
    blank ones to `""`) -/
def addrValid (a : Addr) : Bool :=
  a.toList != [] && !(hasPrefix "bad:".toList a.toList) && !(a.toList.all Char.isWhitespace)

/-- blank after `strings.TrimSpace` (written over the character list so that the kernel can
    evaluate it on literals) -/
def addrBlank (a : Addr) : Bool := a.toList.all Char.isWhitespace

section
variable (H : Data → Digest) (Hc : Str → Str)

/-- `ClassTrace.IBCClass` of a full class path -/
def ibcClass (full : Str) : Str :=
  let t := ClassPath.parseTrace full
  if t.1 = [] then t.2 else voucherPfx ++ Hc (ClassPath.fullPath t)

/-! ### NFT -/

/-- `getIBCClassFromClassPath`: records the trace if new, returns the voucher class -/
def nftVoucherClass (s : Apps) (path : Str) : Apps × Str :=
  let t := ClassPath.parseTrace path
  let h := Hc (ClassPath.fullPath t)
  let s := if (s.nftTraces h).isSome then s else { s with nftTraces := upd s.nftTraces h (some (ClassPath.fullPath t)) }
  (s, ibcClass Hc path)

def liftNft (s : Apps) (r : NftMod × Res) : Apps × Res := ({ s with nft := r.1 }, r.2)
def liftCore (s : State) (r : Core × Res) : State × Res := ({ s with core := r.1 }, r.2)
def liftApps (s : State) (r : Apps × Res) : State × Res := ({ s with apps := r.1 }, r.2)

/-- checks of `SendNftTransfer` before the first write: the full class path and the direction -/
def nftSendPre (s : State) (cls id : Str) (dst : Chain) : Except Err (Str × Bool) :=
  match s.apps.nft.denom cls with
  | none => .error (.app "NFT/2")
  | some _ =>
    match s.apps.nft.owner (cls, id) with
    | none => .error (.app "NFT/3")
    | some _ =>
      if s.core.name == dst then .error (.app "NFT/4")
      else
        let full? : Except Err Str :=
          if hasPrefix voucherPfx cls then
            match s.apps.nftTraces (cls.drop voucherPfx.length) with
            | none => .error (.app "NFT/5")
            | some p => .ok p
          else if ClassPath.hasDelim cls then .error (.app "NFT/2")   -- native class must not contain '/'
          else .ok cls
        match full? with
        | .error e => .error e
        | .ok full =>
          match ClassPath.determineAway nftPfx full dst.toList with
          | none => .error .panic
          | some away => .ok (full, away)

/-- lock (away) or burn (back) -/
def nftSendToken (a : Apps) (cls id : Str) (sender : Addr) (away : Bool) : Apps × Res :=
  if away then liftNft a (a.nft.transferOwner cls id sender nftModAddr)
  else liftNft a (a.nft.burn cls id sender)

def nftPacket (s : State) (cls id full : Str) (away : Bool) (sender receiver : Addr)
    (dst relay : Chain) (destContract : String) : Packet :=
  { seq := s.core.ps.nextSend ⟨s.core.name, dst⟩, src := s.core.name, dst := dst, relay := relay,
    port := nftPort,
    data := .nft { cls := full, id := id, uri := s.apps.nft.uri (cls, id), sender := sender,
                   receiver := receiver, away := away, destContract := destContract } }

/-- `Keeper.SendNftTransfer` -/
def sendNftTransfer (s : State) (cls id : Str) (sender receiver : Addr)
    (dst relay : Chain) (destContract : String) : State × Res :=
  match nftSendPre s cls id dst with
  | .error e => (s, .err e)
  | .ok (full, away) =>
    match nftSendToken s.apps cls id sender away with
    | (a, .err e) => ({ s with apps := a }, .err e)
    | (a, .ok) =>
      let r := s.core.sendPacket H (nftPacket s cls id full away sender receiver dst relay destContract)
      ({ s with apps := a, core := r.1 }, r.2)

/-- receive, away from origin: (create the voucher class) ; mint to the module ; hand over -/
def nftRecvAway (s : Apps) (p : Packet) (d : NftData) : Apps × Res :=
  let newPath := ClassPath.getAway nftPfx p.src.toList p.dst.toList d.cls
  let sv := nftVoucherClass Hc s newPath
  let s := sv.1
  let vc := sv.2
  let r1 : Apps × Res :=
    match s.nft.denom vc with
    | some _ => (s, Res.ok)
    | none => liftNft s (s.nft.issueDenom vc nftModAddr true)
  match r1 with
  | (s, .err e) => (s, .err e)
  | (s, .ok) =>
    match liftNft s (s.nft.mint vc d.id d.uri nftModAddr) with
    | (s, .err e) => (s, .err e)
    | (s, .ok) => liftNft s (s.nft.transferOwner vc d.id nftModAddr d.receiver)

/-- receive, back towards origin: release from escrow -/
def nftRecvBack (s : Apps) (d : NftData) : Apps × Res :=
  if !hasPrefix nftPfx d.cls then (s, .err (.app "NFT/2"))
  else
    match ClassPath.getBack d.cls with
    | none => (s, .err .panic)
    | some newPath => liftNft s (s.nft.transferOwner (ibcClass Hc newPath) d.id nftModAddr d.receiver)

/-- `Keeper.OnRecvPacket` (NFT); the error is what becomes the error acknowledgement -/
def nftOnRecv (s : Apps) (p : Packet) (d : NftData) : Apps × Res :=
  if addrBlank d.sender then (s, .err .invalidAddress)
  else if addrBlank d.receiver then (s, .err .invalidAddress)
  else if !addrValid d.receiver then (s, .err .invalidAddress)
  else if d.away then nftRecvAway Hc s p d
  else nftRecvBack Hc s d

/-- `refundPacketToken` (NFT) -/
def nftRefund (s : Apps) (d : NftData) : Apps × Res :=
  if !addrValid d.sender then (s, .err .invalidAddress)
  else
    let vc := ibcClass Hc d.cls
    if d.away then liftNft s (s.nft.transferOwner vc d.id nftModAddr d.sender)
    else
      match liftNft s (s.nft.mint vc d.id d.uri nftModAddr) with
      | (s, .err e) => (s, .err e)
      | (s, .ok) => liftNft s (s.nft.transferOwner vc d.id nftModAddr d.sender)

/-! ### MT -/

def mtVoucherClass (s : Apps) (path : Str) : Apps × Str :=
  let t := ClassPath.parseTrace path
  let h := Hc (ClassPath.fullPath t)
  let s := if (s.mtTraces h).isSome then s else { s with mtTraces := upd s.mtTraces h (some (ClassPath.fullPath t)) }
  (s, ibcClass Hc path)

def liftMt (s : Apps) (r : MtMod × Res) : Apps × Res := ({ s with mt := r.1 }, r.2)

def mtSendPre (s : State) (cls id : Str) (dst : Chain) : Except Err (Str × Bool) :=
  match s.apps.mt.denom cls with
  | none => .error (.app "MT/2")
  | some _ =>
    if !s.apps.mt.exists_ (cls, id) then .error (.app "MT/3")
    else if s.core.name == dst then .error (.app "MT/4")
    else
      let full? : Except Err Str :=
        if hasPrefix voucherPfx cls then
          match s.apps.mtTraces (cls.drop voucherPfx.length) with
          | none => .error (.app "MT/5")
          | some p => .ok p
        else .ok cls
      match full? with
      | .error e => .error e
      | .ok full =>
        match ClassPath.determineAway mtPfx full dst.toList with
        | none => .error .panic
        | some away => .ok (full, away)

def mtSendToken (a : Apps) (cls id : Str) (amount : Nat) (sender : Addr) (away : Bool) : Apps × Res :=
  if away then liftMt a (a.mt.transferOwner cls id amount sender mtModAddr)
  else liftMt a (a.mt.burn cls id amount sender)

def mtPacket (s : State) (id full : Str) (away : Bool) (sender receiver : Addr)
    (dst relay : Chain) (destContract : String) (amount : Nat) (mtData : String) : Packet :=
  { seq := s.core.ps.nextSend ⟨s.core.name, dst⟩, src := s.core.name, dst := dst, relay := relay,
    port := mtPort,
    data := .mt { cls := full, id := id, data := mtData, sender := sender, receiver := receiver,
                  away := away, destContract := destContract, amount := amount } }

/-- `Keeper.SendMtTransfer` -/
def sendMtTransfer (s : State) (cls id : Str) (sender receiver : Addr)
    (dst relay : Chain) (destContract : String) (amount : Nat) (mtData : String) : State × Res :=
  match mtSendPre s cls id dst with
  | .error e => (s, .err e)
  | .ok (full, away) =>
    match mtSendToken s.apps cls id amount sender away with
    | (a, .err e) => ({ s with apps := a }, .err e)
    | (a, .ok) =>
      let r := s.core.sendPacket H (mtPacket s id full away sender receiver dst relay destContract amount mtData)
      ({ s with apps := a, core := r.1 }, r.2)

def mtRecvAway (s : Apps) (p : Packet) (d : MtData) : Apps × Res :=
  let newPath := ClassPath.getAway mtPfx p.src.toList p.dst.toList d.cls
  let sv := mtVoucherClass Hc s newPath
  let s := sv.1
  let vc := sv.2
  let s : Apps := match s.mt.denom vc with
    | some _ => s
    | none => { s with mt := s.mt.issueDenom vc mtModAddr }
  let r : Apps × Res :=
    if !s.mt.exists_ (vc, d.id) then liftMt s (s.mt.issueMT vc d.id d.amount mtModAddr)
    else liftMt s (s.mt.mintMT vc d.id d.amount mtModAddr)
  match r with
  | (s, .err e) => (s, .err e)
  | (s, .ok) => liftMt s (s.mt.transferOwner vc d.id d.amount mtModAddr d.receiver)

def mtRecvBack (s : Apps) (d : MtData) : Apps × Res :=
  if !hasPrefix mtPfx d.cls then (s, .err (.app "MT/2"))
  else
    match ClassPath.getBack d.cls with
    | none => (s, .err .panic)
    | some newPath => liftMt s (s.mt.transferOwner (ibcClass Hc newPath) d.id d.amount mtModAddr d.receiver)

/-- `Keeper.OnRecvPacket` (MT) -/
def mtOnRecv (s : Apps) (p : Packet) (d : MtData) : Apps × Res :=
  if addrBlank d.sender then (s, .err .invalidAddress)
  else if addrBlank d.receiver then (s, .err .invalidAddress)
  else if d.amount == 0 then (s, .err (.app "MT/6"))
  else if !addrValid d.receiver then (s, .err .invalidAddress)
  else if d.away then mtRecvAway Hc s p d
  else mtRecvBack Hc s d

/-- `refundPacketToken` (MT) -/
def mtRefund (s : Apps) (d : MtData) : Apps × Res :=
  if !addrValid d.sender then (s, .err .invalidAddress)
  else
    let vc := ibcClass Hc d.cls
    if d.away then liftMt s (s.mt.transferOwner vc d.id d.amount mtModAddr d.sender)
    else
      match liftMt s (s.mt.mintMT vc d.id d.amount mtModAddr) with
      | (s, .err e) => (s, .err e)
      | (s, .ok) => liftMt s (s.mt.transferOwner vc d.id d.amount mtModAddr d.sender)

end
end Tibc
