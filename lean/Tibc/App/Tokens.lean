import Tibc.Base.Core
/-
  Token-module models: irisnet `nft` (on top of cosmos-sdk `x/nft`) and irisnet `mt`, restricted
  to what the TIBC transfer applications and ordinary users can do with them. Failure conditions
  and the order of writes follow the keepers' source.
-/
namespace Tibc

def U64MAX : Nat := 2^64 - 1

/-! ## NFT module -/

structure NftDenom where
  creator        : Addr
  mintRestricted : Bool
deriving DecidableEq, Repr

structure NftMod where
  denom : Str → Option NftDenom
  owner : Str × Str → Option Addr       -- `some` ⇔ the NFT exists
  uri   : Str × Str → String

def NftMod.empty : NftMod := { denom := fun _ => none, owner := fun _ => none, uri := fun _ => "" }

namespace NftMod

/-- `LegacyKeeper.TransferOwner` with all fields `[do-not-modify]` -/
def transferOwner (m : NftMod) (cls id : Str) (src dst : Addr) : NftMod × Res :=
  match m.owner (cls, id) with
  | none => (m, .err (.app "nft/17"))                       -- ErrInvalidTokenID
  | some o =>
    if o != src then (m, .err (.app "nft/15"))              -- ErrUnauthorized
    else match m.denom cls with
      | none => (m, .err (.app "nft/16"))                   -- GetDenomInfo
      | some _ => ({ m with owner := upd m.owner (cls, id) (some dst) }, .ok)

/-- `LegacyKeeper.BurnNFT` -/
def burn (m : NftMod) (cls id : Str) (owner : Addr) : NftMod × Res :=
  if m.owner (cls, id) != some owner then (m, .err (.app "nft/15"))
  else match m.denom cls with
    | none => (m, .err (.app "nft/4"))                      -- x/nft ErrClassNotExists
    | some _ => ({ m with owner := upd m.owner (cls, id) none }, .ok)

/-- `LegacyKeeper.IssueDenom` → `SaveClass` -/
def issueDenom (m : NftMod) (cls : Str) (creator : Addr) (mintRestricted : Bool) : NftMod × Res :=
  match m.denom cls with
  | some _ => (m, .err (.app "nft/3"))                      -- x/nft ErrClassExists
  | none => ({ m with denom := upd m.denom cls (some ⟨creator, mintRestricted⟩) }, .ok)

/-- `LegacyKeeper.MintNFT` → `x/nft Mint` -/
def mint (m : NftMod) (cls id : Str) (uri : String) (owner : Addr) : NftMod × Res :=
  match m.denom cls with
  | none => (m, .err (.app "nft/4"))
  | some _ =>
    if (m.owner (cls, id)).isSome then (m, .err (.app "nft/5"))   -- x/nft ErrNFTExists
    else ({ m with owner := upd m.owner (cls, id) (some owner),
                   uri := upd m.uri (cls, id) uri }, .ok)

end NftMod

/-! ## MT module (64-bit amounts; unchecked subtractions wrap exactly as in Go) -/

structure MtMod where
  denom  : Str → Option Addr                 -- owner of the denom
  exists_ : Str × Str → Bool                 -- `HasMT`
  bal    : Str × Str × Addr → Nat
  supply : Str × Str → Nat

def MtMod.empty : MtMod :=
  { denom := fun _ => none, exists_ := fun _ => false, bal := fun _ => 0, supply := fun _ => 0 }

namespace MtMod

/-- Go `a - b` on uint64 -/
def subWrap (a b : Nat) : Nat := (a + 2^64 - b % 2^64) % 2^64

/-- `AddBalance` (checked) -/
def addBalance (m : MtMod) (cls id : Str) (amt : Nat) (a : Addr) : MtMod × Res :=
  let b := m.bal (cls, id, a)
  if U64MAX - b < amt then (m, .err (.app "sdk/18"))            -- ErrInvalidRequest
  else ({ m with bal := upd m.bal (cls, id, a) (b + amt) }, .ok)

/-- `SubBalance` (unchecked) -/
def subBalance (m : MtMod) (cls id : Str) (amt : Nat) (a : Addr) : MtMod :=
  { m with bal := upd m.bal (cls, id, a) (subWrap (m.bal (cls, id, a)) amt) }

/-- `IncreaseMTSupply` (checked) -/
def incSupply (m : MtMod) (cls id : Str) (amt : Nat) : MtMod × Res :=
  let s := m.supply (cls, id)
  if U64MAX - s < amt then (m, .err (.app "sdk/18"))
  else ({ m with supply := upd m.supply (cls, id) (s + amt) }, .ok)

/-- `decreaseMTSupply` (unchecked) -/
def decSupply (m : MtMod) (cls id : Str) (amt : Nat) : MtMod :=
  { m with supply := upd m.supply (cls, id) (subWrap (m.supply (cls, id)) amt) }

/-- `Keeper.TransferOwner` -/
def transferOwner (m : MtMod) (cls id : Str) (amt : Nat) (src dst : Addr) : MtMod × Res :=
  if m.bal (cls, id, src) < amt then (m, .err (.app "sdk/5"))   -- ErrInsufficientFunds
  else addBalance (subBalance m cls id amt src) cls id amt dst

/-- `Keeper.BurnMT` -/
def burn (m : MtMod) (cls id : Str) (amt : Nat) (owner : Addr) : MtMod × Res :=
  if m.bal (cls, id, owner) < amt then (m, .err (.app "sdk/5"))
  else (decSupply (subBalance m cls id amt owner) cls id amt, .ok)

/-- `Keeper.IssueDenom` (keeper level: unconditional set) -/
def issueDenom (m : MtMod) (cls : Str) (owner : Addr) : MtMod :=
  { m with denom := upd m.denom cls (some owner) }

/-- `Keeper.IssueMT` -/
def issueMT (m : MtMod) (cls id : Str) (amt : Nat) (recipient : Addr) : MtMod × Res :=
  let m := { m with exists_ := upd m.exists_ (cls, id) true }
  match incSupply m cls id amt with
  | (m, .err e) => (m, .err e)
  | (m, .ok) => addBalance m cls id amt recipient

/-- `Keeper.MintMT` -/
def mintMT (m : MtMod) (cls id : Str) (amt : Nat) (recipient : Addr) : MtMod × Res :=
  match incSupply m cls id amt with
  | (m, .err e) => (m, .err e)
  | (m, .ok) => addBalance m cls id amt recipient

end MtMod
end Tibc
