import Tibc.Base.Core
/-
  Class-path string arithmetic of the transfer applications
  (`nft_transfer/keeper/relay.go`, `mt_transfer/keeper/relay.go`, `types/trace.go`).
  `pfx` is CLASSPATHPREFIX ("nft" / "mt"); DELIMITER is '/'.
-/
namespace Tibc.ClassPath
open Tibc

def delim : Char := '/'

/-- `strings.Contains(class, "/")` -/
def hasDelim (s : Str) : Bool := s.contains delim

/-- `xs[len(xs)-3]`, `none` when the Go index would be negative (runtime panic) -/
def thirdFromEnd (xs : List Str) : Option Str :=
  if 3 ≤ xs.length then xs[xs.length - 3]? else none

/-- `determineAwayFromOrigin`; `none` = index-out-of-range panic -/
def determineAway (pfx : Str) (cls : Str) (destChain : Str) : Option Bool :=
  if !hasPrefix pfx cls || (hasPrefix pfx cls && !hasDelim cls) then some true
  else
    match thirdFromEnd (splitOnChar delim cls) with
    | none => none
    | some c => some (c != destChain)

/-- `concatClassPath` -/
def concat (pfx : Str) (sc dst cls : Str) : Str :=
  pfx ++ delim :: sc ++ delim :: dst ++ delim :: cls

/-- `getAwayNewClassPath` -/
def getAway (pfx : Str) (sc dst cls : Str) : Str :=
  if hasPrefix pfx cls && hasDelim cls then
    let parts := splitOnChar delim cls
    -- classSplit[:len-1] ++ [dest] ++ classSplit[len-1:]
    joinWith delim (parts.dropLast ++ [dst] ++ (parts.getLast?.toList))
  else concat pfx sc dst cls

/-- `getBackNewClassPath`; for fewer than two fields the Go slice expression panics -/
def getBack (cls : Str) : Option Str :=
  let parts := splitOnChar delim cls
  if parts.length = 4 then parts.getLast?
  else if parts.length < 2 then none
  else some (joinWith delim (parts.take (parts.length - 2) ++ parts.getLast?.toList))

/-- `ParseClassTrace`: (path, base) -/
def parseTrace (raw : Str) : Str × Str :=
  let parts := splitOnChar delim raw
  match parts with
  | [_] => ([], raw)
  | _ => (joinWith delim parts.dropLast, (parts.getLast?).getD [])

/-- `ClassTrace.GetFullClassPath` -/
def fullPath (t : Str × Str) : Str :=
  if t.1 = [] then t.2 else t.1 ++ delim :: t.2

end Tibc.ClassPath
