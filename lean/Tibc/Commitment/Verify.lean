import Tibc.Base.Core
/-
  State-proof verification glue of the three client types (C08):
  * Tendermint: `produceVerificationArgs`, `verifyDelayPeriodPassed`, path construction,
    `MerkleProof.VerifyMembership` (23-commitment) — over an abstract two-level authenticated store.
  * ETH / BSC: `produceVerificationArgs`, block-delay check, `verifyMerkleProof`,
    `checkProofResult` — over an abstract Merkle-Patricia account + storage trie.
  The cryptographic libraries (ics23, go-ethereum trie / rlp) are abstract: a proof is described
  by what it genuinely proves; binding / completeness of the libraries are hypotheses of the
  soundness / completeness theorems and are exercised against the real libraries by the stream.
-/
namespace Tibc.Verify

def U64 : Nat := 2^64

/-! ## Tendermint -/

/-- what the submitted proof bytes are -/
inductive TmProof
  | nil                                   -- no bytes
  | undecodable                           -- does not unmarshal as MerkleProof
  | genuine (key : String) (value : Option String)
      -- the counterparty's genuine proof, at the proof height's root, that `key` (full path,
      -- store prefix included) holds `value` (`none`: absence proof)
  | foreign                               -- a well-formed proof against some other root
deriving DecidableEq, Repr

structure TmCtx where
  latest    : Nat                   -- client state latest height
  consRoot  : Option String         -- root of the consensus state at the proof height (if stored)
  processed : Option Nat            -- processed time (ns) recorded for the proof height
  delay     : Nat                   -- TimeDelay (ns)
  now       : Nat                   -- block time (ns)

/-- `VerifyPacketCommitment / Acknowledgement / CleanCommitment` of the Tendermint client:
    `path` is the protocol key the keeper asks for, `value` the claimed bytes -/
def tmVerify (c : TmCtx) (h : Nat) (π : TmProof) (path : String) (value : String) : Bool :=
  -- produceVerificationArgs
  decide (h ≤ c.latest) &&
  (π != .nil) && (π != .undecodable) &&
  c.consRoot.isSome &&
  -- verifyDelayPeriodPassed (an overflowing processedTime + delay is refused: repair F-C08c)
  (match c.processed with
   | none => false
   | some pt => decide (pt + c.delay < U64) && decide (pt + c.delay ≤ c.now)) &&
  -- VerifyMembership: value non-empty, proof chains to the root for exactly this path and value
  (value != "") &&
  (π == .genuine path (some value))

/-! ## ETH / BSC -/

/-- what the submitted (JSON) proof is, by construction -/
structure EthProof where
  decodes      : Bool      -- json.Unmarshal succeeds
  addrOk       : Bool      -- proof.Address equals the client's contract address
  acctProofOk  : Bool      -- account proof verifies at keccak(address) against the consensus root
  acctFieldsOk : Bool      -- rlp(nonce, balance, storageHash, codeHash) equals the proven account
  nStorage     : Nat       -- len(StorageProof)
  /-- `sp.Key` equals the slot `keccak(hostKey ‖ pad32(104))` of the key the keeper asks for -/
  keyIsSlot    : Bool
  storProofOk  : Bool      -- storage proof verifies at keccak(sp.Key) against storageHash
  /-- the proven storage value, RLP-decoded and left-padded to 32 bytes (hex); `none`: not decodable -/
  word         : Option String
deriving DecidableEq, Repr

structure EthCtx where
  latest     : Nat          -- Header.Height of the client state
  consExists : Bool         -- consensus state stored at the proof height
  delayBlock : Nat          -- GetDelayBlock()

/-- left-pad a hex string with zero digits to `n` digits -/
def padHex (n : Nat) (s : String) : String := String.ofList (List.replicate (n - s.length) '0') ++ s

/-- `checkProofResult`: the proven word, left-padded to 32 bytes, equals the claimed bytes
    left-padded to 32 bytes (repair F-C08b: the 8-byte clean sequence is compared as a word) -/
def wordMatches (word : Option String) (claimed : String) : Bool :=
  match word with
  | none => false
  | some w => w == padHex 64 claimed

/-- ETH client `Verify*` -/
def ethVerify (c : EthCtx) (h : Nat) (π : EthProof) (claimed : String) : Bool :=
  decide (h ≤ c.latest) && π.decodes && c.consExists &&
  -- delay: latest - h (uint64) ≥ delayBlock; no wrap because h ≤ latest was checked
  decide (c.latest - h ≥ c.delayBlock) &&
  π.addrOk && π.acctProofOk && π.acctFieldsOk &&
  (π.nStorage == 1) && π.keyIsSlot && π.storProofOk && wordMatches π.word claimed

/-- BSC client `Verify*` — identical to ETH (after the repair of F-C08a) -/
def bscVerify (c : EthCtx) (h : Nat) (π : EthProof) (claimed : String) : Bool :=
  ethVerify c h π claimed

end Tibc.Verify
