/- GENERATED on every run by /verif/extract from /repo's current sources. Do not edit. -/
namespace Tibc.Facts

def ethAllowedFutureSecs : Nat := 15
def ethBombDelay : Nat := 9700000
def ethBaseFeeChangeDenominator : Nat := 8
def ethElasticityMultiplier : Nat := 2
def ethSlotIndex : Nat := 104
def bscExtraVanity : Nat := 32
def bscExtraSeal : Nat := 65
def bscAddressLength : Nat := 20
def bscGasLimitBoundDivisor : Nat := 256
def bscDiffInTurn : Nat := 2
def bscDiffNoTurn : Nat := 1
def gethGasLimitBoundDivisor : Nat := 1024
def gethMinGasLimit : Nat := 5000
def gethMaximumExtraDataSize : Nat := 32
def gethMinimumDifficulty : Nat := 131072
def gethDifficultyBoundDivisor : Nat := 2048
def hostKeyClientStorePrefix : String := "clients"
def hostKeyClientState : String := "clientState"
def hostKeyConsensusStatePrefix : String := "consensusStates"
def hostKeySequencePrefix : String := "sequences"
def hostKeyNextSeqSendPrefix : String := "nextSequenceSend"
def hostKeyPacketCommitmentPrefix : String := "commitments"
def hostKeyPacketAckPrefix : String := "acks"
def hostKeyPacketReceiptPrefix : String := "receipts"
def hostKeyCleanPacketCommitmentPrefix : String := "clean"
def hostKeyMaxAckSeqPrefix : String := "maxAckSeq"
/-- prefixes of the packet sub-store's key families -/
def hostPacketPrefixes : List String := ["acks", "clean", "commitments", "maxAckSeq", "nextSequenceSend", "receipts"]
def hostShape_packetPath : String := "fmt.Sprintf(\"%s/%s\", sourceChain, destinationChain)"
def hostShape_NextSequenceSendPath : String := "fmt.Sprintf(\"%s/%s\", KeyNextSeqSendPrefix, packetPath(sourceChain, destChain))"
def hostShape_PacketCommitmentPath : String := "fmt.Sprintf(\"%s/%d\", PacketCommitmentPrefixPath(sourceChain, destinationChain), sequence)"
def hostShape_PacketCommitmentPrefixPath : String := "fmt.Sprintf(\"%s/%s/%s\", KeyPacketCommitmentPrefix, packetPath(sourceChain, destinationChain), KeySequencePrefix)"
def hostShape_PacketAcknowledgementPath : String := "fmt.Sprintf(\"%s/%d\", PacketAcknowledgementPrefixPath(sourceChain, destinationChain), sequence)"
def hostShape_PacketAcknowledgementPrefixPath : String := "fmt.Sprintf(\"%s/%s/%s\", KeyPacketAckPrefix, packetPath(sourceChain, destinationChain), KeySequencePrefix)"
def hostShape_PacketReceiptPath : String := "fmt.Sprintf(\"%s/%d\", PacketReceiptPrefixPath(sourceChain, destinationChain), sequence)"
def hostShape_PacketReceiptPrefixPath : String := "fmt.Sprintf(\"%s/%s/%s\", KeyPacketReceiptPrefix, packetPath(sourceChain, destinationChain), KeySequencePrefix)"
def hostShape_CleanPacketCommitmentPath : String := "fmt.Sprintf(\"%s/%s\", KeyCleanPacketCommitmentPrefix, packetPath(sourceChain, destinationChain))"
def hostShape_MaxAckSeqPath : String := "fmt.Sprintf(\"%s/%s\", keyMaxAckSeqPrefix, packetPath(sourceChain, destinationChain))"
def hostShape_PacketCommitmentKey : String := "[]byte(PacketCommitmentPath(sourceChain, destinationChain, sequence))"
def hostShape_PacketAcknowledgementKey : String := "[]byte(PacketAcknowledgementPath(sourceChain, destinationChain, sequence))"
def hostShape_PacketReceiptKey : String := "[]byte(PacketReceiptPath(sourceChain, destinationChain, sequence))"
def hostShape_CleanPacketCommitmentKey : String := "[]byte(CleanPacketCommitmentPath(sourceChain, destinationChain))"
def hostShape_MaxAckSeqKey : String := "[]byte(MaxAckSeqPath(sourceChain, destinationChain))"
def hostShape_NextSequenceSendKey : String := "[]byte(NextSequenceSendPath(sourceChain, destChain))"
/-- every reference to the host clock, a random source or the process environment in the state-machine packages (file:function:what) -/
def nondetSites : List String := ["modules/tibc/light-clients/09-eth/types/algorithm.go:generateCache:time.Now",
  "modules/tibc/light-clients/09-eth/types/algorithm.go:generateCache:time.Since",
  "modules/tibc/light-clients/09-eth/types/algorithm.go:generateDataset:time.Now",
  "modules/tibc/light-clients/09-eth/types/algorithm.go:generateDataset:time.Since",
  "modules/tibc/light-clients/09-eth/types/ethash.go:memoryMapAndGenerate:math/rand.Int",
  "modules/tibc/light-clients/09-eth/types/header.go:verifyCascadingFields:io/ioutil.TempDir",
  "modules/tibc/light-clients/09-eth/types/sealer.go:Seal:crypto/rand.Int",
  "modules/tibc/light-clients/09-eth/types/sealer.go:Seal:crypto/rand.Reader",
  "modules/tibc/light-clients/09-eth/types/sealer.go:Seal:math/rand.New",
  "modules/tibc/light-clients/09-eth/types/sealer.go:Seal:math/rand.NewSource",
  "modules/tibc/light-clients/09-eth/types/sealer.go:loop:time.Now",
  "modules/tibc/light-clients/09-eth/types/sealer.go:loop:time.Since",
  "modules/tibc/light-clients/09-eth/types/sealer.go:submitWork:time.Now",
  "modules/tibc/light-clients/09-eth/types/sealer.go:submitWork:time.Since"]
def nftClassPrefix : String := "tibc-"
def nftClassPathPrefix : String := "nft"
def nftDelimiter : String := "/"
def mtClassPrefix : String := "tibc-"
def mtClassPathPrefix : String := "mt"
def mtDelimiter : String := "/"
def nftPort : String := "NFT"
def mtPort : String := "MT"

end Tibc.Facts
