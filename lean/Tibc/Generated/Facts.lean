/- GENERATED on every run by /verif/extract from /repo's current sources. Do not edit. -/
namespace Tibc.Facts

def ethAllowedFutureSecs : Nat := 15
def ethBombDelay : Nat := 9700000
def ethBaseFeeChangeDenominator : Nat := 8
def ethElasticityMultiplier : Nat := 2
def ethSlotIndex : Nat := 104
def bscExtraVanity : Nat := 32
def bscExtraSeal : Nat := 65
def bscAddressLength : Nat := 20
def bscGasLimitBoundDivisor : Nat := 256
def bscDiffInTurn : Nat := 2
def bscDiffNoTurn : Nat := 1
def gethGasLimitBoundDivisor : Nat := 1024
def gethMinGasLimit : Nat := 5000
def gethMaximumExtraDataSize : Nat := 32
def gethMinimumDifficulty : Nat := 131072
def gethDifficultyBoundDivisor : Nat := 2048
def hostKeyClientStorePrefix : String := "clients"
def hostKeyClientState : String := "clientState"
def hostKeyConsensusStatePrefix : String := "consensusStates"
def hostKeyNextSeqSendPrefix : String := "nextSequenceSend"
def hostKeyPacketCommitmentPrefix : String := "commitments"
def hostKeyPacketAckPrefix : String := "acks"
def hostKeyPacketReceiptPrefix : String := "receipts"
def hostKeyCleanPacketCommitmentPrefix : String := "clean"
def hostKeyMaxAckSeqPrefix : String := "maxAckSeq"
/-- prefixes of the packet sub-store's key families -/
def hostPacketPrefixes : List String := ["acks", "clean", "commitments", "maxAckSeq", "nextSequenceSend", "receipts"]
def nftClassPrefix : String := "tibc-"
def nftClassPathPrefix : String := "nft"
def nftDelimiter : String := "/"
def mtClassPrefix : String := "tibc-"
def mtClassPathPrefix : String := "mt"
def mtDelimiter : String := "/"
def nftPort : String := "NFT"
def mtPort : String := "MT"

end Tibc.Facts
