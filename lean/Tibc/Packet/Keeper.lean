import Tibc.Packet.Types
import Tibc.Routing.Rules
/-
  04-packet keeper (`keeper/packet.go`, `keeper/keeper.go`), function by function and in the
  same order of checks and writes as the Go code.  Every function returns the state *with the
  partial writes made before a failure* next to the result (DESIGN §2.1).
-/
namespace Tibc

/-- State of one chain as far as the core module is concerned. Application state is added by
    `Tibc.App` through the `apps` field. -/
structure Core where
  name      : Chain
  ps        : PStore
  clients   : Chain → Option Client
  rules     : Option (List (List Char))
  relayers  : Chain → List Addr
  authority : Addr
  now       : Nat                 -- block time (ns) of the block being executed
  evlog     : List Event          -- ghost: events emitted (relayers listen to these)
  sent      : List (PKey × Data)  -- ghost: packets accepted by `SendPacket` on this chain
  ackLog    : List (PKey × Data)  -- ghost: acknowledgements accepted by `WriteAcknowledgement`

/-! ### light-client verification at the ideal boundary -/

/-- value stored in a snapshot under a protocol key, as the bytes a proof would carry -/
inductive PVal
  | digest (d : Digest)
  | seq (n : Nat)
deriving DecidableEq

def Snapshot.holds (sn : Snapshot) : ProvKey → PVal → Bool
  | .commit k, .digest d => sn.commit k == some d
  | .ack k,    .digest d => sn.ack k == some d
  | .clean pr, .seq n    => decide (n ≠ 0) && sn.clean pr == n
  | _, _ => false

/-- `ClientState.VerifyPacketCommitment / Acknowledgement / CleanCommitment`, ideal view:
    succeeds iff the proof height is not above the client's latest height, a consensus state is
    recorded at that height, the bytes are the counterparty's genuine proof for exactly this key
    at exactly this height, and the recorded state holds the claimed value under that key. -/
def verify (cl : Client) (fromChain : Chain) (h : Nat) (π : Proof) (k : ProvKey) (v : PVal) : Bool :=
  decide (h ≤ cl.latest) &&
  (match cl.cons h with
   | none => false
   | some sn => (π == Proof.honest fromChain h k) && sn.holds k v)

namespace Core

def emit (s : Core) (e : Event) : Core := { s with evlog := s.evlog ++ [e] }

def pktEvent (kind : String) (p : Packet) (ack : Data := .raw "") : Event :=
  { kind := kind, key := p.key, port := p.port, relay := p.relay, data := p.data, ack := ack }

def cleanEvent (kind : String) (p : CleanPacket) : Event :=
  { kind := kind, key := ⟨p.src, p.dst, p.seq⟩, port := "", relay := p.relay, data := .raw "", ack := .raw "" }

/-! ### store accessors (`keeper.go`) -/

def setNextSend (s : Core) (pr : Pair) (n : Nat) : Core :=
  { s with ps := { s.ps with nextSend := upd s.ps.nextSend pr n } }
def setCommit (s : Core) (k : PKey) (d : Digest) : Core :=
  { s with ps := { s.ps with commit := upd s.ps.commit k (some d) } }
def delCommit (s : Core) (k : PKey) : Core :=
  { s with ps := { s.ps with commit := upd s.ps.commit k none } }
def setReceipt (s : Core) (k : PKey) : Core :=
  { s with ps := { s.ps with receipt := upd s.ps.receipt k true } }
def delReceipt (s : Core) (k : PKey) : Core :=
  { s with ps := { s.ps with receipt := upd s.ps.receipt k false } }
def setAck (s : Core) (k : PKey) (d : Digest) : Core :=
  { s with ps := { s.ps with ack := upd s.ps.ack k (some d) } }
def delAck (s : Core) (k : PKey) : Core :=
  { s with ps := { s.ps with ack := upd s.ps.ack k none } }
def setClean (s : Core) (pr : Pair) (n : Nat) : Core :=
  { s with ps := { s.ps with clean := upd s.ps.clean pr n } }
/-- `SetMaxAckSequence`: keeps the maximum -/
def setMaxAck (s : Core) (pr : Pair) (n : Nat) : Core :=
  { s with ps := { s.ps with maxAck := upd s.ps.maxAck pr (if n > s.ps.maxAck pr then n else s.ps.maxAck pr) } }

/-! ### `ValidatePacket`, `ValidateCleanPacket` -/

/-- `Packet.ValidateBasic` -/
def packetBasic (p : Packet) : Bool := p.seq != 0 && !p.data.isEmpty

def validatePacket (s : Core) (p : Packet) : Res :=
  if !packetBasic p then .err .invalidPacket
  else if p.relay != s.name && p.dst != s.name && p.src != s.name then .err .invalidPacket
  else if p.seq ≤ s.ps.clean p.pair then .err .invalidPacket
  else .ok

/-- is any commitment stored for a sequence in `[from, from+fuel)` -/
def anyCommit (s : Core) (src dst : Chain) (start : Nat) : Nat → Bool
  | 0 => false
  | fuel + 1 => (s.ps.commit ⟨src, dst, start⟩).isSome || anyCommit s src dst (start + 1) fuel

def validateClean (s : Core) (p : CleanPacket) : Res :=
  let cur := s.ps.clean p.pair
  let mx := s.ps.maxAck p.pair
  if p.seq ≤ cur || p.seq > mx then .err .invalidClean
  -- for seq := cur; seq <= p.seq; seq++
  else if anyCommit s p.src p.dst cur (p.seq + 1 - cur) then .err .invalidClean
  else .ok

/-- `cleanAcknowledgementBySeq`: deletes acks for `clean+1 ..= n` (reads the *current* clean point) -/
def cleanAcksFrom (s : Core) (src dst : Chain) (start : Nat) : Nat → Core
  | 0 => s
  | fuel + 1 =>
    let s' := if (s.ps.ack ⟨src, dst, start⟩).isSome then s.delAck ⟨src, dst, start⟩ else s
    cleanAcksFrom s' src dst (start + 1) fuel

def cleanAcks (s : Core) (src dst : Chain) (n : Nat) : Core :=
  let cur := s.ps.clean ⟨src, dst⟩
  cleanAcksFrom s src dst (cur + 1) (n - cur)

def cleanReceiptsFrom (s : Core) (src dst : Chain) (start : Nat) : Nat → Core
  | 0 => s
  | fuel + 1 =>
    let s' := if s.ps.receipt ⟨src, dst, start⟩ then s.delReceipt ⟨src, dst, start⟩ else s
    cleanReceiptsFrom s' src dst (start + 1) fuel

def cleanReceipts (s : Core) (src dst : Chain) (n : Nat) : Core :=
  let cur := s.ps.clean ⟨src, dst⟩
  cleanReceiptsFrom s src dst (cur + 1) (n - cur)

def authenticate (s : Core) (src dst : Chain) (port : String) : Bool :=
  Routing.authenticate s.rules src.toList dst.toList port.toList

section
variable (H : Data → Digest)

/-! ### `SendPacket` -/

/-- the chain whose client must exist for a send: the relay chain if one is named -/
def sendTarget (p : Packet) : Chain := if p.relay != "" then p.relay else p.dst

def sendPacket (s : Core) (p : Packet) : Core × Res :=
  if !packetBasic p then (s, .err .invalidPacket)
  else if p.src != s.name then (s, .err .invalidPacket)
  else
    match s.clients (sendTarget p) with
    | none => (s, .err .clientNotFound)
    | some _ =>
      let next := s.ps.nextSend p.pair
      if p.seq != next then (s, .err .invalidPacket)
      else
        let s := s.setNextSend p.pair (next + 1)
        let s := s.setCommit p.key (H p.data)
        let s := { s with sent := s.sent ++ [(p.key, p.data)] }
        (s.emit (pktEvent "send_packet" p), .ok)

/-! ### `RecvPacket` -/

/-- the chain a received packet must be proven from -/
def recvProver (s : Core) (p : Packet) : Chain :=
  if p.dst == s.name && p.relay != "" then p.relay else p.src

/-- everything `RecvPacket` does after the commitment proof has been verified -/
def recvWrites (s : Core) (p : Packet) : Core × Res :=
  let s := s.setReceipt p.key
  let s := s.emit (pktEvent "recv_packet" p)
  if p.relay == s.name then
    if !authenticate s p.src p.dst p.port then (s, .err .unauthorized)
    else match s.clients p.dst with
      | none => (s, .err .unauthorized)     -- unknown destination: answered with an error ack too
      | some _ =>
        let s := s.setCommit p.key (H p.data)
        (s.emit (pktEvent "send_packet" p), .ok)
  else (s, .ok)

def recvPacket (s : Core) (p : Packet) (π : Proof) (h : Nat) : Core × Res :=
  match validatePacket s p with
  | .err e => (s, .err e)
  | .ok =>
    if s.ps.receipt p.key then (s, .err .invalidPacket)
    else
      match s.clients (recvProver s p) with
      | none => (s, .err .clientNotFound)
      | some cl =>
        if !cl.active s.now then (s, .err .clientNotActive)
        else if !verify cl (recvProver s p) h π (.commit p.key) (.digest (H p.data)) then (s, .err .verify)
        else recvWrites H s p

/-! ### `WriteAcknowledgement` -/

/-- the chain whose client must exist for an acknowledgement to be written -/
def writeAckTarget (s : Core) (p : Packet) : Chain :=
  if p.relay != "" && p.dst == s.name then p.relay else p.src

def writeAck (s : Core) (p : Packet) (ack : Data) : Core × Res :=
  if ack.isEmpty then (s, .err .invalidAck)
  else if (s.ps.ack p.key).isSome then (s, .err .ackExists)
  else
    match s.clients (writeAckTarget s p) with
    | none => (s, .err .clientNotFound)
    | some _ =>
      let s := s.setAck p.key (H ack)
      let s := s.setMaxAck p.pair p.seq
      let s := { s with ackLog := s.ackLog ++ [(p.key, ack)] }
      (s.emit (pktEvent "write_acknowledgement" p ack), .ok)

/-! ### `AcknowledgePacket` -/

/-- the chain an acknowledgement must be proven from -/
def ackProver (s : Core) (p : Packet) : Chain :=
  if p.src == s.name && p.relay != "" then p.relay else p.dst

/-- everything `AcknowledgePacket` does after the acknowledgement proof has been verified -/
def ackWrites (s : Core) (p : Packet) (ack : Data) : Core × Res :=
  let s := s.delCommit p.key
  let s := s.setMaxAck p.pair p.seq
  let s := s.emit (pktEvent "acknowledge_packet" p ack)
  if p.relay == s.name then
    match s.clients p.src with
    | none => (s, .err .clientNotFound)
    | some _ =>
      let s := s.setAck p.key (H ack)
      (s.emit (pktEvent "write_acknowledgement" p ack), .ok)
  else (s, .ok)

def acknowledgePacket (s : Core) (p : Packet) (ack : Data) (π : Proof) (h : Nat) : Core × Res :=
  match validatePacket s p with
  | .err e => (s, .err e)
  | .ok =>
    if s.ps.commit p.key != some (H p.data) then (s, .err .invalidPacket)
    else
      match s.clients (ackProver s p) with
      | none => (s, .err .clientNotFound)
      | some cl =>
        if !cl.active s.now then (s, .err .clientNotActive)
        else if !verify cl (ackProver s p) h π (.ack p.key) (.digest (H ack)) then (s, .err .verify)
        else ackWrites H s p ack

end

/-! ### `CleanPacket` (on the source; the source field of the message is ignored) -/

def cleanTarget (cp : CleanPacket) : Chain := if cp.relay != "" then cp.relay else cp.dst

def cleanPacket (s : Core) (cp : CleanPacket) : Core × Res :=
  if cp.seq == 0 then (s, .err .invalidPacket)
  else
    let cp' : CleanPacket := { cp with src := s.name }
    match validateClean s cp' with
    | .err e => (s, .err e)
    | .ok =>
      match s.clients (cleanTarget cp) with
      | none => (s, .err .clientNotFound)
      | some _ =>
        let s := s.setClean cp'.pair cp.seq
        let s := cleanAcks s cp'.src cp'.dst cp.seq
        let s := cleanReceipts s cp'.src cp'.dst cp.seq
        (s.emit (cleanEvent "send_clean_packet" cp'), .ok)

/-! ### `RecvCleanPacket` -/

def cleanProver (s : Core) (cp : CleanPacket) : Chain :=
  if cp.dst == s.name && cp.relay != "" then cp.relay else cp.src

def recvCleanWrites (s : Core) (cp : CleanPacket) : Core × Res :=
  let s := cleanAcks s cp.src cp.dst cp.seq
  let s := cleanReceipts s cp.src cp.dst cp.seq
  let s := s.setClean cp.pair cp.seq
  let s := s.emit (cleanEvent "recv_clean_packet" cp)
  if cp.relay == s.name then
    match s.clients cp.dst with
    | none => (s, .err .clientNotFound)
    | some _ => (s.emit (cleanEvent "send_clean_packet" cp), .ok)
  else (s, .ok)

def recvCleanPacket (s : Core) (cp : CleanPacket) (π : Proof) (h : Nat) : Core × Res :=
  match validateClean s cp with
  | .err e => (s, .err e)
  | .ok =>
    match s.clients (cleanProver s cp) with
    | none => (s, .err .clientNotFound)
    | some cl =>
      if !cl.active s.now then (s, .err .clientNotActive)
      else if !verify cl (cleanProver s cp) h π (.clean cp.pair) (.seq cp.seq) then (s, .err .verify)
      else recvCleanWrites s cp

end Core
end Tibc
