import Tibc.Base.Core
/-
  Types of the packet layer (04-packet), the ideal client view (02-client + light client
  verification boundary, DESIGN §2.1) and the per-chain state.
-/
namespace Tibc

/-- `types.Packet` -/
structure Packet where
  seq   : Nat
  src   : Chain
  dst   : Chain
  relay : Chain      -- "" = none
  port  : String
  data  : Data       -- `.raw ""` = empty
deriving DecidableEq, Repr

def Packet.key (p : Packet) : PKey := ⟨p.src, p.dst, p.seq⟩
def Packet.pair (p : Packet) : Pair := ⟨p.src, p.dst⟩

/-- `types.CleanPacket` -/
structure CleanPacket where
  seq   : Nat
  src   : Chain
  dst   : Chain
  relay : Chain
deriving DecidableEq, Repr

def CleanPacket.pair (p : CleanPacket) : Pair := ⟨p.src, p.dst⟩

/-- The provable part of a chain's packet store, as a light client sees it at one height. -/
structure Snapshot where
  commit : PKey → Option Digest
  ack    : PKey → Option Digest
  clean  : Pair → Nat          -- 0 = key absent (a stored clean point is always ≥ 1)

/-- Which protocol key a proof speaks about. -/
inductive ProvKey
  | commit (k : PKey)
  | ack    (k : PKey)
  | clean  (p : Pair)
  | other  (label : String)
deriving DecidableEq, Repr

/-- Descriptor of the proof bytes a relayer submitted. `honest q h k` = the genuine
    (existence or absence) proof chain `q` produces at height `h` for key `k`;
    `garbage` = bytes that are no such proof (truncated, re-ordered, bit-flipped, foreign);
    `empty` = zero bytes. -/
inductive Proof
  | empty
  | garbage
  | honest (q : Chain) (h : Nat) (k : ProvKey)
deriving DecidableEq, Repr

/-- Ideal view of a light client stored under a chain name (DESIGN §2.1 "ideal
    verification boundary"): per height, the counterparty state whose root it recorded. -/
structure Client where
  latest   : Nat
  cons     : Nat → Option Snapshot
  /-- time (ns) of the consensus state at a height -/
  consTime : Nat → Nat
  /-- trusting period (ns) -/
  period   : Nat
  /-- client type tag ("007-tendermint", "008-bsc", "009-eth") -/
  ctype    : String

/-- `Status(ctx) = Active` for the Tendermint client: the latest consensus state exists and
    `consTime latest + period > now`. -/
def Client.active (cl : Client) (now : Nat) : Bool :=
  (cl.cons cl.latest).isSome && decide (cl.consTime cl.latest + cl.period > now)

/-- The packet sub-store of the `tibc` KV store, read through the keeper's getters. -/
structure PStore where
  nextSend : Pair → Nat            -- getter default 1
  commit   : PKey → Option Digest
  receipt  : PKey → Bool
  ack      : PKey → Option Digest
  clean    : Pair → Nat            -- getter default 0
  maxAck   : Pair → Nat            -- getter default 0

def PStore.empty : PStore :=
  { nextSend := fun _ => 1, commit := fun _ => none, receipt := fun _ => false,
    ack := fun _ => none, clean := fun _ => 0, maxAck := fun _ => 0 }

def PStore.snapshot (ps : PStore) : Snapshot :=
  { commit := ps.commit, ack := ps.ack, clean := ps.clean }

/-- events relayers listen to (ghost, monotone within a successful transaction) -/
structure Event where
  kind : String      -- send_packet | recv_packet | write_acknowledgement | acknowledge_packet
                     -- | send_clean_packet | recv_clean_packet
  key  : PKey
  port : String
  relay : Chain
  data : Data
  ack  : Data
deriving DecidableEq, Repr

end Tibc
