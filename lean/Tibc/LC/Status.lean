import Tibc.LC.Tendermint
/-
  `Status` of the three client types and the gate the packet keeper applies.
  Each client keeps its own time unit and boundary convention:
    Tendermint: nanoseconds, Expired iff  latest.time + period ≤ now
    BSC / ETH : seconds,     Expired iff  latest.timestamp + period < now(seconds)
-/
namespace Tibc.LCStatus

inductive St | active | expired | unknown
deriving DecidableEq, Repr

/-- Tendermint: `consTime` (ns) of the latest consensus state if it exists -/
def tm (consTime : Option Nat) (periodNs nowNs : Nat) : St :=
  match consTime with
  | none => .unknown
  | some t => if t + periodNs ≤ nowNs then .expired else .active

/-- BSC and ETH: `timestamp` (s) of the latest consensus state; block time in whole seconds -/
def eth (timestamp : Option Nat) (periodS nowNs : Nat) : St :=
  match timestamp with
  | none => .unknown
  | some t => if t + periodS < nowNs / 1000000000 then .expired else .active

end Tibc.LCStatus
