import Tibc.Base.Core
/-
  ETH (proof-of-work, London rules) light client: `CheckHeaderAndUpdateState` of 09-eth
  (header.go: ValidateBasic / verifyHeader, verify_header.go: EIP-1559 and difficulty
   calculators, update.go: pruning, update, RestrictChain, store.go: header index, root index).

  Abstractions: header hashes and state roots are labels (keccak / RLP collision-free), the
  ethash seal is one bit.  Integer arithmetic (base fee, difficulty bomb, gas bounds) is exact.
-/
namespace Tibc.ETH

structure Hdr where
  number     : Nat
  hash       : String
  parent     : String
  time       : Nat
  root       : String
  gasLimit   : Nat
  gasUsed    : Nat
  baseFee    : Nat
  difficulty : Nat
  uncles     : Bool      -- UncleHash ≠ EmptyUncleHash (enters the child's difficulty)
  extraLen   : Nat
  wellFormed : Bool      -- Difficulty / BaseFee strings parse as decimal numbers
  sealOk     : Bool      -- ethash.VerifySeal
deriving Repr, DecidableEq

structure Cons where
  time   : Nat
  number : Nat
  root   : String
deriving Repr, DecidableEq

def consOf (h : Hdr) : Cons := ⟨h.time, h.number, h.root⟩

abbrev Key := String × Nat      -- (hash or root, height)

structure Client where
  latest   : Hdr
  idx      : Key → Option Hdr       -- ethHeaderIndex/<hash><height>
  rootMain : Key → Option Key       -- ethRootMain/<root><height> ↦ header index key
  cons     : Nat → Option Cons      -- consensusStates/<height>
  heights  : List Nat               -- heights holding a consensus state
  period   : Nat                    -- TrustingPeriod (seconds)

/-! ### calculators (verify_header.go) -/

/-- `CalcBaseFee(parent)` -/
def calcBaseFee (p : Hdr) : Nat :=
  let target := p.gasLimit / 2
  if p.gasUsed == target then p.baseFee
  else if p.gasUsed > target then
    let delta := p.baseFee * (p.gasUsed - target) / target / 8
    p.baseFee + max delta 1
  else
    let delta := p.baseFee * (target - p.gasUsed) / target / 8
    p.baseFee - delta          -- max(baseFee - delta, 0): truncated subtraction

def bombDelayFromParent : Nat := 9700000 - 1

/-- `makeDifficultyCalculator(9700000)(time, parent)` -/
def calcDifficulty (time : Nat) (p : Hdr) : Nat :=
  let x0 : Int := ((time : Int) - (p.time : Int)) / 9
  let x1 : Int := (if p.uncles then 2 else 1) - x0
  let x2 : Int := if x1 < -99 then -99 else x1
  let y : Int := (p.difficulty / 2048 : Nat)
  let x3 : Int := (p.difficulty : Int) + y * x2
  let x4 : Int := if x3 < 131072 then 131072 else x3
  let fake : Nat := if p.number ≥ bombDelayFromParent then p.number - bombDelayFromParent else 0
  let period := fake / 100000
  let bomb : Nat := if period > 1 then 2 ^ (period - 2) else 0
  (x4 + (bomb : Int)).toNat

def absDiff (a b : Nat) : Nat := if a ≥ b then a - b else b - a

/-- `VerifyGaslimit` -/
def gasLimitOk (p h : Hdr) : Bool :=
  decide (absDiff p.gasLimit h.gasLimit < p.gasLimit / 1024) && decide (h.gasLimit ≥ 5000)

/-! ### acceptance (header.go) -/

def validateBasic (h : Hdr) : Bool :=
  decide (h.extraLen ≤ 32) && decide (h.gasLimit ≤ 2^63 - 1) && decide (h.gasUsed ≤ h.gasLimit) &&
  h.wellFormed && (h.number == 0 || h.difficulty != 0)

def parentOf (c : Client) (h : Hdr) : Option Hdr :=
  if h.number == 0 then none else c.idx (h.parent, h.number - 1)

/-- `checkValidity`: ValidateBasic + verifyHeader at block time `now` (seconds) -/
def accepts (c : Client) (h : Hdr) (now : Nat) : Bool :=
  validateBasic h &&
  (c.idx (h.hash, h.number)).isNone &&
  (match parentOf c h with
   | none => false
   | some p =>
     decide (h.time ≤ now + 15) && decide (h.time > p.time) &&
     gasLimitOk p h && (h.baseFee == calcBaseFee p) &&
     (h.difficulty == calcDifficulty h.time p) && h.sealOk)

/-! ### pruning, index, main-chain rewrite (update.go) -/

/-- a consensus-state key whose 16 big-endian height bytes contain '/' is invisible to
    `IterateConsensusStateAscending` (it splits the key on "/") -/
def hasSlashByte : Nat → Nat → Bool
  | _, 0 => false
  | n, k + 1 => (n % 256 == 47) || hasSlashByte (n / 256) k

def visible (n : Nat) : Bool := !hasSlashByte n 8

def minOf : List Nat → Option Nat
  | [] => none
  | x :: rest => match minOf rest with
    | none => some x
    | some m => some (if x ≤ m then x else m)

def insertHeight (n : Nat) (hs : List Nat) : List Nat := if hs.contains n then hs else hs ++ [n]

/-- the earliest visible consensus state is deleted (with its header index and root index) when it
    is older than the trusting period; `none`: the deletion fails and so does the whole update -/
def prune (c : Client) (now : Nat) : Option Client :=
  match minOf (c.heights.filter visible) with
  | none => some c
  | some e =>
    match c.cons e with
    | none => none
    | some k =>
      if k.time + c.period < now then
        match c.rootMain (k.root, e) with
        | none => none
        | some key =>
          some { c with idx := upd c.idx key none
                        rootMain := upd c.rootMain (k.root, e) none
                        cons := upd c.cons e none
                        heights := c.heights.filter (fun x => x != e) }
      else some c

/-- `update`: index the header by (hash, height) and by (root, height) -/
def index (c : Client) (h : Hdr) : Client :=
  { c with idx := upd c.idx (h.hash, h.number) (some h)
           rootMain := upd c.rootMain (h.root, h.number) (some (h.hash, h.number)) }

/-- first loop of `RestrictChain`: walk the new branch down `k` blocks -/
def descend (c : Client) (new : Hdr) (acc : List Hdr) : Nat → Option (Hdr × List Hdr)
  | 0 => some (new, acc)
  | k + 1 =>
    match parentOf c new with
    | none => none
    | some p => descend c p (new :: acc) k

/-- second loop: walk both branches down until the parents coincide -/
def meet (c : Client) (cur new : Hdr) (acc : List Hdr) : Nat → Option (Hdr × List Hdr)
  | 0 => if cur.parent == new.parent then some (new, acc) else none
  | f + 1 =>
    if cur.parent == new.parent then some (new, acc) else
    match parentOf c new, parentOf c cur with
    | some pn, some pc => meet c pc pn (new :: acc) f
    | _, _ => none

/-- third loop: rewrite the consensus states of the new branch, bottom up -/
def rewrite (c : Client) : List Hdr → Nat → Option Client
  | [], _ => some c
  | h :: rest, height =>
    match c.idx (h.hash, height) with
    | none => none
    | some hd =>
      rewrite { c with cons := upd c.cons height (some (consOf hd)), heights := insertHeight height c.heights } rest (height + 1)

/-- first step of `RestrictChain`: when the old latest header is higher than the new one, the
    main-chain header at the new one's height, found through the consensus state's root -/
def startOf (c : Client) (old new : Hdr) : Option Hdr :=
  if old.number > new.number then
    match c.cons new.number with
    | none => none
    | some k =>
      match c.rootMain (k.root, new.number) with
      | none => none
      | some key => c.idx key
  else some old

/-- `RestrictChain(new)` with `old` the latest header before this update -/
def restrict (c : Client) (old new : Hdr) : Option Client :=
  match startOf c old new with
  | none => none
  | some cur =>
    match descend c new [] (new.number - cur.number) with
    | none => none
    | some (n1, acc1) =>
      match meet c cur n1 acc1 n1.number with
      | none => none
      | some (n2, acc2) => rewrite c (n2 :: acc2) n2.number

/-- `CheckHeaderAndUpdateState` + the keeper's writes (client Active) -/
def checkHeaderAndUpdate (c : Client) (h : Hdr) (now : Nat) : Option Client :=
  if (c.cons c.latest.number).isNone then none
  else if !accepts c h now then none
  else
    match prune c now with
    | none => none
    | some c1 =>
      let c2 := index c1 h
      let c3 := if c.latest.hash == h.parent then some c2 else restrict c2 c.latest h
      match c3 with
      | none => none
      | some c3 =>
        some { c3 with latest := h
                       cons := upd c3.cons h.number (some (consOf h))
                       heights := insertHeight h.number c3.heights }

/-- `ClientState.Status` = Active -/
def active (c : Client) (now : Nat) : Bool :=
  match c.cons c.latest.number with
  | none => false
  | some k => decide (k.time + c.period ≥ now)

/-- `ClientKeeper.UpdateClient` with transaction semantics -/
def deliverUpdate (c : Client) (h : Hdr) (now : Nat) : Option Client :=
  if active c now then checkHeaderAndUpdate c h now else none

end Tibc.ETH
