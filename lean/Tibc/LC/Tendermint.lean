import Tibc.Base.Core
/-
  07-tendermint light client: `Status`, `CheckHeaderAndUpdateState` (`update.go`) with the
  decision logic of cometbft v0.38.12 `light.Verify` / `VerifyAdjacent` / `VerifyNonAdjacent` /
  `verifyNewHeaderAndVals` / `HeaderExpired` / `VerifyCommitLight` / `VerifyCommitLightTrusting`
  transcribed in the same order, and `Keeper.UpdateClient` on top.

  Abstract: hashes of validator sets (`Hv`), signature validity (a bit per commit entry), and the
  purely structural validations of the protobuf / cometbft types (one flag `basicOk`).
  Times are nanoseconds, voting powers are int64 values kept as `Nat` with the explicit overflow
  check cometbft performs.
-/
namespace Tibc.TM

/-- (revision number, revision height) -/
structure Height where
  rev : Nat
  h   : Nat
deriving DecidableEq, Repr

/-- `Height.LTE` / `GT`: by revision, then height -/
def Height.lt (a b : Height) : Bool := a.rev < b.rev || (a.rev == b.rev && a.h < b.h)
def Height.le (a b : Height) : Bool := a.lt b || a == b

structure Val where
  addr  : String
  power : Nat
deriving DecidableEq, Repr

inductive Flag | absent | commit | nil
deriving DecidableEq, Repr

/-- one `CommitSig`; `sigOk` = the signature verifies under the key of the validator `addr`
    for this block's vote -/
structure CSig where
  flag  : Flag
  addr  : String
  sigOk : Bool
deriving DecidableEq, Repr

/-- stored `ConsensusState` -/
structure Cons where
  time     : Nat
  root     : String
  nextVals : Digest     -- NextValidatorsHash
deriving DecidableEq, Repr

structure Header where
  height      : Height          -- revision taken from the header's chain id
  time        : Nat
  appHash     : String
  valsHash    : Digest          -- Header.ValidatorsHash
  nextValsHash : Digest
  vals        : List Val        -- the ValidatorSet shipped with the header
  commit      : List CSig       -- Commit.Signatures, in order
  trustedHeight : Height
  trustedVals : List Val
  /-- structural validations: protobuf conversions, `SignedHeader.ValidateBasic(chainID)`
      (chain id, commit height / block id / hash linkage), `CommitSig.ValidateBasic` -/
  basicOk     : Bool
deriving Repr

structure Client where
  trustNum  : Nat
  trustDen  : Nat
  period    : Nat              -- TrustingPeriod (ns)
  drift     : Nat              -- MaxClockDrift (ns)
  latest    : Height
  cons      : Height → Option Cons
  /-- consensus-state heights in ascending order (the iteration keys) -/
  heights   : List Height
  processed : Height → Option Nat     -- processed time metadata

inductive Status | active | expired | unknown
deriving DecidableEq, Repr

/-- `ClientState.IsExpired(latestTimestamp, now)` : `!(latest + period).After(now)` -/
def isExpired (period t now : Nat) : Bool := !(decide (t + period > now))

/-- `ClientState.Status` -/
def status (cl : Client) (now : Nat) : Status :=
  match cl.cons cl.latest with
  | none => .unknown
  | some c => if isExpired cl.period c.time now then .expired else .active

def totalPower (vs : List Val) : Nat := (vs.map (·.power)).foldl (· + ·) 0

def MaxInt64 : Nat := 2^63 - 1

/-- `verifyCommitSingle/Batch` with `lookUpByIndex = true`, `countAllSignatures = false`:
    walk the commit entries by index, skip every entry whose flag is not `commit`, require a valid
    signature, add the validator's power, succeed as soon as the tally exceeds `needed`. -/
def scanByIndex (needed : Nat) : List Val → List CSig → Nat → Bool
  | v :: vs, s :: ss, tally =>
    if s.flag != .commit then scanByIndex needed vs ss tally
    else if !s.sigOk then false
    else if tally + v.power > needed then true
    else scanByIndex needed vs ss (tally + v.power)
  | _, _, _ => false

/-- `VerifyCommitLight`: `|vals| = |commit|` (and the structural checks), more than 2/3 -/
def verifyCommitLight (vals : List Val) (commit : List CSig) : Bool :=
  vals.length == commit.length && scanByIndex (totalPower vals * 2 / 3) vals commit 0

def lookup (vs : List Val) (a : String) : Option Val := vs.find? (fun v => v.addr == a)

/-- `verifyCommit…` with `lookUpByIndex = false`: validators are looked up by address in the
    trusted set, unknown addresses are skipped, a second vote of the same validator is an error -/
def scanByAddr (needed : Nat) (trusted : List Val) : List CSig → List String → Nat → Bool
  | s :: ss, seen, tally =>
    if s.flag != .commit then scanByAddr needed trusted ss seen tally
    else match lookup trusted s.addr with
      | none => scanByAddr needed trusted ss seen tally
      | some v =>
        if seen.contains s.addr then false
        else if !s.sigOk then false
        else if tally + v.power > needed then true
        else scanByAddr needed trusted ss (s.addr :: seen) (tally + v.power)
  | [], _, _ => false

/-- `VerifyCommitLightTrusting` -/
def verifyCommitLightTrusting (trusted : List Val) (commit : List CSig) (num den : Nat) : Bool :=
  if den == 0 then false
  else if totalPower trusted * num > MaxInt64 then false      -- safeMul overflow
  else scanByAddr (totalPower trusted * num / den) trusted commit [] 0

section
variable (Hv : List Val → Digest)

/-- `verifyNewHeaderAndVals` -/
def verifyNewHeaderAndVals (hdr : Header) (tHeight tTime now drift : Nat) : Bool :=
  hdr.basicOk && decide (hdr.height.h > tHeight) && decide (hdr.time > tTime) &&
  decide (hdr.time < now + drift) && (hdr.valsHash == Hv hdr.vals)

/-- `light.Verify` -/
def lightVerify (cl : Client) (tc : Cons) (hdr : Header) (now : Nat) : Bool :=
  if hdr.height.h == hdr.trustedHeight.h + 1 then
    -- VerifyAdjacent
    !isExpired cl.period tc.time now &&
    verifyNewHeaderAndVals Hv hdr hdr.trustedHeight.h tc.time now cl.drift &&
    (hdr.valsHash == tc.nextVals) &&
    verifyCommitLight hdr.vals hdr.commit
  else
    -- VerifyNonAdjacent
    !isExpired cl.period tc.time now &&
    verifyNewHeaderAndVals Hv hdr hdr.trustedHeight.h tc.time now cl.drift &&
    verifyCommitLightTrusting hdr.trustedVals hdr.commit cl.trustNum cl.trustDen &&
    verifyCommitLight hdr.vals hdr.commit

/-- `checkValidity` -/
def checkValidity (cl : Client) (tc : Cons) (hdr : Header) (now : Nat) : Bool :=
  (Hv hdr.trustedVals == tc.nextVals) &&                 -- checkTrustedHeader
  (hdr.height.rev == hdr.trustedHeight.rev) &&
  hdr.basicOk &&
  !(hdr.height.le hdr.trustedHeight) &&
  lightVerify Hv cl tc hdr now

/-- insert a height into the ascending list of iteration keys -/
def insertHeight (x : Height) : List Height → List Height
  | [] => [x]
  | y :: ys => if x == y then y :: ys else if x.lt y then x :: y :: ys else y :: insertHeight x ys

/-- `CheckHeaderAndUpdateState`; `none` = rejected -/
def checkHeaderAndUpdate (cl : Client) (hdr : Header) (now : Nat) : Option Client :=
  match cl.cons hdr.trustedHeight with
  | none => none
  | some tc =>
    if !checkValidity Hv cl tc hdr now then none
    else
      -- prune the earliest consensus state if it has expired
      let cl1 : Client :=
        match cl.heights with
        | [] => cl
        | e :: rest =>
          match cl.cons e with
          | none => cl        -- (unreachable: iteration keys point at stored states)
          | some ec =>
            if isExpired cl.period ec.time now then
              { cl with cons := upd cl.cons e none, heights := rest, processed := upd cl.processed e none }
            else cl
      some { cl1 with
        latest := if cl1.latest.lt hdr.height then hdr.height else cl1.latest,
        cons := upd cl1.cons hdr.height (some ⟨hdr.time, hdr.appHash, hdr.nextValsHash⟩),
        heights := insertHeight hdr.height cl1.heights,
        processed := upd cl1.processed hdr.height (some now) }

inductive UpdErr | notActive | invalid
deriving DecidableEq, Repr

/-- `Keeper.UpdateClient` for a Tendermint client -/
def updateClient (cl : Client) (hdr : Header) (now : Nat) : Except UpdErr Client :=
  if status cl now != .active then .error .notActive
  else match checkHeaderAndUpdate Hv cl hdr now with
    | none => .error .invalid
    | some cl' => .ok cl'

/-- `Header.ValidateBasic` (run by BaseApp before the handler): structural validity, trusted
    height not above the header height, the shipped validator set hashes to the header's
    `ValidatorsHash` -/
def headerBasic (hdr : Header) : Bool :=
  hdr.basicOk && !(hdr.height.lt hdr.trustedHeight) && (hdr.valsHash == Hv hdr.vals)

/-- `MsgUpdateClient` as delivered: stateless validation, then the keeper -/
def deliverUpdate (cl : Client) (hdr : Header) (now : Nat) : Except UpdErr Client :=
  if !headerBasic Hv hdr then .error .invalid else updateClient Hv cl hdr now

end

/-- `Keeper.UpgradeClient` for a Tendermint client (governance): the new client state replaces the
    old one and the shipped consensus state is stored at its latest height. No metadata is written
    (no processed time, no iteration key), and every older consensus state — of earlier revisions
    too — stays in the store, so headers of an earlier revision can still be submitted. -/
def upgrade (cl : Client) (trustNum trustDen period drift : Nat) (h : Height) (c : Cons) : Client :=
  { cl with trustNum := trustNum, trustDen := trustDen, period := period, drift := drift,
            latest := h, cons := upd cl.cons h (some c) }

end Tibc.TM
