import Tibc.Base.Core
/-
  BSC (Parlia) light client: `CheckHeaderAndUpdateState` of 08-bsc
  (header.go: ValidateBasic / verifyHeader / verifyCascadingFields / verifySeal,
   snapshot.go: validators / inturn, update.go: update, store.go: recent signers, pending set).

  Abstractions: header hashes are labels (`hash`, `parent`; keccak / RLP collision-free), the
  seal is the recovered signer address (`none`: recovery fails), addresses are natural numbers
  ordered like the 20-byte addresses they stand for.
-/
namespace Tibc.BSC

abbrev Addr := Nat

structure Hdr where
  number     : Nat
  parent     : String        -- ParentHash (label)
  hash       : String        -- Hash() of this header (label)
  coinbase   : Addr
  signer     : Option Addr   -- ecrecover over the seal hash
  difficulty : Nat
  gasLimit   : Nat
  gasUsed    : Nat
  time       : Nat
  root       : String
  extraVals  : List Addr     -- whole addresses between vanity and seal
  extraRem   : Nat           -- stray bytes there ((len(extra) - 97) % 20)
  vanityOk   : Bool          -- len(extra) ≥ 32
  sealOk     : Bool          -- len(extra) ≥ 32 + 65
  mixZero    : Bool
  uncleOk    : Bool
deriving Repr, DecidableEq

structure Cons where
  time   : Nat
  number : Nat
  root   : String
deriving Repr, DecidableEq

structure Client where
  epoch      : Nat
  latest     : Hdr
  validators : List Addr            -- ClientState.Validators, as stored
  recents    : List (Nat × Addr)    -- store: recentSingers/<height> ↦ validator
  pending    : List Addr            -- store: pendingValidators
  cons       : Nat → Option Cons

def minGasLimit : Nat := 5000
def gasLimitBoundDivisor : Nat := 256
def maxGasLimit : Nat := 2^63 - 1

/-- insertion into an ascending duplicate-free list -/
def insertAsc (a : Addr) : List Addr → List Addr
  | [] => [a]
  | b :: rest => if a < b then a :: b :: rest else if a = b then b :: rest else b :: insertAsc a rest

/-- `snapshot.validators()`: the validator *set*, ascending -/
def vset (vals : List Addr) : List Addr := vals.foldr insertAsc []

def validateBasic (h : Hdr) : Bool :=
  h.vanityOk && h.sealOk && h.mixZero && h.uncleOk && (h.number == 0 || h.difficulty != 0)

def signersBytes (h : Hdr) : Nat := 20 * h.extraVals.length + h.extraRem

/-- epoch extra-data rules of `verifyHeader` -/
def extraOk (c : Client) (h : Hdr) : Bool :=
  if h.number % c.epoch == 0 then h.extraRem == 0 else signersBytes h == 0

def absDiff (a b : Nat) : Nat := if a ≥ b then a - b else b - a

/-- parent link and gas rules of `verifyCascadingFields` -/
def cascadingOk (c : Client) (h : Hdr) : Bool :=
  (c.latest.number + 1 == h.number) && (c.latest.hash == h.parent) &&
  decide (h.gasLimit ≤ maxGasLimit) && decide (h.gasUsed ≤ h.gasLimit) &&
  decide (absDiff c.latest.gasLimit h.gasLimit < c.latest.gasLimit / gasLimitBoundDivisor) &&
  decide (h.gasLimit ≥ minGasLimit)

/-- the signer limit of the current set -/
def limit (c : Client) : Nat := (vset c.validators).length / 2 + 1

/-- `number < limit || seen > number - limit`: the entry lies among the preceding `limit - 1` blocks -/
def recentlySigned (c : Client) (number : Nat) (s : Addr) : Bool :=
  c.recents.any (fun (e : Nat × Addr) => e.2 == s && (decide (number < limit c) || decide (e.1 > number - limit c)))

/-- `snap.inturn(signer)` for the block after the client's latest header -/
def inturn (c : Client) (s : Addr) : Bool :=
  let vs := vset c.validators
  vs[(c.latest.number + 1) % vs.length]? == some s

def sealOk (c : Client) (h : Hdr) : Bool :=
  match h.signer with
  | none => false
  | some s =>
    (s == h.coinbase) && (vset c.validators).contains s && !recentlySigned c h.number s &&
    (if inturn c s then h.difficulty == 2 else h.difficulty == 1)

def accepts (c : Client) (h : Hdr) : Bool :=
  validateBasic h && extraOk c h && cascadingOk c h && sealOk c h

def delRecent (rs : List (Nat × Addr)) (n : Nat) : List (Nat × Addr) := rs.filter (fun e => e.1 != n)

/-- heights pruned when the set shrinks: `number - newLimit - i`, i < oldLimit - newLimit (uint64;
    a wrapped height is not in the store) -/
def shrinkPrune (rs : List (Nat × Addr)) (number newLimit : Nat) : Nat → List (Nat × Addr)
  | 0 => rs
  | k + 1 =>
    let rs' := shrinkPrune rs number newLimit k
    if number ≥ newLimit + k then delRecent rs' (number - newLimit - k) else rs'

/-- `update` (with the `SetSigner` of `verifySeal`) -/
def update (c : Client) (h : Hdr) (s : Addr) : Client :=
  let recents0 := delRecent c.recents h.number ++ [(h.number, s)]
  let pending1 := if h.number % c.epoch == 0 then h.extraVals else c.pending
  let switch := h.number % c.epoch == c.validators.length / 2
  let oldLimit := c.validators.length / 2 + 1
  let newLimit := (vset pending1).length / 2 + 1
  let recents1 := if switch then shrinkPrune recents0 h.number newLimit (oldLimit - newLimit) else recents0
  let validators1 := if switch then pending1 else c.validators
  let lim := validators1.length / 2 + 1
  let recents2 := if h.number ≥ lim then delRecent recents1 (h.number - lim) else recents1
  { c with
    latest := h
    validators := validators1
    recents := recents2
    pending := pending1
    cons := upd c.cons h.number (some ⟨h.time, h.number, h.root⟩) }

/-- `CheckHeaderAndUpdateState` (client Active, consensus state at the latest height present):
    the new client, or `none` (rejected: the message's writes are discarded) -/
def checkHeaderAndUpdate (c : Client) (h : Hdr) : Option Client :=
  if accepts c h then
    match h.signer with
    | some s => some (update c h s)
    | none => none
  else none

/-- follow a list of headers, skipping refused ones -/
def follow (c : Client) (hs : List Hdr) : Client :=
  hs.foldl (fun c h => (checkHeaderAndUpdate c h).getD c) c

end Tibc.BSC
