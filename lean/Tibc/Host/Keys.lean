import Tibc.Base.Core
/-
  `core/24-host/keys.go`, `parse.go`: the byte strings under which the packet keeper stores its
  entries in the TIBC sub-store, and the path parser the iterators use (genesis export).
  Paths are lists of characters; a key is the UTF-8 encoding of its path (chain names are ASCII).
-/
namespace Tibc.Host

/-- `strings.Join(parts, "/")` -/
def join : List Str → Str
  | [] => []
  | [p] => p
  | p :: q :: ps => p ++ '/' :: join (q :: ps)

/-- `strings.Split(s, "/")` -/
def splitSlash : Str → List Str
  | [] => [[]]
  | c :: cs =>
    if c = '/' then [] :: splitSlash cs
    else match splitSlash cs with
      | [] => [[c]]
      | p :: ps => (c :: p) :: ps

def digitChar (d : Nat) : Char :=
  match d with
  | 0 => '0' | 1 => '1' | 2 => '2' | 3 => '3' | 4 => '4'
  | 5 => '5' | 6 => '6' | 7 => '7' | 8 => '8' | _ => '9'

def charVal (c : Char) : Nat :=
  if c = '0' then 0 else if c = '1' then 1 else if c = '2' then 2 else if c = '3' then 3
  else if c = '4' then 4 else if c = '5' then 5 else if c = '6' then 6 else if c = '7' then 7
  else if c = '8' then 8 else 9

/-- `%d` of an unsigned integer -/
def digits (n : Nat) : Str :=
  if n < 10 then [digitChar n] else digits (n / 10) ++ [digitChar (n % 10)]
termination_by n
decreasing_by omega

/-- value of a decimal numeral -/
def val (s : Str) : Nat := s.foldl (fun a c => 10 * a + charVal c) 0

/-! ### the key builders (format strings: `Expect/Keys.lean` ties them to the source) -/

def sequencesSeg : Str := "sequences".toList
def packetPath (src dst : Str) : Str := join [src, dst]
def seqPrefixPath (pfx src dst : Str) : Str := join [pfx, packetPath src dst, sequencesSeg]
def seqPath (pfx src dst : Str) (n : Nat) : Str := join [seqPrefixPath pfx src dst, digits n]
def pairPath (pfx src dst : Str) : Str := join [pfx, packetPath src dst]

def commitPfx : Str := "commitments".toList
def ackPfx : Str := "acks".toList
def receiptPfx : Str := "receipts".toList
def cleanPfx : Str := "clean".toList
def maxAckPfx : Str := "maxAckSeq".toList
def nextSendPfx : Str := "nextSequenceSend".toList

def packetCommitmentPath (src dst : Str) (n : Nat) : Str := seqPath commitPfx src dst n
def packetAcknowledgementPath (src dst : Str) (n : Nat) : Str := seqPath ackPfx src dst n
def packetReceiptPath (src dst : Str) (n : Nat) : Str := seqPath receiptPfx src dst n
def cleanPacketCommitmentPath (src dst : Str) : Str := pairPath cleanPfx src dst
def maxAckSeqPath (src dst : Str) : Str := pairPath maxAckPfx src dst
def nextSequenceSendPath (src dst : Str) : Str := pairPath nextSendPfx src dst

/-- `ParseChannelPath`: the second and third `/`-separated segments -/
def parseChannelPath (path : Str) : Option (Str × Str) :=
  match splitSlash path with
  | _ :: a :: b :: _ => some (a, b)
  | _ => none

def isDigit (c : Char) : Bool :=
  c = '0' || c = '1' || c = '2' || c = '3' || c = '4' || c = '5' || c = '6' || c = '7' || c = '8' || c = '9'

/-- `strconv.ParseUint(s, 10, 64)` succeeds (no sign, no underscore, at least one digit, in range) -/
def parseUint (s : Str) : Option Nat :=
  if s ≠ [] ∧ s.all isDigit ∧ val s < 2 ^ 64 then some (val s) else none

/-- what `iterateHashes` (commitment / receipt / acknowledgement iterators, genesis export)
    reads a key as: segments 1 and 2 and the *last* segment as the sequence; `none` where the
    real code panics (fewer than three segments, last segment not a number) -/
def parseSeqPath (path : Str) : Option (Str × Str × Nat) :=
  match splitSlash path with
  | s0 :: a :: b :: rest =>
    match parseUint ((s0 :: a :: b :: rest).getLast (by simp)) with
    | some n => some (a, b, n)
    | none => none
  | _ => none

end Tibc.Host
